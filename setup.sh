#!/bin/bash
# Offline set-up: third-party helpers next to the repository's interpreter (idempotent).
set -e
cd "$(dirname "$0")"
if [ ! -f .deps/.ok ]; then
  rm -rf .deps
  PIP_NO_INDEX=1 /venv/bin/pip install -q --no-index --find-links /opt/veriftools/wheels \
      --target .deps icontract jsonschema scipy >/dev/null 2>&1 || \
  PIP_NO_INDEX=1 /venv/bin/pip install -q --no-index --find-links /opt/veriftools/wheels \
      --target .deps icontract jsonschema
  touch .deps/.ok
fi
mkdir -p evidence replay
echo setup-ok
