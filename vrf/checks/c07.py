"""C07 — one GN / LM step is the documented damped, weighted linear solve on the manifold.

Spies at the client boundary (solver, strategy, corrector objects the user supplies; instance
wrappers on loss/update_parameter) record what the optimiser does in one `step`; the oracle is
a finite-difference Jacobian of the stacked residuals in tangent coordinates through the user
model, the reference block-diagonal weight expansion and the documented recurrences.
"""
import numpy as np
import warnings

import torch
import pypose as pp
from torch import nn

from .. import lie, optspy, optmodels
from ..optspy import F64
from ..oracles import lie_ref as L

PID = "C07"
LEVEL = "exploration"
SHARDS = {"quick": 8, "thorough": 16}
TIMEOUT = {"quick": 1200, "thorough": 7200}
RULE = ("Random residual models (pose-log, point alignment, algebra parameter, group+Euclidean, two outputs, three parameters, "
        "frozen parameter, random LieTensor programs) x {GN, LM} x solvers x kernels/correctors x documented weight shapes x "
        "strategies, damping 1e-9..1e3, binding min/max clamps, vectorize on/off; one monitored step each. One case = one "
        "(model, data, configuration); distinct = distinct (description, seed); trivial = none.")
ASSUME = ["Jacobian oracle: central differences (h=2e-3,1e-3) + Richardson through the user model in float64; relative tolerance 1e-6 "
          "+ 0.05 x the h^2 spread (+ documented sim3 truncation for Sim3 models, kept small)",
          "corrector outputs are taken from the spy (C09 decides the correctors); kernel values from the kernel objects (C09)",
          "linear-solve quality is judged on the recorded (A, b): normal-equation residual / minimum-norm component"]

KERNELS = {"none": None, "Huber": lambda: pp.optim.kernel.Huber(0.3), "PseudoHuber": lambda: pp.optim.kernel.PseudoHuber(0.5),
           "Cauchy": lambda: pp.optim.kernel.Cauchy(0.7), "SoftLOne": lambda: pp.optim.kernel.SoftLOne(0.5)}


class _SharedSpyCorrector(optspy.SpyCorrector):
    """A single corrector serving all residuals: the i-th call of a step belongs to residual i."""

    def __init__(self, corrector, trace, nres):
        super().__init__(corrector, trace, 0)
        self.nres, self.calls = nres, 0

    def forward(self, R, J):
        self.idx = self.calls % self.nres
        self.calls += 1
        return super().forward(R, J)


def build(rng, cfg, spec, trace, fail_at=None):
    model = spec["model"]
    optref = [None]
    nres = spec["nres"]
    kern = KERNELS[cfg["kernel"]]
    kernels = None if kern is None else [kern() for _ in range(nres)] if cfg["per_res"] else kern()
    if kern is None:
        correctors = [optspy.SpyCorrector(pp.optim.optimizer.Trivial(), trace, i) for i in range(nres)]
    else:
        C = pp.optim.corrector.FastTriggs if cfg["corrector"] == "FastTriggs" else pp.optim.corrector.Triggs
        ks = kernels if isinstance(kernels, list) else [kernels] * nres
        correctors = [optspy.SpyCorrector(C(k), trace, i) for i, k in enumerate(ks)]
        if not isinstance(kernels, list) and nres > 1 and cfg.get("single_corrector"):
            # ONE corrector object (not a list) for a model with several residuals, as documented: it corrects every residual in turn
            correctors = _SharedSpyCorrector(C(kernels), trace, nres)
            cfg["_one_corrector_for_several_residuals"] = True
    S = pp.optim.solver
    base = {"PINV": S.PINV, "LSTSQ": S.LSTSQ, "Cholesky": S.Cholesky, "CG": lambda: S.CG(tol=1e-12)}[cfg["solver"]]()
    solver = optspy.SpySolver(base, trace, optref, fail_at=fail_at)
    if cfg["opt"] == "GN":
        opt = pp.optim.GN(model, solver=solver, kernel=kernels, corrector=correctors, vectorize=cfg["vectorize"])
    else:
        st = pp.optim.strategy
        tight = cfg.get("tight_bounds", False)       # bounds close enough to bind within a few trials
        hp = cfg.get("hyper", {})
        strat = {"default": lambda: None,
                 "Constant": lambda: st.Constant(damping=cfg["damping"]),
                 "Adaptive": lambda: st.Adaptive(damping=cfg["damping"], min=cfg["damping"] * (0.3 if tight else 1e-3),
                                                 max=cfg["damping"] * 5 if tight else 1e16, **hp),
                 "TrustRegion": lambda: st.TrustRegion(radius=1 / cfg["damping"], min=(0.3 / cfg["damping"]) if tight else 1e-12,
                                                       max=(5 / cfg["damping"]) if tight else 1e16, **hp)}[cfg["strategy"]]()
        if cfg["strategy"] == "default":
            # the strategy argument omitted: the documented default TrustRegion(); the spy is put around whatever LM created
            opt = pp.optim.LM(model, solver=solver, kernel=kernels, corrector=correctors,
                              reject=cfg["reject"], min=cfg["min"], max=cfg["max"], vectorize=cfg["vectorize"])
            opt.strategy = optspy.SpyStrategy(opt.strategy, trace)
        else:
            opt = pp.optim.LM(model, solver=solver, strategy=optspy.SpyStrategy(strat, trace), kernel=kernels, corrector=correctors,
                              reject=cfg["reject"], min=cfg["min"], max=cfg["max"], vectorize=cfg["vectorize"])
    optref[0] = opt
    optspy.attach(opt, trace)
    return opt


def config(rng, opt=None):
    opt = opt or ["GN", "LM"][int(rng.integers(2))]
    cfg = {"opt": opt, "kernel": list(KERNELS)[int(rng.integers(len(KERNELS)))] if rng.random() < 0.5 else "none",
           "corrector": ["FastTriggs", "Triggs"][int(rng.integers(2))], "per_res": bool(rng.integers(2)), "single_corrector": bool(rng.integers(2)), "warnings_as_errors": bool(rng.random() < 0.25),
           "vectorize": bool(rng.integers(2)), "weight": rng.random() < 0.5, "weight_at": ["init", "step", "both"][int(rng.integers(3))],
           "input_as": ["tuple", "tuple", "dict", "single"][int(rng.integers(4))]}
    if opt == "GN":
        cfg["solver"] = ["PINV", "LSTSQ"][int(rng.integers(2))]
    else:
        cfg["solver"] = ["Cholesky", "PINV", "LSTSQ", "CG"][int(rng.integers(4))]
        cfg["strategy"] = ["Constant", "Adaptive", "TrustRegion"][int(rng.integers(3))]
        cfg["damping"] = float(10.0 ** rng.uniform(-9, 3))
        cfg["reject"] = int(rng.integers(0, 17))
        cfg["tight_bounds"] = bool(rng.integers(2))
        cfg["hyper"] = {} if rng.random() < 0.4 else {"high": float(rng.uniform(0.3, 0.9)), "low": float(10.0 ** rng.uniform(-4, -1)),
                                                        "up": float(rng.uniform(1.5, 10)), "down": float(rng.uniform(0.1, 0.8))}
        clamp = int(rng.integers(3))
        cfg["min"], cfg["max"] = [(1e-6, 1e32), (float(10.0 ** rng.uniform(-1, 1)), 1e32), (1e-6, float(10.0 ** rng.uniform(-2, 0)))][clamp]
        cfg["clamp"] = ["default", "min_binds", "max_binds"][clamp]
        if cfg["clamp"] == "max_binds" and cfg["solver"] in ("Cholesky", "CG"):
            # a diagonal clamped from above makes A indefinite: only the general solvers are valid there
            cfg["solver"] = ["PINV", "LSTSQ"][int(rng.integers(2))]
    return cfg


def ref_update(kind, before, delta):
    """Expected parameter after the tangent update (longdouble reference matrices for groups)."""
    if kind == "R" or kind in lie.ALGS:
        return None
    a = L.GRP2ALG[kind]
    m = L.MANIFOLD[kind]
    d = delta.reshape(before.shape)[..., :m].reshape(-1, m).double().numpy()
    M0 = L.group_matrix(kind, before.reshape(-1, before.shape[-1]).double().numpy())
    return np.matmul(L.exp_matrix(a, d), M0)


def judge_system(ck, cfg, cor, solves, weights, regime, entry, wit, case_key, monitor="system"):
    """The recorded (A, b) of every solve equal the documented system built from the corrector outputs and the weights."""
    Rc = torch.cat([e["R_out"].reshape(-1) for e in cor])
    Jc = torch.cat([e["J_out"].reshape(-1, e["J_out"].shape[-1]) for e in cor])
    Wfull = optspy.expand_weight(weights, [e["R_in"] for e in cor]) if cfg["weight"] else None
    ck.count(monitor, regime, key=case_key)
    if cfg["opt"] == "GN":
        A_exp = Jc if Wfull is None else Wfull @ Jc
        b_exp = -Rc if Wfull is None else -(Wfull @ Rc)
        s = solves[0]
        sc = 1 + float(A_exp.abs().max())
        ck.ratio(monitor, regime, float((s["A"] - A_exp).abs().max()), 1e-11 * sc, entry, "A_is_not_WJ", wit)
        ck.ratio(monitor, regime, float((s["b"].reshape(-1) - b_exp).abs().max()), 1e-11 * (1 + float(b_exp.abs().max())), entry, "b_is_not_minus_WR", wit)
        ck.check(len(solves) == 1, monitor, regime, entry, "gn_solved_more_than_once", wit)
    else:
        JT = Jc.T if Wfull is None else Jc.T @ Wfull
        A0 = JT @ Jc
        A0 = A0.clone()
        A0.diagonal().clamp_(cfg["min"], cfg["max"])
        b_exp = -(JT @ Rc)
        Ak = A0
        for ti, s in enumerate(solves):
            lam = s["damping"]
            Ak = Ak.clone()
            Ak.diagonal().add_(Ak.diagonal() * lam)
            sc = 1 + float(Ak.abs().max())
            ck.ratio(monitor, regime, float((s["A"] - Ak).abs().max()), 1e-10 * sc, entry, "A_k_is_not_documented_recurrence",
                     lambda: dict(wit, trial=ti + 1, damping=lam, clamp=cfg.get("clamp")))
            ck.ratio(monitor, regime, float((s["b"].reshape(-1) - b_exp).abs().max()), 1e-10 * (1 + float(b_exp.abs().max())), entry,
                     "b_is_not_minus_JtWR", lambda: dict(wit, trial=ti + 1))
        if cfg.get("clamp") == "min_binds":
            ck.mark("clamp/min_binds")
        if cfg.get("clamp") == "max_binds":
            ck.mark("clamp/max_binds")


def check_step(ck, rng, spec, cfg, case_key):
    trace = optspy.Trace()
    model = spec["model"]
    data, target = tuple(spec["data"]), spec["target"]
    regime = f"{cfg['opt']}/{cfg['solver']}/{cfg.get('strategy', '-')}/{cfg['kernel']}" + ("/w" if cfg["weight"] else "")
    entry = "optim.GaussNewton.step" if cfg["opt"] == "GN" else "optim.LevenbergMarquardt.step"
    wit = {"model": spec["desc"], "config": {k: v for k, v in cfg.items()}}
    # weights in the documented shapes
    with torch.no_grad():
        r_now = optspy.residuals_at(model, [optspy.raw(p) for p in model.plist()], data)
    weights = None
    if cfg["weight"]:
        ws = [optmodels.weight_for(rng, tuple(r.shape)) for r in r_now]
        weights = [w for w, _ in ws]
        wit["weight_shapes"] = [list(w.shape) for w in weights]
        ck.mark("weight/" + ws[0][1])
        if len(weights) == 1 and rng.random() < 0.5:
            weights = weights[0]
    try:
        opt = build(rng, cfg, spec, trace)
    except Exception as e:
        ck.violation("assemble", regime, entry, "constructor_raised:" + type(e).__name__, dict(wit, error=repr(e)[:300]))
        return
    # the set of optimised parameters is the set that requires grad when step() runs: flags changed after the optimiser
    # was constructed (freeze one of several trainable parameters / unfreeze a frozen one) must be honoured
    plist_ = model.plist()
    if len(plist_) >= 2 and rng.random() < 0.35:
        frozen_ = [p_ for p_ in plist_ if not p_.requires_grad]
        train_ = [p_ for p_ in plist_ if p_.requires_grad]
        if frozen_ and rng.random() < 0.5:
            frozen_[0].requires_grad_(True)
            ck.mark("flags/unfrozen_after_construction")
            wit["flags_changed_after_construction"] = "unfroze a parameter"
        elif len(train_) >= 2:
            train_[int(rng.integers(len(train_)))].requires_grad_(False)
            ck.mark("flags/frozen_after_construction")
            wit["flags_changed_after_construction"] = "froze a parameter"
    if cfg["weight"] and cfg["weight_at"] == "init":
        opt.weight = weights
    if cfg["weight"] and cfg["weight_at"] == "both":
        # documented: the constructor's weight "is ignored when weight is given when calling step"
        decoy = [optmodels.spd(rng, tuple(w_.shape[:-2]), w_.shape[-1]) for w_ in (weights if isinstance(weights, (list, tuple)) else [weights])]
        opt.weight = decoy if isinstance(weights, (list, tuple)) else decoy[0]
        ck.mark("weight/given_at_init_and_step")
    # the documented forms of `input`: a tensor, a tuple, or a dict of keyword arguments
    step_input = data
    if cfg.get("input_as") == "dict" and len(data) >= 1:
        step_input = {f"d{i}": d_ for i, d_ in enumerate(data)}
        ck.mark("input/dict")
    elif cfg.get("input_as") == "single" and len(data) == 1:
        step_input = data[0]
        ck.mark("input/single")
    targets_list = None if target is None else (list(target) if isinstance(target, (list, tuple)) else [target])
    # ---- oracle pieces evaluated at the parameters the step is given
    Jref, r0, spread = optspy.fd_jacobian(model, data, targets_list)
    before = optspy.param_snapshot(model)
    try:
        # a quarter of the cases run with warnings turned into errors (python -W error): a step neither warns nor behaves differently
        with warnings.catch_warnings():
            if cfg.get("warnings_as_errors"):
                warnings.simplefilter("error")
                ck.mark("config/warnings-as-errors")
            ret = opt.step(step_input, target=target, weight=weights if (cfg["weight"] and cfg["weight_at"] in ("step", "both")) else None)
    except Exception as e:  # noqa
        big = [float(e_["x"].abs().max()) for e_ in trace.of("SOLVE") if "x" in e_]
        blown = any(not torch.isfinite(v_).all() for v_ in optspy.param_snapshot(model).values())
        if (big and not (max(big) < 1e3)) or (blown and big and not (max(big) < 50)):
            # an indefinite / nearly singular clamped system produced an astronomically large (or non-finite) step and the
            # model left the domain of its own operations: nothing of the property is decidable past that point
            ck.note_add("diverged_after_huge_step", 1)
            return
        import traceback
        ck.violation("assemble", regime, entry, "raised:" + type(e).__name__, dict(wit, exception=repr(e)[:300], traceback=traceback.format_exc(limit=-5)[-1200:]))
        return
    ck.count("assemble", regime, key=case_key)
    after = optspy.param_snapshot(model)
    cor = sorted(trace.of("CORRECT"), key=lambda e: e["idx"])
    solves = trace.of("SOLVE")
    order = [e["idx"] for e in trace.of("CORRECT")]
    if not ck.check(order == list(range(spec["nres"])), "assemble", regime, entry, "corrector_of_residual_i_is_not_the_i_th_configured_one",
                    dict(wit, corrector_call_order=order, residuals=spec["nres"])):
        return
    if not cor or not solves:
        ck.violation("assemble", regime, entry, "spies_not_called", dict(wit, events=[e["kind"] for e in trace.events]))
        return
    # ---- (1) residual and Jacobian handed to the corrector = true residual / tangent Jacobian
    R_in = torch.cat([e["R_in"].reshape(-1) for e in cor])
    J_in = torch.cat([e["J_in"].reshape(-1, e["J_in"].shape[-1]) for e in cor])
    ck.ratio("assemble", regime, float((R_in - r0).abs().max()), 1e-12 * (1 + float(r0.abs().max())), entry, "residual_differs_from_model", wit)
    jmax = float(Jref.abs().max())
    tolJ = 1e-6 * (1 + jmax) + 0.05 * spread + (2e-3 * (1 + jmax) if "Sim3" in spec["desc"] or "sim3" in spec["desc"] else 0.0)
    if J_in.shape != Jref.shape:
        ck.violation("assemble", regime, entry, "jacobian_shape_differs", dict(wit, got=list(J_in.shape), want=list(Jref.shape)))
        return
    ck.ratio("assemble", regime, float((J_in - Jref).abs().max()), tolJ, entry, "jacobian_differs_from_finite_difference",
             lambda: dict(wit, max_abs_diff=float((J_in - Jref).abs().max()), fd_spread=spread))
    # ---- (2) the linear system handed to the solver
    judge_system(ck, cfg, cor, solves, weights, regime, entry, wit, case_key)
    # ---- (3) the solver's answer solves the recorded system
    s = solves[0]
    if not s["raised"]:
        A, b, x = s["A"].double(), s["b"].double().reshape(-1, 1), s["x"].double().reshape(-1, 1)
        nA = float(torch.linalg.matrix_norm(A, 2))
        res = float((A.T @ (A @ x - b)).norm())
        sv_ = torch.linalg.svdvals(A)
        pos_ = sv_[sv_ > sv_[0] * 1e-14] if sv_.numel() and float(sv_[0]) > 0 else sv_
        kappa = float(pos_[0] / pos_[-1]) if pos_.numel() else 1.0
        tol = max(1e-7, 256 * 2.0 ** -52 * kappa) * nA * (nA * float(x.norm()) + float(b.norm())) + 1e-300
        ck.ratio("solve", regime, res, tol, entry, "step_is_not_a_least_squares_solution", wit)
        ck.count("solve", regime, key=case_key)
        if cfg["opt"] == "GN" and cfg["solver"] == "PINV":
            sv = torch.linalg.svdvals(A)
            U, S, Vh = torch.linalg.svd(A)
            rk = int((S > S[0] * 1e-10).sum())
            gap_ok = rk == len(S) or S[rk] < S[0] * 1e-13 or True
            null = Vh[rk:] if rk < A.shape[1] else Vh[:0]
            if A.shape[1] > len(S):
                null = torch.cat([null, Vh[len(S):]]) if rk == len(S) else null
            if null.numel() and (rk == len(S) or float(S[rk]) < float(S[0]) * 1e-12):
                comp = float((null @ x).norm())
                ck.ratio("solve", regime, comp, 1e-8 * (1 + float(x.norm())), entry, "default_solver_step_is_not_minimum_norm", wit)
                ck.mark("solve/min_norm_judged")
    # ---- (4) the update: addition / retraction, frozen parameters untouched
    upd = trace.of("UPDATE")
    accepted = None
    pre_trial = before
    if cfg["opt"] == "GN":
        accepted = upd[0]["step"] if upd else None
    else:
        net = [u for u in upd]
        # the last UPDATE that is not cancelled by a following restore (-D) is the accepted one; it acts on the
        # parameters as restored after the rejected trials (equal to the given ones up to retraction round-off: C08)
        if net and (len(net) % 2 == 1):
            accepted = net[-1]["step"]
            pre_trial = net[-1]["before"]
    names = [n for n, _ in model.named_parameters()]
    kinds = dict(zip([f"p{i}" for i in range(len(model.kinds))], model.kinds))
    # between the entry of step() and the first update nothing may have touched the parameters (a corrector / kernel working in place on
    # a residual that is a parameter or a view of one would)
    if upd:
        same0 = all(torch.equal(before[n_], upd[0]["before"][n_]) for n_ in before)
        ck.check(same0, "update", regime, entry, "parameters_changed_before_the_first_update",
                 lambda: dict(wit, given={n_: before[n_].tolist() for n_ in before if before[n_].numel() <= 12},
                              at_first_update={n_: upd[0]["before"][n_].tolist() for n_ in before if before[n_].numel() <= 12}))
    if spec["desc"].startswith("alias_output"):
        ck.mark("model/residual-is-a-parameter")
    if cfg.get("_one_corrector_for_several_residuals"):
        ck.mark("corrector/one-object-for-several-residuals")
    ck.count("update", regime, key=case_key)
    train = [n for n, p in model.named_parameters() if p.requires_grad]
    for n, p in model.named_parameters():
        if not p.requires_grad:
            ck.check(torch.equal(before[n], after[n]), "update", regime, entry, "frozen_parameter_changed", dict(wit, param=n))
            ck.mark("update/frozen_seen")
    steps_seen = [float(e_["x"].abs().max()) for e_ in solves if "x" in e_ and e_["x"].numel()]
    if any(not torch.isfinite(v).all() for v in list(pre_trial.values()) + list(after.values())) or (steps_seen and not (max(steps_seen) < 1e3)):
        # an indefinite clamped system produced an astronomically large step in some trial and a group parameter overflowed
        # (scale e^sigma -> inf, restored to nan): the update clause is undecidable past that point, the system clause above was judged
        ck.note_add("update_not_judged_after_overflowing_trial", 1)
        accepted = None
        train = []
    if accepted is not None:
        sizes = [before[n].numel() for n in train]
        parts = accepted.reshape(-1).split(sizes)
        for n, d in zip(train, parts):
            kd = kinds[n]
            if kd == "R" or kd in lie.ALGS:
                want = pre_trial[n] + d.reshape(before[n].shape)
                ck.ratio("update", regime, float((after[n] - want).abs().max()), 1e-13 * (1 + float(want.abs().max())), entry,
                         "euclidean_or_algebra_parameter_not_updated_by_addition", dict(wit, param=n, kind=kd))
            else:
                Mw = ref_update(kd, pre_trial[n], d)
                Mg = L.group_matrix(kd, after[n].reshape(-1, after[n].shape[-1]).double().numpy())
                sc = float(np.abs(Mw).max())
                dmax = float(d.abs().max()) if d.numel() else 0.0     # angle / scale error of Exp grows with |delta|
                if not (dmax < 20):
                    ck.note_add("retraction_not_judged_step_too_large", 1)
                    continue
                # block tolerances of C01 (the retraction is Exp(delta) @ X): rotation/scale block at a multiple of eps,
                # translation block at sqrt(eps) relative (the accuracy C01 states for Exp's translation part)
                u_ = 2.0 ** -52
                e_rot = float(np.abs(Mg[:, :3, :3] - Mw[:, :3, :3]).max())
                e_tr = float(np.abs(Mg[:, :3, 3] - Mw[:, :3, 3]).max())
                s_rot = float(np.abs(Mw[:, :3, :3]).max())
                s_tr = float(np.abs(Mw[:, :3, 3]).max()) + dmax * max(1.0, s_rot)
                wfn = lambda: dict(wit, param=n, kind=kd, delta=d.tolist(), trials=len(solves), before=pre_trial[n].tolist(), after=after[n].tolist())
                ck.ratio("update", regime, e_rot, 256 * u_ * (1 + s_rot) * (1 + dmax), entry, "group_parameter_not_updated_by_left_retraction", wfn)
                ck.ratio("update", regime, e_tr, 8 * np.sqrt(u_) * (s_tr + 1e-300) + 256 * u_ * (1 + s_tr), entry,
                         "group_parameter_not_updated_by_left_retraction", wfn)
                ck.mark("update/group_retraction")
    elif cfg["opt"] == "LM":
        # every trial was rejected (or the solver raised): parameters as given, up to retraction round-off
        for n in train:
            ck.ratio("update", regime, float((after[n] - before[n]).abs().max()), 1e-9 * (1 + float(before[n].abs().max())), entry,
                     "parameters_changed_without_accepted_trial", dict(wit, param=n))
    if len(ck.samples) < 6:
        ck.sample({"model": spec["desc"], "config": cfg, "A_shape": list(solves[0]["A"].shape), "trials": len(solves)})
    # ---- (5) history: a second step on the same optimiser after the caller updated the weight tensors IN PLACE (and, half of the
    # time, the data): the second linear system must be built from the current weights, not from anything remembered
    finite = all(torch.isfinite(v).all() for v in after.values())
    # a first step of astronomic size (indefinite clamped system) leaves finite but absurd parameters (Sim3 scales of e^100): the model
    # is then outside the domain of its own operations and a second step decides nothing
    sane = not steps_seen or max(steps_seen) < 50
    if not sane:
        ck.note_add("second_step_not_taken_after_first_step_of_magnitude_ge_50", 1)
    if cfg["weight"] and finite and sane and rng.random() < 0.7:
        wl = weights if isinstance(weights, (list, tuple)) else [weights]
        with torch.no_grad():
            for w_ in wl:
                w_.copy_(optmodels.spd(rng, tuple(w_.shape[:-2]), w_.shape[-1]))
        start = len(trace.events)
        try:
            opt.step(step_input, target=target, weight=weights if cfg["weight_at"] in ("step", "both") else None)
        except Exception as e:  # noqa
            big = [float(e_["x"].abs().max()) for e_ in trace.events[start:] if e_["kind"] == "SOLVE" and "x" in e_]
            if not (big and not (max(big) < 1e3)):
                ck.violation("system.second_step", regime, entry, "raised:" + type(e).__name__, dict(wit, exception=repr(e)[:300]))
            return
        ev = trace.events[start:]
        cor2 = sorted([e for e in ev if e["kind"] == "CORRECT"], key=lambda e: e["idx"])
        sol2 = [e for e in ev if e["kind"] == "SOLVE"]
        if cor2 and sol2:
            judge_system(ck, cfg, cor2, sol2, weights, regime, entry, dict(wit, step="second, weights updated in place"), (case_key, 2),
                         monitor="system.second_step")
            ck.mark("system/second_step_after_inplace_weight_update")


class _Record(nn.Module):
    """Solver spy for the two dedicated monitors below: keeps (A, b) and forwards to the real solver."""

    def __init__(self, inner):
        super().__init__()
        self.inner, self.seen = inner, []

    def forward(self, A, b):
        self.seen.append((A.detach().clone(), b.detach().clone()))
        return self.inner(A, b)


class _Affine(nn.Module):
    """r(theta) = M (theta - c): a linear least-squares problem whose Jacobian is M exactly."""

    def __init__(self, M, c, theta0):
        super().__init__()
        self.M, self.c = M, c
        self.theta = nn.Parameter(theta0.clone())

    def forward(self, input=None):
        return self.M @ (self.theta - self.c)


def ill_conditioned_gn(ck, rng):
    """GN with its default solver on float64 problems with a weakly observable direction (cond 1e5..1e8): the step is the least-squares
    step to the forward accuracy a float64 solve has (kappa u), i.e. the weak direction is solved too, not truncated away."""
    u = 2.0 ** -52
    for case in range(6):
        n = int(rng.integers(2, 6))
        m = n + int(rng.integers(0, 3))
        kappa = float(10.0 ** rng.uniform(5, 8))
        Uq, _ = np.linalg.qr(rng.standard_normal((m, n)))
        Vq, _ = np.linalg.qr(rng.standard_normal((n, n)))
        sv = np.geomspace(1.0, 1.0 / kappa, n)
        M = torch.as_tensor(Uq @ np.diag(sv) @ Vq.T)
        c = torch.as_tensor(rng.standard_normal(n))
        th0 = c + torch.as_tensor(rng.standard_normal(n))
        for how in ("default-solver", "PINV()"):
            model = _Affine(M, c, th0)
            opt = pp.optim.GN(model) if how == "default-solver" else pp.optim.GN(model, solver=pp.optim.solver.PINV())
            regime = f"GN/{how}/cond~1e{int(np.log10(kappa))}"
            wit = {"cond": kappa, "n": n, "m": m, "solver": how}
            okc, _ = ck.call("solve", regime, "optim.GaussNewton.step", lambda: opt.step(None), witness=wit)
            ck.count("solve", regime, key=(case, how, M.numpy().tobytes()))
            if not okc:
                continue
            # exact minimiser: theta = c (M has full column rank); forward error of a float64 least-squares solve ~ kappa u |step|
            err = float((model.theta.detach() - c).abs().max())
            ck.ratio("solve", regime, err, 64 * u * kappa * float((th0 - c).abs().max()) + 1e-300, "optim.GaussNewton.step",
                     "step_misses_the_least_squares_solution_in_a_weakly_observable_direction",
                     dict(wit, theta_after=model.theta.detach().tolist(), minimiser=c.tolist(), start=th0.tolist()))
            ck.mark("solve/ill-conditioned-float64")


class _Curved(nn.Module):
    """r(theta) = atan(M (theta - c)): rejections and mediocre steps occur, so the damping moves."""

    def __init__(self, M, c, theta0):
        super().__init__()
        self.M, self.c = M, c
        self.theta = nn.Parameter(theta0.clone())

    def forward(self, input=None):
        return torch.atan(self.M @ (self.theta - self.c))


def shared_objects(ck, rng):
    """Two optimisers used alternately that were handed the SAME strategy / solver / kernel objects behave exactly like two optimisers
    with objects of their own (the damping history lives with each optimiser, not with the strategy object)."""
    for sname in ("Adaptive", "TrustRegion"):
        for rep in range(3):
            probs = []
            for _ in range(2):
                n = int(rng.integers(2, 4))
                probs.append((torch.as_tensor(rng.standard_normal((n + 1, n)) * float(rng.choice([0.5, 3.0]))), torch.as_tensor(rng.standard_normal(n)),
                              torch.as_tensor(rng.standard_normal(n) * 3.0)))
            mk = {"Adaptive": lambda: pp.optim.strategy.Adaptive(damping=0.5), "TrustRegion": lambda: pp.optim.strategy.TrustRegion(radius=2.0)}[sname]

            def run(shared):
                st_ = mk()
                sol_, ker_ = pp.optim.solver.PINV(), pp.optim.kernel.Huber(2.0)
                models = [_Curved(*p_) for p_ in probs]
                opts = []
                for m_ in models:
                    if shared:
                        opts.append(pp.optim.LM(m_, solver=sol_, strategy=st_, kernel=ker_, reject=4))
                    else:
                        opts.append(pp.optim.LM(m_, solver=pp.optim.solver.PINV(), strategy=mk(), kernel=pp.optim.kernel.Huber(2.0), reject=4))
                hist = []
                for step in range(6):
                    for o_, m_ in zip(opts, models):
                        o_.step(None)
                        hist.append((m_.theta.detach().clone(), float(o_.param_groups[0]["damping"])))
                return hist
            regime = f"LM/shared-objects/{sname}"
            ok1, h_sh = ck.call("system", regime, "optim.LevenbergMarquardt.step", lambda: run(True), witness={"strategy": sname})
            ok2, h_own = ck.call("system", regime, "optim.LevenbergMarquardt.step", lambda: run(False), witness={"strategy": sname})
            ck.count("system", regime, key=(sname, rep))
            if ok1 and ok2:
                bad = [i for i, (a, b) in enumerate(zip(h_sh, h_own)) if not (torch.equal(a[0], b[0]) and a[1] == b[1])]
                ck.check(not bad, "system", regime, "optim.LevenbergMarquardt.step", "optimisers_sharing_a_strategy_object_influence_each_other",
                         lambda: {"strategy": sname, "first_difference_at_call": bad[0], "damping_shared": [h[1] for h in h_sh][:8],
                                  "damping_own": [h[1] for h in h_own][:8]})
                ck.mark("system/shared-strategy-object")


def clamp_floor(ck, rng):
    """LM's lower clamp of the Hessian diagonal is the user's `min`, in both dtypes: r = (theta0 - 1, s (theta1 - 1)) has the diagonal
    (1, s^2); with s^2 < min the second entry handed to the solver in trial k is min (1 + lambda)^k."""
    for dn, dtype in (("f64", torch.float64), ("f32", torch.float32)):
        for mn in (1e-6, 1e-9, 1e-12):
            for s in (1e-2, 1e-4, 1e-7):
                lam = float(rng.choice([1e-3, 0.5]))
                M = torch.diag(torch.tensor([1.0, s], dtype=dtype))
                model = _Affine(M, torch.ones(2, dtype=dtype), torch.tensor([0.5, 0.25], dtype=dtype))
                rec = _Record(pp.optim.solver.PINV())
                opt = pp.optim.LM(model, solver=rec, strategy=pp.optim.strategy.Constant(damping=lam), min=mn, max=1e32)
                regime = f"LM/{dn}/min={mn:g}/s={s:g}"
                wit = {"dtype": dn, "min": mn, "s": s, "damping": lam}
                okc, _ = ck.call("system", regime, "optim.LevenbergMarquardt.step", lambda: opt.step(None), witness=wit)
                ck.count("system", regime, key=(dn, mn, s, lam))
                if not okc or not rec.seen:
                    continue
                d0 = max(float(torch.tensor(s, dtype=dtype) ** 2), float(torch.tensor(mn, dtype=dtype)))
                for k_, (A, b) in enumerate(rec.seen):
                    want = d0 * (1 + lam) ** (k_ + 1)
                    got = float(A[1, 1])
                    ck.ratio("system", regime, abs(got - want), 1e-4 * want, "optim.LevenbergMarquardt.step",
                             "clamped_diagonal_entry_is_not_min_times_damping" if s * s < mn else "diagonal_entry_not_as_documented",
                             dict(wit, trial=k_ + 1, got=got, want=want))
                if s * s < mn:
                    ck.mark(f"clamp/floor-binds/{dn}")
    ck.require("clamp/floor-binds/f32", "clamp/floor-binds/f64")


def run(ck):
    rng = ck.rng("c07")
    thorough = ck.tier == "thorough"
    n = 1000 if thorough else 40
    if ck.shard == 0:
        ill_conditioned_gn(ck, ck.rng("ill"))
        clamp_floor(ck, ck.rng("floor"))
        shared_objects(ck, ck.rng("shared"))
        ck.require("system/shared-strategy-object")
        ck.require("solve/ill-conditioned-float64")
    templates = ["pose_log", "points", "alg_log", "mixed_so3_offset", "two_outputs", "three_params", "program", "frozen", "alias_output"]
    for i in range(n):
        which = templates[(i + ck.shard) % len(templates)]
        spec = optmodels.make(rng, which)
        cfg = config(rng, opt=["GN", "LM"][i % 2])
        if cfg["solver"] == "CG" and cfg["weight"]:
            pass
        ck.mark("template/" + which)
        check_step(ck, rng, spec, cfg, (ck.shard, i, spec["desc"]))
    for t in templates:
        ck.require("template/" + t)
    ck.require("flags/frozen_after_construction", "flags/unfrozen_after_construction", "model/residual-is-a-parameter",
               "corrector/one-object-for-several-residuals", "config/warnings-as-errors")
    ck.require("update/group_retraction", "update/frozen_seen", "clamp/min_binds", "clamp/max_binds", "system/second_step_after_inplace_weight_update",
               "weight/given_at_init_and_step", "input/dict", "input/single")
    ck.floor("assemble", 30)
    ck.floor("system", 30)
