"""Runtime-monitoring framework for pypose (see /verif/DESIGN.md).

Importing this package puts the repository under test (VERIF_REPO, default /repo) first on
sys.path and the offline helper packages (/verif/.deps) last, so every check runs the current
working tree of the repository.
"""
import os
import sys
import warnings

ROOT = os.path.dirname(os.path.dirname(os.path.abspath(__file__)))
REPO = os.environ.get("VERIF_REPO", "/repo")
GUARD = "PYPOSE_VERIF"

if REPO not in sys.path:
    sys.path.insert(0, REPO)
_deps = os.path.join(ROOT, ".deps")
if not os.path.exists(os.path.join(_deps, ".ok")):
    import subprocess
    subprocess.run([os.path.join(ROOT, "setup.sh")], stdout=subprocess.DEVNULL,
                   stderr=subprocess.DEVNULL, check=False)
if _deps not in sys.path:
    sys.path.append(_deps)

os.environ.setdefault(GUARD, "1")
warnings.filterwarnings("ignore")
