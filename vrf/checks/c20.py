"""C20 — stopping controllers stop exactly on their documented conditions, within budget.

Oracle: two reference automata written from the documentation (docstrings of StopOnPlateau /
ReduceToBason and the property statement), never from the code:

  * budget: the step at which `steps` controller steps have been made;
  * plateau: `patience` consecutive steps whose decrease is below `decreasing`
    (absolute last-loss for StopOnPlateau, relative (last-loss)/loss for ReduceToBason,
    for a batched loss only if *all* elements are insufficient);
  * StopOnPlateau: the optimizer reports reject_count > 0 after its last step;
  * ReduceToBason: *all* losses below tol;
  * continual() is true before and false from the first such step on (sticky);
  * ReduceToBason.reset() restores the initial state.

Workloads:
  1. prefix tree of the REAL objects (copy.deepcopy at every node, one child per letter of the
     abstract alphabet {D: decrease >= threshold, d: decrease < threshold, E: equal, I: increase,
     B: below-tol, R: rejected}), complete to depth 6 (quick) / 7 (thorough) for every
     (steps 1..6) x (patience 1..4); every leaf is continued along a random suffix to length 12
     (only stickiness can fail there);
  2. reset clause, behaviourally: a reset controller and a fresh one are driven with the same
     continuation (positive, negative, batched losses) and must give the same trace;
  3. random long real-valued and batched sequences against the automata;
  4. driver loops (StopOnPlateau.optimize, MPC.forward, ICP.forward) under call-counting spies.
"""
import contextlib
import copy
import sys

import numpy as np
import torch
import pypose as pp
from pypose.optim.optimizer import _Optimizer

from .. import lie

PID = "C20"
LEVEL = "exploration"
SHARDS = {"quick": 8, "thorough": 16}
TIMEOUT = {"quick": 1800, "thorough": 7200}
RULE = ("(1) Exhaustive prefix tree of the real controller objects over the 6-letter abstract alphabet "
        "{decrease>=threshold, decrease<threshold, equal, increase, below-tol, rejected}, each letter realised by a "
        "concrete loss relative to the previous one and placed a factor >= 4 away from the threshold (exact dyadic "
        "values for StopOnPlateau), for every configuration (steps 1..6) x (patience 1..4) of both controllers, "
        "complete to depth 6 (quick) / 7 (thorough): one case = one history (= one tree node), all histories of a "
        "configuration are distinct by construction (for ReduceToBason the letter 'rejected' = unchanged loss has the same concrete "
        "losses as 'equal': the quick tier does not enumerate those identical subtrees twice (5 children per node), the thorough tier "
        "passes the unchanged loss as a 1-element tensor instead); the start loss (2^-6 / 2^6 / 2^14 for StopOnPlateau, 2^-4 / 1 / 2^10 "
        "for ReduceToBason) and verbose=True/False vary with the configuration; `exhaustive: true` refers to THIS depth-bounded space only "
        "(every history up to that depth; since steps <= 6 every history has stopped by depth 6). Every leaf is then "
        "continued along ONE randomly drawn suffix to length 12 (sampled, not exhaustive; only stickiness can fail "
        "there). (2) reset: every tree node of depth <= 4 (quick) / 5 (thorough) of ReduceToBason is reset and compared with a fresh "
        "controller on a random continuation (positive / negative-first / batched losses). (3) random real-valued "
        "and batched loss sequences of length 12..200 with every comparison a factor >= 1.5 away from its threshold. "
        "(4) driver loops on tiny real problems (LM/GN pose inversion, LTI MPC, batched ICP) with spies. "
        "Non-trivial = at least one step was made.")
ASSUME = ["the reference automata are my reading of the docstrings + property statement: a step is 'insufficient' iff "
          "its decrease is strictly below `decreasing` (StopOnPlateau: last - loss, the loss and previous loss being the "
          "optimizer's `loss`/`last`; ReduceToBason: (last - loss)/loss with all elements insufficient for a batched loss); "
          "the controller stops at the step at which `patience` consecutive insufficient steps have been seen (property "
          "statement; the docstring's 'stop after the 3rd step for patience = 2' example contradicts its own first sentence "
          "and is not used)",
          "the first step of a ReduceToBason has no previous loss and counts as progress for positive losses (documented "
          "initial state last = inf); negative losses are only used in the fresh-vs-reset comparison, never judged "
          "against the automaton (a relative decrease w.r.t. a negative loss is not documented)",
          "steps / patience_count are compared up to and including the first stopping step; after that only continual() "
          "(what the counters do once stopped is not documented)",
          "StopOnPlateau is driven through a stub _Optimizer whose loss / last / reject_count the harness sets",
          "CPU only"]

LETTERS = ("D", "d", "E", "I", "B", "R")
TOL = 1e-5


# ---------------------------------------------------------------------------------------------
# reference automata (documentation-derived)
# ---------------------------------------------------------------------------------------------
class NullOut:
    """stdout while verbose controllers run (their messages are not judged)."""

    def write(self, x):
        return len(x)

    def flush(self):
        pass


class RefPlateau:
    """StopOnPlateau(optimizer, steps, patience, decreasing)."""

    def __init__(self, steps, patience, decreasing):
        self.budget, self.patience, self.decreasing = steps, patience, decreasing
        self.steps, self.count, self.cont, self.cause = 0, 0, True, ()

    def step(self, last, loss, rejected):
        self.steps += 1
        self.count = self.count + 1 if (last - loss) < self.decreasing else 0
        cause = []
        if self.steps >= self.budget:
            cause.append("budget")
        if self.count >= self.patience:
            cause.append("patience")
        if rejected:
            cause.append("rejected")
        self.cause = tuple(cause)
        if cause:
            self.cont = False


class RefBason:
    """ReduceToBason(steps, patience, decreasing, tol); losses are 1-D float64 arrays."""

    def __init__(self, steps, patience, decreasing, tol):
        self.budget, self.patience, self.decreasing, self.tol = steps, patience, decreasing, tol
        self.reset()

    def reset(self):
        self.steps, self.count, self.cont, self.cause, self.last = 0, 0, True, (), None
        self.ambiguous = False

    def step(self, loss):
        loss = np.atleast_1d(np.asarray(loss, dtype=np.float64)).reshape(-1)
        self.steps += 1
        if self.last is None:
            insufficient = False                      # nothing to compare with: decrease from +inf
        else:
            last = np.broadcast_to(self.last, loss.shape)
            with np.errstate(all="ignore"):
                a = (last - loss) / loss < self.decreasing          # relative to the new loss
                b = (last - loss) / last < self.decreasing          # relative to the previous loss
            if not np.array_equal(a, b) or np.any(loss <= 0):
                self.ambiguous = True
            insufficient = bool(np.all(a))
        self.count = self.count + 1 if insufficient else 0
        self.last = loss
        cause = []
        if np.all(loss < self.tol):
            cause.append("tol")
        if self.steps >= self.budget:
            cause.append("budget")
        if self.count >= self.patience:
            cause.append("patience")
        self.cause = tuple(cause)
        if cause:
            self.cont = False


def automata_selftest():
    """Hand-written traces (from the docstring example and the property statement)."""
    bad = []
    r = RefBason(5, 2, 0.1, 1e-5)
    tr = []
    x = 0.9
    for _ in range(5):
        x = x ** 2
        r.step(x)
        tr.append(r.cont)
    if tr != [True, True, True, True, False] or r.cause != ("budget",):
        bad.append("RefBason docstring example")
    r = RefBason(10, 2, 1e-3, 1e-5)
    tr = []
    for x in (1.0, 1.0, 1.0, 0.1):
        r.step(x)
        tr.append((r.cont, r.count))
    if tr != [(True, 0), (True, 1), (False, 2), (False, 0)]:
        bad.append("RefBason plateau")
    r = RefBason(10, 2, 1e-3, 1e-5)
    r.step([1.0, 1e-6])
    a = r.cont
    r.step([1e-6, 1e-7])
    if not a or r.cont or r.cause != ("tol",):
        bad.append("RefBason tol/all")
    r = RefBason(10, 1, 0.5, 1e-5)
    r.step([1.0, 1.0])
    r.step([0.9, 0.1])          # one element decreased enough: not a plateau step
    a = r.cont
    r.step([0.85, 0.09])
    if not a or r.cont or r.cause != ("patience",):
        bad.append("RefBason batched all-insufficient")
    p = RefPlateau(10, 2, 1e-3)
    tr = []
    for last, loss, rej in ((5, 4, 0), (4, 4, 0), (4, 3.9995, 0)):
        p.step(last, loss, rej)
        tr.append(p.cont)
    if tr != [True, True, False] or p.cause != ("patience",):
        bad.append("RefPlateau plateau")
    p = RefPlateau(3, 5, 1e-3)
    p.step(5, 4, 0)
    p.step(4, 3, 1)
    if p.cont or p.cause != ("rejected",):
        bad.append("RefPlateau rejection")
    p = RefPlateau(2, 5, 1e-3)
    p.step(5, 4, 0)
    a = p.cont
    p.step(4, 3, 0)
    if not a or p.cont or p.cause != ("budget",):
        bad.append("RefPlateau budget")
    return bad


# ---------------------------------------------------------------------------------------------
# the stub optimizer (harness-owned; the scheduler under test is the real object)
# ---------------------------------------------------------------------------------------------
class StubLM(_Optimizer):
    """Looks like LevenbergMarquardt to the scheduler: loss, last, reject_count."""

    def __init__(self, loss=None, last=None, reject_count=0):
        self.loss, self.last, self.reject_count = loss, last, reject_count

    def __deepcopy__(self, memo):
        o = type(self)(self.loss, self.last, self.reject_count)
        memo[id(self)] = o
        return o


class StubGN(_Optimizer):
    """Looks like GaussNewton: no reject_count attribute at all."""

    def __init__(self, loss=None, last=None, reject_count=0):
        self.loss, self.last = loss, last

    def __deepcopy__(self, memo):
        o = type(self)(self.loss, self.last)
        memo[id(self)] = o
        return o


def cont_of(obj):
    c = obj.continual()
    if isinstance(c, torch.Tensor):
        c = bool(c)
    return bool(c)


# ---------------------------------------------------------------------------------------------
# letters
# ---------------------------------------------------------------------------------------------
SOP_DEC = 2.0 ** -4
SOP_START = 64.0
SOP_TINY = 2.0 ** -30


def sop_letter(letter, prev, dec):
    """-> (new loss, rejected) realising the letter relative to prev (exact dyadic arithmetic)."""
    if letter == "D":
        return prev - 4 * dec, 0
    if letter == "d":
        return prev - dec / 4, 0
    if letter == "E":
        return prev, 0
    if letter == "I":
        return prev + 4 * dec, 0
    if letter == "B":
        return SOP_TINY, 0
    return prev, 1                                  # rejected step: the loss is restored


def rtb_letter(letter, prev, dec, tol):
    if letter == "D":
        return prev / 2
    if letter == "d":
        return prev * (1 - dec / 8)
    if letter == "I":
        return prev * 2
    if letter == "B":
        return tol / 4
    return prev                                     # E, and R (a rejected step leaves the loss unchanged)


class Flood(Exception):
    """More than FLOOD violations already recorded: the verdict is decided, stop enumerating."""


FLOOD = 400


class Tally:
    def __init__(self):
        self.nodes = 0
        self.by_cause = {}
        self.max_depth = 0
        self.suffix_steps = 0
        self.flooded = False


def report(ck, monitor, regime, entry, mech, hist, real, ref, extra=None):
    w = {"history": "".join(hist), "config": regime, "real_continual": cont_of(real), "ref_continual": ref.cont,
         "real_steps": int(real.steps), "ref_steps": ref.steps, "real_patience_count": int(real.patience_count),
         "ref_patience_count": ref.count, "ref_cause": list(ref.cause)}
    if extra:
        w.update(extra)
    ck.violation(monitor, regime, entry, mech, w)
    if ck.n_violations > FLOOD:
        raise Flood()


def compare(ck, monitor, regime, entry, hist, real, ref, was_stopped, parent_cont=False):
    """One node: continual() always; counters up to and including the first stop.
    parent_cont: continual() of the real object before this step."""
    rc = cont_of(real)
    ok = True
    if rc != ref.cont:
        ok = False
        if was_stopped and not parent_cont:
            mech = "rearmed_after_stop"
        elif was_stopped:
            mech = "still_continual_after_missed_stop"
        elif rc:
            mech = "did_not_stop_on_" + "+".join(ref.cause)
        else:
            mech = "stopped_without_documented_condition"
        report(ck, monitor, regime, entry, mech, hist, real, ref)
    if not was_stopped:
        if int(real.steps) != ref.steps:
            ok = False
            report(ck, monitor, regime, entry, "steps_counter", hist, real, ref)
        if int(real.patience_count) != ref.count:
            ok = False
            report(ck, monitor, regime, entry, "patience_counter", hist, real, ref)
    return ok


# ---------------------------------------------------------------------------------------------
# 1. prefix trees
# ---------------------------------------------------------------------------------------------
def tree_sop(ck, steps, patience, depth, rng, tally, stub_cls=StubLM, start=SOP_START, verbose=False):
    monitor, entry = "tree.StopOnPlateau", "optim.scheduler.StopOnPlateau.step"
    regime = f"steps{steps}/pat{patience}/start{start:g}/verbose={verbose}"
    dec = SOP_DEC
    opt = stub_cls(start, start, 0)
    ok, root = ck.call(monitor, regime, "optim.scheduler.StopOnPlateau", pp.optim.scheduler.StopOnPlateau,
                       opt, steps=steps, patience=patience, decreasing=dec, verbose=verbose)
    if not ok:
        return
    ref0 = RefPlateau(steps, patience, dec)
    hist = []
    if not cont_of(root):
        report(ck, monitor, regime, entry, "not_continual_initially", hist, root, ref0)

    def apply(real, ref, letter, prev):
        new, rej = sop_letter(letter, prev, dec)
        o = real.optimizer
        o.last, o.loss = prev, new
        if hasattr(o, "reject_count"):
            o.reject_count = rej
        else:
            rej = 0
        real.step(new)
        ref.step(prev, new, rej)
        return new

    def rec(real, ref, prev, d, was_stopped):
        pc = cont_of(real)
        for letter in LETTERS:
            r2, f2 = copy.deepcopy(real), copy.copy(ref)
            hist.append(letter)
            try:
                p2 = apply(r2, f2, letter, prev)
            except Exception as e:  # a valid history must not raise
                report(ck, monitor, regime, entry, "raised:" + type(e).__name__, hist, real, ref, {"exc": repr(e)[:300]})
                hist.pop()
                continue
            tally.nodes += 1
            compare(ck, monitor, regime, entry, hist, r2, f2, was_stopped, pc)
            if not was_stopped and not f2.cont:
                k = "+".join(f2.cause)
                tally.by_cause[k] = tally.by_cause.get(k, 0) + 1
            if d + 1 < depth:
                rec(r2, f2, p2, d + 1, was_stopped or not f2.cont)
            else:
                suffix(r2, f2, p2, d + 1, was_stopped or not f2.cont)
            hist.pop()

    def suffix(real, ref, prev, d, was_stopped):
        n0 = len(hist)
        while d < 12:
            letter = LETTERS[int(rng.integers(0, 6))]
            hist.append(letter)
            pc = cont_of(real)
            prev = apply(real, ref, letter, prev)
            compare(ck, "suffix.StopOnPlateau", regime, entry, hist, real, ref, was_stopped, pc)
            was_stopped = was_stopped or not ref.cont
            tally.suffix_steps += 1
            d += 1
        del hist[n0:]

    try:
        rec(root, ref0, start, 0, False)
    except Flood:
        tally.flooded = True


def tree_rtb(ck, steps, patience, depth, rng, tally, dec=1e-3, reset_depth=4, letters=LETTERS, start=1.0, verbose=False):
    """letters: with 5 letters 'R' (a rejected step leaves the loss unchanged) is not enumerated separately because
    its concrete loss sequence is the one of 'E'; with 6 letters it is the unchanged loss passed as a 1-element
    float64 tensor instead of a float."""
    monitor, entry = "tree.ReduceToBason", "utils.ReduceToBason.step"
    regime = f"steps{steps}/pat{patience}/start{start:g}/verbose={verbose}"
    kw = dict(steps=steps, patience=patience, decreasing=dec, tol=TOL, verbose=verbose)
    ok, root = ck.call(monitor, regime, "utils.ReduceToBason", pp.utils.ReduceToBason, **kw)
    if not ok:
        return
    ref0 = RefBason(steps, patience, dec, TOL)
    hist = []
    if not cont_of(root):
        report(ck, monitor, regime, entry, "not_continual_initially", hist, root, ref0)
    nl = len(letters)

    def apply(real, ref, letter, prev):
        new = rtb_letter(letter, prev, dec, TOL)
        real.step(torch.tensor([new], dtype=torch.float64) if letter == "R" else new)
        ref.step(new)
        return new

    def rec(real, ref, prev, d, was_stopped):
        pc = cont_of(real)
        for letter in letters:
            r2, f2 = copy.deepcopy(real), copy.copy(ref)
            hist.append(letter)
            try:
                p2 = apply(r2, f2, letter, prev)
            except Exception as e:
                report(ck, monitor, regime, entry, "raised:" + type(e).__name__, hist, real, ref, {"exc": repr(e)[:300]})
                hist.pop()
                continue
            tally.nodes += 1
            if f2.ambiguous:
                tally.by_cause["ambiguous"] = tally.by_cause.get("ambiguous", 0) + 1
            else:
                compare(ck, monitor, regime, entry, hist, r2, f2, was_stopped, pc)
            if not was_stopped and not f2.cont:
                k = "+".join(f2.cause)
                tally.by_cause[k] = tally.by_cause.get(k, 0) + 1
            if d + 1 <= reset_depth:
                reset_clause(ck, r2, kw, rng, regime, "".join(hist))
            if d + 1 < depth:
                rec(r2, f2, p2, d + 1, was_stopped or not f2.cont)
            else:
                suffix(r2, f2, p2, d + 1, was_stopped or not f2.cont)
            hist.pop()

    def suffix(real, ref, prev, d, was_stopped):
        n0 = len(hist)
        while d < 12:
            letter = letters[int(rng.integers(0, nl))]
            hist.append(letter)
            pc = cont_of(real)
            prev = apply(real, ref, letter, prev)
            if not ref.ambiguous:
                compare(ck, "suffix.ReduceToBason", regime, entry, hist, real, ref, was_stopped, pc)
            was_stopped = was_stopped or not ref.cont
            tally.suffix_steps += 1
            d += 1
        del hist[n0:]

    try:
        rec(root, ref0, start, 0, False)
    except Flood:
        tally.flooded = True


# ---------------------------------------------------------------------------------------------
# 2. reset clause (behavioural)
# ---------------------------------------------------------------------------------------------
def continuation(rng, n):
    """NaN-free losses: positive scalars, scalars with a negative start, batched tensors."""
    kind = int(rng.integers(0, 4))
    out = []
    if kind == 0:                                      # positive scalar floats
        v = float(10.0 ** rng.uniform(-3, 2))
        for _ in range(n):
            v = v * float(rng.choice([0.5, 0.9999, 1.0, 1.5]))
            out.append(v)
        tag = "pos-scalar"
    elif kind == 1:                                    # negative first loss (e.g. an LQR cost)
        v = -float(10.0 ** rng.uniform(-2, 2))
        for _ in range(n):
            out.append(v)
            v = v + float(rng.choice([-1.0, -1e-6, 0.0, 0.5])) * abs(v)
        tag = "neg-first-scalar"
    elif kind == 2:                                    # batched, mixed signs
        v = rng.standard_normal(3) * 10.0 ** rng.uniform(-2, 2)
        v[0] = -abs(v[0])
        for _ in range(n):
            out.append(torch.tensor(v.copy(), dtype=torch.float64))
            v = v + rng.choice([-0.5, -1e-6, 0.0, 0.5], size=3) * np.abs(v)
        tag = "batched-mixed-sign"
    else:                                              # batched positive, float32
        v = 10.0 ** rng.uniform(-4, 1, size=2)
        for _ in range(n):
            out.append(torch.tensor(v.copy(), dtype=torch.float32))
            v = v * rng.choice([0.5, 0.9999, 1.0, 1.5], size=2)
        tag = "batched-pos"
    return tag, out


def plain_loss(x):
    return x.tolist() if isinstance(x, torch.Tensor) else x


def reset_clause(ck, node, kw, rng, regime, hist, n=8):
    monitor, entry = "reset.ReduceToBason", "utils.ReduceToBason.reset"
    r = copy.deepcopy(node)
    pc_before = int(r.patience_count)
    ok, _ = ck.call(monitor, regime, entry, r.reset, witness={"history": hist})
    if not ok:
        return
    fresh = pp.utils.ReduceToBason(**kw)
    tag, seq = continuation(rng, n)
    ck.count(monitor, f"{tag}/{'pc>0' if pc_before else 'pc=0'}/{'stopped' if not cont_of(node) else 'running'}",
             key=(regime, hist))
    if pc_before:
        ck.mark("reset/after-plateau-steps")
        if tag == "neg-first-scalar":
            ck.mark("reset/after-plateau-steps/negative-first-loss")
    state = lambda o: (cont_of(o), int(o.steps), int(o.patience_count))
    if state(r) != state(fresh):
        ck.violation(monitor, regime, entry, "state_not_initial_after_reset",
                     {"history_before_reset": hist, "reset_state(cont,steps,patience_count)": list(state(r)),
                      "fresh_state": list(state(fresh)), "config": kw})
        if ck.n_violations > FLOOD:
            raise Flood()
        return
    trace_r, trace_f = [], []
    for x in seq:
        r.step(x)
        fresh.step(x)
        trace_r.append(state(r))
        trace_f.append(state(fresh))
    if [t[0] for t in trace_r] != [t[0] for t in trace_f]:
        ck.violation(monitor, regime, entry, "reset_differs_from_fresh",
                     {"history_before_reset": hist, "continuation": [plain_loss(x) for x in seq], "config": kw,
                      "reset_trace": [list(t) for t in trace_r], "fresh_trace": [list(t) for t in trace_f]})
        if ck.n_violations > FLOOD:
            raise Flood()
    elif trace_r != trace_f:
        ck.violation(monitor, regime, entry, "reset_counters_differ_from_fresh",
                     {"history_before_reset": hist, "continuation": [plain_loss(x) for x in seq], "config": kw,
                      "reset_trace": [list(t) for t in trace_r], "fresh_trace": [list(t) for t in trace_f]})


# ---------------------------------------------------------------------------------------------
# 3. random long sequences
# ---------------------------------------------------------------------------------------------
def rtb_next(rng, prev, dec, tol, mode):
    """Next batched loss (float64 array) with every comparison >= 1.5x away from its threshold."""
    for _ in range(40):
        n = prev.size
        if mode == "suff":
            f = rng.uniform(0.15, 1.0 / (1.0 + 3.0 * dec), n)
        elif mode == "barely":                          # a sufficient decrease only 2..20 times the threshold
            f = 1.0 - dec * rng.uniform(2.0, 20.0, n) if dec <= 1e-3 else rng.uniform(0.15, 1.0 / (1.0 + 3.0 * dec), n)
        elif mode == "insuff":
            pick = rng.integers(0, 3, n)
            f = np.where(pick == 0, 1.0, np.where(pick == 1, 1.0 - rng.uniform(0, 1, n) * dec / 4, rng.uniform(1.0, 3.0, n)))
        elif mode == "mixed":
            f = np.where(np.arange(n) % 2 == rng.integers(0, 2), rng.uniform(0.15, 1.0 / (1.0 + 3.0 * dec), n),
                         1.0 - rng.uniform(0, 1, n) * dec / 4)
        elif mode == "tol":
            f = (tol / prev) * rng.uniform(0.05, 0.4, n)
            f = np.minimum(f, 0.4)
        else:                                           # "tolmixed": some below tol, at least one above
            f = (tol / prev) * rng.uniform(0.05, 0.4, n)
            f = np.minimum(f, 0.4)
            j = int(rng.integers(0, n))
            f[j] = rng.uniform(0.5, 0.6) if prev[j] * 0.5 > 3 * tol else 1.0
        new = prev * f
        r1, r2 = (prev - new) / new, (prev - new) / prev
        safe = np.all(((r1 >= 1.5 * dec) & (r2 >= 1.5 * dec)) | ((r1 <= dec / 1.5) & (r2 <= dec / 1.5)))
        safe = safe and np.all((new >= 2 * tol) | (new <= tol / 2)) and np.all(new > 1e-30) and np.all(new < 1e30)
        if safe:
            return new
    return prev.copy()                                  # equal: always unambiguous (prev was safe w.r.t. tol)


def random_rtb(ck, rng, n_seq):
    monitor, entry = "random.ReduceToBason", "utils.ReduceToBason.step"
    for s in range(n_seq):
        steps = int(rng.choice([1, 2, 3, 5, 6, 10, 25, 50, 300]))
        patience = int(rng.integers(1, 9))
        dec = float(rng.choice([1e-3, 0.1, 0.5, 1e-9]))
        tol = float(rng.choice([1e-5, 1e-2]))
        form = str(rng.choice(["float", "t0-f64", "t0-f32", "b1-f64", "b3-f64", "b3-f32", "b2x2-f64"]))
        if dec == 1e-9:
            # a threshold below single-precision resolution: double-precision TENSOR losses only (what the controller is told in float64
            # it judges in float64; a Python float is converted by the library to the default dtype, float32, and is not judged here)
            form = str(rng.choice(["t0-f64", "b1-f64", "b3-f64", "b2x2-f64"]))
            ck.mark("random.ReduceToBason/decreasing=1e-9")
        nb = {"float": 1, "t0-f64": 1, "t0-f32": 1, "b1-f64": 1, "b3-f64": 3, "b3-f32": 3, "b2x2-f64": 4}[form]
        length = int(rng.integers(12, 60 if ck.tier == "quick" else 200))
        kw = dict(steps=steps, patience=patience, decreasing=dec, tol=tol)
        verbose = bool(rng.random() < 0.3)
        ok, real = ck.call(monitor, form, "utils.ReduceToBason", pp.utils.ReduceToBason, verbose=verbose, **kw)
        if not ok:
            continue
        if verbose:
            ck.mark("random.ReduceToBason/verbose")
        ref = RefBason(**kw)
        kw = dict(kw)
        prev = 10.0 ** rng.uniform(-1, 3, nb)
        probs = np.array([0.30, 0.33, 0.12 if nb > 1 else 0.0, 0.03, 0.07 if nb > 1 else 0.0, 0.15])
        probs = probs / probs.sum()
        hist, was_stopped, good, modes, some_below = [], False, True, [], False
        # the caller's loss tensor may be one buffer that is overwritten in place every iteration (an accumulator): the controller
        # is told a sequence of loss *values*
        reuse = form != "float" and rng.random() < 0.35
        buf = None
        if reuse:
            ck.mark("random.ReduceToBason/loss-buffer-reused-in-place")
            kw = dict(kw, loss_tensor="one buffer overwritten in place")
        for i in range(length):
            mode = str(rng.choice(["suff", "insuff", "mixed", "tol", "tolmixed", "barely"], p=probs))
            new = rtb_next(rng, prev, dec, tol, mode) if i else prev
            if form == "float":
                x = float(new[0])
            else:
                dt = torch.float32 if form.endswith("f32") else torch.float64
                x = torch.tensor(new, dtype=dt)
                x = x.reshape(()) if form.startswith("t0") else (x.reshape(2, 2) if form.startswith("b2x2") else x)
                if reuse:
                    if buf is None:
                        buf = x.clone()
                    else:
                        buf.copy_(x)
                    x = buf
            hist.append(plain_loss(x))
            modes.append(mode)
            try:
                real.step(x)
            except Exception as e:
                ck.violation(monitor, form, entry, "raised:" + type(e).__name__, {"config": kw, "losses": hist, "exc": repr(e)[:300]})
                good = False
                break
            ref.step(new)
            if not was_stopped and 0 < int((new < tol).sum()) < nb:
                some_below = True                       # some, not all, elements below tol while still running
            if ref.ambiguous:
                ck.note_add("random_rtb_ambiguous_skipped")
                good = False
                break
            if not compare_random(ck, monitor, form, entry, kw, hist, real, ref, was_stopped):
                break
            if not was_stopped and not ref.cont:
                ck.mark("random.ReduceToBason/first-stop:" + "+".join(ref.cause))
                if some_below:
                    ck.mark("random.ReduceToBason/batched-with-some-below-tol")
            was_stopped = was_stopped or not ref.cont
            prev = new
        if good:
            ck.count(monitor, f"{form}/dec{dec}/tol{tol}", key=(s, ck.shard, steps, patience))
        if s < 2:
            ck.sample({"controller": "ReduceToBason", "config": kw, "form": form, "losses_head": hist[:6],
                       "ref_first_stop_cause": list(ref.cause), "steps_made": len(hist)})


def compare_random(ck, monitor, regime, entry, kw, hist, real, ref, was_stopped):
    rc = cont_of(real)
    w = lambda: {"config": kw, "losses": hist[-40:], "n_losses": len(hist), "real_continual": rc, "ref_continual": ref.cont,
                 "real(steps,patience_count)": [int(real.steps), int(real.patience_count)],
                 "ref(steps,patience_count)": [ref.steps, ref.count], "ref_cause": list(ref.cause)}
    if rc != ref.cont:
        mech = "rearmed_after_stop" if was_stopped else ("did_not_stop_on_" + "+".join(ref.cause) if rc
                                                         else "stopped_without_documented_condition")
        ck.violation(monitor, regime, entry, mech, w())
        return False
    if not was_stopped and (int(real.steps) != ref.steps or int(real.patience_count) != ref.count):
        ck.violation(monitor, regime, entry, "steps_counter" if int(real.steps) != ref.steps else "patience_counter", w())
        return False
    return True


def _restored(sched, state):
    sched.load_state_dict(state)
    return sched


def random_sop(ck, rng, n_seq):
    monitor, entry = "random.StopOnPlateau", "optim.scheduler.StopOnPlateau.step"
    for s in range(n_seq):
        steps = int(rng.choice([1, 2, 3, 5, 6, 10, 25, 50, 300]))
        patience = int(rng.integers(1, 9))
        dec = float(rng.choice([1e-3, 0.5, 0.0, 1.0, 2.0 ** -4]))
        form = str(rng.choice(["float", "t0-f64", "t0-f32"]))
        stub = StubGN if rng.random() < 0.3 else StubLM
        length = int(rng.integers(12, 60 if ck.tier == "quick" else 200))
        p_rej = float(rng.choice([0.0, 0.02, 0.15]))
        kw = dict(steps=steps, patience=patience, decreasing=dec)
        mk = (lambda v: float(v)) if form == "float" else \
             (lambda v: torch.tensor(float(v), dtype=torch.float32 if form.endswith("f32") else torch.float64))
        unit = max(dec, 0.125)
        # loss scale away from 1 as well: ~1e-2 (the absolute steps then drive the loss negative), ~1e2, ~1e4
        prev = float(rng.integers(200, 400)) * 0.25 * float(rng.choice([2.0 ** -12, 1.0, 2.0 ** 7]))
        verbose = bool(rng.random() < 0.5)
        opt = stub(mk(prev), mk(prev), 0)
        ok, real = ck.call(monitor, form, "optim.scheduler.StopOnPlateau", pp.optim.scheduler.StopOnPlateau, opt,
                           verbose=verbose, **kw)
        if not ok:
            continue
        if verbose:
            ck.mark("random.StopOnPlateau/verbose")
        ref = RefPlateau(**kw)
        hist, was_stopped, good = [], False, True
        # object lifecycle: at one point of a third of the sequences the scheduler is checkpointed (state_dict) into a new scheduler on a
        # new optimizer object; the sequence continues on the new one, and the old one - stepped on its own afterwards - has no say in it
        ckpt_at = int(rng.integers(1, length - 1)) if rng.random() < 0.35 else None
        for i in range(length):
            if ckpt_at is not None and i == ckpt_at:
                old_real, old_opt = real, opt
                opt = stub(mk(prev), mk(prev), 0)
                ok2, real2 = ck.call(monitor, form, "optim.scheduler.StopOnPlateau.load_state_dict",
                                     lambda: _restored(pp.optim.scheduler.StopOnPlateau(opt, verbose=verbose, **kw), old_real.state_dict()))
                if not ok2:
                    break
                real = real2
                # the old scheduler goes its own way: driven to a stop (or, if already stopped, left alone)
                try:
                    for _ in range(steps + 1):
                        old_opt.last, old_opt.loss = mk(prev), mk(prev)
                        old_real.step(old_opt.loss)
                except Exception as e:  # noqa
                    ck.violation(monitor, form, entry, "raised:" + type(e).__name__, {"config": kw, "exc": repr(e)[:300], "where": "saved scheduler stepped on its own"})
                kw = dict(kw, restored_from_state_dict_at=i)
                ck.mark("random.StopOnPlateau/restored-from-state_dict" + ("/while-running" if ref.cont else "/after-stop"))
            c = int(rng.integers(0, 5))
            # decrease measured in multiples of 2^-k: exact in float32 and float64 for these magnitudes
            exact_boundary = False
            if c == 4:
                # the boundary itself: a decrease of exactly the configured amount is a decrease by that amount (not a failure);
                # only where the subtraction is exact in the dtype the controller sees
                decrease = dec
                cand = float(np.float32(prev - dec)) if form.endswith("f32") else prev - dec
                pv_ = float(np.float32(prev)) if form.endswith("f32") else prev
                exact_boundary = dec in (0.5, 1.0, 2.0 ** -4) and (pv_ - cand) == dec and \
                    (not form.endswith("f32") or float(np.float32(pv_) - np.float32(cand)) == dec)
                if not exact_boundary:
                    c = 0
            if c == 4:
                pass                                    # decrease = dec exactly (set above)
            elif c == 0:
                decrease = dec + unit * float(rng.integers(2, 9)) * 0.5
            elif c == 1:
                decrease = dec - unit * float(rng.integers(2, 9)) * 0.5
            elif c == 2:
                decrease = 0.0 if dec != 0.0 else -unit
            else:
                decrease = -unit * float(rng.integers(1, 20))
            new = float(np.float32(prev - decrease)) if form.endswith("f32") else prev - decrease
            pv = float(np.float32(prev)) if form.endswith("f32") else prev
            margin = abs((pv - new) - dec)
            if exact_boundary:
                ck.mark("random.StopOnPlateau/decrease-exactly-the-threshold")
            elif margin < 0.25 * unit and not ((pv - new) == 0.0 and dec != 0.0):
                new = pv          # equal
                if dec == 0.0:
                    new = pv + unit
            rej = int(rng.random() < p_rej) * int(rng.integers(1, 4))
            opt.last, opt.loss = mk(pv), mk(new)
            if stub is StubLM:
                opt.reject_count = rej
            else:
                rej = 0
            hist.append([pv, new, rej])
            try:
                real.step(opt.loss)
            except Exception as e:
                ck.violation(monitor, form, entry, "raised:" + type(e).__name__, {"config": kw, "steps(last,loss,rej)": hist, "exc": repr(e)[:300]})
                good = False
                break
            ref.step(pv, new, rej)
            if not compare_random(ck, monitor, f"{form}/{stub.__name__}", entry, kw, hist, real, ref, was_stopped):
                break
            if not was_stopped and not ref.cont:
                ck.mark("random.StopOnPlateau/first-stop:" + "+".join(ref.cause))
            was_stopped = was_stopped or not ref.cont
            prev = new
        if good:
            ck.count(monitor, f"{form}/{stub.__name__}/dec{dec}", key=(s, ck.shard, steps, patience))
        if s < 1:
            ck.sample({"controller": "StopOnPlateau", "config": kw, "form": form, "stub": stub.__name__,
                       "steps_head(last,loss,reject_count)": hist[:6], "ref_first_stop_cause": list(ref.cause)})


# ---------------------------------------------------------------------------------------------
# 4. driver loops
# ---------------------------------------------------------------------------------------------
class PoseInv(torch.nn.Module):
    def __init__(self, pose):
        super().__init__()
        self.pose = pp.Parameter(pose)

    def forward(self, inputs):
        return (self.pose @ inputs).Log().tensor()


class Saturating(torch.nn.Module):
    """residual atan(k x): from |k x| >> 1 the undamped step overshoots, so LM trials are rejected until the damping
    accumulated over the trials of one step makes a trial short enough - a step that is accepted after rejections."""

    def __init__(self, x0, k):
        super().__init__()
        self.x = torch.nn.Parameter(torch.tensor([x0], dtype=torch.float64))
        self.k = k

    def forward(self, inputs):
        return torch.atan(self.k * self.x) + 0 * inputs


class CountingSolver(torch.nn.Module):
    """Counts the linear solves (= trials) of the current optimizer step at the client boundary."""

    def __init__(self):
        super().__init__()
        self.inner, self.calls = pp.optim.solver.PINV(), 0

    def forward(self, A, b):
        self.calls += 1
        return self.inner(A, b)


def drive_optimize(ck, rng, n):
    monitor, entry = "driver.optimize", "optim.scheduler.StopOnPlateau.optimize"
    for i in range(n):
        steps, patience = int(rng.integers(1, 7)), int(rng.integers(1, 5))
        dec = float(rng.choice([1e-3, 1e3, 0.0, 1e-9]))
        which = str(rng.choice(["LM-small-damping", "LM-large-damping", "GN", "LM-rejections"]))
        regime = f"{which}/dec{dec}"
        inputs = lie.random_group("SE3", rng, 2, torch.float64)
        net = PoseInv(lie.random_group("SE3", rng, 2, torch.float64))
        counter = CountingSolver()
        if which == "GN":
            opt = pp.optim.GN(net)
        elif which == "LM-rejections":
            net = Saturating(float(rng.uniform(2.0, 5.0)) * float(rng.choice([-1.0, 1.0])), float(rng.choice([1.0, 3.0])))
            inputs = torch.zeros(1, dtype=torch.float64)
            opt = pp.optim.LM(net, solver=counter, strategy=pp.optim.strategy.Constant(damping=float(rng.choice([0.3, 1.0]))),
                              reject=int(rng.choice([1, 3, 16])))
        else:
            strat = pp.optim.strategy.Constant(damping=1e-6 if which == "LM-small-damping" else 1e2)
            opt = pp.optim.LM(net, solver=counter, strategy=strat)
        sched = pp.optim.scheduler.StopOnPlateau(opt, steps=steps, patience=patience, decreasing=dec, verbose=bool(i % 2))
        ref = RefPlateau(steps, patience, dec)
        log = {"cont_before_call": [], "trace": [], "sched_steps": 0, "ref_stop_at": None, "ref_cause": (), "ambiguous": False}
        orig_step, orig_sstep = opt.step, sched.step

        def spy_opt(*a, **k):
            log["cont_before_call"].append(cont_of(sched))
            if len(log["cont_before_call"]) > steps + 6:
                raise RuntimeError("harness: runaway driver loop cut off")
            counter.calls = 0
            out = orig_step(*a, **k)
            return out

        def spy_sched(loss):
            out = orig_sstep(loss)
            log["sched_steps"] += 1
            last, cur = float(opt.last), float(opt.loss)
            rej = int(getattr(opt, "reject_count", 0))
            if which != "GN":
                # rejections of this step as observed from outside: every trial costs one solve and every trial but the last one was
                # rejected (the last is kept: better, equal, or worse once the allowed rejections are used up)
                seen_rej = max(0, counter.calls - 1)
                if seen_rej > 0:
                    ck.mark("driver.optimize/step-with-rejections" + ("-then-accepted" if cur <= last else "-exhausted"))
                ck.check((rej > 0) == (seen_rej > 0), monitor, regime, "optim.LevenbergMarquardt.step",
                         "reject_count_after_step_disagrees_with_the_trials_observed",
                         {"reject_count": rej, "solves_in_this_step": counter.calls, "last": last, "loss": cur})
                rej = seen_rej
            if abs((last - cur) - dec) <= 1e-9 * max(1.0, abs(last)) and dec != 0.0:
                log["ambiguous"] = True
            if dec == 0.0 and 0 < abs(last - cur) <= 1e-300:
                log["ambiguous"] = True
            ref.step(last, cur, rej)
            if log["ref_stop_at"] is None and not ref.cont:
                log["ref_stop_at"], log["ref_cause"] = log["sched_steps"], ref.cause
            log["trace"].append([last, cur, rej, cont_of(sched)])
            return out

        opt.step, sched.step = spy_opt, spy_sched
        cut = False
        try:
            sched.optimize(input=inputs)
        except RuntimeError as e:
            if "runaway" not in str(e):
                ck.violation(monitor, regime, entry, "raised:RuntimeError", {"exc": repr(e)[:300], "steps": steps, "patience": patience})
                continue
            cut = True
        except Exception as e:
            ck.violation(monitor, regime, entry, "raised:" + type(e).__name__, {"exc": repr(e)[:300], "steps": steps, "patience": patience})
            continue
        ncalls = len(log["cont_before_call"])
        w = {"optimizer": which, "steps": steps, "patience": patience, "decreasing": dec, "optimizer_step_calls": ncalls,
             "scheduler_steps": log["sched_steps"], "ref_first_stop_at": log["ref_stop_at"],
             "trace(last,loss,reject_count,continual_after)": log["trace"][:12], "cut_off_by_harness": cut}
        ck.count(monitor, regime, key=(i, ck.shard, steps, patience))
        ck.check(ncalls <= steps and log["sched_steps"] <= steps and not cut, monitor, regime, entry, "more_than_budget_steps", w)
        ck.check(all(log["cont_before_call"]), monitor, regime, entry, "optimizer_stepped_after_controller_stopped", w)
        ck.check(cut or not cont_of(sched), monitor, regime, entry, "returned_while_continual", w)
        if not log["ambiguous"] and not cut:
            ck.check(log["ref_stop_at"] == ncalls, monitor, regime, entry, "loop_length_differs_from_first_stop", w)
            if log["ref_stop_at"] is not None:
                ck.mark("driver.optimize/first-stop:" + "+".join(log["ref_cause"]))
        # added by the framework owner: a second optimize() on the SAME scheduler without reset - continual() is false and stays
        # false until reset, so the loop must not take another optimizer or scheduler step
        if not cut and not cont_of(sched):
            n_before, s_before = len(log["cont_before_call"]), log["sched_steps"]
            try:
                sched.optimize(input=inputs)
            except Exception as e:  # noqa
                if "runaway" not in str(e):
                    ck.violation(monitor, regime + "/second-call", entry, "raised:" + type(e).__name__, {"exc": repr(e)[:300]})
            ck.count(monitor, regime + "/second-call", key=(i, ck.shard, "second"))
            ck.check(len(log["cont_before_call"]) == n_before and log["sched_steps"] == s_before and not cont_of(sched), monitor,
                     regime + "/second-call", entry, "second_optimize_on_a_stopped_scheduler_took_steps",
                     dict(w, optimizer_steps_in_second_call=len(log["cont_before_call"]) - n_before,
                          scheduler_steps_in_second_call=log["sched_steps"] - s_before))
            ck.mark("driver.optimize/second-call-on-stopped-scheduler")
        if i < 1:
            ck.sample({"driver": "StopOnPlateau.optimize", **w})


def drive_mpc(ck, rng, n):
    monitor, entry = "driver.MPC", "module.MPC.forward"
    for i in range(n):
        steps, patience = int(rng.integers(1, 7)), int(rng.choice([1, 2, 3, 4, 50]))
        tol = float(rng.choice([1e-5, -1e30]))
        if i == 0:                                      # one case per shard in which only the budget can stop the loop
            steps, patience, tol = int(rng.integers(3, 7)), 50, -1e30
        regime = f"pat{'big' if patience == 50 else 'small'}/tol{tol:g}"
        ns, nc, T = 3, 2, 4
        A = torch.eye(ns, dtype=torch.float64) + 0.2 * torch.as_tensor(rng.standard_normal((ns, ns)))
        B = torch.as_tensor(rng.standard_normal((ns, nc)))
        C, D = torch.eye(ns, dtype=torch.float64), torch.zeros(ns, nc, dtype=torch.float64)
        c1, c2 = torch.zeros(ns, dtype=torch.float64), torch.zeros(ns, dtype=torch.float64)
        Q = torch.eye(ns + nc, dtype=torch.float64).tile(1, T, 1, 1)
        p = torch.as_tensor(rng.standard_normal((1, T, ns + nc)))
        x0 = torch.as_tensor(rng.standard_normal((1, ns)))
        try:
            lti = pp.module.LTI(A, B, C, D, c1, c2)
            stepper = pp.utils.ReduceToBason(steps=steps, patience=patience, decreasing=1e-3, tol=tol, verbose=bool(i % 2))
            mpc = pp.module.MPC(lti, Q, p, T, stepper=stepper)
        except Exception as e:
            ck.violation(monitor, regime, "module.MPC", "raised:" + type(e).__name__, {"exc": repr(e)[:300]})
            continue
        for rerun in range(2):                         # the module resets its stepper: second call too
            log = {"lqr_cont": [], "ctrl_steps": 0, "costs": []}
            lqr_fwd, st_step = mpc.lqr.forward, stepper.step

            def spy_lqr(*a, **k):
                log["lqr_cont"].append(cont_of(stepper))
                if len(log["lqr_cont"]) > steps + 8:
                    raise RuntimeError("harness: runaway driver loop cut off")
                return lqr_fwd(*a, **k)

            def spy_step(loss):
                log["ctrl_steps"] += 1
                log["costs"].append(plain_loss(loss))
                return st_step(loss)

            mpc.lqr.forward, stepper.step = spy_lqr, spy_step
            cut = False
            try:
                mpc(1, x0)
            except RuntimeError as e:
                if "runaway" not in str(e):
                    ck.violation(monitor, regime, entry, "raised:RuntimeError", {"exc": repr(e)[:300], "steps": steps})
                    break
                cut = True
            except Exception as e:
                ck.violation(monitor, regime, entry, "raised:" + type(e).__name__, {"exc": repr(e)[:300], "steps": steps})
                break
            finally:
                mpc.lqr.forward, stepper.step = lqr_fwd, st_step
            w = {"steps": steps, "patience": patience, "tol": tol, "second_forward": bool(rerun), "controller_steps": log["ctrl_steps"],
                 "lqr_calls": len(log["lqr_cont"]), "continual_at_each_lqr_call": log["lqr_cont"], "costs": log["costs"][:10],
                 "cut_off_by_harness": cut}
            ck.count(monitor, regime + ("/second-call" if rerun else ""), key=(i, ck.shard, steps, patience, rerun))
            ck.check(log["ctrl_steps"] <= steps and not cut, monitor, regime, entry, "more_than_budget_steps", w)
            ck.check(cut or log["lqr_cont"] == [True] * log["ctrl_steps"] + [False], monitor, regime, entry,
                     "lqr_calls_do_not_follow_controller", w)
            if patience == 50 and tol < 0 and log["ctrl_steps"] >= max(1, steps - 1):
                ck.mark("driver.MPC/budget-binding")
            if i < 1 and rerun == 0:
                ck.sample({"driver": "MPC.forward", **w})


def stored_handles(ck, rng):
    """`go_on = scheduler.continual` kept in a variable (as a loop condition handed to other code) answers for the scheduler it was
    taken from, whatever other controllers exist or were touched afterwards."""
    for rep in range(4):
        o1, o2 = StubLM(1.0, 1.0, 0), StubLM(1.0, 1.0, 0)
        steps1 = int(rng.integers(1, 4))
        s1 = pp.optim.scheduler.StopOnPlateau(o1, steps=steps1, patience=50, decreasing=1e-3)
        s2 = pp.optim.scheduler.StopOnPlateau(o2, steps=50, patience=50, decreasing=1e-3)
        order = bool(rng.integers(2))
        g1, g2 = (s1.continual, s2.continual) if order else tuple(reversed((s2.continual, s1.continual)))
        r1, r2 = pp.utils.ReduceToBason(steps=steps1, patience=50), pp.utils.ReduceToBason(steps=50, patience=50)
        h1, h2 = r1.continual, r2.continual
        loss = 100.0
        for i in range(steps1):
            loss *= 0.5
            o1.last, o1.loss = loss * 2, loss
            okc, _ = ck.call("random.StopOnPlateau", "stored-handle", "optim.scheduler.StopOnPlateau.step", lambda: s1.step(loss))
            okc2, _ = ck.call("random.ReduceToBason", "stored-handle", "utils.ReduceToBason.step", lambda: r1.step(loss))
            if not (okc and okc2):
                break
            _ = s2.continual()            # the other controllers are looked at in between
            _ = r2.continual()
        else:
            okc = okc2 = True
        if not (okc and okc2):
            continue
        w = {"steps_of_first": steps1, "handles_taken_in_order": "first,second" if order else "second,first"}
        ck.count("random.StopOnPlateau", "stored-handle", key=(rep, steps1, order))
        ck.check(g1() is False and g2() is True, "random.StopOnPlateau", "stored-handle", "optim.scheduler.StopOnPlateau.continual",
                 "stored_continual_handle_answers_for_another_scheduler", dict(w, first=g1(), second=g2()))
        ck.check(h1() is False and h2() is True, "random.ReduceToBason", "stored-handle", "utils.ReduceToBason.continual",
                 "stored_continual_handle_answers_for_another_controller", dict(w, first=h1(), second=h2()))
        ck.mark("stored-handles")


def drive_defaults(ck, rng):
    """Driver objects built WITHOUT a stepper argument use the documented default controller - ReduceToBason(steps=10) for MPC (of
    which MPC runs steps-1 controller steps: 'n-1 loops, 1 loop with gradient'), ReduceToBason(steps=200) for ICP - and every such
    object has a controller of its own: building or customising other objects changes nothing.  The costs each object's controller is
    given are replayed through the reference automaton with the documented constants; the loop must end exactly at its first stop."""
    ns, nc, T = 3, 2, 4
    mpcs = []
    for j in range(5):
        A = torch.eye(ns, dtype=torch.float64) + 0.2 * torch.as_tensor(rng.standard_normal((ns, ns)))
        B = torch.as_tensor(rng.standard_normal((ns, nc)))
        lti = pp.module.LTI(A, B, torch.eye(ns, dtype=torch.float64), torch.zeros(ns, nc, dtype=torch.float64),
                            torch.zeros(ns, dtype=torch.float64), torch.zeros(ns, dtype=torch.float64))
        Q = torch.eye(ns + nc, dtype=torch.float64).tile(1, T, 1, 1)
        p = torch.as_tensor(rng.standard_normal((1, T, ns + nc))) * 0.05 + 2.0       # costs stay positive (negative counts as below tol)
        x0 = torch.as_tensor(rng.standard_normal((1, ns)))
        ok, m = ck.call("driver.defaults", "MPC", "module.MPC", lambda: pp.module.MPC(lti, Q, p, T))
        if ok:
            mpcs.append((m, x0))
    icps = []
    for j in range(3):
        ok, m = ck.call("driver.defaults", "ICP", "module.ICP", lambda: pp.module.ICP())
        if ok:
            icps.append(m)
    ids = [id(m.stepper) for m, _ in mpcs] + [id(m.stepper) for m in icps]
    ck.check(len(set(ids)) == len(ids), "driver.defaults", "own-controller", "module.MPC/ICP", "default_built_objects_share_one_controller",
             {"objects": len(ids), "distinct_controllers": len(set(ids))})
    if icps:
        icps[0].stepper.max_steps = 2         # a user customises ONE object (a coarse stage)
    for which, objs, doc in (("MPC", mpcs[::-1], dict(steps=9, patience=5, decreasing=1e-3, tol=1e-5)),
                             ("ICP", [(m, None) for m in icps[1:]], dict(steps=200, patience=5, decreasing=1e-3, tol=1e-5))):
        for (m, x0) in objs:
            costs = []
            st = m.stepper
            orig = st.step

            def spy(loss, orig=orig, costs=costs):
                costs.append(plain_loss(loss))
                return orig(loss)
            st.step = spy
            try:
                if which == "MPC":
                    ok, _ = ck.call("driver.defaults", which, "module.MPC.forward", lambda: m(1, x0))
                else:
                    src = torch.as_tensor(rng.uniform(-1, 1, (40, 3)))
                    ang = 0.3
                    Rm = torch.tensor([[np.cos(ang), -np.sin(ang), 0.0], [np.sin(ang), np.cos(ang), 0.0], [0.0, 0.0, 1.0]], dtype=torch.float64)
                    ok, _ = ck.call("driver.defaults", which, "module.ICP.forward", lambda: m(src, src @ Rm.T + 0.05))
            finally:
                st.step = orig
            if not ok:
                continue
            ref = RefBason(**doc)
            stop_at = None
            for i_, c_ in enumerate(costs):
                ref.step(c_)
                if not ref.cont and stop_at is None:
                    stop_at = i_ + 1
            ck.count("driver.defaults", which, key=(which, id(m)))
            w = {"driver": which, "documented_default": doc, "controller_steps": len(costs), "reference_first_stop_at": stop_at,
                 "reference_cause": list(ref.cause), "costs": costs[:12]}
            if ref.ambiguous:
                ck.note_add("driver_defaults_ambiguous_skipped")
                continue
            ck.check(stop_at == len(costs), "driver.defaults", which, f"module.{which}.forward",
                     "loop_of_a_default_built_object_does_not_follow_the_documented_default_controller", w)
            ck.mark("driver.defaults/" + which)


def drive_icp(ck, rng, n):
    monitor, entry = "driver.ICP", "module.ICP.forward"
    icp_mod = sys.modules["pypose.module.icp"]
    for i in range(n):
        steps, patience = int(rng.integers(1, 7)), int(rng.choice([1, 2, 3, 4, 50]))
        tol = float(rng.choice([1e-5, -1.0]))
        if i == 0:                                      # one case per shard in which only the budget can stop the loop
            steps, patience, tol = int(rng.integers(3, 7)), 50, -1.0
        batch = [(), (2,), (3,)][int(rng.integers(0, 3))]
        regime = f"batch{len(batch)}/pat{'big' if patience == 50 else 'small'}/tol{tol:g}"
        npts = int(rng.integers(6, 30))
        src = torch.as_tensor(rng.standard_normal(batch + (npts, 3)))
        nb = int(np.prod(batch)) if batch else 1
        tf = lie.random_group("SE3", rng, nb, torch.float64, max_angle=0.3, t_scale=0.1)
        tf = pp.LieTensor(tf.tensor().reshape(batch + (7,)), ltype=pp.SE3_type)
        tgt = tf.unsqueeze(-2).Act(src) + 0.01 * torch.as_tensor(rng.standard_normal(batch + (npts, 3)))
        stepper = pp.utils.ReduceToBason(steps=steps, patience=patience, decreasing=1e-3, tol=tol, verbose=bool(i % 2))
        try:
            icp = pp.module.ICP(stepper=stepper)
        except Exception as e:
            ck.violation(monitor, regime, "module.ICP", "raised:" + type(e).__name__, {"exc": repr(e)[:300]})
            continue
        for rerun in range(2):
            log = {"svd_cont": [], "ctrl_steps": 0}
            orig_svdtf, st_step = icp_mod.svdtf, stepper.step

            def spy_svdtf(*a, **k):
                log["svd_cont"].append(cont_of(stepper))
                if len(log["svd_cont"]) > steps + 8:
                    raise RuntimeError("harness: runaway driver loop cut off")
                return orig_svdtf(*a, **k)

            def spy_step(loss):
                log["ctrl_steps"] += 1
                return st_step(loss)

            icp_mod.svdtf, stepper.step = spy_svdtf, spy_step
            cut = False
            try:
                icp(src, tgt)
            except RuntimeError as e:
                if "runaway" not in str(e):
                    ck.violation(monitor, regime, entry, "raised:RuntimeError", {"exc": repr(e)[:300], "steps": steps})
                    break
                cut = True
            except Exception as e:
                ck.violation(monitor, regime, entry, "raised:" + type(e).__name__, {"exc": repr(e)[:300], "steps": steps})
                break
            finally:
                icp_mod.svdtf, stepper.step = orig_svdtf, st_step
            w = {"steps": steps, "patience": patience, "tol": tol, "batch": list(batch), "second_forward": bool(rerun),
                 "controller_steps": log["ctrl_steps"], "svdtf_calls": len(log["svd_cont"]),
                 "continual_at_each_svdtf_call": log["svd_cont"], "cut_off_by_harness": cut}
            ck.count(monitor, regime + ("/second-call" if rerun else ""), key=(i, ck.shard, steps, patience, rerun))
            ck.check(log["ctrl_steps"] <= steps and not cut, monitor, regime, entry, "more_than_budget_steps", w)
            ck.check(cut or log["svd_cont"] == [True] * log["ctrl_steps"] + [False], monitor, regime, entry,
                     "svdtf_calls_do_not_follow_controller", w)
            if patience == 50 and tol < 0 and log["ctrl_steps"] == steps:
                ck.mark("driver.ICP/budget-binding")
            if i < 1 and rerun == 0:
                ck.sample({"driver": "ICP.forward", **w})


# ---------------------------------------------------------------------------------------------
def run(ck):
    with contextlib.redirect_stdout(NullOut()):         # verbose controllers print; the messages are not judged
        _run(ck)


def _run(ck):
    thorough = ck.tier == "thorough"
    bad = automata_selftest()
    if bad:
        ck.inconclusive_because("reference automata fail their hand-written traces: " + ", ".join(bad))
        return
    depth = 7 if thorough else 6
    rtb_letters = LETTERS if thorough else LETTERS[:5]
    reset_depth = 5 if thorough else 4

    # ---- 3: random sequences
    nseq = 1500 if thorough else 250
    random_rtb(ck, ck.rng("random-rtb"), nseq)
    random_sop(ck, ck.rng("random-sop"), nseq)

    # ---- 4: driver loops
    nd = 40 if thorough else 10
    drive_optimize(ck, ck.rng("drive-opt"), nd)
    drive_mpc(ck, ck.rng("drive-mpc"), nd)
    drive_icp(ck, ck.rng("drive-icp"), nd)
    if ck.shard == 0:
        drive_defaults(ck, ck.rng("drive-defaults"))
        stored_handles(ck, ck.rng("handles"))
    ck.require("stored-handles")
    ck.require("driver.defaults/MPC", "driver.defaults/ICP", "random.StopOnPlateau/restored-from-state_dict/while-running")

    # ---- 1+2: prefix trees (work items = controller x configuration, split over the shards)
    # ReduceToBason items cost several StopOnPlateau items: deal them from opposite ends of the shard list.
    # Loss scale (start value) and verbose vary with the configuration index.
    cfgs = [(s, p) for s in range(1, 7) for p in range(1, 5)]
    items = [("RtB", s, p, j % ck.nshards, j) for j, (s, p) in enumerate(cfgs)] + \
            [("SoP", s, p, (ck.nshards - 1 - j) % ck.nshards, j) for j, (s, p) in enumerate(cfgs)]
    n_sop = sum(6 ** l for l in range(1, depth + 1))
    n_rtb = sum(len(rtb_letters) ** l for l in range(1, depth + 1))
    for c, s, p, owner, j in items:
        if owner != ck.shard:
            continue
        if ck.n_violations > FLOOD:
            ck.note_add("tree_configurations_skipped_after_violation_flood", 1)
            continue
        tally = Tally()
        trng = ck.rng(f"tree/{c}/{s}/{p}")
        if c == "SoP":
            start, verbose = (2.0 ** 6, 2.0 ** -6, 2.0 ** 14)[j % 3], bool(j % 2)
            tree_sop(ck, s, p, depth, trng, tally, StubLM, start=start, verbose=verbose)
            mon, expected = "tree.StopOnPlateau", n_sop
        else:
            start, verbose = (1.0, 2.0 ** 10, 2.0 ** -4)[j % 3], j % 6 == 5
            tree_rtb(ck, s, p, depth, trng, tally, reset_depth=reset_depth, letters=rtb_letters, start=start, verbose=verbose)
            mon, expected = "tree.ReduceToBason", n_rtb
        if verbose:
            ck.mark(mon + "/verbose")
        ck.mark(f"{mon}/start{start:g}")
        if tally.flooded:
            ck.note_add("tree_configurations_cut_short_after_violation_flood", 1)
        elif tally.nodes != expected:
            ck.inconclusive_because(f"tree {c} steps={s} patience={p}: visited {tally.nodes} nodes, expected {expected}")
        for cause, n in sorted(tally.by_cause.items()):
            ck.count(mon, f"steps{s}/pat{p}/first-stop:{cause}", n=n, key=(c, s, p, cause))
            ck.mark(f"{mon}/first-stop:{cause}", n)
        # nodes not ending a first stop (still running, or already stopped before)
        rest = tally.nodes - sum(tally.by_cause.values())
        ck.count(mon, f"steps{s}/pat{p}/other-nodes", n=rest, key=(c, s, p, "other"))
        ck.count("suffix." + mon.split(".")[1], f"steps{s}/pat{p}", n=tally.suffix_steps, key=(c, s, p, "suffix"))
        ck.note_add("tree_histories_enumerated", tally.nodes)
        ck.note_add("tree_configurations_swept", 1)
    ck.note("tree_depth", depth)
    ck.note("tree_space", "every concrete loss history up to depth %d over the abstract alphabet {D,d,E,I,B,R} for every (steps 1..6) x "
                          "(patience 1..4) of both controllers (ReduceToBason: %s); exhaustive refers to this depth-bounded space only; "
                          "the suffixes to length 12 are sampled (one per leaf)"
            % (depth, "R = unchanged loss passed as a 1-element tensor" if thorough else
               "R has the same concrete losses as E and is not enumerated twice: 5 children per node"))
    ck.exhaustive = ck.n_violations <= FLOOD
    # a GN-like stub (no reject_count attribute) on a few configurations as well
    extra = [(s, p) for s in (2, 6) for p in (1, 3)]
    for idx, (s, p) in enumerate(extra):
        if ck.mine(idx) and ck.n_violations <= FLOOD:
            tally = Tally()
            tree_sop(ck, s, p, min(depth, 5), ck.rng(f"treeGN/{s}/{p}"), tally, StubGN, verbose=bool(idx % 2))
            ck.count("tree.StopOnPlateau", f"steps{s}/pat{p}/no-reject_count-attribute", n=tally.nodes, key=("GN", s, p))

    # ---- required regimes / floors
    for mon in ("tree.StopOnPlateau", "tree.ReduceToBason"):
        ck.require(f"{mon}/first-stop:budget", f"{mon}/first-stop:patience", f"{mon}/first-stop:budget+patience",
                   f"{mon}/verbose")
    ck.require("driver.optimize/step-with-rejections-then-accepted", "random.ReduceToBason/loss-buffer-reused-in-place", "random.ReduceToBason/decreasing=1e-9")
    ck.require("driver.optimize/second-call-on-stopped-scheduler", "tree.StopOnPlateau/first-stop:rejected", "tree.ReduceToBason/first-stop:tol",
               "tree.StopOnPlateau/start64", "tree.StopOnPlateau/start0.015625", "tree.StopOnPlateau/start16384",
               "reset/after-plateau-steps", "reset/after-plateau-steps/negative-first-loss",
               "random.ReduceToBason/first-stop:budget", "random.ReduceToBason/first-stop:patience",
               "random.ReduceToBason/first-stop:tol", "random.ReduceToBason/batched-with-some-below-tol",
               "random.ReduceToBason/verbose", "random.StopOnPlateau/verbose",
               "random.StopOnPlateau/first-stop:budget", "random.StopOnPlateau/first-stop:patience",
               "random.StopOnPlateau/first-stop:rejected", "driver.MPC/budget-binding", "driver.ICP/budget-binding")
    ck.floor("tree.StopOnPlateau", 24 * n_sop)
    ck.floor("tree.ReduceToBason", 24 * n_rtb)
    ck.floor("reset.ReduceToBason", 24 * sum(len(rtb_letters) ** l for l in range(1, reset_depth + 1)))
    ck.floor("random.ReduceToBason", 200)
    ck.floor("random.StopOnPlateau", 200)
    ck.floor("driver.optimize", 20)
    ck.floor("driver.MPC", 40)
    ck.floor("driver.ICP", 40)
