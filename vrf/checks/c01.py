"""C01 — Exp is the matrix exponential on so3, se3, rxso3, sim3.

Monitor: every Exp call of the workload is compared with the matrix exponential of the
generator (longdouble scaling-and-squaring oracle without case splits; a sample of every run
is compared with mpmath.expm directly, and the oracle itself is validated against mpmath).
"""
import numpy as np
import torch
import pypose as pp

from .. import gen, lie
from ..oracles import lie_ref as L

PID = "C01"
LEVEL = "exploration"
SHARDS = {"quick": 4, "thorough": 16}
TIMEOUT = {"quick": 900, "thorough": 5400}
RULE = ("Cartesian ladder per component block (rotation angle x log-scale x translation norm; exact 0, "
        "1e-30..1e-3, dense around eps and sqrt(eps) of the dtype, O(1), angles to 3*pi incl. pi and 2*pi "
        "+-1e-12..1e-3, |sigma|<=8, |tau|<=1e6) with random and axis-aligned directions, both dtypes, all "
        "four algebras, plus random inputs in batch shapes of rank 0-3 incl. empty. One case = one algebra "
        "vector; distinct = distinct input bit patterns; trivial = the all-zero vector.")
ASSUME = ["longdouble scaling-and-squaring Taylor oracle (validated each run against mpmath.expm at 50 digits)",
          "translation tolerance 8*sqrt(eps)*|t_ref| + 64*eps*|tau|*max(1,e^sigma) (relative error in the norm of "
          "the translation block, plus the backward-stable floor needed where W(phi,sigma) tau cancels)",
          "CPU only"]

C_ROT, C_TRANS_REL, C_TRANS_ABS, C_QUAT = 64.0, 8.0, 64.0, 16.0


def regime(kind, dn, th, sg, ta, u):
    return f"{kind}/{dn}/th:{gen.cls_angle(th, u)}/sg:{gen.cls_small(sg, u)}/ta:{gen.cls_trans(ta)}"


def band_marks(ck, kind, dn, th, sg, u):
    """Coarse required regimes defined on input classes."""
    su = np.sqrt(u)
    has_s = kind in ("rxso3", "sim3")
    tag = f"band/{kind}/{dn}/"
    if has_s:
        a = "th<=u" if th <= u else "th>u"
        b = "sg<=u" if abs(sg) <= u else "sg>u"
        ck.mark(tag + a + "&" + b)
        if u < th < su and u < abs(sg) < su:
            ck.mark(tag + "both-in-(u,sqrt(u))")
    else:
        ck.mark(tag + ("th<=u" if th <= u else "th>u"))
    if th > np.pi:
        ck.mark(tag + "th>pi")


def monitor_exp(ck, kind, dn, x64, monitor="exp_ld", mp_budget=0, rng=None, observed=None):
    """x64: (N, d) float64 rows (already representable in dtype or not: they are rounded to the
    dtype first and the *rounded* values are what the oracle sees)."""
    dtype = lie.DT[dn]
    u = lie.u_of(dtype)
    G = L.ALG2GRP[kind]
    x = lie.lt(kind, x64, dtype)
    entry = f"{kind}.Exp"
    if observed is not None:        # an Exp call made by some other workload (globally attached observer)
        X = lie.lt(G, observed, dtype)
    else:
        okc, X = ck.call(monitor, f"{kind}/{dn}", entry, lambda: x.Exp(), witness={"n": int(x.shape[0])})
        if not okc:
            return
    xin = x.tensor().detach().double().numpy()
    out = X.tensor().detach().double().numpy()
    ck.check(X.ltype is lie.LT[G] and X.dtype == dtype and tuple(X.shape) == (xin.shape[0], L.GRP[G]),
             monitor, f"{kind}/{dn}", entry, "type_or_shape", {"ltype": str(X.ltype), "shape": list(X.shape)})
    E = L.exp_matrix(kind, xin)
    M = L.group_matrix(G, out)
    tau, phi, sigma = L.split_alg(kind, xin)
    th = np.sqrt((phi * phi).sum(-1)).astype(np.float64)
    nt = np.sqrt((tau * tau).sum(-1)).astype(np.float64)
    sg = sigma.astype(np.float64)
    s = np.exp(sg)
    d_rot = np.abs(M[:, :3, :3] - E[:, :3, :3]).max((-1, -2)).astype(np.float64)
    tol_rot = C_ROT * u * s
    d_t = np.sqrt(((M[:, :3, 3] - E[:, :3, 3]) ** 2).sum(-1)).astype(np.float64)
    tref = np.sqrt((E[:, :3, 3] ** 2).sum(-1)).astype(np.float64)
    tol_t = C_TRANS_REL * np.sqrt(u) * tref + C_TRANS_ABS * u * nt * np.maximum(1.0, s) + 1e3 * lie.tiny_of(dtype)
    _, q, _ = L.split_grp(G, out)
    d_q = np.abs(L.quat_norm(q) - 1).astype(np.float64)

    def wit(i):
        return {"kind": kind, "dtype": dn, "x": xin[i].tolist(), "x_hex": [float(v).hex() for v in xin[i]],
                "out": out[i].tolist(), "theta": float(th[i]), "sigma": float(sg[i]), "tau_norm": float(nt[i]),
                "t_ref": np.asarray(E[i, :3, 3], dtype=np.float64).tolist(),
                "t_got": np.asarray(M[i, :3, 3], dtype=np.float64).tolist()}

    # regime bookkeeping (per item)
    keys = [regime(kind, dn, th[i], sg[i], nt[i], u) for i in range(len(th))]
    uniq, cnt = np.unique(np.array(keys), return_counts=True)
    nz = np.abs(xin).sum(-1) > 0
    for k, c in zip(uniq, cnt):
        ck.count(monitor, k, n=int(c), nontrivial=False)
    from ..core import row_digests, key_digest
    ck.digests.update(int(d) ^ key_digest((kind, dn)) for d in row_digests(xin[nz]))
    for i in range(len(th)):
        band_marks(ck, kind, dn, th[i], sg[i], u)
    ck.ratios(monitor, f"{kind}/{dn}", d_rot, tol_rot, entry, "rotation_scale_block", wit)
    if kind in ("se3", "sim3"):
        ck.ratios(monitor + ".trans", f"{kind}/{dn}", d_t, tol_t, entry, "translation_block", wit)
        ck.monitors[monitor + ".trans"]["calls"] += len(th)
    else:
        ck.check(bool(np.all(M[:, :3, 3] == 0)), monitor, f"{kind}/{dn}", entry, "translation_nonzero")
    ck.ratios(monitor + ".unitq", f"{kind}/{dn}", d_q, C_QUAT * u, entry, "unit_quaternion", wit)
    ck.monitors[monitor + ".unitq"]["calls"] += len(th)
    ck.note_max("max_rot_err_over_u", float((d_rot / (u * s)).max()) if len(th) else 0)
    if len(ck.samples) < 6 and len(th):
        j = int(len(th) // 2)
        ck.sample({"kind": kind, "dtype": dn, "x_hex": [float(v).hex() for v in xin[j]],
                   "Exp_x": out[j].tolist(), "rot_err_over_eps": float(d_rot[j] / u), "trans_err": float(d_t[j])})

    # direct mpmath comparison of a sample (pypose vs mp, and oracle vs mp)
    if mp_budget and len(th):
        idx = rng.choice(len(th), size=min(mp_budget, len(th)), replace=False)
        for i in idx:
            Em = L.mp_to_ld(L.mp_expm(L.generator(kind, xin[i])))
            o = oracle_gap(E[i], Em, nt[i], s[i])
            ck.note_max("max_oracle_vs_mpmath", o)
            if o > 0.5:
                ck.inconclusive_because(f"longdouble oracle disagrees with mpmath by {o:.2e} float64 error units at {xin[i].tolist()}")
            dr = float(np.abs(M[i, :3, :3] - Em[:3, :3]).max())
            dt_ = float(np.sqrt(((M[i, :3, 3] - Em[:3, 3]) ** 2).sum()))
            tr = float(np.sqrt((Em[:3, 3] ** 2).sum()))
            ck.count("exp_mp", keys[i], key=(kind, dn, xin[i].tobytes()), nontrivial=bool(nz[i]))
            ck.ratio("exp_mp", keys[i], dr, tol_rot[i], entry, "rotation_scale_block", lambda: wit(i))
            if kind in ("se3", "sim3"):
                ck.ratio("exp_mp", keys[i], dt_, C_TRANS_REL * np.sqrt(u) * tr + C_TRANS_ABS * u * nt[i] * max(1.0, s[i])
                         + 1e3 * lie.tiny_of(dtype), entry, "translation_block", lambda: wit(i))


def oracle_gap(E, Em, tau_norm, s):
    """Discrepancy of the two reference matrices in units of the float64 error scale of each
    block (eps*s for the rotation/scale block, sqrt(eps)|t| + eps |tau| max(1,s) for the translation)."""
    u = 2.0 ** -52
    a = float(np.abs(E[:3, :3] - Em[:3, :3]).max()) / (u * s)
    nt = float(np.sqrt((Em[:3, 3] ** 2).sum()))
    den = np.sqrt(u) * nt + u * tau_norm * max(1.0, s)
    b = float(np.sqrt(((E[:3, 3] - Em[:3, 3]) ** 2).sum())) / den if den > 0 else float(np.abs(E[:3, 3]).max())
    return max(a, b)


def ladder_inputs(kind, u, rng, reps):
    """(N, d) float64 rows: Cartesian ladder with random directions, `reps` directions per cell."""
    A = np.array(gen.angle_ladder(u))
    S = np.array(gen.sigma_ladder(u)) if kind in ("rxso3", "sim3") else np.array([0.0])
    T = np.array(gen.trans_ladder()) if kind in ("se3", "sim3") else np.array([0.0])
    a, s, t = np.meshgrid(A, S, T, indexing="ij")
    a, s, t = a.reshape(-1), s.reshape(-1), t.reshape(-1)
    a, s, t = np.tile(a, reps), np.tile(s, reps), np.tile(t, reps)
    n = a.size
    axis = gen.unit_vectors(rng, n)
    tdir = gen.unit_vectors(rng, n)
    # a quarter of the translations parallel / orthogonal to the axis (exercises V*tau cancellation at 2*pi)
    k = n // 8
    tdir[:k] = axis[:k]
    orth = np.cross(axis[k:2 * k], gen.unit_vectors(rng, k, 0.0))
    orth /= np.maximum(np.linalg.norm(orth, axis=-1, keepdims=True), 1e-300)
    tdir[k:2 * k] = orth
    return np.asarray(L.join_alg(kind, tdir * t[:, None], axis * a[:, None], s), dtype=np.float64)


def run(ck):
    rng = ck.rng("c01")
    thorough = ck.tier == "thorough"
    reps = 3 if thorough else 1
    mp_budget = 700 if thorough else 60
    for dn in ("f64", "f32"):
        u = lie.u_of(lie.DT[dn])
        for kind in lie.ALGS:
            X = ladder_inputs(kind, u, rng, reps * (4 if kind in ("so3", "se3") else 1))
            # chunks keep mixed regimes inside one batched call (masked assignment paths)
            perm = rng.permutation(len(X))
            X = X[perm]
            for c in np.array_split(X, max(1, len(X) // 20000)):
                monitor_exp(ck, kind, dn, c, mp_budget=mp_budget, rng=rng)
            # uniform regimes inside one call (all items in the same branch), incl. single items
            for th in (0.0, u / 2, u, 2 * u, np.sqrt(u), 1.0, np.pi, 4.0):
                d = L.ALG[kind]
                row = np.zeros((1, d))
                tau, phi, sig = np.zeros(3), np.array([0.0, th, 0.0]), 0.0
                for sg in ((0.0, u, np.sqrt(u) / 2, -0.3) if kind in ("rxso3", "sim3") else (0.0,)):
                    row = np.asarray(L.join_alg(kind, np.array([[1.0, -2.0, 0.5]]), phi[None], np.array([sg])), dtype=np.float64)
                    monitor_exp(ck, kind, dn, row, monitor="exp_single")
        # batch shapes (rank 0..3, empty): the op on a shaped tensor equals the op on its items
        for kind in lie.ALGS:
            d = L.ALG[kind]
            Xl = ladder_inputs(kind, u, rng, 1)
            for shp in gen.batch_shapes():
              for source in ("scaled-normal", "ladder-mix"):
                n_ = int(np.prod(shp, dtype=np.int64))
                if source == "ladder-mix" and n_ < 2:
                    continue
                # ladder-mix: items of all regimes (exact zeros, thresholds, large) inside one shaped call
                x = rng.standard_normal(shp + (d,)) * rng.choice([1e-9, 1e-3, 1.0, 2.5]) if source == "scaled-normal" else \
                    Xl[rng.integers(0, len(Xl), n_)].reshape(shp + (d,))
                xt = lie.lt(kind, x, lie.DT[dn])
                okc, Y = ck.call("exp_shape", f"{kind}/{dn}/{shp}", f"{kind}.Exp", lambda: xt.Exp())
                if not okc:
                    continue
                G = L.ALG2GRP[kind]
                ck.count("exp_shape", f"{kind}/{dn}/rank{len(shp)}{'/empty' if 0 in shp else ''}/{source}", key=str(shp),
                         nontrivial=0 not in shp)
                ck.check(tuple(Y.shape) == shp + (L.GRP[G],) and Y.ltype is lie.LT[G] and Y.dtype == lie.DT[dn],
                         "exp_shape", str(shp), f"{kind}.Exp", "type_or_shape", {"shape": list(Y.shape)})
                if 0 not in shp:
                    flat = lie.lt(kind, xt.tensor().reshape(-1, d), lie.DT[dn]).Exp().tensor()
                    # same values up to round-off of differently shaped matmul kernels (not bitwise)
                    dlt = (flat.reshape(Y.shape) - Y.tensor()).abs().max().item()
                    ck.ratio("exp_shape", str(shp), dlt, 8 * lie.u_of(lie.DT[dn]) * (1 + Y.tensor().abs().max().item()),
                             f"{kind}.Exp", "batched_differs_from_flat", {"shape": list(shp)})
                    monitor_exp(ck, kind, dn, xt.tensor().reshape(-1, d).double().numpy(), monitor="exp_shape_items")
        for kind in lie.ALGS:
            tag = f"band/{kind}/{dn}/"
            if kind in ("rxso3", "sim3"):
                ck.require(tag + "th<=u&sg<=u", tag + "th<=u&sg>u", tag + "th>u&sg<=u", tag + "th>u&sg>u",
                           tag + "both-in-(u,sqrt(u))", tag + "th>pi")
            else:
                ck.require(tag + "th<=u", tag + "th>u", tag + "th>pi")
    # ---- realistic driver: Exp calls made inside optimisers, IMU integration, splines (attached observer)
    from .. import attach

    def on_exp(kind, x, X):
        dn = "f64" if x.dtype == torch.float64 else "f32" if x.dtype == torch.float32 else None
        if dn is not None and torch.isfinite(x).all():
            monitor_exp(ck, kind, dn, x.double().numpy(), monitor="exp_attached", observed=X)
    with attach.observe(on_exp=on_exp) as st:
        for dt in (torch.float64, torch.float32):
            attach.realistic_workloads(rng, dt, steps=10 if thorough else 6)
    if ck.shard == ck.nshards - 1:
        attach.run_repository_tests(ck, ["exp"])        # the repository's own tests, Exp monitor attached
        ck.require("suite/ran_under_monitors")
    ck.note_add("attached_exp_calls", st["exp_calls"])
    ck.note_add("attached_skipped", st["skipped"])
    if ck.shard == 0:
        from .. import history
        history.run(ck, "C01", reps=4 if ck.tier == "thorough" else 2)
    ck.floor("exp_attached", 50)
    ck.floor("exp_ld", 1000)
    ck.floor("exp_mp", 20)
