"""C06, monitor 3: no public function without a trailing underscore changes its tensor arguments.

A registry supplies a valid call for each public callable; every tensor reachable from the call
arguments is snapshotted (bitwise, NaN-aware) before the call and compared afterwards.  An ATen
write-watch (TorchDispatchMode) names the in-place op that wrote into an argument's storage; the
verdict is the value comparison (a write of identical values is not a violation).
"""
import inspect

import numpy as np
import torch
import pypose as pp
from torch import nn

from .. import lie, instrument
from ..oracles import lie_ref as L

F64 = torch.float64


def G(k, *shape, g=None):
    from .c06 import rand_group
    return rand_group(k, shape, F64, g)


def A(k, *shape, g=None):
    from .c06 import rand_alg
    return rand_alg(k, shape, F64, g)


def R(*shape, g=None):
    return torch.randn(*shape, generator=g, dtype=F64)


def spd(n, g):
    M = R(n, n, g=g)
    return M @ M.mT + n * torch.eye(n, dtype=F64)


def registry(g):
    """list of (public name, thunk) ; thunk() -> (callable, args, kwargs)."""
    reg = []

    def add(name, fn):
        reg.append((name, fn))

    for k in lie.GRPS:
        a = L.GRP2ALG[k]
        add(f"Exp[{a}]", lambda a=a: (pp.Exp, (A(a, 3, g=g),), {}))
        add(f"Log[{k}]", lambda k=k: (pp.Log, (G(k, 3, g=g),), {}))
        add(f"Inv[{k}]", lambda k=k: (pp.Inv, (G(k, 3, g=g),), {}))
        add(f"Mul[{k}]", lambda k=k: (pp.Mul, (G(k, 3, g=g), G(k, 1, g=g)), {}))
        add(f"mul[{k}]", lambda k=k: (pp.mul, (G(k, 3, g=g), G(k, 3, g=g)), {}))
        add(f"Act[{k}]", lambda k=k: (pp.Act, (G(k, 3, g=g), R(3, 3, g=g)), {}))
        add(f"Act4[{k}]", lambda k=k: (pp.Act, (G(k, 3, g=g), R(3, 4, g=g)), {}))
        add(f"Adj[{k}]", lambda k=k, a=a: (pp.Adj, (G(k, 3, g=g), A(a, 3, g=g)), {}))
        add(f"AdjT[{k}]", lambda k=k, a=a: (pp.AdjT, (G(k, 3, g=g), A(a, 3, g=g)), {}))
        add(f"Jinvp[{k}]", lambda k=k, a=a: (pp.Jinvp, (G(k, 3, g=g), A(a, 3, g=g)), {}))
        add(f"Retr[{k}]", lambda k=k, a=a: (pp.Retr, (G(k, 3, g=g), A(a, 3, g=g)), {}))
        add(f"add[{k}]", lambda k=k, a=a: (pp.add, (G(k, 3, g=g), A(a, 3, g=g)), {}))
        add(f"add[{k},alpha,bigger]", lambda k=k, a=a: (pp.add, (G(k, 1, g=g), A(a, 2, 3, g=g)), {"alpha": 0.5}))
        add(f"__add__[{k}]", lambda k=k, a=a: (lambda X, y: X + y, (G(k, 3, g=g), A(a, 3, g=g).tensor()), {}))
        add(f"__matmul__[{k}]", lambda k=k: (lambda X, Y: X @ Y, (G(k, 3, g=g), G(k, 3, g=g)), {}))
        add(f"__mul__[{a},scalar]", lambda a=a: (lambda x: x * 2.0, (A(a, 3, g=g),), {}))
        add(f"matrix[{k}]", lambda k=k: (pp.matrix, (G(k, 3, g=g),), {}))
        add(f"matrix[{a}]", lambda a=a: (pp.matrix, (A(a, 3, g=g),), {}))
        add(f"rotation[{k}]", lambda k=k: (pp.rotation, (G(k, 3, g=g),), {}))
        add(f"translation[{k}]", lambda k=k: (pp.translation, (G(k, 3, g=g),), {}))
        add(f"scale[{k}]", lambda k=k: (pp.scale, (G(k, 3, g=g),), {}))
        add(f"tensor[{k}]", lambda k=k: (pp.tensor, (G(k, 3, g=g),), {}))
        add(f"euler[{k}]", lambda k=k: (pp.euler, (G(k, 3, g=g),), {}))
        add(f"lview[{k}]", lambda k=k: (lambda X: X.lview(3, 1), (G(k, 3, g=g),), {}))
        add(f"quat2unit[{k}]", lambda k=k: (pp.quat2unit, (pp.LieTensor(G(k, 3, g=g).tensor() * 1.7, ltype=lie.LT[k]),), {}))
        add(f"cumprod[{k}]", lambda k=k: (pp.cumprod, (G(k, 5, g=g),), {"dim": 0}))
        add(f"cummul[{k}]", lambda k=k: (pp.cummul, (G(k, 5, g=g),), {"dim": 0}))
        add(f"cumops[{k}]", lambda k=k: (pp.cumops, (G(k, 5, g=g), 0, lambda a_, b_: a_ @ b_), {}))
        add(f"LieTensor.cumprod[{k}]", lambda k=k: (lambda X: X.cumprod(0, left=False), (G(k, 6, g=g),), {}))
        add(f"LieTensor.cumprod[left][{k}]", lambda k=k: (lambda X: X.cumprod(0), (G(k, 4, g=g),), {}))
        add(f"LieTensor.cummul[{k}]", lambda k=k: (lambda X: X.cummul(0, left=False), (G(k, 6, g=g),), {}))
        add(f"LieTensor.cummul[left][{k}]", lambda k=k: (lambda X: X.cummul(0), (G(k, 4, g=g),), {}))
        add(f"LieTensor.cumops[{k}]", lambda k=k: (lambda X: X.cumops(0, lambda a_, b_: b_ @ a_), (G(k, 5, g=g),), {}))
        add(f"identity_like[{k}]", lambda k=k: (pp.identity_like, (G(k, 3, g=g),), {}))
        add(f"randn_like[{k}]", lambda k=k: (pp.randn_like, (G(k, 3, g=g),), {}))
        add(f"from_matrix[{k}]", lambda k=k: (pp.from_matrix, (G(k, 3, g=g).matrix(),), {"ltype": lie.LT[k]}))
        add(f"mat2{k}", lambda k=k: (getattr(pp, f"mat2{k}"), (G(k, 3, g=g).matrix(),), {}))
        add(f"Parameter[{k}]", lambda k=k: (pp.Parameter, (G(k, 3, g=g),), {}))
    add("Jr[so3]", lambda: (pp.Jr, (A("so3", 3, g=g),), {}))
    add("Jr[SO3]", lambda: (pp.Jr, (G("SO3", 3, g=g),), {}))
    add("euler2SO3", lambda: (pp.euler2SO3, (R(4, 3, g=g),), {}))
    add("vec2skew", lambda: (pp.vec2skew, (R(4, 3, g=g),), {}))
    add("is_lietensor", lambda: (pp.is_lietensor, (G("SE3", 2, g=g),), {}))
    add("is_SE3", lambda: (pp.is_SE3, (G("SE3", 2, g=g),), {}))
    add("hasnan", lambda: (pp.hasnan, ([R(3, g=g), (R(2, g=g), G("SO3", 2, g=g))],), {}))
    add("pm", lambda: (pp.pm, (R(5, g=g),), {}))
    add("bmv", lambda: (pp.bmv, (R(2, 3, 4, g=g), R(2, 4, g=g)), {}))
    add("bvv", lambda: (pp.bvv, (R(2, 3, g=g), R(2, 4, g=g)), {}))
    add("bvmv", lambda: (pp.bvmv, (R(2, 3, g=g), R(2, 3, 4, g=g), R(2, 4, g=g)), {}))
    add("cart2homo", lambda: (pp.cart2homo, (R(5, 3, g=g),), {}))
    add("homo2cart", lambda: (pp.homo2cart, (R(5, 4, g=g) + 3,), {}))
    K = lambda: torch.tensor([[300., 0, 160], [0, 310, 120], [0, 0, 1]], dtype=F64)
    pts = lambda n=6: R(n, 3, g=g) + torch.tensor([0., 0, 4.], dtype=F64)
    add("point2pixel", lambda: (pp.point2pixel, (pts(), K()), {"extrinsics": G("SE3", g=g)}))
    add("pixel2point", lambda: (pp.pixel2point, (R(6, 2, g=g), R(6, g=g).abs() + 1, K()), {}))
    add("reprojerr", lambda: (pp.reprojerr, (pts(), R(6, 2, g=g), K()), {"extrinsics": G("SE3", g=g), "reduction": "norm"}))
    add("knn", lambda: (pp.knn, (R(7, 3, g=g), R(9, 3, g=g)), {"k": 2, "ord": 2}))
    add("svdtf", lambda: (pp.svdtf, (R(8, 3, g=g), R(8, 3, g=g)), {}))
    add("svdstf", lambda: (pp.svdstf, (R(8, 3, g=g), R(8, 3, g=g)), {}))
    add("nbr_filter", lambda: (pp.nbr_filter, (R(20, 3, g=g), 2, 1.5), {}))
    add("voxel_filter", lambda: (pp.voxel_filter, (R(20, 3, g=g), [0.7, 0.7, 0.7]), {}))
    add("voxel_filter[random]", lambda: (pp.voxel_filter, (R(20, 3, g=g), [0.7, 0.7, 0.7]), {"random": True}))
    add("knn_filter", lambda: (pp.knn_filter, (R(20, 3, g=g), 2), {}))
    add("knn_filter[radius]", lambda: (pp.knn_filter, (R(20, 3, g=g), 2), {"radius": 2.5}))
    add("random_filter", lambda: (pp.random_filter, (R(20, 3, g=g), 5), {}))
    add("chspline", lambda: (pp.chspline, (R(5, 3, g=g),), {"interval": 0.3}))
    add("bspline", lambda: (pp.bspline, (G("SE3", 6, g=g),), {"interval": 0.3}))
    add("bspline[extrapolate]", lambda: (pp.bspline, (G("SE3", 6, g=g),), {"interval": 0.3, "extrapolate": True}))
    add("geodesic_loss", lambda: (pp.geodesic_loss, (G("SO3", 5, g=g), G("SO3", 5, g=g)), {}))
    add("module.GeodesicLoss", lambda: (pp.module.GeodesicLoss(reduction="sum"), (G("SE3", 5, g=g), G("SE3", 5, g=g)), {}))
    # metrics
    def traj(n=12):
        st = torch.arange(n, dtype=F64) * 0.1
        return st, G("SE3", n, g=g)
    def ape_args(**kw):
        s1, p1 = traj(); s2, p2 = traj()
        return (pp.metric.ape, (s1, p1, s2 + 0.001, p2), kw)
    add("metric.ape", lambda: ape_args())
    add("metric.ape[offset,align]", lambda: ape_args(toffset=0.004, align=True) if "toffset" in inspect.signature(pp.metric.ape).parameters
        else ape_args(**{[p for p in inspect.signature(pp.metric.ape).parameters if "offset" in p][0]: 0.004, "align": True}))
    def rpe_args(**kw):
        s1, p1 = traj(); s2, p2 = traj()
        return (pp.metric.rpe, (s1, p1, s2 + 0.001, p2), kw)
    add("metric.rpe", lambda: rpe_args())
    add("metric.rpe[offset]", lambda: rpe_args(**{[p for p in inspect.signature(pp.metric.rpe).parameters if "offset" in p][0]: 0.004}))
    # solvers, kernels, correctors
    S = pp.optim.solver
    add("solver.PINV", lambda: (S.PINV(), (R(2, 5, 3, g=g), R(2, 5, 1, g=g)), {}))
    add("solver.LSTSQ", lambda: (S.LSTSQ(), (R(2, 5, 3, g=g), R(2, 5, 1, g=g)), {}))
    add("solver.Cholesky", lambda: (S.Cholesky(), (spd(4, g), R(4, 1, g=g)), {}))
    add("solver.CG", lambda: (S.CG(), (spd(5, g), R(5, 1, g=g)), {}))
    add("solver.CG[x0,M]", lambda: (S.CG(), (spd(5, g), R(5, 1, g=g)), {"x": R(5, 1, g=g), "M": torch.eye(5, dtype=F64) * 0.2}))
    for kn in ("Huber", "PseudoHuber", "Cauchy", "SoftLOne", "Arctan", "Tolerant", "Scale"):
        add(f"kernel.{kn}", lambda kn=kn: (getattr(pp.optim.kernel, kn)(), (R(6, g=g).abs(),), {}))
    for cn in ("FastTriggs", "Triggs"):
        add(f"corrector.{cn}", lambda cn=cn: (getattr(pp.optim.corrector, cn)(pp.optim.kernel.Huber(0.5)), (), {"R": R(4, 3, g=g), "J": R(12, 5, g=g)}))
    add("corrector.Triggs[convex]", lambda: (pp.optim.corrector.Triggs(_Convex()), (), {"R": R(4, 3, g=g), "J": R(12, 5, g=g)}))
    # optimisers: step(input, target, weight) must not change its data arguments
    def opt_args(cls, **kw):
        class Net(nn.Module):
            def __init__(s):
                super().__init__()
                s.pose = pp.Parameter(G("SE3", 3, g=g))

            def forward(s, inp):
                return (s.pose @ inp).Log().tensor()
        net = Net()
        opt = cls(net, **kw)
        return (opt.step, (G("SE3", 3, g=g),), {"target": R(3, 6, g=g) * 0.01, "weight": torch.eye(6, dtype=F64) * 2})
    add("optim.GN.step", lambda: opt_args(pp.optim.GN))
    add("optim.LM.step", lambda: opt_args(pp.optim.LM, strategy=pp.optim.strategy.Adaptive(damping=1e-3), vectorize=False))
    add("optim.LM.step[kernel]", lambda: opt_args(pp.optim.LM, kernel=pp.optim.kernel.Huber(0.1), corrector=pp.optim.corrector.FastTriggs(pp.optim.kernel.Huber(0.1))))
    def modjac_args():
        lin = nn.Linear(3, 2).double()
        return (pp.optim.functional.modjac, (lin, R(4, 3, g=g)), {"flatten": True})
    add("functional.modjac", modjac_args)
    add("func.jacrev", lambda: (pp.func.jacrev(lambda X, p: X @ p), (G("SE3", 2, g=g), R(2, 3, g=g)), {}))
    # dynamics, filters, controllers
    def lti(n=3, m=2, p=2):
        return pp.module.LTI(R(n, n, g=g) * 0.3, R(n, m, g=g), R(p, n, g=g), R(p, m, g=g), R(n, g=g), R(p, g=g))
    add("module.LTI", lambda: (lti(), (R(3, g=g), R(2, g=g)), {}))
    add("module.LTI.set_refpoint", lambda: (lti().set_refpoint, (), {"state": R(3, g=g), "input": R(2, g=g), "t": torch.tensor(2.)}))
    class LinNLS(pp.module.NLS):
        """Linear dynamics written as an NLS (the filters document an NLS model)."""
        def __init__(s, A_, B_, C_, D_):
            super().__init__()
            s.A_, s.B_, s.C_, s.D_ = A_, B_, C_, D_

        def state_transition(s, state, input, t=None):
            return pp.bmv(s.A_, state) + pp.bmv(s.B_, input)

        def observation(s, state, input, t=None):
            return pp.bmv(s.C_, state) + pp.bmv(s.D_, input)

    def filt(cls):
        sysm = LinNLS(R(3, 3, g=g) * 0.3, R(3, 2, g=g), R(2, 3, g=g), R(2, 2, g=g))
        f = cls(sysm)
        return (f, (R(3, g=g), R(2, g=g), R(2, g=g), spd(3, g), spd(3, g) * 0.1, spd(2, g) * 0.1), {})
    class RandomWalkNLS(pp.module.NLS):
        """Constant-state model: the transition hands back the tensor (or a view of the tensor) it was given."""
        def __init__(s, C_, view):
            super().__init__()
            s.C_, s.view = C_, view

        def state_transition(s, state, input, t=None):
            return state[..., :] if s.view else state

        def observation(s, state, input, t=None):
            return pp.bmv(s.C_, state)

    def filt_rw(cls, view):
        f = cls(RandomWalkNLS(R(2, 3, g=g), view))
        return (f, (R(3, g=g), R(2, g=g), R(2, g=g), spd(3, g), spd(3, g) * 0.1, spd(2, g) * 0.1), {})
    for cls_ in ("EKF", "UKF", "PF"):
        add(f"module.{cls_}[transition returns its argument]", lambda cls_=cls_: filt_rw(getattr(pp.module, cls_), False))
        add(f"module.{cls_}[transition returns a view of its argument]", lambda cls_=cls_: filt_rw(getattr(pp.module, cls_), True))
    add("module.EKF", lambda: filt(pp.module.EKF))
    add("module.UKF", lambda: filt(pp.module.UKF))
    add("module.PF", lambda: filt(pp.module.PF))
    def lqr_args():
        n, m, T, B = 3, 2, 4, 2
        sysm = pp.module.LTI(R(B, n, n, g=g) * 0.4, R(B, n, m, g=g), torch.eye(n, dtype=F64).repeat(B, 1, 1), torch.zeros(B, n, m, dtype=F64), R(B, n, g=g), torch.zeros(B, n, dtype=F64))
        Q = torch.stack([torch.stack([spd(n + m, g) for _ in range(T)]) for _ in range(B)])
        p = R(B, T, n + m, g=g)
        return (pp.module.LQR(sysm, Q, p, T), (R(B, n, g=g),), {"u_traj": R(B, T, m, g=g)})
    add("module.LQR", lqr_args)
    def mpc_args():
        n, m, T = 3, 2, 4
        sysm = pp.module.LTI(R(1, n, n, g=g) * 0.4, R(1, n, m, g=g), torch.eye(n, dtype=F64)[None], torch.zeros(1, n, m, dtype=F64), R(1, n, g=g), torch.zeros(1, n, dtype=F64))
        Q = torch.stack([spd(n + m, g) for _ in range(T)])[None]
        p = R(1, T, n + m, g=g)
        mpc = pp.module.MPC(sysm, Q, p, T, stepper=pp.utils.ReduceToBason(steps=3))
        return (mpc, (1, R(1, n, g=g)), {"u_init": R(1, T, m, g=g)})
    add("module.MPC", mpc_args)
    def imu_args():
        imu = pp.module.IMUPreintegrator(pos=torch.zeros(3), rot=pp.identity_SO3(), vel=torch.zeros(3)).double()
        F = 7
        return (imu, (), {"dt": R(1, F, 1, g=g).abs() * 0.01 + 0.01, "gyro": R(1, F, 3, g=g), "acc": R(1, F, 3, g=g), "rot": G("SO3", 1, F, g=g)})
    add("module.IMUPreintegrator", imu_args)
    def icp_args():
        src = R(1, 30, 3, g=g)
        T = G("SE3", 1, g=g)
        T = pp.LieTensor(pp.LieTensor(A("se3", 1, g=g).tensor() * 0.05, ltype=pp.se3_type).Exp().tensor(), ltype=pp.SE3_type)
        tgt = T.unsqueeze(-2).Act(src)
        return (pp.module.ICP(stepper=pp.utils.ReduceToBason(steps=5)), (src, tgt), {})
    add("module.ICP", icp_args)
    def epnp_args():
        P = R(2, 12, 3, g=g) + torch.tensor([0., 0, 6.], dtype=F64)
        Kc = K().repeat(2, 1, 1)
        px = pp.point2pixel(P, Kc)
        return (pp.module.EPnP(), (P, px, Kc), {})
    add("module.EPnP", epnp_args)
    # strategies / schedulers: update(pg, last, loss, J, D, R) data arguments
    def strat(cls, **kw):
        s = cls(**kw)
        pg = dict(s.defaults) if hasattr(s, "defaults") else {}
        pg = {k_: v for k_, v in s.defaults.items()}
        return (s.update, (pg,), {"last": torch.tensor(2.0, dtype=F64), "loss": torch.tensor(1.0, dtype=F64), "J": R(6, 3, g=g), "D": R(3, 1, g=g), "R": R(6, 1, g=g)})
    add("strategy.Adaptive.update", lambda: strat(pp.optim.strategy.Adaptive))
    add("strategy.TrustRegion.update", lambda: strat(pp.optim.strategy.TrustRegion))
    add("strategy.Constant.update", lambda: strat(pp.optim.strategy.Constant))
    add("ReduceToBason.step", lambda: (pp.utils.ReduceToBason(steps=3).step, (torch.tensor([1.0, 2.0], dtype=F64),), {}))
    return reg


class _Convex(nn.Module):
    def forward(self, x):
        return x + 0.5 * x * x


def public_surface():
    """Public callables discovered by introspection (for the coverage report)."""
    names = set()
    skip = {"get_version", "import_module", "lru_cache", "retain_ltype"}
    for n in dir(pp):
        o = getattr(pp, n)
        if n.startswith("_") or n.endswith("_") or n in skip:
            continue
        if n.startswith(("randn_", "identity_")) and not n.endswith("_like"):
            continue        # constructors from sizes: no tensor argument to mutate
        if inspect.isfunction(o):
            names.add(n)
    for mod, pre in ((pp.metric, "metric."), (pp.func, "func.")):
        for n in dir(mod):
            if not n.startswith("_") and inspect.isfunction(getattr(mod, n)):
                names.add(pre + n)
    for n in ("PINV", "LSTSQ", "Cholesky", "CG"):
        names.add("solver." + n)
    for n in ("Huber", "PseudoHuber", "Cauchy", "SoftLOne", "Arctan", "Tolerant", "Scale"):
        names.add("kernel." + n)
    for n in ("FastTriggs", "Triggs"):
        names.add("corrector." + n)
    for n in ("EKF", "UKF", "PF", "LQR", "MPC", "LTI", "IMUPreintegrator", "ICP", "EPnP", "GeodesicLoss"):
        names.add("module." + n)
    for n in ("GN.step", "LM.step"):
        names.add("optim." + n)
    names.add("functional.modjac")
    return names


def purity_monitor(ck, g):
    reg = registry(g)
    surface = public_surface()
    covered = set()
    for rep in range(2):
        for name, thunk in reg:
            base = name.split("[")[0]
            try:
                fn, args, kwargs = thunk()
            except Exception as e:
                raise RuntimeError(f"registry entry {name} could not build its arguments: {e!r}")
            ts = instrument.tensors_in((args, kwargs))
            snaps = instrument.snapshot(ts)
            ww = instrument.WriteWatch(ts)
            wit = {"function": name, "n_argument_tensors": len(ts)}
            with ww:
                okc, _ = ck.call("purity", base, base, fn, *args, witness=wit, **kwargs)
            ck.count("purity", base, key=(name, rep))
            bad = instrument.changed(ts, snaps)
            ck.note_add("aten_ops_seen", ww.ops)
            if ww.writes:
                ck.note_add("writes_into_argument_storage_seen", len(ww.writes))
            ck.check(not bad, "purity", base, base, "argument_tensor_modified",
                     lambda: dict(wit, changed_argument_indices=bad, aten_writes=[w[0] for w in ww.writes][:6],
                                  shapes=[list(ts[i].shape) for i in bad]))
            covered.add(base)
    unc = sorted(n for n in surface if n not in covered and not any(c.startswith(n) or n.startswith(c) for c in covered))
    ck.note("purity_registry_entries", len(reg))
    ck.note("purity_public_surface", len(surface))
    ck.note("purity_uncovered", unc)
    ck.floor("purity", 150)
