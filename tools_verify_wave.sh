#!/bin/bash
k=$1; P1=$2; P2=$3
for i in 1 2 3 4 5 6; do [ -d /tmp/seed9_$k/_out/$i ] || continue; p=$P1; [ $i -ge 4 ] && p=$P2; /tmp/fx/verify_seed.sh /tmp/seed9_$k $i ${p}_r$i $p; done
