"""Deliberate property-breaking changes (mutants) run against the checks.

    python -m vrf.selfcheck C01 [name-substring]      # all mutants under selfcheck/C01/*.diff
    python -m vrf.selfcheck --seeded [id]             # sub-agent changes under seeded/<id>/patch.diff

Each patch is applied to a scratch copy of the repository's package outside /repo and /verif
(deleted afterwards); the quick check must exit 1 with a VIOLATION line.  Nothing is written
to /repo.  Evidence files produced by these runs are restored afterwards.
"""
import glob
import json
import os
import shutil
import subprocess
import sys
import tempfile
import time

ROOT = os.path.dirname(os.path.dirname(os.path.abspath(__file__)))
REPO = "/repo"


def run_mutant(pid, patch, tier="quick", reverse=False, seed=0, extra_env=None):
    tmp = tempfile.mkdtemp(prefix="vrf_mut_")
    try:
        shutil.copytree(os.path.join(REPO, "pypose"), os.path.join(tmp, "pypose"),
                        ignore=shutil.ignore_patterns("__pycache__"))
        cmd = ["patch", "-p1", "-s", "-d", tmp, "-i", os.path.abspath(patch)]
        if reverse:
            cmd.insert(1, "-R")
        r = subprocess.run(cmd, capture_output=True, text=True)
        if r.returncode != 0:
            return {"patch": patch, "status": "patch-failed", "out": r.stdout + r.stderr}
        env = dict(os.environ, VERIF_REPO=tmp, VERIF_SEED=str(seed))
        env.update(extra_env or {})
        ev = os.path.join(ROOT, "evidence", f"{pid}.json")
        keep = open(ev).read() if os.path.exists(ev) else None
        t0 = time.time()
        r = subprocess.run([sys.executable, "-m", "vrf", "check", pid, "--tier", tier, "--seed", str(seed)],
                           capture_output=True, text=True, cwd=ROOT, env=env)
        if keep is not None:
            open(ev, "w").write(keep)
        lines = [l for l in r.stdout.splitlines() if l.startswith(("VIOLATION", "INCONCLUSIVE", "HARNESS", "  witness"))]
        return {"patch": os.path.relpath(patch, ROOT), "rc": r.returncode, "wall": round(time.time() - t0, 1),
                "status": "caught" if r.returncode == 1 else "MISSED" if r.returncode == 0 else f"rc{r.returncode}",
                "lines": lines[:4], "tail": (r.stdout + r.stderr)[-600:] if r.returncode not in (0, 1) else ""}
    finally:
        shutil.rmtree(tmp, ignore_errors=True)


def main():
    args = sys.argv[1:]
    results = []
    if args and args[0] == "--seeded":
        ids = sorted(os.listdir(os.path.join(ROOT, "seeded")))
        if len(args) > 1:
            ids = [i for i in ids if args[1] in i]
        for i in ids:
            d = os.path.join(ROOT, "seeded", i)
            meta = json.load(open(os.path.join(d, "meta.json")))
            for pid in meta.get("checks", [meta["property"]]):
                res = run_mutant(pid, os.path.join(d, "patch.diff"))
                res["seeded"] = i
                results.append(res)
                print(json.dumps(res))
    else:
        pid = args[0]
        sub = args[1] if len(args) > 1 else ""
        for p in sorted(glob.glob(os.path.join(ROOT, "selfcheck", pid, "*.diff"))):
            if sub and sub not in p:
                continue
            res = run_mutant(pid, p, reverse=os.path.basename(p).startswith("revert_"))
            results.append(res)
            print(json.dumps(res))
    missed = [r for r in results if r["status"] != "caught"]
    print(f"{len(results) - len(missed)}/{len(results)} caught")
    return 1 if missed else 0


if __name__ == "__main__":
    sys.exit(main())
