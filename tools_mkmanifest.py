#!/venv/bin/python
"""Regenerates MANIFEST.json from the table below (run after adding a check)."""
import json, os, subprocess
ROOT = os.path.dirname(os.path.abspath(__file__))
PY = "/venv/bin/python"
CHECKS = {
 "C01": dict(cat="exploration", tech="reference-model monitor: every Exp call vs longdouble/mpmath matrix exponential on hostile magnitude ladders",
             text="Runtime monitor compares every Exp result of a hostile ladder workload (all four algebras, both dtypes, dense around eps/sqrt(eps), angles to 3*pi, batch ranks 0-3) with an independent matrix exponential; held on the executions observed, not a proof.",
             note="Trusted: numpy longdouble scaling-and-squaring oracle (validated against mpmath each run); tolerances 64*eps (rotation/scale), 8*sqrt(eps) relative + 64*eps*|tau| floor (translation); CPU only.", ref="DESIGN.md §3 C01"),
}
NOT_BUILT = "check not built yet (in progress); no claim is made for this property in this commit"
def main():
    props = [json.loads(l) for l in open(os.path.join(ROOT, "properties.jsonl"))]
    checks, na = [], []
    for p in props:
        pid = p["id"]
        c = CHECKS.get(pid)
        if c is None or not os.path.exists(os.path.join(ROOT, "vrf", "checks", pid.lower() + ".py")):
            na.append({"property_id": pid, "reason": NOT_BUILT}); continue
        checks.append({
            "property_id": pid,
            "quick_cmd": f"{PY} -m vrf check {pid} --tier quick",
            "thorough_cmd": f"{PY} -m vrf check {pid} --tier thorough",
            "evidence_file": f"/verif/evidence/{pid}.json",
            "replay_cmd_template": f"{PY} -m vrf check {pid} --replay {{path}}",
            "engine": "vrf",
            "level_claimed": {"category": c["cat"], "text": c["text"], "design_ref": c["ref"]},
            "level_note": c["note"],
            "technique": c["tech"],
        })
    man = {
      "version": 1,
      "setup_cmd": "./setup.sh",
      "hooks": {"guard": "PYPOSE_VERIF", "enable": "no source hooks: all monitors, spies and failpoints are attached at run time by the harness (wrappers on public callables, TorchDispatchMode, sys.monitoring); checks import the working tree of /repo directly (VERIF_REPO)",
                "baseline_off_cmd": "cd /repo && /venv/bin/python -m pytest -ra -q -p no:cacheprovider --timeout=900 --continue-on-collection-errors",
                "source_commits": [], "add_only": True},
      "engines": [{"name": "vrf", "path": "/verif/vrf", "serves_properties": [c["property_id"] for c in checks],
                   "kind_free_text": "runtime monitoring: reference-model monitors, contracts, trace checkers, fault injection, dynamic sanitizers (NaN anomaly mode, ATen write-watch, patch-leak)"}],
      "checks": checks,
      "notes": "Runtime monitoring only. Exit 0 held-on-observed, 1 VIOLATION, 3 INCONCLUSIVE (never on the unchanged tree), 2 harness error. Genuine defects found on the original tree were repaired by 18 'fix:' commits in /repo (listed as fixed in known_findings.json).",
      "not_applicable": na,
    }
    json.dump(man, open(os.path.join(ROOT, "MANIFEST.json"), "w"), indent=1)
    import sys; sys.path.append(os.path.join(ROOT, ".deps"))
    import jsonschema
    jsonschema.validate(man, json.load(open("/root/.vp/MANIFEST.schema.json")))
    print("MANIFEST ok:", len(checks), "checks,", len(na), "not claimed")
if __name__ == "__main__":
    main()
