"""pypose-side helpers (the only place where check code maps names to pypose types)."""
import numpy as np
import torch
import pypose as pp

from .oracles import lie_ref as L

LT = {"so3": pp.so3_type, "se3": pp.se3_type, "rxso3": pp.rxso3_type, "sim3": pp.sim3_type,
      "SO3": pp.SO3_type, "SE3": pp.SE3_type, "RxSO3": pp.RxSO3_type, "Sim3": pp.Sim3_type}
ALGS = ("so3", "se3", "rxso3", "sim3")
GRPS = ("SO3", "SE3", "RxSO3", "Sim3")
DT = {"f32": torch.float32, "f64": torch.float64}


def kind_of(x):
    for k, v in LT.items():
        if x.ltype is v:
            return k
    raise KeyError(x.ltype)


def lt(kind, data, dtype=torch.float64):
    """LieTensor of the given kind from array-like data (rounded to dtype)."""
    if isinstance(data, torch.Tensor):
        t = data.to(dtype)
    else:
        t = torch.as_tensor(np.asarray(data, dtype=np.float64)).to(dtype)
    return pp.LieTensor(t, ltype=LT[kind])


def u_of(dtype):
    return float(torch.finfo(dtype).eps)


def tiny_of(dtype):
    return float(torch.finfo(dtype).tiny)


def random_group(kind, rng, n, dtype=torch.float64, max_angle=np.pi, sigma_max=1.0, t_scale=1.0,
                 adversarial=False):
    """Valid group elements built directly from (axis, angle, t, s) in longdouble and rounded
    to dtype (unit quaternion up to rounding)."""
    axis = rng.standard_normal((n, 3))
    ang = rng.uniform(0, max_angle, n)
    if adversarial:
        pick = rng.integers(0, 6, n)
        ang = np.where(pick == 0, np.pi - 10.0 ** rng.uniform(-9, -2, n), ang)
        ang = np.where(pick == 1, 10.0 ** rng.uniform(-12, -3, n), ang)
    q = L.axis_angle_quat(axis, ang)
    sign = rng.choice([-1.0, 1.0], n)
    q = q * sign[:, None]
    t = rng.standard_normal((n, 3)) * t_scale
    if adversarial:
        t = t * (10.0 ** rng.integers(-6, 7, (n, 1)))
    s = np.exp(rng.uniform(-sigma_max, sigma_max, n))
    X = L.join_grp(kind, L.ld(t), q, L.ld(s))
    return lt(kind, np.asarray(X, dtype=np.float64), dtype)


def random_alg(kind, rng, n, dtype=torch.float64, scale=1.0):
    d = L.ALG[kind]
    return lt(kind, rng.standard_normal((n, d)) * scale, dtype)


def rows(*tensors):
    """Stack the per-item inputs of a batched evaluation as rows for distinct counting."""
    parts = []
    for t in tensors:
        if isinstance(t, torch.Tensor):
            t = t.detach().cpu().double().numpy()
        t = np.asarray(t, dtype=np.float64)
        parts.append(t.reshape(-1, t.shape[-1]) if t.ndim > 1 else t.reshape(-1, 1))
    n = max(p.shape[0] for p in parts)
    parts = [np.broadcast_to(p, (n, p.shape[1])) if p.shape[0] != n else p for p in parts]
    return np.concatenate(parts, -1)
