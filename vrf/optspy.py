"""Spies at the client boundary of the second-order optimisers, residual-model generators and
the finite-difference Jacobian oracle used by C07 and C08.

Every observation point is an object the *user* supplies (solver, strategy, corrector, model)
or a public method of the optimiser instance wrapped from outside; nothing in /repo is edited.
"""
import copy

import numpy as np
import torch
import pypose as pp
from torch import nn
from torch.func import functional_call

from . import lie
from .oracles import lie_ref as L

F64 = torch.float64


class Trace:
    def __init__(self):
        self.events = []

    def add(self, kind, **kw):
        self.events.append(dict(kind=kind, **kw))

    def of(self, kind):
        return [e for e in self.events if e["kind"] == kind]


def raw(p):
    return (p.tensor() if isinstance(p, pp.LieTensor) else p).detach().clone()


def param_snapshot(model):
    return {n: raw(p) for n, p in model.named_parameters()}


class SpySolver(nn.Module):
    """Records (A, b) of every call (clones: LM modifies A in place between trials), the damping in
    force, and forwards to the real solver; can raise at the j-th call of the run (fault injection)."""

    def __init__(self, solver, trace, optimizer_ref, fail_at=None):
        super().__init__()
        self.solver, self.trace, self.opt, self.fail_at = solver, trace, optimizer_ref, fail_at
        self.calls = 0

    def forward(self, A, b):
        self.calls += 1
        opt = self.opt[0]
        pg = opt.param_groups[0] if opt is not None else {}
        ev = dict(A=A.detach().clone(), b=b.detach().clone(), damping=pg.get("damping"), n=self.calls, raised=False,
                  params=param_snapshot(opt.model.model) if opt is not None else None)
        if self.fail_at is not None and self.calls == self.fail_at:
            ev["raised"] = True
            self.trace.add("SOLVE", **ev)
            raise RuntimeError(f"injected solver failure at call {self.calls}")
        x = self.solver(A, b)
        ev["x"] = x.detach().clone()
        self.trace.add("SOLVE", **ev)
        return x


class SpyStrategy:
    def __init__(self, strategy, trace):
        self.strategy, self.trace = strategy, trace
        self.defaults = strategy.defaults

    def __getattr__(self, k):
        return getattr(self.__dict__["strategy"], k)

    def update(self, pg, last, loss, J, D, R, *a, **kw):
        before = {k: pg[k] for k in ("damping", "radius", "down") if k in pg}
        args = dict(last=last.detach().clone(), loss=loss.detach().clone(), J=J.detach().clone(), D=D.detach().clone(), R=R.detach().clone())
        self.strategy.update(pg, last=last, loss=loss, J=J, D=D, R=R, *a, **kw)
        after = {k: pg[k] for k in ("damping", "radius", "down") if k in pg}
        self.trace.add("STRATEGY", before=before, after=after, consts={k: pg[k] for k in ("high", "low", "up", "factor") if k in pg}, **args)


class SpyCorrector(nn.Module):
    def __init__(self, corrector, trace, idx=0):
        super().__init__()
        self.corrector, self.trace, self.idx = corrector, trace, idx

    def forward(self, R, J):
        Ri, Ji = R.detach().clone(), J.detach().clone()
        Ro, Jo = self.corrector(R=R, J=J)
        self.trace.add("CORRECT", idx=self.idx, R_in=Ri, J_in=Ji, R_out=Ro.detach().clone(), J_out=Jo.detach().clone())
        return Ro, Jo


def attach(opt, trace):
    """Wrap loss() and update_parameter() of this optimiser instance (instance attributes)."""
    model = opt.model
    orig_loss = model.loss
    orig_upd = opt.update_parameter

    def loss(input, target):
        v = orig_loss(input, target)
        trace.add("LOSS", value=v.detach().clone(), params=param_snapshot(model.model))
        return v

    def update_parameter(params, step):
        before = param_snapshot(model.model)
        orig_upd(params, step)
        trace.add("UPDATE", step=step.detach().clone(), before=before, after=param_snapshot(model.model))

    model.loss = loss
    opt.update_parameter = update_parameter


# ------------------------------------------------------------------ residual models
class ResidualModel(nn.Module):
    """Parameters `p0..` of mixed kinds; forward(*data) returns one residual tensor or a tuple."""

    def __init__(self, kinds, values, fn, frozen=()):
        super().__init__()
        self.kinds, self.fn = kinds, fn
        for i, (k, v) in enumerate(zip(kinds, values)):
            p = pp.Parameter(pp.LieTensor(v.clone(), ltype=lie.LT[k])) if k != "R" else nn.Parameter(v.clone())
            if i in frozen:
                p.requires_grad_(False)
            setattr(self, f"p{i}", p)

    def plist(self):
        return [getattr(self, f"p{i}") for i in range(len(self.kinds))]

    def forward(self, *data, **named):
        if named:           # the optimisers also accept the model input as a dict of keyword arguments
            data = tuple(named[f"d{i}"] for i in range(len(named)))
        return self.fn(self.plist(), data)


def tangent_dim(kind, p):
    return L.MANIFOLD[kind] if kind != "R" else p.shape[-1] if p.dim() else 1


def perturbed(kind, value, idx, h):
    """value moved by h along tangent coordinate idx (flat index over lshape x tangent dim)."""
    if kind == "R":
        v = value.clone()
        v.reshape(-1)[idx] += h
        return v
    m = L.MANIFOLD[kind]
    lshape = tuple(value.shape[:-1])
    d = torch.zeros(lshape + (m,), dtype=value.dtype)
    d.reshape(-1)[idx] = h
    if kind in lie.ALGS:
        return value + d
    a = L.GRP2ALG[kind]
    return (pp.LieTensor(d, ltype=lie.LT[a]).Exp() @ pp.LieTensor(value, ltype=lie.LT[kind])).tensor()


def residuals_at(model, values, data):
    """Stacked residual vector with the parameters replaced by `values` (no grad)."""
    pd = {}
    for i, (k, v) in enumerate(zip(model.kinds, values)):
        pd[f"p{i}"] = pp.LieTensor(v, ltype=lie.LT[k]) if k != "R" else v
    with torch.no_grad():
        out = functional_call(model, pd, tuple(data))
    out = out if isinstance(out, (tuple, list)) else (out,)
    return [o.tensor() if isinstance(o, pp.LieTensor) else o for o in out]


def fd_jacobian(model, data, targets=None, h=2e-3):
    """Reference Jacobian of the stacked residuals in the *raw column layout* the optimiser uses
    (p.numel() columns per trainable parameter; for group parameters the manifold-dim tangent
    columns of a left perturbation followed by one zero column per item).  Central differences
    with one Richardson step, float64."""
    values = [raw(p) for p in model.plist()]
    train = [p.requires_grad for p in model.plist()]

    def stack(vals):
        rs = residuals_at(model, vals, data)
        if targets is not None:
            rs = [r - t if t is not None else r for r, t in zip(rs, targets)]
        return torch.cat([r.reshape(-1) for r in rs])
    r0 = stack(values)
    cols = []
    spread = 0.0
    for i, (k, v) in enumerate(zip(model.kinds, values)):
        if not train[i]:
            continue
        if k == "R":
            ncoord, block = v.numel(), None
        else:
            m = L.MANIFOLD[k]
            ncoord, block = int(np.prod(v.shape[:-1])) * m if v.dim() > 1 else m, m
        Jp = torch.zeros(r0.numel(), v.numel(), dtype=F64)
        for c in range(ncoord):
            def at(s):
                vals = list(values)
                vals[i] = perturbed(k, v, c, s)
                return stack(vals)
            d1 = (at(h) - at(-h)) / (2 * h)
            d2 = (at(h / 2) - at(-h / 2)) / h
            col = (4 * d2 - d1) / 3
            spread = max(spread, float((d2 - d1).abs().max()))
            if block is None:
                Jp[:, c] = col
            else:
                item, j = divmod(c, block)
                Jp[:, item * v.shape[-1] + j] = col
        cols.append(Jp)
    return torch.cat(cols, 1), r0, spread


def expand_weight(weights, residuals):
    """Reference block-diagonal expansion of the documented broadcastable weight shapes."""
    if weights is None:
        return None
    weights = weights if isinstance(weights, (list, tuple)) else [weights]
    blocks = []
    for w, r in zip(weights, residuals):
        R = r.shape[-1]
        if R == 1 and (w.dim() == 0 or w.shape[-1] != 1 or w.dim() < 2):
            w = w.reshape(w.shape + (1, 1)) if w.dim() == r.dim() - 1 or w.dim() == 0 else w
        full = w.expand(tuple(r.shape[:-1]) + (R, R)).reshape(-1, R, R)
        blocks += [b for b in full]
    return torch.block_diag(*blocks)
