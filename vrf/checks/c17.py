"""C17 — point-set alignment (svdtf, svdstf), ICP and EPnP return the optimal / true transform.

Observation point: the returned LieTensor's raw components, turned into a 4x4 matrix by the
reference model (lie_ref.group_matrix) and applied to the input points.

  svdtf / svdstf   proper element (unit quaternion, finite, s > 0); sum of squared residuals not
                   larger than (a) the reference optimum (own Kabsch / Umeyama, numpy float64) and
                   (b) ~50 random transforms of the same class near the returned one; exact
                   correspondences reproduced; true transform recovered where it is determined.
  ICP              mean squared closest-point distance (brute force) of the result never larger
                   than that of the initial transform; small exact rigid perturbations recovered
                   whenever the textbook iteration (reference ICP) recovers them.
  EPnP             pose recovered from exact projections, with and without refinement.
"""
import copy
import numpy as np
import torch
import pypose as pp

from ..oracles import geom_ref as G
from ..oracles import lie_ref as L

PID = "C17"
LEVEL = "exploration"
SHARDS = {"quick": 4, "thorough": 16}
TIMEOUT = {"quick": 1200, "thorough": 7200}
RULE = ("Alignment: N in 3..200 corresponding points; source kinds generic (anisotropic Gaussian), planar, thin slab "
        "(thickness 1e-8..1e-2), collinear, duplicated (2..N/2 distinct points repeated), minimal 3-point (generic, right "
        "and nearly collinear triangles), regular solids (equal singular values); magnitudes 0.1/1/10 with centroid offsets "
        "0/1/10x; target = s R source + t computed in longdouble and rounded to the dtype, R uniform over SO(3) or exactly "
        "identity / pi about an axis, s log-uniform in [0.1,10] (svdstf; also fed to svdtf as a model mismatch), |t| up to "
        "100, plus isotropic noise 0 / 1e-8 / 1e-3 / 0.05 / 0.5 of the extent (reflection-prone for small or flat sets); "
        "items of different kinds are mixed inside one batched call (batch shapes (), (B,), (B1,B2)); float64 and float32. "
        "ICP: uniform clouds of 4..200 points, target = exactly transformed source in shuffled order (optionally with "
        "extra target points), perturbation <= 5 deg about the centroid and <= 5 % of the extent relative to the initial "
        "transform (None / constructor / forward argument); the recovery claim is judged only where the reference ICP "
        "(numpy, run until the matching is stationary) recovers the transform (= inside the convergence basin; the others "
        "are counted); monotonicity is judged on every run, including 60 deg / 50 % perturbations, noisy and partially "
        "overlapping targets, steppers limited to 1..5 steps, reused ICP objects and batches. EPnP: N in 6..100 points with "
        "camera depth in [zmin, zmin*ratio], zmin 0.3..30, ratio 1.2..5 (spread in depth), half field of view 0.05..1, "
        "world pose uniform over SO(3), fx, fy in 1..3000, principal point -100..1000, refine on/off, intrinsics through the "
        "constructor or the call, single and batched; non-degenerate means (sigma_1/sigma_11)^2 <= 1e10 for the 2N x 12 EPnP "
        "system built by the oracle (the others are counted and not judged). One case = one (function, input) item; "
        "distinct = distinct input bytes; trivial = none.")
ASSUME = ["reference Kabsch / Umeyama with the det(U)det(V) sign correction in numpy float64 (geom_ref), residual sums in "
          "longdouble; the 50-perturbation test does not depend on it",
          "optimality tolerance: SSE <= SSE_other*(1+1e-9) + 64*u*(s*(|S|+sqrt(N)|c_s|) + |Q|+sqrt(N)|c_t|)^2 — first order in u "
          "because along a direction whose curvature is ~u|M| the optimum is decided by rounding noise",
          "exact correspondences: max residual <= 64*u*(max|target| + s*max|source| + |t| + min(|M|/sqrt(lam), pi*sqrt(lam)/u)) "
          "with lam the smallest rotational curvature d2 +- d3 of the cost (a backward-stable solver leaves an SSE excess "
          "(u|M|)^2/lam); equality with the true transform only if lam >= 1e-6*(d1+d2), tolerance 64*u*kappa with kappa = 4|M|/lam (rotation block) "
          "and 64*u*(1+kappa)*(|t|+s|c_s|+|c_t|+s|S|) (translation)",
          "ICP convergence basin = set of inputs on which the reference closest-point iteration reaches the true transform",
          "EPnP tolerance 4096*u*(sigma_1/sigma_11)^2 on the rotation angle and on |t - t_true| / |camera-frame centroid| "
          "(calibration on the unchanged tree: worst observed error / (u*cond^2) = 244 over 1200 cases, worst absolute "
          "error 2e-6 rad / 8e-6 at N = 6 without refinement)",
          "ICP and EPnP are run in float64 only; CPU only"]

DT = {"f64": torch.float64, "f32": torch.float32}
NPDT = {"f64": np.float64, "f32": np.float32}
C = 64.0
C_PNP = 4096.0
REL = 1e-9
KINDS = ("generic", "planar", "thin", "collinear", "duplicated", "minimal3", "regular")
NOISES = (0.0, 0.0, 1e-8, 1e-3, 0.05, 0.5)


def u_of(dn):
    return float(torch.finfo(DT[dn]).eps)


def rnd(a, dn):
    return np.asarray(a, dtype=np.float64).astype(NPDT[dn]).astype(np.float64)


def tt(a, dn="f64"):
    return torch.as_tensor(np.ascontiguousarray(a), dtype=torch.float64).to(DT[dn])


def rr(ck, mon, reg, err, tol, entry, mech, wit=None):
    err = np.asarray(err, dtype=np.float64)
    tol = np.broadcast_to(np.asarray(tol, dtype=np.float64), err.shape).reshape(-1)
    ck.count(mon, "/".join(reg.split("/")[:2]), n=int(err.size), nontrivial=False)
    return ck.ratios(mon, reg, err.reshape(-1), tol, entry, mech, wit)


# ------------------------------------------------------------------------------- generators
def rotmat(rng, how="uniform"):
    if how == "identity":
        q = np.array([0.0, 0.0, 0.0, 1.0])
    elif how == "pi":
        q = np.zeros(4)
        q[int(rng.integers(0, 3))] = 1.0
    elif how == "pi-generic":
        a = rng.standard_normal(3)
        q = np.concatenate([a / np.linalg.norm(a), [0.0]])
    else:
        q = G.random_quat(rng, 1)[0]
    return q


SOLIDS = {
    "tetra": np.array([[1, 1, 1], [1, -1, -1], [-1, 1, -1], [-1, -1, 1]], dtype=np.float64),
    "cube": np.array([[x, y, z] for x in (-1, 1) for y in (-1, 1) for z in (-1, 1)], dtype=np.float64),
    "octa": np.array([[1, 0, 0], [-1, 0, 0], [0, 1, 0], [0, -1, 0], [0, 0, 1], [0, 0, -1]], dtype=np.float64),
    "square": np.array([[1, 1, 0], [1, -1, 0], [-1, -1, 0], [-1, 1, 0]], dtype=np.float64),
    "triangle": np.array([[1, 0, 0], [-0.5, np.sqrt(0.75), 0], [-0.5, -np.sqrt(0.75), 0]], dtype=np.float64),
}


def source_cloud(rng, kind, n):
    """(n,3) float64 source cloud of the given kind."""
    if kind == "generic":
        x = rng.standard_normal((n, 3)) * rng.uniform(0.2, 1.0, 3)
    elif kind in ("planar", "thin"):
        x = rng.standard_normal((n, 3))
        x[:, 2] = 0.0 if kind == "planar" else x[:, 2] * 10.0 ** rng.uniform(-8, -2)
        x = x @ np.asarray(L.quat_R(G.random_quat(rng, 1)[0]), dtype=np.float64).T
    elif kind == "collinear":
        d = rng.standard_normal(3)
        x = rng.standard_normal((n, 1)) * d[None] if rng.random() < 0.7 else np.linspace(-1, 1, n)[:, None] * d[None]
    elif kind == "duplicated":
        m = int(rng.integers(2, max(3, n // 2 + 1)))
        base = rng.standard_normal((m, 3))
        idx = np.concatenate([np.arange(m), rng.integers(0, m, max(0, n - m))])[:n]
        x = base[rng.permutation(idx)]
    elif kind == "minimal3":
        how = int(rng.integers(0, 3))
        if how == 0:
            x = rng.standard_normal((3, 3))
        elif how == 1:       # the docstring's right triangle, in a random frame
            x = np.array([[0.0, 0, 0], [1, 0, 0], [0, 1, 0]]) @ np.asarray(L.quat_R(G.random_quat(rng, 1)[0]), dtype=np.float64).T
        else:                # nearly collinear
            d = rng.standard_normal(3)
            x = np.array([[-1.0], [0.2], [1.0]]) * d[None]
            x[1] += rng.standard_normal(3) * 10.0 ** rng.uniform(-6, -1)
        x = np.concatenate([x, x[rng.integers(0, 3, max(0, n - 3))]]) if n > 3 else x
    elif kind == "regular":
        x = SOLIDS[str(rng.choice(list(SOLIDS)))]
        x = x @ np.asarray(L.quat_R(G.random_quat(rng, 1)[0]), dtype=np.float64).T
        x = np.concatenate([x, x[rng.integers(0, len(x), max(0, n - len(x)))]])[:max(n, 3)]
        if len(x) > n:
            x = x[:n]
    else:
        raise KeyError(kind)
    x = x * 10.0 ** rng.integers(-1, 2) + rng.standard_normal(3) * rng.choice([0.0, 1.0, 10.0])
    return x


def align_item(rng, kind, n, noise, with_scale, dn):
    """One alignment item: dtype-representable source/target and the true 4x4 (scaled) matrix."""
    src = rnd(source_cloud(rng, kind, n), dn)
    q = rotmat(rng, str(rng.choice(["uniform"] * 6 + ["identity", "pi", "pi-generic"])))
    t = rng.standard_normal(3) * rng.choice([0.1, 1.0, 10.0, 100.0])
    s = float(np.exp(rng.uniform(np.log(0.1), np.log(10.0)))) if with_scale else 1.0
    M = G.mat4(q, t, s)
    ext = float(np.linalg.norm(src.max(0) - src.min(0))) or 1.0
    tgt = np.asarray(G.apply4(M, src), dtype=np.float64) + noise * s * ext * rng.standard_normal((len(src), 3))
    return src, rnd(tgt, dn), M, s


# ------------------------------------------------------------------------------- alignment monitors
def sse_many(Ms, src, tgt):
    p, q = L.ld(src), L.ld(tgt)
    moved = np.einsum("pij,nj->pni", Ms[:, :3, :3], p) + Ms[:, None, :3, 3]
    r = moved - q[None]
    return np.asarray((r * r).sum((1, 2)), dtype=np.float64)


def judge_alignment(ck, rng, fn, dn, src, tgt, X, Mtrue, noise, true_scaled, klass, kind, reg, wit, nper):
    """One item.  fn: 'svdtf' | 'svdstf' | 'svdstf(with_scale=False)'; klass 'rigid' | 'similarity'."""
    u = u_of(dn)
    n = len(src)
    G_kind = "SE3" if fn == "svdtf" else "Sim3"
    # ---- proper element of the group
    finite = bool(np.all(np.isfinite(X)))
    if not ck.check(finite, "proper", reg, fn, "non_finite_components", lambda: dict(wit, got=X)):
        return
    qn = float(np.linalg.norm(X[3:7]))
    rr(ck, "proper", reg, [abs(qn - 1.0)], C * u, fn, "rotation_not_a_unit_quaternion", lambda i: dict(wit, got=X))
    sg = float(X[7]) if G_kind == "Sim3" else 1.0
    if not ck.check(sg > 0, "proper", reg, fn, "scale_not_positive", lambda: dict(wit, got=X)):
        return
    if fn == "svdstf(with_scale=False)":
        rr(ck, "proper", reg, [abs(sg - 1.0)], C * u, fn, "scale_not_one_without_scale", lambda i: dict(wit, got=X))
    Mg = L.group_matrix(G_kind, X)
    # ---- reference optimum of the class
    if klass == "rigid":
        R, t, info = G.kabsch(src, tgt)
        s_ref = 1.0
    else:
        s_ref, R, t, info = G.umeyama(src, tgt)
    Mr = G.mat_from(R, t, s_ref)
    nS = info["nS"] + np.sqrt(n) * info["cs"]
    nQ = info["nQ"] + np.sqrt(n) * info["ct"]
    floor = C * u * (s_ref * nS + nQ) ** 2
    sse_g, sse_r = G.sse(Mg, src, tgt), G.sse(Mr, src, tgt)
    refl = info["sgn"] < 0
    ck.mark(f"{fn}/{'reflection-corrected' if refl else 'no-reflection'}")
    lam = float(info["lam"][2])
    determined = lam >= 1e-6 * float(info["lam"][0]) and info["lam"][0] > 0
    ck.mark(f"{fn}/{'optimum-unique' if determined else 'optimum-not-unique'}")

    def w():
        return dict(wit, got=X, sse_got=sse_g, sse_reference=sse_r, singular_values=info["d"], reflection_case=bool(refl),
                    reference_matrix=np.asarray(Mr, dtype=np.float64))
    rr(ck, "optimal.vs_reference", reg, [max(0.0, sse_g - sse_r * (1 + REL))], floor, fn, "sum_of_squares_larger_than_reference_optimum",
       lambda i: w())
    ck.note_max("max_sse_excess_over_floor_" + dn, max(0.0, sse_g - sse_r) / floor if floor > 0 else 0.0)
    # ---- ~50 random members of the class near the returned transform
    ext = float(np.linalg.norm(tgt.max(0) - tgt.min(0))) or 1.0
    P = []
    for j in range(nper):
        what = ("r", "t", "rt", "rts", "s", "rs")[j % 6] if klass == "similarity" else ("r", "t", "rt")[j % 3]
        mag = 10.0 ** rng.uniform(-7, 0)
        Pj = np.array(Mg, dtype=L.LD)
        if "r" in what:
            # rotate about the target centroid so the rotation is not swamped by the induced translation
            dR = G.small_rotation(rng, mag)
            c = L.ld(tgt.mean(0))
            Pj[:3, :3] = dR @ Pj[:3, :3]
            Pj[:3, 3] = dR @ (Pj[:3, 3] - c) + c
        if "t" in what:
            Pj[:3, 3] = Pj[:3, 3] + L.ld(rng.standard_normal(3) * mag * ext)
        if "s" in what:
            f = L.LD(np.exp(rng.choice([-1.0, 1.0]) * mag))
            c = L.ld(tgt.mean(0))
            Pj[:3, :3] = Pj[:3, :3] * f
            Pj[:3, 3] = (Pj[:3, 3] - c) * f + c
        P.append(Pj)
    sp = sse_many(np.stack(P), src, tgt)
    rr(ck, "optimal.vs_perturbations", reg, np.maximum(0.0, sse_g - sp * (1 + REL)), floor, fn, "a_nearby_transform_has_smaller_sum_of_squares",
       lambda i: dict(w(), better_matrix=np.asarray(P[i], dtype=np.float64), sse_better=float(sp[i])))
    # ---- exact correspondences
    if noise == 0.0 and not true_scaled:
        scale = float(np.abs(tgt).max() + s_ref * np.abs(src).max() + np.abs(np.asarray(Mr[:3, 3], dtype=np.float64)).max())
        Mn = s_ref * nS * nQ
        ls = s_ref * lam
        cond = min(Mn / np.sqrt(ls), np.pi * np.sqrt(ls) / u) if ls > 0 else 0.0
        res = float(G.residuals(Mg, src, tgt).max())
        rr(ck, "exact.residual", reg, [res], C * u * (scale + cond), fn, "exact_correspondences_not_reproduced",
           lambda i: dict(w(), max_residual=res, true_matrix=np.asarray(Mtrue, dtype=np.float64)))
        if determined:
            kap = 4.0 * nS * nQ / lam      # U and V both perturbed, three rotation directions
            Mt = np.asarray(Mtrue, dtype=np.float64)
            Mgf = np.asarray(Mg, dtype=np.float64)
            e_rot = float(np.abs(Mgf[:3, :3] - Mt[:3, :3]).max()) / s_ref
            e_t = float(np.linalg.norm(Mgf[:3, 3] - Mt[:3, 3]))
            tsc = float(np.linalg.norm(Mt[:3, 3]) + s_ref * info["cs"] + info["ct"] + s_ref * info["nS"])
            rr(ck, "exact.transform", reg, [e_rot, e_t], [C * u * kap, C * u * (1 + kap) * tsc], fn, "true_transform_not_recovered",
               lambda i: dict(w(), part=("rotation/scale block", "translation")[i], true_matrix=Mt))
            ck.note_max("max_kappa_judged", kap)
        else:
            ck.note_add("exact_items_with_non_unique_optimum_transform_equality_not_judged")
    if len(ck.samples) < 4 and n <= 4:
        ck.sample({"fn": fn, "dtype": dn, "kind": kind, "source_hex": [[float(v).hex() for v in r_] for r_ in src],
                   "target_hex": [[float(v).hex() for v in r_] for r_ in tgt], "returned": X.tolist(),
                   "sse_returned": sse_g, "sse_reference": sse_r, "reflection_case": bool(refl)})


AUTOGRAD_MODES = ("plain", "source-requires-grad", "plain", "target-requires-grad", "no_grad", "both-require-grad", "plain")


def no_grad_call(f):
    def g():
        with torch.no_grad():
            return f()
    return g


def run_alignment(ck, rng, dn, thorough):
    reps = 240 if thorough else 36
    nper = 50 if thorough else 24
    shapes = [(), (1,), (4,), (7,), (2, 3)]
    case = 0
    for rep in range(reps):
        for fn in ("svdtf", "svdstf", "svdstf(with_scale=False)"):
            for n in (3, 3, 4, 5, 8, 30, int(rng.integers(6, 201))):
                case += 1
                if not ck.mine(case):
                    continue
                if fn == "svdstf(with_scale=False)" and rep % 3:
                    continue
                if not thorough:
                    n = min(n, 120)
                bshape = shapes[int(rng.integers(0, len(shapes)))]
                nb = int(np.prod(bshape)) if bshape else 1
                items = []
                for b in range(nb):
                    kind = KINDS[(case + b + int(rng.integers(0, 2))) % len(KINDS)]
                    noise = float(NOISES[int(rng.integers(0, len(NOISES)))])
                    # svdtf fed with a scaled target (model mismatch) now and then; svdstf always similarity
                    scaled = (fn == "svdstf") or (rng.random() < 0.15)
                    src, tgt, M, s = align_item(rng, kind, n, noise, scaled, dn)
                    items.append((kind, noise, src, tgt, M, scaled and fn != "svdstf"))
                S = np.stack([it[2] for it in items]).reshape(bshape + (n, 3))
                Tg = np.stack([it[3] for it in items]).reshape(bshape + (n, 3))
                ts, tg = tt(S, dn), tt(Tg, dn)
                # how the clouds take part in autograd does not change the returned transform
                amode = AUTOGRAD_MODES[case % len(AUTOGRAD_MODES)]
                if amode in ("source-requires-grad", "both-require-grad"):
                    ts.requires_grad_(True)
                if amode in ("target-requires-grad", "both-require-grad"):
                    tg.requires_grad_(True)
                ck.mark("autograd/" + amode)
                call = (lambda: pp.svdtf(ts, tg)) if fn == "svdtf" else (lambda: pp.svdstf(ts, tg)) if fn == "svdstf" \
                    else (lambda: pp.svdstf(ts, tg, with_scale=False))
                if amode == "no_grad":
                    call = no_grad_call(call)
                reg0 = f"{fn}/{dn}/batch-rank{len(bshape)}"
                wit0 = {"fn": fn, "dtype": dn, "N": n, "batch": list(bshape), "autograd": amode, "kinds": [it[0] for it in items],
                        "noise": [it[1] for it in items], "source": S if S.size <= 90 else None, "target": Tg if Tg.size <= 90 else None}
                okc, out = ck.call("call", reg0, fn + ("(batch rank>=2)" if len(bshape) >= 2 else ""), call, witness=wit0)
                if not okc:
                    continue
                want_type = pp.SE3_type if fn == "svdtf" else pp.Sim3_type
                width = 7 if fn == "svdtf" else 8
                ok = ck.check(getattr(out, "ltype", None) is want_type and tuple(out.shape) == bshape + (width,) and out.dtype == DT[dn],
                              "proper", reg0, fn, "type_shape_or_dtype", lambda: dict(wit0, got_shape=list(out.shape), got_type=str(getattr(out, "ltype", None))))
                ck.mark(f"{fn}/batch-rank{len(bshape)}")
                if not ok:
                    continue
                X = out.tensor().detach().double().numpy().reshape(nb, width)
                for b, (kind, noise, src, tgt, M, mismatch) in enumerate(items):
                    ncls = "0" if noise == 0 else "tiny" if noise <= 1e-6 else "small" if noise <= 1e-2 else "large"
                    reg = f"{fn}/{dn}/{kind}/noise:{ncls}/N:{'3' if n == 3 else '4-8' if n <= 8 else '9-200'}"
                    wit = {"fn": fn, "dtype": dn, "N": n, "kind": kind, "noise": noise, "batch": list(bshape), "item": b,
                           "source": src if n <= 12 else None, "target": tgt if n <= 12 else None}
                    klass = "similarity" if fn == "svdstf" else "rigid"
                    ck.count("alignment", reg, rows=np.concatenate([src.reshape(1, -1), tgt.reshape(1, -1)], -1))
                    ck.mark(f"{fn}/{kind}")
                    ck.mark(f"{fn}/noise:{ncls}")
                    if n == 3:
                        ck.mark(f"{fn}/minimal-3-points")
                    judge_alignment(ck, rng, fn, dn, src, tgt, X[b], M, noise, mismatch, klass, kind, reg, wit, nper)


def run_reflection_stress(ck, rng, dn, thorough):
    """Volume on the reflection decision: thousands of small flat / minimal / noisy sets per
    batched call (the determinant test of a reflection is a rounding-sensitive decision), judged
    on 'proper element' and 'not worse than the reference optimum' only (vectorised oracle)."""
    u = u_of(dn)
    B = 1500
    calls = (16 if thorough else 3) * (3 if dn == "f32" else 1)
    kinds = ("planar", "thin", "minimal3", "generic", "collinear", "regular")
    case = 0
    for rep in range(calls):
        for fn in ("svdtf", "svdstf"):
            for n in (3, 4, 8):
                case += 1
                if not ck.mine(case):
                    continue
                items = []
                for b in range(B):
                    kind = kinds[b % len(kinds)]
                    noise = (0.0, 0.0, 0.05, 0.5)[(b // len(kinds)) % 4]
                    items.append(align_item(rng, kind, n, noise, fn == "svdstf", dn)[:2])
                S = np.stack([it[0] for it in items])
                Tg = np.stack([it[1] for it in items])
                reg = f"{fn}/{dn}/reflection-stress/N:{n}"
                amode = ("plain", "source-requires-grad", "target-requires-grad")[(case + rep) % 3]
                tS, tT = tt(S, dn), tt(Tg, dn)
                if amode == "source-requires-grad":
                    tS.requires_grad_(True)
                if amode == "target-requires-grad":
                    tT.requires_grad_(True)
                ck.mark("autograd/stress/" + amode)
                wit0 = {"fn": fn, "dtype": dn, "N": n, "batch": [B], "autograd": amode}
                okc, out = ck.call("call", reg, fn, (lambda: pp.svdtf(tS, tT)) if fn == "svdtf" else (lambda: pp.svdstf(tS, tT)), witness=wit0)
                if not okc:
                    continue
                width = 7 if fn == "svdtf" else 8
                if not ck.check(tuple(out.shape) == (B, width), "proper", reg, fn, "type_shape_or_dtype", lambda: dict(wit0, got=list(out.shape))):
                    continue
                X = out.tensor().detach().double().numpy()
                ck.count("alignment.stress", reg, n=B, rows=np.concatenate([S.reshape(B, -1), Tg.reshape(B, -1)], -1))

                def w(i):
                    return dict(wit0, item=int(i), kind=kinds[i % len(kinds)], source=S[i], target=Tg[i], got=X[i])
                fin = np.all(np.isfinite(X), axis=1)
                ck.check(bool(fin.all()), "proper", reg, fn, "non_finite_components", lambda: w(int(np.nonzero(~fin)[0][0])))
                X = np.where(fin[:, None], X, 0.0)
                X[~fin, 6] = 1.0
                rr(ck, "proper", reg, np.abs(np.linalg.norm(X[:, 3:7], axis=1) - 1.0), C * u, fn, "rotation_not_a_unit_quaternion", w)
                if fn == "svdstf":
                    pos = X[:, 7] > 0
                    ck.check(bool(pos.all()), "proper", reg, fn, "scale_not_positive", lambda: w(int(np.nonzero(~pos)[0][0])))
                Mr, info = G.align_batch(S, Tg, fn == "svdstf")
                Mg = L.group_matrix("SE3" if fn == "svdtf" else "Sim3", X)
                sg, sr = G.sse_batch(Mg, S, Tg), G.sse_batch(Mr, S, Tg)
                floor = C * u * (info["s"] * (info["nS"] + np.sqrt(n) * info["cs"]) + info["nQ"] + np.sqrt(n) * info["ct"]) ** 2
                rr(ck, "optimal.vs_reference", reg, np.maximum(0.0, sg - sr * (1 + REL)), floor, fn, "sum_of_squares_larger_than_reference_optimum",
                   lambda i: dict(w(i), sse_got=float(sg[i]), sse_reference=float(sr[i]), singular_values=info["d"][i], reflection_case=bool(info["sgn"][i] < 0)))
                ck.mark(f"{fn}/{dn}/reflection-stress", int((info["sgn"] < 0).sum()))


# ------------------------------------------------------------------------------- ICP

def small_rigid(rng, src, max_deg, max_frac):
    """Rigid 4x4 (float64): rotation <= max_deg about the centroid of src plus a translation
    <= max_frac of the bounding-box diagonal."""
    c = src.mean(0)
    ext = float(np.linalg.norm(src.max(0) - src.min(0))) or 1.0
    ang = np.deg2rad(max_deg) * rng.uniform(0, 1)
    R = np.asarray(G.small_rotation(rng, ang), dtype=np.float64)
    d = rng.standard_normal(3)
    d = d / np.linalg.norm(d) * rng.uniform(0, max_frac) * ext
    M = np.eye(4)
    M[:3, :3] = R
    M[:3, 3] = c - R @ c + d
    return M


def se3_from_matrix(M):
    """pypose SE3 from a float64 rigid 4x4 via the reference quaternion conversion."""
    q = np.asarray(L.R_to_quat(M[:3, :3]), dtype=np.float64)
    return pp.SE3(tt(np.concatenate([M[:3, 3], q])))


def run_icp(ck, rng, thorough):
    u = u_of("f64")
    reps = 120 if thorough else 14
    case = 0
    # a user customises the stepper of ONE default-built object (a coarse two-step stage); other default-built objects keep the documented default
    coarse = pp.module.ICP()
    coarse.stepper.max_steps = 2
    shared = pp.module.ICP()          # reused across cases: the stepper must be reset by every call
    for rep in range(reps):
        for mode in ("recover", "recover+init", "recover+superset", "far", "noisy", "partial", "short-stepper", "batched", "recover+batched"):
            case += 1
            if not ck.mine(case):
                continue
            n = int(rng.choice([4, 6, 12, 40, int(rng.integers(4, 201))]))
            if not thorough:
                n = min(n, 90)
            if mode in ("recover", "noisy") and rep % 40 == 1:
                # scan-sized clouds (beyond the 200 points of the other cases): sizes that are not a multiple of any power-of-two block
                n = int(rng.choice([1100, 1500, 2100]))
                ck.mark("ICP/scan-sized-cloud")
            if mode == "recover+batched":
                n = int(rng.choice([90, 150]))
            nb = int(rng.integers(2, 4)) if mode in ("batched", "recover+batched") else 1
            srcs, tgts, trues, inits = [], [], [], []
            m_extra = int(rng.integers(1, n + 1)) if mode in ("recover+superset", "partial") else 0
            for b in range(nb):
                src = rng.uniform(-1, 1, (n, 3)) * 10.0 ** rng.integers(-1, 2) + rng.standard_normal(3) * rng.choice([0.0, 1.0, 5.0])
                if mode == "recover+batched":
                    # one batch: a large noisy cloud whose error sits on a plateau from the first iteration (item 1) next to small exact
                    # clouds that need many iterations - each exact item is recovered as when it is run alone
                    src = rng.uniform(-1, 1, (n, 3)) * (0.05, 100.0, 1.0)[b % 3]
                if mode == "recover+init":
                    M0 = np.eye(4)
                    M0[:3, :3] = np.asarray(L.quat_R(G.random_quat(rng, 1)[0]), dtype=np.float64)
                    M0[:3, 3] = rng.standard_normal(3) * 3
                else:
                    M0 = np.eye(4)
                moved0 = src @ M0[:3, :3].T + M0[:3, 3]
                big = mode in ("far",) or (mode in ("noisy", "partial", "short-stepper", "batched") and rng.random() < 0.5)
                P = small_rigid(rng, moved0, 60.0 if big else 5.0, 0.5 if big else 0.05)
                if mode == "recover+batched" and b != 1:
                    P = small_rigid(rng, moved0, 35.0, 0.15)     # needs 8-12 iterations on 90+ points
                Mt = P @ M0
                tgt = src @ Mt[:3, :3].T + Mt[:3, 3]
                ext = float(np.linalg.norm(src.max(0) - src.min(0)))
                if mode == "noisy":
                    tgt = tgt + rng.standard_normal(tgt.shape) * ext * 10.0 ** rng.uniform(-4, -1)
                if mode == "recover+batched" and b == 1:
                    tgt = tgt + rng.standard_normal(tgt.shape) * ext * 0.1
                if mode == "partial":
                    tgt = tgt[: max(2, n - m_extra // 2)]
                if m_extra:
                    tgt = np.concatenate([tgt, rng.uniform(tgt.min(0) - 0.3 * ext, tgt.max(0) + 0.3 * ext, (m_extra, 3))])
                tgt = tgt[rng.permutation(len(tgt))]
                srcs.append(src), tgts.append(tgt), trues.append(Mt), inits.append(M0)
            S, Tg = np.stack(srcs), np.stack(tgts)
            how_init = "none"
            init = None
            if mode == "recover+init" or (mode in ("far", "noisy", "batched") and rng.random() < 0.4):
                how_init = str(rng.choice(["constructor", "forward", "forward-overrides-constructor"]))
                if mode != "recover+init":
                    for b in range(nb):
                        inits[b] = small_rigid(rng, srcs[b], 30.0, 0.3)
                init = pp.SE3(torch.stack([se3_from_matrix(inits[b]).tensor() for b in range(nb)])) if nb > 1 else se3_from_matrix(inits[0])
            steps = int(rng.integers(1, 6)) if mode == "short-stepper" else None
            stepper = pp.utils.ReduceToBason(steps=steps) if steps else None
            if how_init == "constructor":
                icp, kw = pp.module.ICP(init=init, stepper=stepper), {}
            elif how_init == "forward":
                icp, kw = pp.module.ICP(stepper=stepper), {"init": init}
            elif how_init == "forward-overrides-constructor":
                wrong = pp.SE3(tt(np.concatenate([rng.standard_normal(3) * 50, G.random_quat(rng, 1)[0]])))
                icp, kw = pp.module.ICP(init=wrong, stepper=stepper), {"init": init}
            else:
                icp, kw = (shared if steps is None and rng.random() < 0.6 else pp.module.ICP(stepper=stepper)), {}
            ts = tt(S[0] if nb == 1 else S)
            tg = tt(Tg[0] if nb == 1 else Tg)
            if how_init == "none" and icp is not shared and rng.random() < 0.6:
                # history on the same object: an earlier call with a per-call `init` far away must not influence this
                # call, whose initial transform is the constructor's (identity)
                far = pp.SE3(tt(np.concatenate([rng.standard_normal(3) * 20 * (1 + float(np.abs(S).max())), G.random_quat(rng, 1)[0]])))
                try:
                    icp(tt(rng.standard_normal((7, 3))), tt(rng.standard_normal((9, 3))), init=far)
                    ck.mark("ICP/after-call-with-forward-init")
                except Exception:
                    pass
            reg = f"ICP/f64/{mode}/init:{how_init}"
            wit = {"mode": mode, "N": n, "M": int(Tg.shape[1]), "batch": nb, "init": how_init, "stepper_steps": steps,
                   "source": S if S.size <= 60 else None, "target": Tg if Tg.size <= 60 else None,
                   "true_matrix": trues, "init_matrix": inits}
            okc, out = ck.call("ICP.call", reg, "ICP", lambda: icp(ts, tg, **kw), witness=wit)
            if not okc:
                continue
            ok = ck.check(getattr(out, "ltype", None) is pp.SE3_type and tuple(out.shape) == ((nb, 7) if nb > 1 else (7,)),
                          "ICP.call", reg, "ICP", "type_or_shape", lambda: dict(wit, got=list(out.shape)))
            if not ok:
                continue
            Xs = out.tensor().detach().double().numpy().reshape(nb, 7)
            ck.mark("ICP/" + mode)
            ck.mark("ICP/init:" + how_init)
            if icp is shared:
                ck.mark("ICP/reused-object")
            for b in range(nb):
                src, tgt, Mt, M0 = srcs[b], tgts[b], trues[b], inits[b]
                Mg = L.group_matrix("SE3", Xs[b])
                ck.count("ICP", reg, rows=np.concatenate([src.reshape(1, -1), tgt.reshape(1, -1)], -1))
                rr(ck, "ICP.proper", reg, [abs(float(np.linalg.norm(Xs[b, 3:7])) - 1.0)], C * u, "ICP", "rotation_not_a_unit_quaternion",
                   lambda i: dict(wit, got=Xs[b]))
                # the library received the init as a quaternion: use that same element as "the initial transform"
                Minit = np.eye(4) if how_init == "none" else np.asarray(
                    L.group_matrix("SE3", (init.tensor().double().numpy().reshape(nb, 7))[b]), dtype=np.float64)
                m0 = G.mean_closest_sq(Minit, src, tgt)
                m1 = G.mean_closest_sq(Mg, src, tgt)
                scale = float(np.abs(tgt).max() + np.abs(src).max())
                rr(ck, "ICP.monotone", reg, [max(0.0, m1 - m0 * (1 + REL))], C * u * scale ** 2, "ICP",
                   "mean_squared_closest_point_distance_larger_than_initial", lambda i: dict(wit, item=b, got=Xs[b], mse_initial=m0, mse_result=m1))
                if m1 < m0:
                    ck.mark("ICP/strictly-improved")
                if mode.startswith("recover") and not (mode == "recover+batched" and b == 1):
                    Mref, conv = G.ref_icp(src, tgt, M0=Minit)
                    ref_err = float(np.abs((src @ Mref[:3, :3].T + Mref[:3, 3]) - (src @ Mt[:3, :3].T + Mt[:3, 3])).max())
                    inside = conv and ref_err <= 1e-9 * scale
                    ck.note_add("icp_recovery_cases_inside_basin" if inside else "icp_recovery_cases_outside_basin_not_judged")
                    if inside:
                        _, _, info = G.kabsch(src, src @ Mt[:3, :3].T + Mt[:3, 3])
                        lam = float(info["lam"][2])
                        Mn = (info["nS"] + np.sqrt(n) * info["cs"]) * (info["nQ"] + np.sqrt(n) * info["ct"])
                        cond = min(Mn / np.sqrt(lam), np.pi * np.sqrt(lam) / u) if lam > 0 else 0.0
                        moved = np.asarray(G.apply4(Mg, src), dtype=np.float64)
                        err = float(np.abs(moved - (src @ Mt[:3, :3].T + Mt[:3, 3])).max())
                        rr(ck, "ICP.recover", reg, [err], C * u * (scale + cond), "ICP", "small_exact_perturbation_not_recovered",
                           lambda i: dict(wit, item=b, got=Xs[b], max_point_error=err, steps_taken=int(icp.stepper.steps)))
                        ck.mark("ICP/recovered-inside-basin")
            if len(ck.samples) < 6 and n <= 6 and nb == 1:
                ck.sample({"fn": "ICP", "mode": mode, "source_hex": [[float(v).hex() for v in r_] for r_ in srcs[0]],
                           "target_hex": [[float(v).hex() for v in r_] for r_ in tgts[0]], "returned": Xs[0].tolist()})


def run_icp_f32(ck, rng, thorough):
    """float32 clouds far from the origin (coordinates of a few thousand, as in a map frame) under a small exact motion: the result's mean
    squared closest-point distance, measured in float64 on the float32 coordinates actually passed, is not larger than the initial one
    beyond what single-precision positions allow."""
    u32 = 2.0 ** -24
    for case in range(12 if thorough else 4):
        n = int(rng.choice([30, 40, 90, 150]))
        off = rng.uniform(2000, 5000, 3) * rng.choice([-1.0, 1.0], 3)
        src = (rng.uniform(-1, 1, (n, 3)) * float(rng.choice([1.0, 5.0])) + off).astype(np.float32)
        ang = np.deg2rad(float(rng.uniform(0.3, 1.5)))
        ax = rng.standard_normal(3)
        ax /= np.linalg.norm(ax)
        K = np.array([[0, -ax[2], ax[1]], [ax[2], 0, -ax[0]], [-ax[1], ax[0], 0]])
        Rm = np.eye(3) + np.sin(ang) * K + (1 - np.cos(ang)) * K @ K
        c = src.astype(np.float64).mean(0)
        tgt = ((src.astype(np.float64) - c) @ Rm.T + c + rng.standard_normal(3) * 0.03).astype(np.float32)
        tgt = tgt[rng.permutation(n)]
        ts, tg = torch.as_tensor(src), torch.as_tensor(tgt)
        reg = "ICP/f32/far-from-origin"
        wit = {"N": n, "offset": off.tolist(), "angle_deg": float(np.rad2deg(ang)), "dtype": "f32"}
        okc, out = ck.call("ICP.call", reg, "ICP", lambda: pp.module.ICP()(ts, tg), witness=wit)
        ck.count("ICP", reg, key=(case, n, src.tobytes()))
        if not okc:
            continue
        if not ck.check(getattr(out, "ltype", None) is pp.SE3_type and tuple(out.shape) == (7,) and out.dtype == torch.float32, "ICP.call", reg, "ICP",
                        "type_or_shape", lambda: dict(wit, got=list(out.shape), dtype=str(out.dtype))):
            continue
        Mg = np.asarray(L.group_matrix("SE3", out.tensor().double().numpy().reshape(1, 7))[0], dtype=np.float64)
        s64, t64 = src.astype(np.float64), tgt.astype(np.float64)
        m0 = G.mean_closest_sq(np.eye(4), s64, t64)
        m1 = G.mean_closest_sq(Mg, s64, t64)
        scale = float(np.abs(t64).max() + np.abs(s64).max())
        pos = u32 * scale                       # what a float32 transform can resolve at these coordinates
        rr(ck, "ICP.monotone", reg, [max(0.0, m1 - m0)], 64 * pos * (np.sqrt(m0) + pos), "ICP",
           "mean_squared_closest_point_distance_larger_than_initial", lambda i: dict(wit, mse_initial=m0, mse_result=m1, got=out.tolist()))
        ck.mark("ICP/f32-far-from-origin")


# ------------------------------------------------------------------------------- EPnP
def pnp_item(rng, n):
    f = 10.0 ** rng.uniform(0, 3.5, 2)
    c = rng.uniform(-100, 1000, 2)
    K = np.array([[f[0], 0, c[0]], [0, f[1], c[1]], [0, 0, 1.0]])
    zmin = 10.0 ** rng.uniform(-0.5, 1.5)
    zr = rng.uniform(1.2, 5.0)
    fov = 10.0 ** rng.uniform(-1.3, 0)
    zc = rng.uniform(zmin, zmin * zr, n)
    zc[:2] = zmin, zmin * zr                       # the depth range is attained
    xy = rng.uniform(-fov, fov, (n, 2)) * zc[:, None]
    pc = np.concatenate([xy, zc[:, None]], -1)
    q = G.random_quat(rng, 1)[0]
    t = rng.standard_normal(3) * 10.0 ** rng.uniform(-1, 1.5)
    pw = np.asarray(G.rigid_inv(q, t, pc), dtype=np.float64)
    pcr = G.rigid(q, t, pw)                        # camera-frame points of the rounded world points
    px = np.asarray(G.project(pcr, f[0], f[1], c[0], c[1]), dtype=np.float64)
    Mt = np.asarray(G.mat4(q, t), dtype=np.float64)
    return pw, px, K, Mt, np.asarray(pcr, dtype=np.float64), {"zmin": zmin, "depth_ratio": zr, "half_fov": fov}


def run_pnp(ck, rng, thorough):
    u = u_of("f64")
    reps = 120 if thorough else 14
    case = 0
    for rep in range(reps):
        for nsel in (6, 6, 7, 8, 12, 40, 100):
            for refine in (False, True):
                case += 1
                if not ck.mine(case):
                    continue
                n = nsel if nsel != 40 else int(rng.integers(9, 100))
                nb = int(rng.choice([1, 1, 1, 2, 3]))
                bshape = () if nb == 1 else (nb,)
                items = [pnp_item(rng, n) for _ in range(nb)]
                shareK = nb > 1 and rng.random() < 0.4
                if shareK:       # one camera for the whole batch: re-project with the first intrinsics
                    K0 = items[0][2]
                    items = [(pw, np.asarray(G.project(pcr, K0[0, 0], K0[1, 1], K0[0, 2], K0[1, 2]), dtype=np.float64), K0, Mt, pcr, g)
                             for (pw, px, K, Mt, pcr, g) in items]
                Pw = np.stack([it[0] for it in items]).reshape(bshape + (n, 3))
                Px = np.stack([it[1] for it in items]).reshape(bshape + (n, 2))
                Ks = items[0][2] if (shareK or nb == 1) else np.stack([it[2] for it in items])
                viaK = str(rng.choice(["constructor", "forward", "state_dict", "deepcopy"]))
                if viaK == "constructor":
                    ep = pp.module.EPnP(intrinsics=tt(Ks), refine=refine)
                    call = lambda: ep(tt(Pw), tt(Px))
                elif viaK in ("state_dict", "deepcopy"):
                    # object lifecycle: the configured camera travels with a checkpoint / a deep copy of the solver
                    src_ep = pp.module.EPnP(intrinsics=tt(Ks), refine=refine)
                    if viaK == "deepcopy":
                        ep = copy.deepcopy(src_ep)
                    else:
                        placeholder = torch.eye(3, dtype=torch.float64).expand(tuple(np.shape(Ks))).clone()
                        ep = pp.module.EPnP(intrinsics=placeholder, refine=refine)
                        ep.load_state_dict(src_ep.state_dict())
                    del src_ep
                    call = lambda: ep(tt(Pw), tt(Px))
                else:
                    ep = pp.module.EPnP(refine=refine)
                    call = lambda: ep(tt(Pw), tt(Px), tt(Ks))
                reg0 = f"EPnP/f64/refine={refine}/K:{viaK}/batch{nb > 1}"
                wit0 = {"N": n, "batch": nb, "refine": refine, "intrinsics_via": viaK, "K": Ks, "points": Pw if Pw.size <= 60 else None,
                        "pixels": Px if Px.size <= 40 else None, "true_pose_matrix": [it[3] for it in items]}
                okc, out = ck.call("EPnP.call", reg0, "EPnP", call, witness=wit0)
                if not okc:
                    continue
                ok = ck.check(getattr(out, "ltype", None) is pp.SE3_type and tuple(out.shape) == bshape + (7,), "EPnP.call", reg0, "EPnP",
                              "type_or_shape", lambda: dict(wit0, got=list(out.shape)))
                if not ok:
                    continue
                X = out.tensor().detach().double().numpy().reshape(nb, 7)
                ck.mark(f"EPnP/refine={refine}")
                ck.mark("EPnP/K:" + viaK)
                ck.mark(f"EPnP/N:{'6' if n == 6 else '7-8' if n <= 8 else '9-100'}")
                ck.mark(f"EPnP/batch:{nb > 1}")
                for b, (pw, px, K, Mt, pcr, geom) in enumerate(items):
                    sv = G.epnp_system(pw, px, K[0, 0], K[1, 1], K[0, 2], K[1, 2])
                    cond2 = float((sv[0] / sv[10]) ** 2) if sv is not None and sv[10] > 0 else np.inf
                    reg = f"EPnP/f64/refine={refine}/N:{'6' if n == 6 else '7-8' if n <= 8 else '9-100'}/cond2:{'<=1e6' if cond2 <= 1e6 else '<=1e10' if cond2 <= 1e10 else '>1e10'}"
                    ck.count("EPnP", reg, rows=np.concatenate([pw.reshape(1, -1), px.reshape(1, -1)], -1), nontrivial=cond2 <= 1e10)
                    if not cond2 <= 1e10:
                        ck.note_add("epnp_items_ill_conditioned_not_judged")
                        continue
                    ck.note_add("epnp_items_judged")
                    finite = bool(np.all(np.isfinite(X[b])))
                    if not ck.check(finite, "EPnP.pose", reg, "EPnP", "non_finite_pose", lambda: dict(wit0, item=b, got=X[b])):
                        ck.note_add("epnp_items_failed")
                        continue
                    Mg = np.asarray(L.group_matrix("SE3", X[b]), dtype=np.float64)
                    ra, te = G.pose_err(Mg, Mt)
                    te = te / float(np.linalg.norm(pcr.mean(0)))
                    tol = C_PNP * u * max(cond2, 1.0)
                    good = rr(ck, "EPnP.pose", reg, [ra, te], tol, "EPnP", "pose_not_recovered_from_exact_projections",
                              lambda i: dict(wit0, item=b, got=X[b], part=("rotation angle", "relative translation")[i], cond2=cond2, geometry=geom,
                                             points=pw if n <= 12 else None, pixels=px if n <= 12 else None))
                    if not good:
                        ck.note_add("epnp_items_failed")
                    ck.note_max("max_epnp_error", max(ra, te))
                    ck.note_max("max_epnp_error_over_u_cond2", max(ra, te) / (u * max(cond2, 1.0)))
                if len(ck.samples) < 8 and n == 6 and nb == 1:
                    ck.sample({"fn": "EPnP", "refine": refine, "points_hex": [[float(v).hex() for v in r_] for r_ in items[0][0]],
                               "pixels_hex": [[float(v).hex() for v in r_] for r_ in items[0][1]], "K": items[0][2].tolist(), "returned": X[0].tolist()})


# ------------------------------------------------------------------------------- driver
def run(ck):
    if ck.shard == 0:
        # repeat-call monitor (shared, added by the framework owner): history / reused-object / memory-layout independence
        from .. import repeat
        repeat.run(ck, PID, repeat.table(PID, ck.rng("repeat")))
    thorough = ck.tier == "thorough"
    for dn in ("f64", "f32"):
        run_alignment(ck, ck.rng("align" + dn), dn, thorough)
        run_reflection_stress(ck, ck.rng("stress" + dn), dn, thorough)
    run_icp(ck, ck.rng("icp"), thorough)
    if ck.shard == 2 % ck.nshards:
        run_icp_f32(ck, ck.rng("icp32"), thorough)
    ck.require("ICP/f32-far-from-origin")
    run_pnp(ck, ck.rng("pnp"), thorough)
    for fn in ("svdtf", "svdstf"):
        ck.require(*[f"{fn}/{k}" for k in KINDS], f"{fn}/minimal-3-points", f"{fn}/reflection-corrected", f"{fn}/no-reflection",
                   f"{fn}/optimum-unique", f"{fn}/optimum-not-unique", f"{fn}/noise:0", f"{fn}/noise:large",
                   f"{fn}/batch-rank0", f"{fn}/batch-rank1", f"{fn}/batch-rank2")
    for dn in ("f64", "f32"):
        ck.require(f"svdtf/{dn}/reflection-stress", f"svdstf/{dn}/reflection-stress", minimum=2000)
    ck.require("autograd/source-requires-grad", "autograd/target-requires-grad", "autograd/no_grad", "autograd/stress/source-requires-grad")
    ck.require("ICP/scan-sized-cloud")
    ck.require("ICP/recover+batched", "EPnP/K:state_dict", "EPnP/K:deepcopy", "ICP/after-call-with-forward-init", "ICP/recover", "ICP/recover+init", "ICP/recover+superset", "ICP/far", "ICP/noisy", "ICP/partial", "ICP/short-stepper",
               "ICP/batched", "ICP/init:none", "ICP/init:constructor", "ICP/init:forward", "ICP/reused-object",
               "ICP/recovered-inside-basin", "ICP/strictly-improved",
               "EPnP/refine=True", "EPnP/refine=False", "EPnP/N:6", "EPnP/N:7-8", "EPnP/N:9-100", "EPnP/batch:True", "EPnP/batch:False")
    for m, k in (("alignment", 300), ("optimal.vs_reference", 300), ("optimal.vs_perturbations", 3000), ("exact.residual", 60),
                 ("exact.transform", 30), ("proper", 300), ("ICP", 20), ("ICP.monotone", 20), ("ICP.recover", 6), ("EPnP", 30), ("EPnP.pose", 40)):
        ck.floor(m, k)
