"""C08 — LM never accepts a worse loss, restores rejected trials, reports the true loss; the
damping moves as the strategy documents; a failing solver ends the call cleanly.

Trace monitor: spies on the user-supplied solver / strategy and instance wrappers on
loss / update_parameter produce, per step() call, the event trace
    [LOSS] (SOLVE[ok|raise] UPDATE(+D) LOSS STRATEGY [UPDATE(-D)])*  -> return value
which an offline checker replays against the documented protocol.  Workloads: sequences of
step() calls on random models, on models engineered so that exactly the first k trials increase
the loss (k = 0 .. reject+1), and fault enumeration (the solver raises at the j-th solve of the
run, for every j of a measured dry run).
"""
import warnings
import math

import numpy as np
import torch
import pypose as pp
from torch import nn

from .. import lie, optspy, optmodels
from ..optspy import F64
from ..oracles import lie_ref as L
from . import c07

PID = "C08"
LEVEL = "fault_enumeration"
SHARDS = {"quick": 8, "thorough": 16}
TIMEOUT = {"quick": 1200, "thorough": 7200}
RULE = ("Histories = sequences of up to 30 step() calls of LM (all three strategies with random legal hyper-parameters, reject in "
        "0..16, solvers PINV/LSTSQ/Cholesky) and GN on random residual models and on 'wall' models engineered so that the first k "
        "trials of a call increase the loss; fault runs = the same history with the solver raising at its j-th call, for every j "
        "up to the number of solves measured in a dry run. One case = one step() call trace; distinct = (history id, call index); "
        "trivial = none.")
ASSUME = ["the robust loss is recomputed at the parameters left behind from the model's forward and the kernel objects (C09 decides the kernels)",
          "strategy transitions are judged on the arguments recorded by the spy; a step-quality ratio within 1e-9 (relative) of a "
          "threshold is ambiguous and not judged",
          "restore tolerance 64 eps (|p| + |D| + 1) per component (round-off of (p + D) - D and of Exp(-D) Exp(D) X)"]

U = float(torch.finfo(F64).eps)


# ------------------------------------------------------------------ engineered models
class Wall(nn.Module):
    """x in R^1 (or one rotation angle): r = [x - T ; big * max(0, x - c)^2].  From x = 0 the
    undamped step is T; every trial that lands beyond c increases the loss."""

    def __init__(self, T, c, big, group):
        super().__init__()
        self.T, self.c, self.big, self.group = T, c, big, group
        if group:
            self.p0 = pp.Parameter(pp.identity_SO3(dtype=F64))
        else:
            self.p0 = nn.Parameter(torch.zeros(1, dtype=F64))
        self.kinds = ["SO3" if group else "R"]

    def plist(self):
        return [self.p0]

    def forward(self):
        x = self.p0.Log().tensor()[..., 2:3] if self.group else self.p0
        return torch.cat([x - self.T, self.big * torch.clamp(x - self.c, min=0) ** 2, ]).reshape(2, 1)


class Curved(nn.Module):
    """r = atan(k x) (+ a weak linear anchor): from |x0| >> 1/k the undamped step overshoots, and the first accepted
    trial after the rejections has a mediocre step quality (the 'successful' middle branch of the strategies)."""

    def __init__(self, k, x0, group):
        super().__init__()
        self.k, self.group = k, group
        if group:
            self.p0 = pp.Parameter(pp.so3(torch.tensor([0., 0., x0], dtype=F64)).Exp())
        else:
            self.p0 = nn.Parameter(torch.tensor([x0], dtype=F64))
        self.kinds = ["SO3" if group else "R"]

    def plist(self):
        return [self.p0]

    def forward(self):
        x = self.p0.Log().tensor()[..., 2:3] if self.group else self.p0
        return torch.cat([torch.atan(self.k * x), 0.05 * x]).reshape(2, 1)


def curved_spec(rng):
    k = float(10.0 ** rng.uniform(-0.3, 1.0))
    x0 = float(rng.uniform(1.2, 2.8)) * float(rng.choice([-1.0, 1.0]))
    group = bool(rng.integers(2))
    return dict(model=Curved(k, x0, group), data=(), target=None, desc=f"curved/{'SO3' if group else 'R'}/k={k:.3g}/x0={x0:.3g}", nres=1)


def loss_ref(opt, model, data, target):
    """Robust loss at the current parameters, recomputed outside RobustModel.loss."""
    with torch.no_grad():
        out = model(*data)
    out = out if isinstance(out, (tuple, list)) else (out,)
    out = [o.tensor() if isinstance(o, pp.LieTensor) else o for o in out]
    tl = None if target is None else (list(target) if isinstance(target, (list, tuple)) else [target])
    ks = opt.model.kernel
    tot = 0
    for i, o in enumerate(out):
        r = o if tl is None or tl[i] is None else o - tl[i]
        k = ks[i] if len(ks) > 1 else ks[0]
        x = r.square().sum(-1)
        v = k(x) if not isinstance(k, pp.optim.optimizer.Trivial) else x
        tot = tot + v.sum()
    return tot


def quality(ev):
    J, D, R = ev["J"].double(), ev["D"].double(), ev["R"].double()
    den = -((J @ D).mT @ (2 * R + J @ D)).squeeze()
    return float((ev["last"].double() - ev["loss"].double()) / den), float(den)


# TrustRegion() as documented: what an LM built without a strategy argument uses
DOC_TR = {"radius": 1e6, "high": 0.5, "low": 1e-3, "up": 2.0, "down": 0.5, "factor": 0.5, "min": 1e-6, "max": 1e16}


class _Doc:
    min, max, down = DOC_TR["min"], DOC_TR["max"], DOC_TR["down"]


class _DocSt:
    strategy = _Doc


def check_strategy(ck, name, st, ev, regime, wit):
    entry = f"strategy.{name}.update"
    b, a, c = ev["before"], ev["after"], ev["consts"]
    if name == "default":
        # judged against the documented constants of TrustRegion(), not against whatever the object reports about itself
        name, st, entry = "TrustRegion", _DocSt, "optim.LevenbergMarquardt(strategy omitted)"
        c = {k_: DOC_TR[k_] for k_ in ("high", "low", "up", "factor")}
        ck.mark("strategy/default-of-LM")
    ck.count("strategy", f"{name}", key=(wit["history"], wit["call"], len(wit.get("k", ""))), nontrivial=True)
    if name == "Constant":
        ck.check(a["damping"] == b["damping"], "strategy", name, entry, "constant_damping_changed", dict(wit, before=b, after=a))
        return
    q, den = quality(ev)
    if not math.isfinite(q):
        ck.note_add("strategy_quality_not_finite", 1)
        return
    for thr in (c["high"], c["low"]):
        if abs(q - thr) <= 1e-9 * max(1.0, abs(thr)):
            ck.note_add("strategy_ambiguous_threshold", 1)
            return
    if name == "Adaptive":
        if q > c["high"]:
            want, tag = b["damping"] * b["down"], "very_successful"
        elif q > c["low"]:
            want, tag = b["damping"], "successful"
        else:
            want, tag = b["damping"] * c["up"], "unsuccessful"
        want = max(st.strategy.min, min(want, st.strategy.max))
        ck.mark(f"strategy/Adaptive/{tag}")
        ck.ratio("strategy", f"Adaptive/{tag}", abs(a["damping"] - want), 1e-12 * abs(want), entry, "adaptive_damping_not_as_documented",
                 dict(wit, quality=q, before=b, after=a, want=want))
        ck.check(st.strategy.min <= a["damping"] <= st.strategy.max, "strategy", "Adaptive/bounds", entry, "damping_outside_min_max", dict(wit, after=a))
        if a["damping"] in (st.strategy.min, st.strategy.max):
            ck.mark("strategy/Adaptive/bound_binds")
    else:
        radius = 1.0 / b["damping"]
        if q > c["high"]:
            r_want, d_want, tag = c["up"] * radius, st.strategy.down, "very_successful"
        elif q > c["low"]:
            r_want, d_want, tag = radius, st.strategy.down, "successful"
        else:
            r_want, d_want, tag = radius * b["down"], b["down"] * c["factor"], "unsuccessful"
        lo, hi = st.strategy.min, st.strategy.max
        r_want, d_want = max(lo, min(r_want, hi)), max(lo, min(d_want, hi))
        ck.mark(f"strategy/TrustRegion/{tag}")
        if tag != "unsuccessful" and b["down"] != st.strategy.down:
            ck.mark(f"strategy/TrustRegion/{tag}_after_unsuccessful")
        ck.ratio("strategy", f"TrustRegion/{tag}", abs(a["radius"] - r_want), 1e-12 * abs(r_want), entry, "trust_region_radius_not_as_documented",
                 dict(wit, quality=q, before=b, after=a, want_radius=r_want))
        ck.ratio("strategy", f"TrustRegion/{tag}", abs(a["down"] - d_want), 1e-12 * abs(d_want), entry, "trust_region_down_factor_not_as_documented",
                 dict(wit, quality=q, before=b, after=a, want_down=d_want))
        ck.ratio("strategy", f"TrustRegion/{tag}", abs(a["damping"] - 1.0 / a["radius"]), 1e-12 * abs(a["damping"]), entry, "damping_is_not_inverse_radius", dict(wit, after=a))
        ck.check(lo <= a["radius"] <= hi, "strategy", "TrustRegion/bounds", entry, "radius_outside_min_max", dict(wit, after=a))
        if a["radius"] in (lo, hi):
            ck.mark("strategy/TrustRegion/bound_binds")


def max_diff(a, b):
    return max(float((a[n] - b[n]).abs().max()) if a[n].numel() else 0.0 for n in a)


def scale_of(s, step=None):
    m = max([float(v.abs().max()) if v.numel() else 0.0 for v in s.values()] + [0.0])
    return m + (float(step.abs().max()) if step is not None and step.numel() else 0.0) + 1.0


def check_lm_call(ck, opt, strat_name, spy_strat, model, data, target, events, ret, entry_params, entry_loss, reject, regime, wit, solver_failed):
    entry = "optim.LevenbergMarquardt.step"
    solves = [e for e in events if e["kind"] == "SOLVE"]
    ck.count("protocol", regime, key=(wit["history"], wit["call"]))
    # (1) at most reject+1 trials
    ck.check(len(solves) <= reject + 1, "protocol", regime, entry, "more_than_reject_plus_one_trials", dict(wit, trials=len(solves), reject=reject))
    # walk the trace
    i, n = 0, len(events)
    if i < n and events[i]["kind"] == "CORRECT":
        while i < n and events[i]["kind"] == "CORRECT":
            i += 1
    if i < n and events[i]["kind"] == "LOSS":        # first call only: loss at the given parameters
        i += 1
    last = entry_loss
    cur = dict(entry_params)
    increases, rejections, accepted = 0, 0, False
    while i < n:
        e = events[i]
        if e["kind"] != "SOLVE":
            ck.violation("protocol", regime, entry, "unexpected_event_order", dict(wit, at=i, kinds=[x["kind"] for x in events]))
            return
        pre = e["params"]
        ck.ratio("protocol", regime, max_diff(pre, cur), 64 * U * scale_of(cur), entry, "parameters_moved_before_trial", wit)
        if e["raised"]:
            # (5) a failing solver ends the call: nothing after it, parameters and loss as before that trial
            ck.mark("protocol/solver_raised")
            ck.check(i == n - 1, "protocol", regime, entry, "events_after_failed_solve", dict(wit, kinds=[x["kind"] for x in events[i:]]))
            now = optspy.param_snapshot(model)
            ck.check(all(torch.equal(now[k_], pre[k_]) for k_ in now), "protocol", regime, entry, "parameters_changed_by_failed_solve", wit)
            break
        if i + 3 >= n + 0 and not (i + 3 <= n - 0):
            pass
        kinds = [x["kind"] for x in events[i + 1:i + 4]]
        if kinds != ["UPDATE", "LOSS", "STRATEGY"]:
            ck.violation("protocol", regime, entry, "unexpected_event_order", dict(wit, at=i, kinds=[x["kind"] for x in events]))
            return
        upd, los, stg = events[i + 1], events[i + 2], events[i + 3]
        # the residual / Jacobian handed to the strategy are those of the linearisation point: what the correctors returned for this call
        cor_ = sorted([x for x in events if x["kind"] == "CORRECT"], key=lambda x: x["idx"])
        if cor_ and not wit.get("config", {}).get("weight"):
            Rc_ = torch.cat([x["R_out"].reshape(-1) for x in cor_])
            ck.count("protocol", regime + "/strategy-arguments", key=(wit["history"], wit["call"], i))
            if stg["R"].numel() == Rc_.numel():
                ck.ratio("protocol", regime, float((stg["R"].reshape(-1) - Rc_).abs().max()), 1e-12 * (1 + float(Rc_.abs().max())), entry,
                         "strategy_called_with_a_residual_that_is_not_the_linearised_one",
                         lambda: dict(wit, handed=stg["R"].reshape(-1).tolist()[:12], linearised=Rc_.tolist()[:12]))
        check_strategy(ck, strat_name, spy_strat, stg, regime, dict(wit, k=str(i)))
        ck.check(torch.equal(stg["last"], torch.as_tensor(last)) and torch.equal(stg["loss"], los["value"]), "protocol", regime, entry,
                 "strategy_called_with_wrong_losses", wit)
        trial_loss = float(los["value"])
        worse = float(last) < trial_loss
        increases += int(worse)
        i += 4
        if i < n and events[i]["kind"] == "UPDATE":
            # (4) rejected trial: restored to the pre-trial parameters up to retraction round-off
            rst = events[i]
            rejections += 1
            ck.check(worse, "protocol", regime, entry, "trial_with_lower_loss_was_rejected", dict(wit, last=float(last), trial=trial_loss))
            ck.check(torch.equal(rst["step"], -upd["step"]), "protocol", regime, entry, "restore_step_is_not_minus_D", wit)
            ck.ratio("restore", regime, max_diff(rst["after"], pre), 64 * U * scale_of(pre, upd["step"]), entry,
                     "rejected_trial_not_restored", lambda: dict(wit, trial=rejections, step_norm=float(upd["step"].norm())))
            ck.count("restore", regime, key=(wit["history"], wit["call"], rejections))
            cur = rst["after"]
            i += 1
        else:
            accepted = True
            cur = upd["after"]
            ck.check(i == n, "protocol", regime, entry, "events_after_accepted_trial", dict(wit, kinds=[x["kind"] for x in events[i:]]))
            if worse:
                ck.check(rejections >= reject, "protocol", regime, entry, "worse_loss_accepted_before_rejections_exhausted",
                         dict(wit, rejections=rejections, reject=reject, last=float(last), trial=trial_loss))
            last_trial = trial_loss
            break
    # (2) returned value = optimizer.loss = robust loss at the parameters left behind
    now = optspy.param_snapshot(model)
    ck.ratio("protocol", regime, max_diff(now, cur), 0.0 + 1e-300, entry, "final_parameters_differ_from_trace", wit)
    true_loss = float(loss_ref(opt, model, data, target))
    ck.check(torch.equal(torch.as_tensor(ret), torch.as_tensor(opt.loss)), "protocol", regime, entry, "return_value_is_not_optimizer_loss", wit)
    ck.ratio("loss", regime, abs(float(ret) - true_loss), 64 * U * (abs(true_loss) + 1e-300) * (1 + len(solves)) + (0 if accepted or solver_failed or not solves else
                                                                                                   64 * U * abs(true_loss) * 1e3),
             entry, "returned_loss_is_not_the_loss_at_the_parameters_left_behind",
             lambda: dict(wit, returned=float(ret), recomputed=true_loss, accepted=accepted, rejections=rejections))
    ck.count("loss", regime, key=(wit["history"], wit["call"]))
    # (3) not larger than the loss at the given parameters unless the rejections were exhausted
    if not (rejections >= reject and accepted):
        ck.check(float(ret) <= float(entry_loss), "protocol", regime, entry, "returned_loss_larger_than_loss_at_entry",
                 dict(wit, returned=float(ret), entry=float(entry_loss), rejections=rejections, reject=reject))
    tag = "k=0" if increases == 0 else "k=reject+1" if increases == reject + 1 else "k=reject" if increases == reject else "0<k<reject"
    if solves and not solver_failed:
        ck.mark("increasing_trials/" + tag)
    return increases


def run_history(ck, rng, hid, spec, cfg, nsteps, fail_at=None, wall=None):
    trace = optspy.Trace()
    model = spec["model"]
    data, target = tuple(spec["data"]), spec["target"]
    opt = c07.build(rng, cfg, spec, trace, fail_at=fail_at)
    strat_name = cfg.get("strategy", "-")
    regime = f"{cfg['opt']}/{cfg['solver']}/{strat_name}/{cfg['kernel']}" + ("/fault" if fail_at else "") + ("/wall" if wall else "")
    spy_strat = opt.strategy if cfg["opt"] == "LM" else None
    solves_total = 0
    for call in range(nsteps):
        wit = {"history": hid, "call": call, "model": spec["desc"], "config": dict(cfg), "fail_at": fail_at}
        entry_params = optspy.param_snapshot(model)
        entry_loss = loss_ref(opt, model, data, target)
        prev_loss = getattr(opt, "loss", None)
        start = len(trace.events)
        def guarded_step():
            # histories configured with warnings_as_errors run as under `python -W error`: same protocol, nothing may escape step()
            with warnings.catch_warnings():
                if cfg.get("warnings_as_errors"):
                    warnings.simplefilter("error")
                return opt.step(data, target=target)
        if cfg.get("warnings_as_errors"):
            ck.mark("config/warnings-as-errors")
        okc, ret = ck.call("protocol", regime, f"optim.{cfg['opt']}.step", guarded_step, witness=wit)
        if not okc:
            return solves_total
        ev = trace.events[start:]
        nsolve = len([e for e in ev if e["kind"] == "SOLVE"])
        solves_total += nsolve
        failed = any(e["kind"] == "SOLVE" and e["raised"] for e in ev)
        if cfg["opt"] == "LM":
            if prev_loss is not None:
                # called repeatedly on the same data: the cached loss is the loss at the given parameters
                ck.ratio("loss", regime, abs(float(prev_loss) - float(entry_loss)), 64 * U * abs(float(entry_loss)) * 1e3 + 1e-300, f"optim.LM.step",
                         "cached_loss_is_not_loss_at_entry", wit)
                entry_l = prev_loss
            else:
                entry_l = entry_loss
            check_lm_call(ck, opt, strat_name, spy_strat, model, data, target, ev, ret, entry_params, entry_l, cfg["reject"], regime, wit, failed)
        else:
            # (7) GN: returns the loss at the new parameters and records the previous one
            ck.count("protocol", regime, key=(hid, call))
            true_loss = float(loss_ref(opt, model, data, target))
            ck.ratio("loss", regime, abs(float(ret) - true_loss), 64 * U * abs(true_loss) + 1e-300, "optim.GaussNewton.step",
                     "returned_loss_is_not_the_loss_at_the_parameters_left_behind", dict(wit, returned=float(ret), recomputed=true_loss))
            ck.count("loss", regime, key=(hid, call))
            want_last = prev_loss if prev_loss is not None else entry_loss
            ck.ratio("loss", regime, abs(float(opt.last) - float(want_last)), 64 * U * abs(float(want_last)) * 1e3 + 1e-300, "optim.GaussNewton.step",
                     "last_is_not_the_previous_loss", dict(wit, last=float(opt.last), want=float(want_last)))
            ck.check(torch.equal(torch.as_tensor(ret), torch.as_tensor(opt.loss)), "protocol", regime, "optim.GaussNewton.step", "return_value_is_not_optimizer_loss", wit)
        if failed:
            break
        if float(ret) < 1e-24:
            break
    return solves_total


def wall_spec(rng):
    T = float(rng.uniform(0.5, 2.0))
    c = T * float(2.0 ** -rng.uniform(0.2, 24))
    group = bool(rng.integers(2))
    m = Wall(T, c, 1e6, group)
    return dict(model=m, data=(), target=None, desc=f"wall/{'SO3' if group else 'R'}/T={T:.3g}/c={c:.3g}", nres=1)


def lm_cfg(rng):
    cfg = c07.config(rng, opt="LM")
    cfg["solver"] = ["Cholesky", "PINV", "LSTSQ"][int(rng.integers(3))]
    cfg["min"], cfg["max"], cfg["clamp"] = 1e-6, 1e32, "default"
    cfg["weight"] = False
    return cfg


def run(ck):
    rng = ck.rng("c08")
    thorough = ck.tier == "thorough"
    nh = 160 if thorough else 6
    templates = ["pose_log", "points", "alg_log", "mixed_so3_offset", "two_outputs", "three_params", "alias_output"]
    hid = 0
    # ---- random models, LM and GN
    for i in range(nh):
        hid += 1
        which = templates[(i + ck.shard) % len(templates)]
        spec = optmodels.make(rng, which)
        cfg = lm_cfg(rng) if i % 3 else dict(c07.config(rng, opt="GN"), weight=False)
        ck.mark("history/" + cfg["opt"])
        run_history(ck, rng, (ck.shard, hid), spec, cfg, nsteps=int(rng.integers(3, 31 if thorough else 9)))
    # ---- engineered walls: the first k trials increase the loss
    for i in range(nh * 3):
        hid += 1
        spec = wall_spec(rng)
        cfg = lm_cfg(rng)
        cfg["kernel"] = "none"
        cfg["damping"] = float(10.0 ** rng.uniform(-2, 1))
        cfg["reject"] = int(rng.integers(0, 17))
        if i % 4 == 3:
            # the strategy argument omitted, LM's own (Hessian-diagonal) bounds not the default ones, many rejections allowed
            cfg["strategy"], cfg["reject"] = "default", 16
            cfg["min"], cfg["max"] = [(1e-3, 1e32), (1e-6, 1e8), (1e-6, 1e32)][int(rng.integers(3))]
        run_history(ck, rng, (ck.shard, hid), spec, cfg, nsteps=int(rng.integers(2, 6)), wall=True)
    # ---- curved models: accepted trials of mediocre quality after rejected ones (middle branch of the strategies)
    for i in range(nh * 4):
        hid += 1
        spec = curved_spec(rng)
        cfg = lm_cfg(rng)
        cfg["kernel"] = "none"
        cfg["strategy"] = ["TrustRegion", "TrustRegion", "Adaptive"][i % 3]
        cfg["damping"] = float(10.0 ** rng.uniform(-4, 0))
        cfg["tight_bounds"] = False
        cfg["reject"] = int(rng.integers(4, 17))
        run_history(ck, rng, (ck.shard, hid), spec, cfg, nsteps=int(rng.integers(3, 9)), wall=True)
    # ---- fault enumeration: the solver raises at the j-th solve of the run
    swept = 0
    for i in range(4 if thorough else 2):
        hid += 1
        seed = ck.subseed(("fault", i))
        def fresh():
            r2 = np.random.default_rng(seed)
            spec = wall_spec(r2) if i % 2 else optmodels.make(r2, templates[(i + ck.shard) % len(templates)])
            cfg = lm_cfg(r2)
            if i % 2:
                cfg["kernel"] = "none"
            return r2, spec, cfg
        r2, spec, cfg = fresh()
        silent = type(ck)(ck.pid, ck.tier, ck.seed)      # the dry run only measures the number of solves
        S = run_history(silent, r2, (ck.shard, hid, "dry"), spec, cfg, nsteps=5)
        ck.note_add("fault_points", S)
        for j in range(1, S + 1):
            r2, spec, cfg = fresh()
            run_history(ck, r2, (ck.shard, hid, j), spec, cfg, nsteps=5, fail_at=j)
            swept += 1
    ck.note_add("fault_points_swept", swept)
    ck.mark("faults/swept", swept)
    ck.require("strategy/default-of-LM", "config/warnings-as-errors")
    ck.require("faults/swept", "protocol/solver_raised", "increasing_trials/k=0", "increasing_trials/0<k<reject", "increasing_trials/k=reject",
               "increasing_trials/k=reject+1", "history/GN", "history/LM",
               "strategy/Adaptive/very_successful", "strategy/Adaptive/unsuccessful", "strategy/TrustRegion/very_successful",
               "strategy/TrustRegion/unsuccessful", "strategy/Adaptive/bound_binds", "strategy/TrustRegion/bound_binds",
               "strategy/Adaptive/successful", "strategy/TrustRegion/successful", "strategy/TrustRegion/successful_after_unsuccessful",
               "strategy/TrustRegion/very_successful_after_unsuccessful")
    if ck.shard == ck.nshards - 1:
        # realistic driver: the repository's own optimiser / scheduler tests with the step contract attached
        from .. import attach
        attach.run_repository_tests(ck, ["lm"], subset="tests/optim")
        ck.require("suite/ran_under_monitors")
        ck.floor("suite.lm", 20)
    ck.floor("protocol", 30)
    ck.floor("restore", 10)
    ck.floor("strategy", 20)
