"""Globally attached observers: wrappers on the class attributes the public API dispatches through
(`so3Type.Exp`, `SE3Type.Log`, ...), so that any workload (optimisers, IMU integration, splines, the
repository's own tests) feeds the Exp/Log reference-model monitors with the inputs real use produces."""
import contextlib

import torch
import pypose as pp
from pypose.lietensor import lietensor as LT

ALG_TYPES = {"so3": LT.so3Type, "se3": LT.se3Type, "rxso3": LT.rxso3Type, "sim3": LT.sim3Type}
GRP_TYPES = {"SO3": LT.SO3Type, "SE3": LT.SE3Type, "RxSO3": LT.RxSO3Type, "Sim3": LT.Sim3Type}


@contextlib.contextmanager
def observe(on_exp=None, on_log=None, max_items=4000):
    """on_exp(kind, x (N,d) tensor, X (N,D) tensor); on_log(kind, X, x).  Only plain (non functorch-
    wrapped, finite) float tensors are forwarded; everything else is counted as skipped."""
    saved, stats = [], {"exp_calls": 0, "log_calls": 0, "skipped": 0}

    def plain(t):
        t = t.tensor() if isinstance(t, pp.LieTensor) else t
        try:
            if not isinstance(t, torch.Tensor) or torch._C._functorch.is_functorch_wrapped_tensor(t):
                return None
        except Exception:
            return None
        if not t.is_floating_point() or t.numel() == 0:
            return None
        return t.detach()

    def wrap(cls, name, kind, cb, key):
        orig = getattr(cls, name)

        def wrapped(self, x):
            out = orig(self, x)
            try:
                a, b = plain(x), plain(out)
                if a is None or b is None or a.numel() // a.shape[-1] > max_items:
                    stats["skipped"] += 1
                else:
                    stats[key] += 1
                    cb(kind, a.reshape(-1, a.shape[-1]), b.reshape(-1, b.shape[-1]))
            except Exception as e:      # an observer must never disturb the workload
                stats["skipped"] += 1
                stats["last_error"] = repr(e)[:200]
            return out
        saved.append((cls, name, orig))
        setattr(cls, name, wrapped)

    if on_exp is not None:
        for k, c in ALG_TYPES.items():
            wrap(c, "Exp", k, on_exp, "exp_calls")
    if on_log is not None:
        for k, c in GRP_TYPES.items():
            wrap(c, "Log", k, on_log, "log_calls")
    try:
        yield stats
    finally:
        for cls, name, orig in saved:
            setattr(cls, name, orig)


def realistic_workloads(rng, dtype=torch.float64, steps=8):
    """Small real uses of the library that call Exp/Log on the inputs practice produces: LM pose
    fitting to convergence (tiny increments), IMU preintegration, B-splines, geodesic retractions."""
    from . import optmodels
    import numpy as np
    torch.manual_seed(int(rng.integers(2 ** 31)))
    for k in ("SO3", "SE3", "RxSO3", "Sim3"):
        small = dict(ang=0.4, t=0.2, s=0.15) if k == "Sim3" else dict(ang=1.0, t=1.0, s=0.3)
        X0 = optmodels.G(k, rng, (3,), **small).to(dtype)
        Y = pp.LieTensor(optmodels.G(k, rng, (2, 3), **small).to(dtype), ltype=pp.lietensor.lietensor.__dict__[k + "_type"])

        class Net(torch.nn.Module):
            def __init__(s):
                super().__init__()
                s.p = pp.Parameter(pp.LieTensor(X0.clone(), ltype=Y.ltype))

            def forward(s, inp):
                return (s.p @ inp).Log().tensor()
        net = Net()
        opt = pp.optim.LM(net, solver=pp.optim.solver.PINV(), strategy=pp.optim.strategy.Adaptive(damping=1e-4))
        for _ in range(steps):
            try:
                opt.step(Y)
            except Exception:
                break
    F = 40
    imu = pp.module.IMUPreintegrator(pos=torch.zeros(3), rot=pp.identity_SO3(), vel=torch.zeros(3)).to(dtype)
    dt = torch.full((1, F, 1), 0.01, dtype=dtype)
    imu(dt=dt, gyro=torch.randn(1, F, 3, dtype=dtype) * 0.2, acc=torch.randn(1, F, 3, dtype=dtype))
    imu(dt=dt * 1e-3, gyro=torch.randn(1, F, 3, dtype=dtype) * 1e-6, acc=torch.randn(1, F, 3, dtype=dtype))
    poses = pp.randn_SE3(6, dtype=dtype)
    pp.bspline(poses, interval=0.25)
    X = pp.randn_Sim3(4, sigma=0.3, dtype=dtype)
    for s in (1.0, 1e-4, 1e-8, 1e-12):
        X = X + pp.randn_sim3(4, sigma=s, dtype=dtype)
        X.Log().Exp()


def run_repository_tests(ck, monitors, timeout=1500, subset="tests"):
    """Realistic driver: the repository's own test-suite executed with monitors attached (pytest plugin
    vrf.pytest_plugin in a child interpreter); the plugin's partial result is absorbed into `ck`.
    Network-dependent tests fail as in the baseline; test outcomes are not judged here, only what the monitors saw."""
    import json
    import os
    import subprocess
    import sys
    import tempfile
    from . import ROOT, REPO
    with tempfile.TemporaryDirectory(prefix="vrf_suite_") as tmp:
        import shutil
        out = os.path.join(tmp, "partial.json")
        # the tests are copied next to nothing else, so that the package under test is the one VERIF_REPO names
        # (a scratch copy of the package during self-checks) and not whatever sits beside the tests
        src = os.path.join(REPO, "tests") if os.path.isdir(os.path.join(REPO, "tests")) else "/repo/tests"
        shutil.copytree(src, os.path.join(tmp, "tests"), ignore=shutil.ignore_patterns("__pycache__"))
        env = dict(os.environ, VRF_PLUGIN_OUT=out, VRF_PLUGIN_PID=ck.pid, VRF_PLUGIN_MONITORS=",".join(monitors),
                   PYTHONPATH=ROOT + os.pathsep + REPO + os.pathsep + os.environ.get("PYTHONPATH", ""), VERIF_REPO=REPO)
        try:
            r = subprocess.run([sys.executable, "-m", "pytest", "-q", "-p", "no:cacheprovider", "-p", "vrf.pytest_plugin",
                                "--timeout=900", "--continue-on-collection-errors", "--rootdir", tmp, subset],
                               cwd=tmp, env=env, capture_output=True, text=True, timeout=timeout)
        except subprocess.TimeoutExpired:
            ck.inconclusive_because("repository test-suite under monitors exceeded its watchdog")
            return
        if not os.path.exists(out):
            ck.inconclusive_because("repository test-suite under monitors produced no monitor output: " + (r.stdout + r.stderr)[-300:])
            return
        with open(out) as f:
            ck.absorb(json.load(f))
        ck.mark("suite/ran_under_monitors")
        ck.note("suite_summary", (r.stdout.strip().splitlines() or ["?"])[-1][-120:])
