"""Independent reference model of the four Lie groups (never imports pypose).

Everything is numpy longdouble (x87 80-bit, eps 1.1e-19) on stacks of 4x4 matrices:

  generator(kind, x)      algebra vector  -> 4x4 generator matrix
  exp_matrix(kind, x)     matrix exponential of the generator by scaling-and-squaring of a
                          Taylor polynomial: *no case splits*, so it has no switch-over point
                          that could coincide with one of the library's
  group_matrix(kind, X)   raw group components (t, q, s) -> 4x4 homogeneous matrix
  mp_expm(G)              mpmath.expm at 50 digits, used to validate exp_matrix on samples

Layouts (pypose): so3 [phi]; se3 [tau, phi]; rxso3 [phi, sigma]; sim3 [tau, phi, sigma];
SO3 [qx qy qz qw]; SE3 [t, q]; RxSO3 [q, s]; Sim3 [t, q, s].
"""
import numpy as np

LD = np.longdouble
ALG = {"so3": 3, "se3": 6, "rxso3": 4, "sim3": 7}
GRP = {"SO3": 4, "SE3": 7, "RxSO3": 5, "Sim3": 8}
ALG2GRP = {"so3": "SO3", "se3": "SE3", "rxso3": "RxSO3", "sim3": "Sim3"}
GRP2ALG = {v: k for k, v in ALG2GRP.items()}
MANIFOLD = {"SO3": 3, "SE3": 6, "RxSO3": 4, "Sim3": 7, "so3": 3, "se3": 6, "rxso3": 4, "sim3": 7}


def ld(x):
    try:
        import torch
        if isinstance(x, torch.Tensor):
            x = x.detach().cpu().double().numpy()
    except ImportError:
        pass
    return np.asarray(x, dtype=LD)


def skew(v):
    v = ld(v)
    K = np.zeros(v.shape[:-1] + (3, 3), dtype=LD)
    K[..., 0, 1], K[..., 0, 2] = -v[..., 2], v[..., 1]
    K[..., 1, 0], K[..., 1, 2] = v[..., 2], -v[..., 0]
    K[..., 2, 0], K[..., 2, 1] = -v[..., 1], v[..., 0]
    return K


def split_alg(kind, x):
    """-> (tau, phi, sigma) with zeros where the algebra has no such block."""
    x = ld(x)
    z3 = np.zeros(x.shape[:-1] + (3,), dtype=LD)
    z1 = np.zeros(x.shape[:-1], dtype=LD)
    if kind == "so3":
        return z3, x[..., :3], z1
    if kind == "se3":
        return x[..., :3], x[..., 3:6], z1
    if kind == "rxso3":
        return z3, x[..., :3], x[..., 3]
    if kind == "sim3":
        return x[..., :3], x[..., 3:6], x[..., 6]
    raise KeyError(kind)


def join_alg(kind, tau, phi, sigma):
    sigma = np.asarray(sigma)[..., None]
    if kind == "so3":
        return phi
    if kind == "se3":
        return np.concatenate([tau, phi], -1)
    if kind == "rxso3":
        return np.concatenate([phi, sigma], -1)
    return np.concatenate([tau, phi, sigma], -1)


def split_grp(kind, X):
    """-> (t, q, s)"""
    X = ld(X)
    z3 = np.zeros(X.shape[:-1] + (3,), dtype=LD)
    o1 = np.ones(X.shape[:-1], dtype=LD)
    if kind == "SO3":
        return z3, X[..., :4], o1
    if kind == "SE3":
        return X[..., :3], X[..., 3:7], o1
    if kind == "RxSO3":
        return z3, X[..., :4], X[..., 4]
    if kind == "Sim3":
        return X[..., :3], X[..., 3:7], X[..., 7]
    raise KeyError(kind)


def join_grp(kind, t, q, s):
    s = np.asarray(s)[..., None]
    if kind == "SO3":
        return q
    if kind == "SE3":
        return np.concatenate([t, q], -1)
    if kind == "RxSO3":
        return np.concatenate([q, s], -1)
    return np.concatenate([t, q, s], -1)


def generator(kind, x, unit_tau=False):
    tau, phi, sigma = split_alg(kind, x)
    G = np.zeros(phi.shape[:-1] + (4, 4), dtype=LD)
    G[..., :3, :3] = skew(phi) + sigma[..., None, None] * np.eye(3, dtype=LD)
    nt = np.ones(phi.shape[:-1], dtype=LD)
    if unit_tau:
        nt = np.sqrt((tau * tau).sum(-1))
        nt = np.where(nt > 0, nt, LD(1))
        tau = tau / nt[..., None]
    G[..., :3, 3] = tau
    return (G, nt) if unit_tau else G


def expm_ld(G, terms=34):
    """Scaling and squaring of the Taylor polynomial, longdouble, batched, no case split."""
    G = ld(G)
    n = G.shape[-1]
    nrm = np.abs(G).sum(-1).max(-1)
    with np.errstate(divide="ignore"):
        s = np.ceil(np.log2(np.maximum(nrm.astype(np.float64), 1e-300) / 0.25))
    s = np.clip(s, 0, 60).astype(np.int64)
    A = G / (LD(2) ** s.astype(LD))[..., None, None]
    I = np.broadcast_to(np.eye(n, dtype=LD), A.shape).copy()
    E = I.copy()
    for k in range(terms, 0, -1):          # Horner: E = I + A/k (I + A/(k+1) (...))
        E = I + np.matmul(A, E) / LD(k)
    smax = int(s.max()) if s.size else 0
    for j in range(smax):
        todo = s > j
        if np.any(todo):
            E2 = np.matmul(E, E)
            E = np.where(todo[..., None, None], E2, E)
    return E


def exp_matrix(kind, x):
    """4x4 matrix of Exp(x); the translation column is computed for the unit direction of
    tau and rescaled (the translation is linear in tau), so huge translations do not force
    a large squaring count on the rotation/scale block."""
    G, nt = generator(kind, x, unit_tau=True)
    E = expm_ld(G)
    E[..., :3, 3] *= nt[..., None]
    return E


def quat_R(q):
    q = ld(q)
    n = np.sqrt((q * q).sum(-1, keepdims=True))
    q = q / np.where(n > 0, n, LD(1))
    x, y, z, w = q[..., 0], q[..., 1], q[..., 2], q[..., 3]
    R = np.empty(q.shape[:-1] + (3, 3), dtype=LD)
    R[..., 0, 0] = 1 - 2 * (y * y + z * z)
    R[..., 0, 1] = 2 * (x * y - z * w)
    R[..., 0, 2] = 2 * (x * z + y * w)
    R[..., 1, 0] = 2 * (x * y + z * w)
    R[..., 1, 1] = 1 - 2 * (x * x + z * z)
    R[..., 1, 2] = 2 * (y * z - x * w)
    R[..., 2, 0] = 2 * (x * z - y * w)
    R[..., 2, 1] = 2 * (y * z + x * w)
    R[..., 2, 2] = 1 - 2 * (x * x + y * y)
    return R


def quat_norm(q):
    q = ld(q)
    return np.sqrt((q * q).sum(-1))


def group_matrix(kind, X):
    t, q, s = split_grp(kind, X)
    M = np.zeros(q.shape[:-1] + (4, 4), dtype=LD)
    M[..., :3, :3] = s[..., None, None] * quat_R(q)
    M[..., :3, 3] = t
    M[..., 3, 3] = 1
    return M


def R_to_quat(R):
    """Rotation matrix -> unit quaternion (xyzw), Shepperd's method, longdouble."""
    R = ld(R)
    shp = R.shape[:-2]
    R = R.reshape(-1, 3, 3)
    q = np.empty((R.shape[0], 4), dtype=LD)
    tr = R[:, 0, 0] + R[:, 1, 1] + R[:, 2, 2]
    cand = np.stack([R[:, 0, 0], R[:, 1, 1], R[:, 2, 2], tr], -1)
    c = cand.argmax(-1)
    for i in range(R.shape[0]):
        M = R[i]
        if c[i] == 3:
            w = np.sqrt(1 + tr[i]) / 2
            q[i] = [(M[2, 1] - M[1, 2]) / (4 * w), (M[0, 2] - M[2, 0]) / (4 * w), (M[1, 0] - M[0, 1]) / (4 * w), w]
        else:
            a = int(c[i]); b = (a + 1) % 3; d = (a + 2) % 3
            v = np.sqrt(1 + M[a, a] - M[b, b] - M[d, d]) / 2
            qq = [0, 0, 0, 0]
            qq[a] = v
            qq[b] = (M[b, a] + M[a, b]) / (4 * v)
            qq[d] = (M[d, a] + M[a, d]) / (4 * v)
            qq[3] = (M[d, b] - M[b, d]) / (4 * v)
            q[i] = qq
    return q.reshape(shp + (4,))


def axis_angle_quat(axis, angle):
    axis = ld(axis)
    axis = axis / np.sqrt((axis * axis).sum(-1, keepdims=True))
    angle = ld(angle)
    return np.concatenate([axis * np.sin(angle / 2)[..., None], np.cos(angle / 2)[..., None]], -1)


def rotation_angle(R):
    """Angle of a 3x3 rotation in [0, pi], stable near 0 and pi (atan2 of |skew| and trace)."""
    R = ld(R)
    sk = np.stack([R[..., 2, 1] - R[..., 1, 2], R[..., 0, 2] - R[..., 2, 0], R[..., 1, 0] - R[..., 0, 1]], -1)
    s = np.sqrt((sk * sk).sum(-1)) / 2
    c = (R[..., 0, 0] + R[..., 1, 1] + R[..., 2, 2] - 1) / 2
    return np.arctan2(s, c)


def mp_expm(G, dps=50):
    import mpmath as mp
    mp.mp.dps = dps
    G = np.asarray(G)
    M = mp.matrix(G.shape[0], G.shape[1])
    for i in range(G.shape[0]):
        for j in range(G.shape[1]):
            M[i, j] = mp.mpf(float(G[i, j])) + mp.mpf(float(G[i, j] - LD(float(G[i, j]))))
    E = mp.expm(M)
    return E


def mp_to_ld(E):
    n, m = E.rows, E.cols
    out = np.empty((n, m), dtype=LD)
    for i in range(n):
        for j in range(m):
            hi = float(E[i, j])
            lo = float(E[i, j] - hi)
            out[i, j] = LD(hi) + LD(lo)
    return out


def adjoint_matrix(kind, M):
    """Adjoint representation of the group element with 4x4 matrix M, built numerically from
    its definition  Adj(X) a = vee(M hat(a) M^-1)  on the basis vectors (longdouble)."""
    alg = GRP2ALG.get(kind, kind)
    n = ALG[alg]
    M = ld(M)
    Minv = np.linalg.inv(M.astype(np.float64)).astype(LD)
    # one Newton refinement of the inverse in longdouble
    Minv = Minv + np.matmul(Minv, np.eye(4, dtype=LD) - np.matmul(M, Minv))
    cols = []
    for i in range(n):
        e = np.zeros(n, dtype=LD)
        e[i] = 1
        H = np.matmul(np.matmul(M, generator(alg, e)), Minv)
        cols.append(vee(alg, H))
    return np.stack(cols, -1)


def vee(kind, H):
    H = ld(H)
    phi = np.stack([(H[..., 2, 1] - H[..., 1, 2]) / 2, (H[..., 0, 2] - H[..., 2, 0]) / 2,
                    (H[..., 1, 0] - H[..., 0, 1]) / 2], -1)
    tau = H[..., :3, 3]
    sigma = (H[..., 0, 0] + H[..., 1, 1] + H[..., 2, 2]) / 3
    return join_alg(kind, tau, phi, sigma)


def selftest(rng, n=24):
    """exp_matrix against mpmath.expm on random and boundary inputs; returns the worst
    entrywise discrepancy relative to (1 + |entry|)."""
    worst = 0.0
    for kind in ALG:
        d = ALG[kind]
        xs = [rng.standard_normal(d) * 10.0 ** rng.integers(-18, 1) for _ in range(n)]
        xs.append(np.zeros(d))
        big = rng.standard_normal(d)
        big[:] *= 3
        xs.append(big)
        for x in xs:
            E = exp_matrix(kind, x)
            Em = mp_to_ld(mp_expm(generator(kind, x)))
            a = float(np.abs(E[:3, :3] - Em[:3, :3]).max() / np.abs(Em[:3, :3]).max())
            nt = float(np.sqrt((Em[:3, 3] ** 2).sum()))
            b = float(np.sqrt(((E[:3, 3] - Em[:3, 3]) ** 2).sum())) / nt if nt > 0 else float(np.abs(E[:3, 3]).max())
            worst = max(worst, a, b)
    return worst


def ad_matrix(kind, x):
    """Adjoint representation of the algebra element x: ad(x) y = vee([hat x, hat y])."""
    n = ALG[kind]
    x = ld(x)
    Gx = generator(kind, x)
    cols = []
    for i in range(n):
        e = np.zeros(n, dtype=LD)
        e[i] = 1
        Ge = generator(kind, e)
        cols.append(vee(kind, np.matmul(Gx, Ge) - np.matmul(Ge, Gx)))
    return np.stack(cols, -1)


def left_jacobian(kind, x, terms=60):
    """Jl(x) = sum_k ad(x)^k / (k+1)!  (longdouble series; |x| moderate)."""
    A = ad_matrix(kind, x)
    n = A.shape[-1]
    I = np.eye(n, dtype=LD)
    S = I.copy()
    for k in range(terms, 0, -1):
        S = I + np.matmul(A, S) / LD(k + 1)
    return S
