"""C15 -- dynamics follow their equations; time bookkeeping; NLS linearisation exact at the ref point.

Monitors
  contract_call_plus_one  icontract snapshot/ensure attached (from the harness) to System.__call__:
                          system time after a call == time before + 1, for every call of every
                          system object the workloads create.
  systime_automaton       a reference counter automaton (oracles/dyn_ref.TimeAutomaton) shadows every
                          event of random call sequences (forward / reset / reset(t) / systime=t /
                          set_refpoint() / set_refpoint(t=..) / set_refpoint(x,u,t)); after every event
                          int(system.systime) must equal the automaton.
  lti_equations           every call of an LTI/LTV object: x' = A x + B u + c1, y = C x + D u + c2
                          with the matrices the reference selects for the automaton's time.
  ltv_refpoint_matrices   after LTV.set_refpoint(t=t*) the matrices read are those of time t*.
  nls_forward             every call of a generated NLS: f(x,u,t), g(x,u,t) at the automaton's time.
  nls_jacobian            A,B,C,D after set_refpoint == symbolic Jacobians of the generating
                          expression trees (numpy float64) at the reference point.
  nls_affine_exact        A x* + B u* + c1 == f(x*,u*,t*), C x* + D u* + c2 == g(x*,u*,t*).
  nls_second_order        affine-model error at two distances: observed order >= 1.8.
"""
import copy
import traceback

import icontract
import numpy as np
import torch
import pypose as pp

from ..oracles import dyn_ref as R

PID = "C15"
LEVEL = "exploration"
SHARDS = {"quick": 4, "thorough": 16}
TIMEOUT = {"quick": 900, "thorough": 5400}
RULE = ("LTI/LTV: random matrices (n,m,q in 1..6) in 8 batch layouts (unbatched, batched, vector-only batched, "
        "matrix-only batched, rank-2, rank-2 broadcast, mixed, 0-d scalars), c1/c2 present or None, both dtypes, "
        "LTV as stacked time-indexed subclasses (period P) and as function-of-time subclasses; every object is "
        "driven by a random event sequence of length <= 40 (calls with fresh or fed-back states of magnitude "
        "1e-3..1e3, reset(), reset(t), systime=t with ints and tensors, set_refpoint() and set_refpoint(t=..)). "
        "NLS: f,g are random polynomial/trigonometric expression trees in (x,u,t) (sympy, exact rational "
        "constants) generated with their symbolic Jacobians; reference points x*,u* in [-1.5,1.5], t* in 0..24 "
        "given explicitly (0-d int, 0-d float, (1,) tensors), by default (most recent call) or partially, read "
        "immediately or after 1..3 further calls, unbatched and in the batch-of-one layout (A,B only). One case = "
        "one event / one call / one reference point; distinct = distinct (object, step) or input bit patterns; "
        "trivial = second-order cases whose true remainder is below the round-off floor (affine direction).")
ASSUME = ["reference Jacobians are sympy derivatives of the generating expressions evaluated in numpy float64; "
          "all constants are exact rationals so the torch model and the numpy reference are the same function",
          "round-off scale of f, g and of each Jacobian entry = the same expression evaluated on absolute values "
          "(sin/cos nodes contribute 1 + |argument|)",
          "batched NLS linearisation is not documented and not demanded (autograd returns the cross-batch "
          "Jacobian); only unbatched states and the batch-of-one layout used by MPC (A, B) are monitored",
          "set_refpoint() without (some) arguments refers to the state/input of the most recent call and to the "
          "system time current when set_refpoint ran (as in the class docstring example); like an explicit "
          "reference point it must stay there while later calls / resets move the system time",
          "LTV.set_refpoint(t=t*): the matrices read afterwards must be those of t*; whether systime itself "
          "moves to t* is not specified, both 'unchanged' and 't*' are accepted and the automaton re-synchronises",
          "CPU only"]

C_LIN, C_NLS_FWD, C_JAC, C_AFF = 32.0, 32.0, 64.0, 64.0
DT = {"f64": torch.float64, "f32": torch.float32}


def u_of(dtype):
    return float(torch.finfo(dtype).eps)


def tt(a, dtype):
    return torch.as_tensor(np.asarray(a, dtype=np.float64)).to(dtype)


def f64(t):
    return t.detach().double().numpy()


def ratios(ck, monitor, regime, err, tol, entry, mech, witness_of=None):
    err, tol = np.broadcast_arrays(np.asarray(err, dtype=np.float64), np.asarray(tol, dtype=np.float64))
    return ck.ratios(monitor, regime, err.reshape(-1), tol.reshape(-1), entry, mech, witness_of)


# ----------------------------------------------------------------------------- contract on __call__
class ContractBreach(Exception):
    pass


class CallContract:
    """icontract snapshot/ensure on System.__call__, attached at run time (nothing in /repo is edited)."""

    def __init__(self, ck):
        self.ck = ck
        self.n = 0

    def install(self):
        ck, me = self.ck, self

        def kind_of(obj):
            return "NLS" if isinstance(obj, pp.module.NLS) else "LTV" if isinstance(obj, pp.module.LTV) else \
                "LTI" if isinstance(obj, pp.module.LTI) else "System"

        def time_before(self):
            return int(self._t)

        def time_advanced_by_exactly_one(self, OLD):
            me.n += 1
            ck.count("contract_call_plus_one", kind_of(self), key=me.n)
            return int(self._t) == OLD.t + 1

        def breach(self, OLD):
            return ContractBreach(f"{kind_of(self)}: systime {OLD.t} -> {int(self._t)} across one call")

        base = torch.nn.Module.__call__
        wrapped = icontract.snapshot(time_before, name="t")(
            icontract.ensure(time_advanced_by_exactly_one, error=breach)(base))
        pp.module.System.__call__ = wrapped
        return self

    def remove(self):
        if "__call__" in pp.module.System.__dict__:
            del pp.module.System.__call__


def guarded(ck, monitor, regime, entry, fn, witness=None):
    """Like ck.call (an exception on a valid input is a violation), with a readable mechanism when
    the attached contract fires.  The function is run exactly once."""
    try:
        return True, fn()
    except ContractBreach as e:
        ck.violation("contract_call_plus_one", regime, entry, "call_did_not_advance_time_by_exactly_one",
                     dict(witness or {}, breach=str(e)))
    except Exception as e:  # noqa
        ck.violation(monitor, regime, entry, "raised:" + type(e).__name__,
                     dict(witness or {}, exception=repr(e)[:500], traceback=traceback.format_exc(limit=-6)[-1500:]))
    return False, None


# ----------------------------------------------------------------------------- user-side LTV subclasses
class StackLTV(pp.module.LTV):
    """Time-indexed stacks [..., P, n, n] as in the class docstring (periodic)."""

    def __init__(self, A, B, C, D, c1, c2, P):
        super().__init__(A, B, C, D, c1, c2)
        self.P = P

    def _k(self):
        return self._t % self.P

    @property
    def A(self):
        return self._A[..., self._k(), :, :]

    @property
    def B(self):
        return self._B[..., self._k(), :, :]

    @property
    def C(self):
        return self._C[..., self._k(), :, :]

    @property
    def D(self):
        return self._D[..., self._k(), :, :]

    @property
    def c1(self):
        return None if self._c1 is None else self._c1[..., self._k(), :]

    @property
    def c2(self):
        return None if self._c2 is None else self._c2[..., self._k(), :]


class FuncLTV(pp.module.LTV):
    """Matrices generated from the time variable (second docstring example)."""

    def __init__(self, A0, A1, B, C0, C1, D, c1, c2, w):
        super().__init__(A0, B, C0, D, c1, c2)
        self.register_buffer("_A1", A1)
        self.register_buffer("_C1", C1)
        self.w = w

    @property
    def A(self):
        return self._A + self._A1 * torch.cos(self.w * self._t.to(self._A.dtype))

    @property
    def C(self):
        return self._C + self._C1 * torch.sin(self.w * self._t.to(self._C.dtype))


class FuncLTVGen(FuncLTV):
    """The constants too are generated from the time variable by overriding the public properties c1 / c2; nothing is
    handed to the base-class constructor for them (None)."""

    def __init__(self, A0, A1, B, C0, C1, D, c1g, c2g, w):
        super().__init__(A0, A1, B, C0, C1, D, None, None, w)
        self._c1g, self._c2g = c1g, c2g

    @property
    def c1(self):
        return None if self._c1g is None else self._c1g * torch.cos(self.w * self._t.to(self._c1g.dtype))

    @property
    def c2(self):
        return None if self._c2g is None else self._c2g * (1 + torch.sin(self.w * self._t.to(self._c2g.dtype)))


GenNLS = R.nls_subclass(pp.module.NLS)


# ----------------------------------------------------------------------------- linear reference model
LAYOUTS = ("unbatched", "batched", "vec-batched", "mat-batched", "rank2", "rank2-broadcast", "mixed", "scalar0d")


def layout_shapes(name, rng):
    b, b1, b2 = int(rng.integers(1, 4)), int(rng.integers(1, 4)), int(rng.integers(1, 4))
    e = ()
    if name == "unbatched" or name == "scalar0d":
        s = dict(A=e, B=e, C=e, D=e, c=e, x=e, u=e)
    elif name == "batched":
        s = dict(A=(b,), B=(b,), C=(b,), D=(b,), c=(b,), x=(b,), u=(b,))
    elif name == "vec-batched":
        s = dict(A=e, B=e, C=e, D=e, c=e, x=(b,), u=(b,))
    elif name == "mat-batched":
        s = dict(A=(b,), B=(b,), C=(b,), D=(b,), c=(b,), x=e, u=e)
    elif name == "rank2":
        s = dict(A=(b1, b2), B=(b1, b2), C=(b1, b2), D=(b1, b2), c=(b1, b2), x=(b1, b2), u=(b1, b2))
    elif name == "rank2-broadcast":
        s = dict(A=(b2,), B=(b2,), C=(b2,), D=(b2,), c=(b2,), x=(b1, b2), u=(b1, b2))
    else:  # mixed
        s = dict(A=(b,), B=e, C=e, D=(b,), c=e, x=(b,), u=e)
    return s


class LinModel:
    """Reference description of one LTI / LTV object (float64 copies of the dtype-rounded tensors)."""

    def __init__(self, rng, family, layout, dn, consts):
        self.family, self.layout, self.dn, self.dtype = family, layout, dn, DT[dn]
        if layout == "scalar0d":
            n = m = q = 1
        else:
            n, m, q = (int(v) for v in rng.integers(1, 7, 3))
            if rng.random() < 0.3:
                m = n                      # square B/D: transposition / swap errors do not fail on shapes
            if rng.random() < 0.3:
                q = n
        self.n, self.m, self.q = n, m, q
        self.sh = layout_shapes(layout, rng)
        self.P = int(rng.integers(1, 6)) if family == "stack" else None
        self.w = float(np.round(rng.uniform(0.05, 0.6), 2))
        self.consts = consts               # "both" | "none" | "c1"
        tax = (self.P,) if family == "stack" else ()
        scale = float(rng.choice([0.3, 1.0, 3.0]))
        g = lambda bs, *d: tt(rng.standard_normal(bs + tax + d) * scale, self.dtype)
        self.tA, self.tB = g(self.sh["A"], n, n), g(self.sh["B"], n, m)
        self.tC, self.tD = g(self.sh["C"], q, n), g(self.sh["D"], q, m)
        self.tc1 = g(self.sh["c"], n) if consts in ("both", "c1") else None
        self.tc2 = g(self.sh["c"], q) if consts in ("both", "c2") else None
        self.gen_consts = False
        if family == "func":
            self.tA1, self.tC1 = tt(rng.standard_normal(self.sh["A"] + (n, n)), self.dtype), \
                tt(rng.standard_normal(self.sh["C"] + (q, n)), self.dtype)
            self.gen_consts = consts != "none" and bool(rng.random() < 0.5)     # c1 / c2 produced by overridden properties

    def build(self):
        if self.family == "LTI":
            return pp.module.LTI(self.tA, self.tB, self.tC, self.tD, self.tc1, self.tc2)
        if self.family == "stack":
            return StackLTV(self.tA, self.tB, self.tC, self.tD, self.tc1, self.tc2, self.P)
        if self.gen_consts:
            return FuncLTVGen(self.tA, self.tA1, self.tB, self.tC, self.tC1, self.tD, self.tc1, self.tc2, self.w)
        return FuncLTV(self.tA, self.tA1, self.tB, self.tC, self.tC1, self.tD, self.tc1, self.tc2, self.w)

    def mats(self, t):
        """(values, magnitudes) of A,B,C,D,c1,c2 at reference time t."""
        def pick(T, vec=False):
            if T is None:
                return None
            a = f64(T)
            if self.family == "stack":
                a = np.take(a, int(t) % self.P, axis=-2 if vec else -3)
            return a
        v = {"A": pick(self.tA), "B": pick(self.tB), "C": pick(self.tC), "D": pick(self.tD),
             "c1": pick(self.tc1, True), "c2": pick(self.tc2, True)}
        g = {k: (None if a is None else np.abs(a)) for k, a in v.items()}
        if self.family == "func":
            v["A"] = v["A"] + f64(self.tA1) * np.cos(self.w * float(t))
            v["C"] = v["C"] + f64(self.tC1) * np.sin(self.w * float(t))
            g["A"] = g["A"] + np.abs(f64(self.tA1)) * (1 + self.w * abs(float(t)))   # argument w*t carries |w t| u
            g["C"] = g["C"] + np.abs(f64(self.tC1)) * (1 + self.w * abs(float(t)))
            if self.gen_consts:
                amp = 1 + self.w * abs(float(t))
                if v["c1"] is not None:
                    v["c1"], g["c1"] = v["c1"] * np.cos(self.w * float(t)), g["c1"] * amp
                if v["c2"] is not None:
                    v["c2"], g["c2"] = v["c2"] * (1 + np.sin(self.w * float(t))), 2 * g["c2"] * amp
        return v, g

    def rand_vec(self, rng, which, mag):
        d = self.n if which == "x" else self.m
        shp = self.sh[which] + ((d,) if self.layout != "scalar0d" else ())
        return tt(rng.standard_normal(shp) * mag, self.dtype)


def check_lin_outputs(ck, model, t_ref, x, u, out, regime, entry):
    v, g = model.mats(t_ref)
    x64, u64 = np.atleast_1d(f64(x)), np.atleast_1d(f64(u))
    u_ = u_of(model.dtype)
    xn, xm = R.affine(v["A"], x64, v["B"], u64, v["c1"])
    y, ym = R.affine(v["C"], x64, v["D"], u64, v["c2"])
    xm = R.affine(g["A"], np.abs(x64), g["B"], np.abs(u64), g["c1"])[0]
    ym = R.affine(g["C"], np.abs(x64), g["D"], np.abs(u64), g["c2"])[0]
    ck.count("lti_equations", regime, n=2, rows=np.concatenate((x64.reshape(-1), u64.reshape(-1), [t_ref]))[None])
    ok = isinstance(out, tuple) and len(out) == 2 and all(isinstance(o, torch.Tensor) for o in out)
    if not ck.check(ok, "lti_equations", regime, entry, "call_does_not_return_state_observation_pair"):
        return
    for name, got, ref, mag in (("state_transition", out[0], xn, xm), ("observation", out[1], y, ym)):
        wit = {"layout": model.layout, "family": model.family, "dtype": model.dn, "t": int(t_ref), "n_m_q": [model.n, model.m, model.q],
               "shapes": model.sh, "got_shape": list(got.shape), "ref_shape": list(ref.shape)}
        if not ck.check(tuple(got.shape) == ref.shape and got.dtype == model.dtype, "lti_equations", regime, entry,
                        name + "_shape_or_dtype", wit):
            continue
        err = np.abs(f64(got) - ref)
        ratios(ck, "lti_equations", regime, err, C_LIN * u_ * mag + 1e-300, entry, name + "_differs_from_reference",
                  lambda i: dict(wit, x=x64.tolist(), u=u64.tolist(), got=f64(got).reshape(-1).tolist()[:24], ref=ref.reshape(-1).tolist()[:24]))


def check_ltv_refpoint_mats(ck, model, s, t_star, regime):
    """After LTV.set_refpoint(t=t*): the matrices read are those of t*."""
    v, g = model.mats(t_star)
    u_ = u_of(model.dtype)
    for name in ("A", "B", "C", "D", "c1", "c2"):
        okc, got = ck.call("ltv_refpoint_matrices", regime, f"LTV.{name}", lambda: getattr(s, name))
        if not okc:
            continue
        ck.count("ltv_refpoint_matrices", regime, key=(id(model), int(t_star), name))
        if v[name] is None:
            ck.check(got is None, "ltv_refpoint_matrices", regime, f"LTV.{name}", "constant_term_invented")
            continue
        if not ck.check(isinstance(got, torch.Tensor) and tuple(got.shape) == v[name].shape, "ltv_refpoint_matrices",
                        regime, f"LTV.{name}", "shape"):
            continue
        err = np.abs(f64(got) - v[name]).max()
        tol = 0.0 if model.family == "stack" else 16 * u_ * g[name].max()
        ck.ratio("ltv_refpoint_matrices", regime, err, tol, f"LTV.set_refpoint(t)/{name}", "matrices_not_those_of_reference_time",
                 {"t_star": int(t_star), "family": model.family, "P": model.P, "name": name})


# ----------------------------------------------------------------------------- event sequences
def time_value(rng, dtype_pick):
    t = int(rng.choice([0, 1, 2, 3, 5, 7, 11, 24, int(rng.integers(0, 40))]))
    if dtype_pick == "int":
        return t, t
    return t, torch.tensor(t)


class ClockProbe(pp.module.NLS):
    """Time-invariant dynamics that record the time argument they are handed."""

    def __init__(self):
        super().__init__()
        self.seen = []

    def state_transition(self, state, input, t=None):
        self.seen.append(int(t))
        return 0.5 * state + input

    def observation(self, state, input, t=None):
        return state


def run_large_times(ck, rng):
    """Clock values beyond 2^31 (millisecond time stamps, very long runs): the same automaton, on systems whose
    equations do not depend on time (so that only the bookkeeping is judged)."""
    big = [2 ** 31 - 2, 2 ** 31 + 5, 1_700_000_000_000 + int(rng.integers(0, 1000)), 2 ** 40 + 3]
    for kind in ("LTI", "NLS"):
        for how in ("reset(int)", "reset(tensor)", "systime=int", "systime=tensor"):
            if kind == "LTI":
                A = torch.eye(2, dtype=torch.float64) * 0.5
                s = pp.module.LTI(A, torch.eye(2, dtype=torch.float64), torch.eye(2, dtype=torch.float64), torch.zeros(2, 2, dtype=torch.float64))
            else:
                s = ClockProbe()
            auto = R.TimeAutomaton()
            for t0 in big:
                arg = t0 if how.endswith("int)") or how.endswith("=int") else torch.tensor(t0)
                regime = f"{kind}/large-time/{how}"
                if how.startswith("reset"):
                    okc, _ = ck.call("systime_automaton", regime, f"{kind}.reset", lambda: s.reset(arg))
                else:
                    okc, _ = ck.call("systime_automaton", regime, f"{kind}.systime.setter", lambda: setattr(s, "systime", arg))
                if not okc:
                    continue
                auto.set(t0)
                after_event(ck, s, auto, kind, "large-time/" + how, ("large", kind, how), t0)
                x, u = torch.ones(2, dtype=torch.float64), torch.ones(2, dtype=torch.float64)
                for _ in range(3):
                    okc, _ = ck.call("systime_automaton", regime, f"{kind}.__call__", lambda: s(x, u))
                    if not okc:
                        break
                    if kind == "NLS":
                        ck.check(s.seen[-1] == auto.t, "systime_automaton", regime, "NLS.__call__", "dynamics_handed_a_different_time",
                                 {"handed": s.seen[-1], "expected": auto.t})
                    auto.call()
                    after_event(ck, s, auto, kind, "large-time/call", ("large", kind, how), auto.t)
            ck.mark(f"event/{kind}/large-time")


def after_event(ck, s, auto, kind, ev, seq_key, step):
    got = int(s.systime)
    regime = f"{kind}/{ev}"
    ck.count("systime_automaton", regime, key=(seq_key, step))
    ck.mark("event/" + regime)
    ok = ck.check(got == auto.t and isinstance(s.systime, torch.Tensor), "systime_automaton", regime, f"{kind}.{ev}",
                  "systime_differs_from_reference_counter", {"got": got, "expected": auto.t, "step": step, "event": ev})
    if not ok:
        auto.t = got          # re-synchronise: one defect, one witness per event
    return ok


def run_linear_sequence(ck, rng, model, seq_key, L):
    kind = "LTI" if model.family == "LTI" else "LTV"
    fam = model.family
    okc, s = ck.call("lti_equations", f"{fam}/{model.layout}", f"{kind}.__init__", model.build)
    if not okc:
        return
    auto = R.TimeAutomaton()
    after_event(ck, s, auto, kind, "construct", seq_key, -1)
    ck.mark(f"{fam}/{model.layout}")
    ck.mark(f"{fam}/{model.dn}")
    ck.mark(f"{fam}/consts={model.consts}")
    if getattr(model, "gen_consts", False):
        ck.mark("func/consts-generated-by-overridden-properties")
    prev = None
    events = ["call"] * 9 + ["reset()", "reset(int)", "reset(tensor)", "systime=int", "systime=tensor",
                             "set_refpoint()", "set_refpoint(t)", "eval()/train()", "deepcopy"]
    kept = []           # time tensors handed to the system stay the caller's: later calls must not move them
    originals = []      # systems that were deep-copied: the sequence goes on with the copy, the original's clock stands still
    for step in range(L):
        for (o_, t_) in originals:
            ck.count("systime_automaton", f"{kind}/deepcopy/original", key=(seq_key, step, id(o_)))
            ck.check(int(o_.systime) == t_, "systime_automaton", f"{kind}/deepcopy/original", f"{kind}.__call__",
                     "calls_on_a_deep_copy_moved_the_clock_of_the_original", {"original_time_at_copy": t_, "now": int(o_.systime), "step": step})
        for (a_, v_, how_) in kept:
            ck.count("systime_automaton", f"{kind}/argument_independent", key=(seq_key, step, id(a_)))
            ck.check(int(a_) == v_, "systime_automaton", f"{kind}/argument_independent", f"{kind}.{how_}",
                     "time_tensor_passed_by_caller_changed_later", {"assigned": v_, "now": int(a_), "step": step})
        kept = [(a_, v_, h_) for (a_, v_, h_) in kept if int(a_) == v_][-3:]
        ev = events[int(rng.integers(len(events)))] if step else "call"
        regime = f"{fam}/{model.layout}/{model.dn}"
        if ev == "call":
            mag = float(rng.choice([1e-3, 1.0, 1.0, 1e3]))
            x = model.rand_vec(rng, "x", mag)
            if prev is not None and rng.random() < 0.3 and torch.isfinite(prev).all() and prev.abs().max() < 1e6 \
                    and model.layout != "scalar0d":
                x = prev.detach().clone()
            u = model.rand_vec(rng, "u", mag)
            t0 = auto.t
            okc, out = guarded(ck, "lti_equations", regime, f"{kind}.__call__", lambda: s(x, u),
                               witness={"t": t0, "layout": model.layout})
            auto.call()
            after_event(ck, s, auto, kind, "call", seq_key, step)
            if okc:
                check_lin_outputs(ck, model, t0, x, u, out, regime, f"{kind}.__call__")
                if isinstance(out, tuple) and isinstance(out[0], torch.Tensor):
                    prev = out[0]
        elif ev == "deepcopy":
            # object lifecycle: the copy carries the time of the original and from now on keeps its own
            okc, s2 = ck.call("systime_automaton", regime, f"{kind}.__deepcopy__", lambda: copy.deepcopy(s))
            if okc:
                originals = (originals + [(s, auto.t)])[-2:]
                s = s2
                auto.keep()
                after_event(ck, s, auto, kind, ev, seq_key, step)
        elif ev == "eval()/train()":
            # nn.Module mode switch: not a time event; calls made afterwards still advance time
            s.eval() if s.training else s.train()
            auto.keep()
            after_event(ck, s, auto, kind, ev, seq_key, step)
        elif ev == "reset()":
            ck.call("systime_automaton", regime, f"{kind}.reset", s.reset)
            auto.set(0)
            after_event(ck, s, auto, kind, ev, seq_key, step)
        elif ev in ("reset(int)", "reset(tensor)"):
            t, arg = time_value(rng, "int" if ev == "reset(int)" else "tensor")
            ck.call("systime_automaton", regime, f"{kind}.reset", lambda: s.reset(arg) if rng.random() < 0.5 else s.reset(t=arg))
            auto.set(t)
            after_event(ck, s, auto, kind, ev, seq_key, step)
            if isinstance(arg, torch.Tensor):
                kept.append((arg, t, "reset"))
        elif ev in ("systime=int", "systime=tensor"):
            t, arg = time_value(rng, "int" if ev == "systime=int" else "tensor")
            if ev == "systime=tensor" and rng.random() < 0.3:
                # the time of another system object of the same kind (two systems must keep separate clocks)
                okc2, other = ck.call("lti_equations", f"{fam}/{model.layout}", f"{kind}.__init__", model.build)
                if okc2:
                    other.reset(t)
                    arg = other.systime
            ck.call("systime_automaton", regime, f"{kind}.systime.setter", lambda: setattr(s, "systime", arg))
            auto.set(t)
            after_event(ck, s, auto, kind, ev, seq_key, step)
            if isinstance(arg, torch.Tensor):
                kept.append((arg, t, "systime.setter"))
                ck.mark("event/systime=tensor/kept")
        elif ev == "set_refpoint()":
            # documented default t=None: "the most recent timestamp is taken" -- must not raise, time unchanged
            ck.call("systime_automaton", regime, f"{kind}.set_refpoint", lambda: s.set_refpoint(),
                    witness={"note": "set_refpoint() with all defaults"})
            auto.keep()
            after_event(ck, s, auto, kind, ev, seq_key, step)
            if kind == "LTV":
                check_ltv_refpoint_mats(ck, model, s, auto.t, f"{fam}/{model.dn}/defaults")
        else:  # set_refpoint(t)
            t, arg = time_value(rng, "tensor")
            okc, _ = ck.call("systime_automaton", regime, f"{kind}.set_refpoint", lambda: s.set_refpoint(t=arg))
            if kind == "LTI":
                auto.keep()     # time-invariant: nothing to select
                after_event(ck, s, auto, kind, ev, seq_key, step)
            else:
                got = int(s.systime)
                ck.count("systime_automaton", f"LTV/{ev}/resync", key=(seq_key, step))
                ck.mark(f"event/LTV/{ev}")
                ck.check(got in (auto.t, t), "systime_automaton", f"LTV/{ev}", "LTV.set_refpoint(t)",
                         "systime_neither_unchanged_nor_reference_time", {"got": got, "before": auto.t, "t_star": t})
                if okc:
                    check_ltv_refpoint_mats(ck, model, s, t, f"{fam}/{model.dn}/t_star")
                auto.t = got
                auto.keep()


# ----------------------------------------------------------------------------- NLS monitors
_BYSTANDERS = {}


def read_props(ck, s, names, regime):
    out = {}
    for name in names:
        okc, v = ck.call("nls_jacobian", regime, f"NLS.{name}", lambda: getattr(s, name))
        out[name] = v if okc else None
    return out


def linearisation_monitor(ck, rng, s, S, xs, us, ts, dn, regime, layout="unbatched"):
    """xs, us: float64 copies of the reference state/input the library was given; ts: reference time."""
    u_ = u_of(DT[dn])
    names = ("A", "B") if layout == "batch1" else ("A", "B", "C", "D", "c1", "c2")
    if layout != "batch1" and rng.random() < 0.5:
        # two systems of the same class used alternately: a second instance is given a reference point of its own in between -
        # the reference point belongs to the instance
        other = _BYSTANDERS.setdefault(id(S), GenNLS(S))
        xo, uo = tt(rng.uniform(-1.5, 1.5, S.n), DT[dn]), tt(rng.uniform(-1.5, 1.5, S.m), DT[dn])
        ck.call("nls_jacobian", regime, "NLS.set_refpoint", lambda: other.set_refpoint(state=xo, input=uo, t=torch.tensor(float(rng.integers(0, 25)), dtype=DT[dn])))
        ck.mark("NLS/another-instance-linearised-in-between")
    P = read_props(ck, s, names, regime)
    shapes = {"A": (S.n, S.n), "B": (S.n, S.m), "C": (S.q, S.n), "D": (S.q, S.m), "c1": (S.n,), "c2": (S.q,)}
    M = {}
    for name in names:
        v = P[name]
        if v is None:
            continue
        want = shapes[name]
        if layout == "batch1":
            want = (1, want[0], 1, want[1])
        wit = {"name": name, "got_shape": list(v.shape) if isinstance(v, torch.Tensor) else repr(type(v)), "want": list(want),
               "layout": layout}
        if not ck.check(isinstance(v, torch.Tensor) and tuple(v.shape) == want and v.dtype == DT[dn], "nls_jacobian", regime,
                        f"NLS.{name}", "shape_or_dtype", wit):
            continue
        M[name] = np.array(f64(v).reshape(shapes[name]), copy=True)
    base_w = {"x_star": xs.tolist(), "u_star": us.tolist(), "t_star": float(ts), "dtype": dn, "layout": layout,
              "system": S.describe()}
    # the matrices handed out are the caller's (a continuous-time user rescales them in place): reading again gives the Jacobians again
    if rng.random() < 0.5:
        with torch.no_grad():
            for name in M:
                if isinstance(P[name], torch.Tensor) and P[name].numel():
                    try:
                        P[name].mul_(0.5).add_(1.0)
                    except RuntimeError:
                        pass             # an expanded (stride-0) tensor cannot be written through
        P2 = read_props(ck, s, tuple(M), regime)
        ck.mark("NLS/re-read-after-caller-edited-the-matrices")
        for name in M:
            if isinstance(P2[name], torch.Tensor) and tuple(P2[name].shape) == tuple(P[name].shape):
                ck.count("nls_jacobian", f"{regime}/{name}/{dn}/re-read", key=(name, xs.tobytes(), float(ts)))
                ck.check(bool(np.array_equal(f64(P2[name]).reshape(M[name].shape), M[name])), "nls_jacobian", f"{regime}/{name}/{dn}", f"NLS.{name}",
                         "value_read_again_follows_what_the_caller_did_to_the_earlier_result",
                         lambda name=name: dict(base_w, name=name, first=M[name].tolist(), again=f64(P2[name]).tolist()))
    for name in ("A", "B", "C", "D"):
        if name not in M:
            continue
        ref, mag = S.jac_ref(name, xs, us, ts), S.jac_mag(name, xs, us, ts)
        ck.count("nls_jacobian", f"{regime}/{name}/{dn}", rows=np.concatenate((xs, us, [ts]))[None])
        ratios(ck, "nls_jacobian", f"{regime}/{name}/{dn}", np.abs(M[name] - ref), C_JAC * u_ * mag, f"NLS.{name}",
                  f"{name}_differs_from_symbolic_jacobian_at_reference_point",
                  lambda i, name=name, ref=ref: dict(base_w, name=name, got=M[name].tolist(), ref=ref.tolist()))
    if layout == "batch1":
        return
    for (a, b, c, fn, fm, tag) in (("A", "B", "c1", S.f_ref, S.f_mag, "f"), ("C", "D", "c2", S.g_ref, S.g_mag, "g")):
        if not all(k in M for k in (a, b, c)):
            continue
        val = M[a] @ xs + M[b] @ us + M[c]
        mag = np.abs(M[a]) @ np.abs(xs) + np.abs(M[b]) @ np.abs(us) + np.abs(M[c]) + fm(xs, us, ts)
        ref = fn(xs, us, ts)
        ck.count("nls_affine_exact", f"{regime}/{tag}/{dn}", rows=np.concatenate((xs, us, [ts]))[None])
        ratios(ck, "nls_affine_exact", f"{regime}/{tag}/{dn}", np.abs(val - ref), C_AFF * u_ * mag, f"NLS.{c}",
                  f"affine_model_does_not_reproduce_{tag}_at_reference_point",
                  lambda i, c=c, val=val, ref=ref: dict(base_w, const=c, affine=val.tolist(), ref=ref.tolist(), c=M[c].tolist()))
        # ---- second order: error of the library's affine model at two distances along a random direction
        d = rng.standard_normal(S.n + S.m)
        d /= np.linalg.norm(d)
        h1, h2 = (2.0 ** -8, 2.0 ** -11) if dn == "f64" else (2.0 ** -2, 2.0 ** -4)
        Ja, Jb = S.jac_ref(a, xs, us, ts), S.jac_ref(b, xs, us, ts)
        e_pp, e_ref, floor = [], [], []
        for h in (h1, h2):
            xh, uh = xs + h * d[:S.n], us + h * d[S.n:]
            truth = fn(xh, uh, ts)
            e_pp.append(np.abs(truth - (M[a] @ xh + M[b] @ uh + M[c])).max())
            e_ref.append(np.abs(truth - (ref + Ja @ (xh - xs) + Jb @ (uh - us))).max())
            floor.append(C_AFF * u_ * (mag.max() + fm(xh, uh, ts).max()))
        judged = e_ref[1] >= 16 * floor[1] and e_ref[0] > 0
        slope_ref = np.log(e_ref[0] / e_ref[1]) / np.log(h1 / h2) if judged else np.nan
        judged = judged and slope_ref >= 1.95
        key = np.concatenate((xs, us, [ts], d))[None]
        wit = dict(base_w, h=[h1, h2], e_model=e_pp, e_true=e_ref, floor=floor, direction=d.tolist())
        if not judged:
            # true remainder below the round-off floor (affine direction) or visibly mixed with higher-order
            # terms at this h: the observed order is not defined by the statement there; the model error must
            # still not exceed the true remainder by more than round-off
            ck.count("nls_remainder_bound", f"{regime}/{tag}/{dn}", rows=key, nontrivial=False)
            ck.ratio("nls_remainder_bound", f"{regime}/{tag}/{dn}", max(0.0, e_pp[1] - e_ref[1]), floor[1], f"NLS.{a}{b}{c}",
                     "affine_model_error_exceeds_true_remainder", wit)
            continue
        slope = np.log(max(e_pp[0], 1e-300) / max(e_pp[1], 1e-300)) / np.log(h1 / h2)
        ck.count("nls_second_order", f"{regime}/{tag}/{dn}", rows=key)
        ck.note("min_second_order_slope", min(float(slope), ck.notes.get("min_second_order_slope", 9.0)))
        ck.check(slope >= 1.8, "nls_second_order", f"{regime}/{tag}/{dn}", f"NLS.{a}{b}{c}",
                 "affine_model_error_not_second_order", lambda: dict(wit, slope=float(slope), slope_ref=float(slope_ref)))


def check_nls_outputs(ck, S, t_ref, x, u, out, dn, regime):
    xs, us = f64(x).reshape(-1), f64(u).reshape(-1)
    u_ = u_of(DT[dn])
    ck.count("nls_forward", regime, n=2, rows=np.concatenate((xs, us, [t_ref]))[None])
    ok = isinstance(out, tuple) and len(out) == 2 and all(isinstance(o, torch.Tensor) for o in out)
    if not ck.check(ok, "nls_forward", regime, "NLS.__call__", "call_does_not_return_state_observation_pair"):
        return
    for name, got, ref, mag in (("state_transition", out[0], S.f_ref(xs, us, t_ref), S.f_mag(xs, us, t_ref)),
                                ("observation", out[1], S.g_ref(xs, us, t_ref), S.g_mag(xs, us, t_ref))):
        g = f64(got).reshape(-1)
        if not ck.check(g.shape == ref.shape, "nls_forward", regime, "NLS.__call__", name + "_shape"):
            continue
        ratios(ck, "nls_forward", regime, np.abs(g - ref), C_NLS_FWD * u_ * mag + 1e-300, "NLS.__call__",
                  name + "_not_evaluated_at_system_time",
                  lambda i: {"x": xs.tolist(), "u": us.tolist(), "t": int(t_ref), "got": g.tolist(), "ref": ref.tolist(), "system": S.describe()})


def t_tensor(rng, t, dtype):
    k = int(rng.integers(3))
    if k == 0:
        return torch.tensor(t), "t:int0d"
    if k == 1:
        return torch.tensor(float(t), dtype=dtype), "t:float0d"
    return torch.tensor([t]), "t:int1d"


def run_nls_sequence(ck, rng, S, dn, seq_key, L):
    dtype = DT[dn]
    okc, s = ck.call("nls_forward", "construct", "NLS.__init__", lambda: GenNLS(S))
    if not okc:
        return
    auto = R.TimeAutomaton()
    after_event(ck, s, auto, "NLS", "construct", seq_key, -1)
    rv = lambda d: tt(rng.uniform(-1.5, 1.5, d), dtype)
    last = None                      # (x, u) of the most recent call
    pending = None                   # explicit reference point waiting to be read after further calls
    events = ["call"] * 6 + ["reset()", "reset(int)", "reset(tensor)", "systime=int", "systime=tensor",
                             "set_refpoint(x,u,t)", "set_refpoint(x,u,t)", "set_refpoint(x,u,t)+calls",
                             "set_refpoint()", "set_refpoint(partial)", "eval()/train()", "deepcopy"]
    tag = S.kind + ("/time-dep" if S.time_dep else "")
    originals = []
    for step in range(L):
        for (o_, t_) in originals:
            ck.count("systime_automaton", "NLS/deepcopy/original", key=(seq_key, step, id(o_)))
            ck.check(int(o_.systime) == t_, "systime_automaton", "NLS/deepcopy/original", "NLS.__call__",
                     "calls_on_a_deep_copy_moved_the_clock_of_the_original", {"original_time_at_copy": t_, "now": int(o_.systime), "step": step})
        ev = events[int(rng.integers(len(events)))] if step else "call"
        if pending is not None and pending[3] == 0:
            xs, us, ts, _, how = pending
            pending = None
            ck.mark("NLS/read-after-further-calls" if how == "stale-proof" else "NLS/default-refpoint/read-after-further-calls")
            linearisation_monitor(ck, rng, s, S, xs, us, ts, dn, f"{how}/{tag}")
            auto.keep()
            after_event(ck, s, auto, "NLS", "read-properties", seq_key, step)
        if ev == "call":
            x, u = rv(S.n), rv(S.m)
            t0 = auto.t
            okc, out = guarded(ck, "nls_forward", f"{tag}/{dn}", "NLS.__call__", lambda: s(x, u), witness={"t": t0})
            auto.call()
            after_event(ck, s, auto, "NLS", "call", seq_key, step)
            if okc:
                check_nls_outputs(ck, S, t0, x, u, out, dn, f"{tag}/{dn}")
                last = (x, u)
            if pending is not None:
                pending = pending[:3] + (pending[3] - 1, pending[4])
        elif ev == "deepcopy":
            okc, s2 = ck.call("systime_automaton", "NLS", "NLS.__deepcopy__", lambda: copy.deepcopy(s))
            if okc:
                originals = (originals + [(s, auto.t)])[-2:]
                s = s2
                auto.keep()
                after_event(ck, s, auto, "NLS", ev, seq_key, step)
        elif ev == "eval()/train()":
            s.eval() if s.training else s.train()
            auto.keep()
            after_event(ck, s, auto, "NLS", ev, seq_key, step)
        elif ev == "reset()":
            ck.call("systime_automaton", "NLS", "NLS.reset", s.reset)
            auto.set(0)
            after_event(ck, s, auto, "NLS", ev, seq_key, step)
        elif ev in ("reset(int)", "reset(tensor)"):
            t, arg = time_value(rng, "int" if ev == "reset(int)" else "tensor")
            ck.call("systime_automaton", "NLS", "NLS.reset", lambda: s.reset(arg))
            auto.set(t)
            after_event(ck, s, auto, "NLS", ev, seq_key, step)
        elif ev in ("systime=int", "systime=tensor"):
            t, arg = time_value(rng, "int" if ev == "systime=int" else "tensor")
            ck.call("systime_automaton", "NLS", "NLS.systime.setter", lambda: setattr(s, "systime", arg))
            auto.set(t)
            after_event(ck, s, auto, "NLS", ev, seq_key, step)
        elif ev.startswith("set_refpoint(x,u,t)"):
            pending = None
            x, u = rv(S.n), rv(S.m)
            t = int(rng.integers(0, 25))
            if rng.random() < 0.3:       # a reference time between steps (k*dt, as continuous-time users pass): exact in binary
                t = float(rng.integers(0, 200)) / 8.0
                targ, tk = torch.tensor(t, dtype=dtype), "t:fractional"
            else:
                targ, tk = t_tensor(rng, t, dtype)
            okc, _ = ck.call("nls_jacobian", f"explicit/{tk}", "NLS.set_refpoint", lambda: s.set_refpoint(state=x, input=u, t=targ))
            auto.keep()
            after_event(ck, s, auto, "NLS", "set_refpoint(x,u,t)", seq_key, step)
            ck.mark("NLS/refpoint/" + tk)
            if not okc:
                continue
            if ev.endswith("+calls"):
                pending = (f64(x), f64(u), float(t), int(rng.integers(1, 4)), "stale-proof")
            else:
                ck.mark("NLS/explicit-refpoint")
                linearisation_monitor(ck, rng, s, S, f64(x), f64(u), float(t), dn, f"explicit/{tag}")
                auto.keep()
                after_event(ck, s, auto, "NLS", "read-properties", seq_key, step)
        elif ev == "set_refpoint()":
            if last is None:
                continue
            pending = None
            okc, _ = ck.call("nls_jacobian", "defaults", "NLS.set_refpoint", lambda: s.set_refpoint())
            auto.keep()
            after_event(ck, s, auto, "NLS", ev, seq_key, step)
            if okc:
                ck.mark("NLS/default-refpoint")
                linearisation_monitor(ck, rng, s, S, f64(last[0]), f64(last[1]), float(auto.t), dn, f"defaults/{tag}")
                if rng.random() < 0.6:      # the reference point stays where it was set while the system moves on
                    pending = (f64(last[0]), f64(last[1]), float(auto.t), int(rng.integers(1, 4)), "defaults-then-calls")
        else:  # partial defaults
            if last is None:
                continue
            pending = None
            which = int(rng.integers(3))
            x, u, t = rv(S.n), rv(S.m), int(rng.integers(0, 25))
            kw, exp = ({"state": x}, (f64(x), f64(last[1]), float(auto.t))) if which == 0 else \
                ({"input": u}, (f64(last[0]), f64(u), float(auto.t))) if which == 1 else \
                ({"t": torch.tensor(t)}, (f64(last[0]), f64(last[1]), float(t)))
            okc, _ = ck.call("nls_jacobian", "partial", "NLS.set_refpoint", lambda: s.set_refpoint(**kw))
            auto.keep()
            after_event(ck, s, auto, "NLS", ev, seq_key, step)
            if okc:
                ck.mark("NLS/partial-refpoint")
                linearisation_monitor(ck, rng, s, S, exp[0], exp[1], exp[2], dn, f"partial/{tag}")
                if rng.random() < 0.6:
                    pending = exp + (int(rng.integers(1, 4)), "defaults-then-calls")


def run_nls_batch1(ck, rng, S, dn, reps):
    """The layout LQR/MPC uses: state (1,n), input (1,m); A, B read as (1,n,1,n), (1,n,1,m)."""
    dtype = DT[dn]
    s = GenNLS(S)
    auto = R.TimeAutomaton()
    for r in range(reps):
        x, u = tt(rng.uniform(-1.5, 1.5, (1, S.n)), dtype), tt(rng.uniform(-1.5, 1.5, (1, S.m)), dtype)
        t = int(rng.integers(0, 25))
        okc, _ = ck.call("nls_jacobian", "batch1", "NLS.set_refpoint", lambda: s.set_refpoint(state=x, input=u, t=torch.tensor(t)))
        if okc:
            ck.mark("NLS/batch-of-one")
            linearisation_monitor(ck, rng, s, S, f64(x)[0], f64(u)[0], float(t), dn, f"batch1/{S.kind}", layout="batch1")
        t0 = int(rng.integers(0, 25))
        s.reset(t0)
        auto.set(t0)
        okc, out = guarded(ck, "nls_forward", f"batch1/{dn}", "NLS.__call__", lambda: s(x, u))
        auto.call()
        after_event(ck, s, auto, "NLS", "call(batch1)", id(s), r)
        if okc:
            check_nls_outputs(ck, S, t0, x, u, out, dn, f"batch1/{dn}")


# ----------------------------------------------------------------------------- driver
def run(ck):
    rng = ck.rng("c15")
    thorough = ck.tier == "thorough"
    contract = CallContract(ck).install()
    try:
        # ---- LTI / LTV: every (family, layout, dtype, consts) cell, split over the shards
        cells = [(fam, lay, dn, cs) for fam in ("LTI", "stack", "func") for lay in LAYOUTS for dn in ("f64", "f32")
                 for cs in ("both", "none", "c1", "c2")]
        reps = 6 if thorough else 1
        i = 0
        for rep in range(reps):
            for cell in cells:
                i += 1
                if not ck.mine(i):
                    continue
                fam, lay, dn, cs = cell
                model = LinModel(rng, fam, lay, dn, cs)
                run_linear_sequence(ck, rng, model, (ck.shard, i), int(rng.integers(12, 41)))
        # ---- NLS
        n_sys = 100 if thorough else 9
        kinds = ["tree", "tree", "tree", "tree", "affine", "mild"]
        for j in range(n_sys):
            n, m, q = int(rng.integers(1, 5)), int(rng.integers(1, 4)), int(rng.integers(1, 4))
            kind = kinds[j % len(kinds)]
            S = R.SmoothSystem(rng, n, m, q, kind=kind, depth=int(rng.integers(2, 4)), time_dep=True)
            ck.mark("NLS/system/" + kind)
            if len(ck.samples) < 3:
                ck.sample({"nls": S.describe(), "n_m_q": [n, m, q]})
            for dn in ("f64", "f32"):
                ck.mark("NLS/" + dn)
                for rep in range(2):
                    run_nls_sequence(ck, rng, S, dn, (ck.shard, "nls", j, dn, rep), int(rng.integers(20, 41)))
                run_nls_batch1(ck, rng, S, dn, 3)
        if ck.shard == 0:
            run_large_times(ck, rng)
    finally:
        contract.remove()
    ck.note("contract_evaluations", contract.n)

    for fam in ("LTI", "stack", "func"):
        ck.require(*[f"{fam}/{lay}" for lay in LAYOUTS], f"{fam}/f64", f"{fam}/f32",
                   f"{fam}/consts=both", f"{fam}/consts=none", f"{fam}/consts=c1", f"{fam}/consts=c2")
    evs = ["call", "reset()", "reset(int)", "reset(tensor)", "systime=int", "systime=tensor", "set_refpoint()",
           "eval()/train()"]
    for kind in ("LTI", "LTV", "NLS"):
        ck.require(*[f"event/{kind}/{e}" for e in evs])
    ck.require("event/LTI/large-time", "event/NLS/large-time", "func/consts-generated-by-overridden-properties",
               "NLS/re-read-after-caller-edited-the-matrices", "NLS/another-instance-linearised-in-between", "event/LTI/deepcopy", "event/LTV/deepcopy", "event/NLS/deepcopy")
    ck.require("event/systime=tensor/kept", "event/LTI/set_refpoint(t)", "event/LTV/set_refpoint(t)", "event/NLS/set_refpoint(x,u,t)",
               "event/NLS/set_refpoint(partial)", "event/NLS/read-properties")
    ck.require("NLS/explicit-refpoint", "NLS/default-refpoint", "NLS/partial-refpoint", "NLS/read-after-further-calls",
               "NLS/default-refpoint/read-after-further-calls",
               "NLS/batch-of-one", "NLS/f64", "NLS/f32", "NLS/system/tree", "NLS/system/affine", "NLS/system/mild",
               "NLS/refpoint/t:int0d", "NLS/refpoint/t:float0d", "NLS/refpoint/t:int1d", "NLS/refpoint/t:fractional")
    ck.floor("contract_call_plus_one", 1500)
    ck.floor("systime_automaton", 2500)
    ck.floor("lti_equations", 2000)
    ck.floor("ltv_refpoint_matrices", 300)
    ck.floor("nls_forward", 1000)
    ck.floor("nls_jacobian", 1200)
    ck.floor("nls_affine_exact", 500)
    ck.floor("nls_second_order", 300)
