#!/bin/bash
# tools_verify_wave11.sh <letter> <P1> <P2>   (wave 11: worktrees of wave 10 reused, ids _p1 / _p2)
k=$1; P1=$2; P2=$3
for i in 1 2; do [ -f /tmp/seed10_$k/_out/$i/patch.diff ] || continue; p=$P1; [ $i -ge 2 ] && p=$P2; /verif/tools_verify_seed.sh /tmp/seed10_$k $i ${p}_p$i $p; done
