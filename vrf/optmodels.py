"""Random residual models for C07/C08: parameters of mixed kinds, 1-2 residual outputs of batch
rank 0-3, optional targets, documented weight shapes."""
import numpy as np
import torch
import pypose as pp

from . import lie, progs
from .optspy import ResidualModel, F64
from .oracles import lie_ref as L


def G(k, rng, shape=(), ang=1.0, t=1.0, s=0.3):
    n = int(np.prod(shape)) if shape else 1
    X = lie.random_group(k, rng, n, F64, max_angle=ang, sigma_max=s, t_scale=t).tensor()
    return X.reshape(tuple(shape) + (L.GRP[k],))


def A(a, rng, shape=(), scale=0.3):
    x = rng.standard_normal(tuple(shape) + (L.ALG[a],)) * scale
    return torch.as_tensor(x, dtype=F64)


def T(rng, *shape, scale=1.0):
    return torch.as_tensor(rng.standard_normal(shape) * scale, dtype=F64)


def spd(rng, shape, R, lo=0.3, hi=3.0):
    n = int(np.prod(shape)) if shape else 1
    out = []
    for _ in range(n):
        q, _ = np.linalg.qr(rng.standard_normal((R, R)))
        out.append((q * rng.uniform(lo, hi, R)) @ q.T)
    return torch.as_tensor(np.stack(out).reshape(tuple(shape) + (R, R)), dtype=F64)


def small_k(k):
    """Sim3 elements kept small: its Log/Exp Jacobians are documented truncated series."""
    return dict(ang=0.4, t=0.2, s=0.15) if k == "Sim3" else dict(ang=1.0, t=1.0, s=0.3)


def make(rng, which=None):
    """-> dict(model, data (tuple), target (None | tensor | list), desc, nres)"""
    names = ["pose_log", "points", "alg_log", "mixed_so3_offset", "two_outputs", "three_params", "program", "frozen", "alias_output"]
    which = which or names[int(rng.integers(len(names)))]
    k = lie.GRPS[int(rng.integers(4))]
    a = L.GRP2ALG[k]
    kw = small_k(k)
    if which == "alias_output":
        # a prior on a Euclidean parameter written the short way: the residual IS the parameter tensor (or a view of it), no target;
        # values of magnitude 2-6 so that robust kernels are outside their quadratic region
        n = int(rng.integers(2, 6))
        x0 = T(rng, n, scale=1.0) * 2 + torch.sign(T(rng, n)) * 2
        view = bool(rng.integers(2))
        second = bool(rng.integers(2))
        X0 = G(k, rng, (), **kw)
        Y = pp.LieTensor(G(k, rng, (2,), **kw), ltype=lie.LT[k])

        def fn(ps, data):
            r0 = ps[0].view(-1, 1) if view else ps[0]
            if second:
                return r0, (ps[1] @ data[0]).Log().tensor()
            return r0
        if second:
            return dict(model=ResidualModel(["R", k], [x0, X0], fn), data=(Y,), target=None, desc=f"alias_output/R{n}{'(view)' if view else ''}+{k}", nres=2)
        return dict(model=ResidualModel(["R"], [x0], fn), data=(Y,), target=None, desc=f"alias_output/R{n}{'(view)' if view else ''}", nres=1)
    if which == "pose_log":
        bshape = [(), (2,), (2, 2), (2, 1, 2), (3, 2, 2)][int(rng.integers(5))]
        pshape = bshape[len(bshape) - int(rng.integers(0, len(bshape) + 1)):] if bshape else ()
        X0 = G(k, rng, pshape, **kw)
        Y = pp.LieTensor(G(k, rng, bshape, **kw), ltype=lie.LT[k])

        def fn(ps, data):
            return (ps[0] @ data[0]).Log().tensor()
        return dict(model=ResidualModel([k], [X0], fn), data=(Y,), target=None, desc=f"pose_log/{k}/p{pshape}/b{bshape}", nres=1)
    if which == "points":
        N = int(rng.integers(4, 9))
        B = [(), (2,)][int(rng.integers(2))]
        X0 = G(k, rng, (), **kw)
        P = T(rng, *B, N, 3)
        Xt = pp.LieTensor(G(k, rng, (), **kw), ltype=lie.LT[k])
        Q = Xt.Act(P) + T(rng, *B, N, 3, scale=0.05)

        def fn(ps, data):
            return ps[0].Act(data[0])
        return dict(model=ResidualModel([k], [X0], fn), data=(P,), target=Q, desc=f"points/{k}/N{N}/B{B}", nres=1)
    if which == "alg_log":
        bshape = [(), (3,), (2, 2)][int(rng.integers(3))]
        x0 = A(a, rng, (), 0.2)
        Y = pp.LieTensor(G(k, rng, bshape, **kw), ltype=lie.LT[k])

        def fn(ps, data):
            return (ps[0].Exp() @ data[0]).Log().tensor()
        return dict(model=ResidualModel([a], [x0], fn), data=(Y,), target=None, desc=f"alg_log/{a}/b{bshape}", nres=1)
    if which == "mixed_so3_offset":
        kk = ["SO3", "RxSO3"][int(rng.integers(2))]
        N = int(rng.integers(4, 8))
        X0, c0 = G(kk, rng, ()), T(rng, 3)
        P = T(rng, N, 3)
        Q = pp.LieTensor(G(kk, rng, ()), ltype=lie.LT[kk]).Act(P) + T(rng, 3)

        def fn(ps, data):
            return ps[0].Act(data[0]) + ps[1]
        return dict(model=ResidualModel([kk, "R"], [X0, c0], fn), data=(P,), target=Q, desc=f"mixed/{kk}+R3/N{N}", nres=1)
    if which == "two_outputs":
        bshape = [(2,), (2, 3)][int(rng.integers(2))]
        X0 = G(k, rng, bshape[-1:], **kw)
        c0 = T(rng, 2, scale=0.5)
        Y = pp.LieTensor(G(k, rng, bshape, **kw), ltype=lie.LT[k])
        prior = T(rng, 2)

        def fn(ps, data):
            return (ps[0] @ data[0]).Log().tensor(), ((ps[1] - data[1]) * 0.7).reshape(2, 1)
        return dict(model=ResidualModel([k, "R"], [X0, c0], fn), data=(Y, prior), target=None, desc=f"two_outputs/{k}/b{bshape}", nres=2)
    if which == "three_params":
        N = 6
        X0 = G("SE3", rng, ())
        s0 = A("so3", rng, (), 0.3)
        c0 = T(rng, N, 3, scale=0.3)
        P = T(rng, N, 3)
        Q = T(rng, N, 3)

        def fn(ps, data):
            return ps[0].Act(ps[1].Exp().Act(data[0]) + ps[2])
        return dict(model=ResidualModel(["SE3", "so3", "R"], [X0, s0, c0], fn), data=(P,), target=Q, desc="three_params/SE3+so3+R(N,3)", nres=1)
    if which == "frozen":
        N = 6
        X0 = G(k, rng, (), **kw)
        f0 = T(rng, 3, scale=0.5)
        c0 = T(rng, 1, scale=0.5)
        P = T(rng, N, 3)
        Q = T(rng, N, 3)

        def fn(ps, data):
            return ps[0].Act(data[0]) * (1 + ps[2]) + ps[1]
        return dict(model=ResidualModel([k, "R", "R"], [X0, f0, c0], fn, frozen=(1,)), data=(P,), target=Q,
                    desc=f"frozen/{k}+R3(frozen)+R1", nres=1)
    # random program over 1-3 parameter leaves
    for _ in range(50):
        types = []
        root = [progs.T_A(a), "P3", "P4"][int(rng.integers(3))]
        tree = progs.gen_tree(rng, root, int(rng.integers(2, 5)), types, p_leaf=0.3, reuse=0.2)
        if isinstance(tree, progs.Leaf) or not (1 <= len(types) <= 3):
            continue
        if any(isinstance(t, tuple) and t[1] in ("Sim3", "sim3") for t in types):
            continue
        kinds = [t[1] if isinstance(t, tuple) else "R" for t in types]
        shp = [(), (2,)][int(rng.integers(2))]
        vals = []
        for t in types:
            leaf = progs.make_leaf(rng, t, shp, F64, "generic")
            vals.append(progs.raw(leaf).detach().clone() * (0.6 if isinstance(t, tuple) and t[0] == "A" else 1.0))
        trace = progs.Trace()
        leaves = [pp.LieTensor(v, ltype=lie.LT[kk]) if kk != "R" else v for v, kk in zip(vals, kinds)]
        try:
            with torch.no_grad():
                out = progs.raw(progs.evaluate(tree, leaves, trace))
        except Exception:
            continue
        if (trace.log_angles and max(trace.log_angles) > np.pi - 0.6) or (trace.jinvp_angles and min(trace.jinvp_angles) < 0.2):
            continue
        target = out + T(rng, *out.shape, scale=0.1)

        def fn(ps, data, tree=tree):
            return progs.raw(progs.evaluate(tree, list(ps)))
        return dict(model=ResidualModel(kinds, vals, fn), data=(), target=target, desc=f"program/{tree.show()}/{shp}", nres=1)
    return make(rng, "pose_log")


def weight_for(rng, rshape):
    """One of the documented broadcastable weight shapes for a residual of shape (..., R)."""
    R = rshape[-1]
    lead = tuple(rshape[:-1])
    j = int(rng.integers(0, len(lead) + 1))
    wshape = lead[len(lead) - j:]
    return spd(rng, wshape, R), f"w{len(wshape)}of{len(lead)}"
