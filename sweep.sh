#!/bin/bash
# sweep.sh <tier> "<seeds>" "<checks>"  -- runs checks sequentially, prints one line per run (exit code, wall, verdict line)
TIER=${1:-quick}; SEEDS=${2:-"0 1 2 3"}; CHECKS=${3:-"C01 C02 C03 C04 C05 C06 C07 C08 C09 C10 C11 C12 C13 C14 C15 C16 C17 C18 C19 C20"}
cd "$(dirname "$0")"; ./setup.sh >/dev/null
mkdir -p .work
for s in $SEEDS; do for c in $CHECKS; do
  [ -f vrf/checks/${c,,}.py ] || continue
  t0=$(date +%s)
  /venv/bin/python -m vrf check $c --tier $TIER --seed $s > .work/sweep_${c}_${TIER}_$s.log 2>&1; rc=$?
  echo "$c tier=$TIER seed=$s rc=$rc wall=$(( $(date +%s) - t0 ))s $(grep -E 'VIOLATION|INCONCLUSIVE|HARNESS' .work/sweep_${c}_${TIER}_$s.log | head -2 | cut -c1-300)"
done; done
