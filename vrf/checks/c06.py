"""C06 — batching / broadcasting / views are transparent, pure ops never mutate their inputs,
retain_ltype / func.jacrev undo their patching of torch internals even when the wrapped
function raises.

Four monitors (DESIGN.md §3 C06):
  1. broadcast   exhaustive over all broadcastable lshape pairs (rank <= 3, extents {0,1,2,3}) x ops x 4 types
  2. handled     every name of HANDLED_FUNCTIONS vs the same torch function on the plain tensor
  3. purity      registry of public callables; bitwise before/after of every argument tensor (+ ATen write-watch witness)
  4. patchleak   fault enumeration: an exception injected at every LINE event inside functions wrapped by
                 retain_ltype / func.jacrev; the three patched torch attributes must be the originals afterwards
"""
import copy
import math
import os

import numpy as np
import torch
import pypose as pp
from torch import nn

from .. import gen, lie, instrument
from ..oracles import lie_ref as L

PID = "C06"
LEVEL = "fault_enumeration"
SHARDS = {"quick": 8, "thorough": 16}
TIMEOUT = {"quick": 1500, "thorough": 7200}
RULE = ("(1) all broadcastable pairs of lshapes with rank <= 3 and extents in {0,1,2,3} (2479 pairs, 85 shapes), every unary/binary "
        "LieTensor op, four group types: batched result vs the op on the flattened expanded operands, and vs 0-d items on a sample; "
        "(2) one or more calls per entry of HANDLED_FUNCTIONS vs torch on the plain tensor; (3) a registry of public callables run with "
        "bitwise before/after comparison of every argument tensor; (4) for k = 1..N an exception raised at the k-th LINE event inside "
        "the wrapped function (N measured by a dry run), several wrapped functions and exception classes. One case = (op, type, shape "
        "pair) / (function, call) / (registry entry) / (function, k, exception class); trivial = empty batches (shape claims only).")
ASSUME = ["values compared within 8 eps (1+|value|): differently shaped torch kernels are not bitwise identical",
          "CPU only: the device clause is monitored as 'result is on the operands' device'",
          "purity is judged on explicit call arguments (tensors in args/kwargs incl. lists/tuples/dicts), not on module state",
          "failpoints fire on LINE events of pypose and harness code while the user function is on the stack (not inside torch)"]


# =====================================================================================
# 1. broadcast equivalence
# =====================================================================================
def rand_group(k, shape, dtype, gen_):
    a = L.GRP2ALG[k]
    n = int(np.prod(shape)) if shape else 1
    x = torch.randn((n, L.ALG[a]), generator=gen_, dtype=torch.float64) * 0.7
    if a in ("rxso3", "sim3"):
        x[:, -1] *= 0.3
    X = pp.LieTensor(x, ltype=lie.LT[a]).Exp().tensor().to(dtype)
    return pp.LieTensor(X.reshape(tuple(shape) + (L.GRP[k],)), ltype=lie.LT[k])


def rand_alg(a, shape, dtype, gen_):
    x = torch.randn(tuple(shape) + (L.ALG[a],), generator=gen_, dtype=torch.float64) * 0.5
    return pp.LieTensor(x.to(dtype), ltype=lie.LT[a])


def out_spec(op, k):
    """(kind of result, trailing dims)"""
    a = L.GRP2ALG[k]
    return {"Mul": (k, (L.GRP[k],)), "matmul": (k, (L.GRP[k],)), "Retr": (k, (L.GRP[k],)), "add": (k, (L.GRP[k],)),
            "Adj": (a, (L.ALG[a],)), "AdjT": (a, (L.ALG[a],)), "Jinvp": (a, (L.ALG[a],)),
            "Act3": (None, (3,)), "Act4": (None, (4,)), "mul_points": (None, (3,))}[op]


BINARY = ("Mul", "matmul", "Act3", "Act4", "mul_points", "Adj", "AdjT", "Jinvp", "Retr", "add")


def second_operand(op, k, shape, dtype, g):
    a = L.GRP2ALG[k]
    if op in ("Mul", "matmul"):
        return rand_group(k, shape, dtype, g)
    if op in ("Act3", "mul_points"):
        return torch.randn(tuple(shape) + (3,), generator=g, dtype=torch.float64).to(dtype)
    if op == "Act4":
        return torch.randn(tuple(shape) + (4,), generator=g, dtype=torch.float64).to(dtype)
    return rand_alg(a, shape, dtype, g)


def apply_binary(op, X, Y):
    if op == "Mul":
        return X * Y
    if op == "matmul":
        return X @ Y
    if op in ("Act3", "Act4"):
        return X.Act(Y)
    if op == "mul_points":
        return X @ Y
    if op == "Adj":
        return X.Adj(Y)
    if op == "AdjT":
        return X.AdjT(Y)
    if op == "Jinvp":
        return X.Jinvp(Y)
    if op == "Retr":
        return X.Retr(Y)
    if op == "add":
        return X + Y
    raise KeyError(op)


def raw(t):
    return t.tensor() if isinstance(t, pp.LieTensor) else t


def rewrap(t, like):
    return pp.LieTensor(t, ltype=like.ltype) if isinstance(like, pp.LieTensor) else t


def check_meta(ck, monitor, regime, entry, out, kind, shape, dtype, wit):
    ok = tuple(out.shape) == tuple(shape) and out.dtype == dtype and out.device.type == "cpu"
    if kind is None:
        ok = ok and not isinstance(out, pp.LieTensor)
    else:
        ok = ok and isinstance(out, pp.LieTensor) and out.ltype is lie.LT[kind]
    ck.check(ok, monitor, regime, entry, "wrong_ltype_shape_dtype_or_device",
             lambda: dict(wit, got_shape=list(out.shape), want_shape=list(shape), got_type=type(out).__name__,
                          got_ltype=str(getattr(out, "ltype", None)), want_kind=kind, got_dtype=str(out.dtype)))
    return ok


def close(a, b, u):
    if a.numel() == 0:
        return 0.0, 1.0
    d = (a.double() - b.double()).abs()
    tol = 8 * u * (1 + b.double().abs())
    return float((d / tol).max()), 1.0


def broadcast_monitor(ck, k, dn, pairs, shapes, item_every, g):
    dtype = lie.DT[dn]
    u = lie.u_of(dtype)
    for pi, (sa, sb) in pairs:
        bshape = tuple(torch.broadcast_shapes(sa, sb))
        n = int(np.prod(bshape)) if bshape else 1
        empty = 0 in sa or 0 in sb
        X = rand_group(k, sa, dtype, g)
        for op in BINARY:
            Y = second_operand(op, k, sb, dtype, g)
            kind, trail = out_spec(op, k)
            entry = f"{k}.{op}"
            regime = f"{k}/{dn}/{op}/rank{len(sa)}x{len(sb)}" + ("/empty" if empty else "")
            wit = {"op": op, "type": k, "lshape_a": list(sa), "lshape_b": list(sb), "dtype": dn}
            okc, out = ck.call("broadcast", regime, entry, apply_binary, op, X, Y, witness=wit)
            ck.count("broadcast", regime, key=(k, dn, op, sa, sb), nontrivial=not empty)
            if not okc:
                continue
            if not check_meta(ck, "broadcast", regime, entry, out, kind, bshape + trail, dtype, wit):
                continue
            if empty or n == 0:
                continue
            Xe = rewrap(raw(X).expand(bshape + raw(X).shape[-1:]).reshape(n, -1).clone(), X)
            Ye = rewrap(raw(Y).expand(bshape + raw(Y).shape[-1:]).reshape(n, -1).clone(), Y)
            flat = raw(apply_binary(op, Xe, Ye))
            r, _ = close(raw(out).reshape(n, -1), flat, u)
            ck.ratio("broadcast", regime, r, 1.0, entry, "batched_result_differs_from_itemwise", wit)
            if pi % item_every == 0 and n <= 27:
                for i in range(n):
                    xi, yi = rewrap(raw(Xe)[i].clone(), X), rewrap(raw(Ye)[i].clone(), Y)
                    oi = raw(apply_binary(op, xi, yi))
                    r, _ = close(flat[i], oi, u)
                    ck.ratio("broadcast.items", regime, r, 1.0, entry, "flat_batch_differs_from_0d_item", wit)
                ck.count("broadcast.items", regime, key=(k, dn, op, sa, sb))
                if n >= 2:
                    # the same with a first operand mixing regimes (identity item, tiny item, generic items): item vs item alone
                    Xm_raw = raw(Xe).clone()
                    Xm_raw[(pi + 1) % n] = raw(pp.identity_like(rewrap(Xm_raw[:1].clone(), X)))[0]
                    if n >= 3:
                        a_ = L.GRP2ALG[k]
                        Xm_raw[(pi + 2) % n] = raw(pp.LieTensor(torch.full((L.ALG[a_],), 1e-6, dtype=torch.float64).to(dtype), ltype=lie.LT[a_]).Exp())
                    regm = regime + "/mixed-regimes"
                    witm = dict(wit, mixed="identity item, tiny item, generic items in the first operand", items=n)
                    okm, om = ck.call("broadcast.mixed", regm, entry, apply_binary, op, rewrap(Xm_raw.clone(), X), Ye, witness=witm)
                    ck.count("broadcast.mixed", regm, key=(k, dn, op, sa, sb, "mixed"))
                    if okm:
                        worst = 0.0
                        for i in range(n):
                            oki, oi = ck.call("broadcast.mixed", regm, entry, apply_binary, op, rewrap(Xm_raw[i].clone(), X),
                                              rewrap(raw(Ye)[i].clone(), Y), witness=dict(witm, item=i))
                            if oki:
                                ri, _ = close(raw(om)[i], raw(oi), u)
                                worst = max(worst, ri)
                        ck.ratio("broadcast.mixed", regm, worst, 1.0, entry, "item_of_a_mixed_batch_differs_from_the_item_evaluated_alone", witm)
                        ck.mark("broadcast/mixed-regimes-binary")
    # unary ops over every shape
    a = L.GRP2ALG[k]
    for si, s in shapes:
        empty = 0 in s
        n = int(np.prod(s)) if s else 1
        X = rand_group(k, s, dtype, g)
        x = rand_alg(a, s, dtype, g)
        una = [("Exp", x, k, (L.GRP[k],), lambda t: t.Exp()), ("Log", X, a, (L.ALG[a],), lambda t: t.Log()),
               ("Inv", X, k, (L.GRP[k],), lambda t: t.Inv()), ("alg.Inv", x, a, (L.ALG[a],), lambda t: t.Inv()),
               ("matrix", X, None, (3, 3) if k == "SO3" else (4, 4), lambda t: t.matrix()),
               ("rotation", X, "SO3", (4,), lambda t: t.rotation()),
               ("translation", X, None, (3,), lambda t: t.translation()),
               ("scale", X, None, (1,), lambda t: t.scale()),
               ("tensor", X, None, (L.GRP[k],), lambda t: t.tensor()),
               ("Jr", x if k == "SO3" else None, None, (3, 3), lambda t: t.Jr()),
               ("euler", X, None, (3,), lambda t: t.euler())]
        for name, arg, kind, trail, f in una:
            if arg is None:
                continue
            entry = f"{k}.{name}"
            regime = f"{k}/{dn}/{name}/rank{len(s)}" + ("/empty" if empty else "")
            wit = {"op": name, "type": k, "lshape": list(s), "dtype": dn}
            okc, out = ck.call("broadcast", regime, entry, f, arg, witness=wit)
            ck.count("broadcast", regime, key=(k, dn, name, s), nontrivial=not empty)
            if not okc or not check_meta(ck, "broadcast", regime, entry, out, kind, tuple(s) + trail, dtype, wit):
                continue
            if empty:
                continue
            flat_in = rewrap(raw(arg).reshape(n, -1).clone(), arg)
            flat = raw(f(flat_in))
            r, _ = close(raw(out).reshape((n,) + trail), flat, u)
            ck.ratio("broadcast", regime, r, 1.0, entry, "batched_result_differs_from_itemwise", wit)
            # a batch mixing regimes: one item is the identity / zero, one is tiny, the rest generic.  Every item of the shaped batch
            # must equal the same item evaluated alone (a series / closed-form switch, threshold or mask decided for a whole
            # batch or batch row shows here)
            if n < 2 or n > 64:
                continue
            mixed = raw(arg).reshape(n, -1).clone()
            is_group = isinstance(arg, pp.LieTensor) and arg.ltype in (lie.LT[k],)
            if is_group:
                ident = raw(pp.identity_like(rewrap(mixed[:1].clone(), arg)))[0]
                mixed[(si * 7 + 1) % n] = ident
                if n >= 3:
                    tiny = rewrap(torch.full((L.ALG[a],), 1e-6, dtype=torch.float64).to(dtype), x).Exp()
                    mixed[(si * 7 + 2) % n] = raw(tiny)
            else:
                mixed[(si * 7 + 1) % n] = 0
                if n >= 3:
                    mixed[(si * 7 + 2) % n] = mixed[(si * 7 + 2) % n] * 1e-6
            marg = rewrap(mixed.reshape(raw(arg).shape).clone(), arg)
            regm = regime + "/mixed-regimes"
            witm = dict(wit, mixed="identity-or-zero item, tiny item, generic items", items=n)
            okc, outm = ck.call("broadcast.mixed", regm, entry, f, marg, witness=witm)
            ck.count("broadcast.mixed", regm, key=(k, dn, name, s, "mixed"))
            if not okc:
                continue
            outm = raw(outm).reshape((n,) + trail)
            worst = 0.0
            for i in range(n):
                oki, oi = ck.call("broadcast.mixed", regm, entry, f, rewrap(mixed[i].clone(), arg), witness=dict(witm, item=i))
                if oki:
                    ri, _ = close(outm[i], raw(oi), u)
                    worst = max(worst, ri)
            ck.ratio("broadcast.mixed", regm, worst, 1.0, entry, "item_of_a_mixed_batch_differs_from_the_item_evaluated_alone", witm)
            ck.mark("broadcast/mixed-regimes")


# =====================================================================================
# 2. handled functions
# =====================================================================================
def handled_table(d):
    """name -> list of callables f(T, O) working on a LieTensor or the plain tensor alike.
    T has shape (2,3,d), O is a second operand of shape (2,3,d), the last dimension is always kept."""
    i01 = torch.tensor([1, 0])
    idx3 = lambda T: torch.tensor([[[1] * d, [0] * d, [1] * d]])                       # (1,3,d) indices into dim 0
    T4 = lambda T: torch.stack([T, T], dim=2)                                           # (2,3,2,d)
    tab = {
        "__getitem__": [lambda T, O: T[1], lambda T, O: T[:, 1:], lambda T, O: T[[0, 1], [1, 2]], lambda T, O: T[..., 0, :],
                        lambda T, O: T[torch.tensor([[True, False, True], [False, True, True]])], lambda T, O: T[None]],
        "__setitem__": [lambda T, O: _setitem(T.clone(), O)],
        "cpu": [lambda T, O: T.cpu()],
        "float": [lambda T, O: T.float()], "double": [lambda T, O: T.double()],
        "to": [lambda T, O: T.to(torch.float32), lambda T, O: T.to("cpu"), lambda T, O: T.to(O)],
        "detach": [lambda T, O: T.detach()],
        "view": [lambda T, O: T.view(6, d), lambda T, O: T.view(3, 2, d), lambda T, O: T.view(-1, d)],
        "view_as": [lambda T, O: T.view_as(O.reshape(3, 2, d))],
        "squeeze": [lambda T, O: T[:1].squeeze(0), lambda T, O: T.unsqueeze(0).squeeze(0)],
        "unsqueeze": [lambda T, O: T.unsqueeze(0), lambda T, O: T.unsqueeze(1), lambda T, O: T.unsqueeze(-2)],
        "cat": [lambda T, O: torch.cat([T, O], dim=0), lambda T, O: torch.cat((T, O, T), dim=1)],
        "concat": [lambda T, O: torch.concat([T, O], dim=0)],
        "stack": [lambda T, O: torch.stack([T, O], dim=0), lambda T, O: torch.stack([T, O], dim=2)],
        "split": [lambda T, O: torch.split(T, 1, dim=0), lambda T, O: T.split([1, 2], dim=1)],
        "hsplit": [lambda T, O: torch.hsplit(T, 3)],
        "vsplit": [lambda T, O: torch.vsplit(T, 2)],
        "dsplit": [lambda T, O: torch.dsplit(T4(T), 2)],
        "tensor_split": [lambda T, O: torch.tensor_split(T, 2, dim=1)],
        "chunk": [lambda T, O: torch.chunk(T, 2, dim=1)],
        "column_stack": [lambda T, O: torch.column_stack([T, O])],
        "hstack": [lambda T, O: torch.hstack([T, O])],
        "vstack": [lambda T, O: torch.vstack([T, O])],
        "row_stack": [lambda T, O: torch.row_stack([T, O])],
        "dstack": [lambda T, O: torch.dstack([T4(T), T4(O)])],
        "index_select": [lambda T, O: torch.index_select(T, 0, i01), lambda T, O: T.index_select(1, torch.tensor([2, 2, 0]))],
        "movedim": [lambda T, O: torch.movedim(T, 0, 1)], "moveaxis": [lambda T, O: torch.moveaxis(T, 0, 1)],
        "narrow": [lambda T, O: torch.narrow(T, 1, 1, 2)],
        "permute": [lambda T, O: T.permute(1, 0, 2)],
        "reshape": [lambda T, O: T.reshape(6, d), lambda T, O: T.permute(1, 0, 2).reshape(-1, d)],
        "scatter": [lambda T, O: torch.scatter(T, 0, idx3(T), O[:1])],
        "scatter_add": [lambda T, O: torch.scatter_add(T, 0, idx3(T), O[:1])],
        "clone": [lambda T, O: T.clone()],
        "swapaxes": [lambda T, O: torch.swapaxes(T, 0, 1)], "swapdims": [lambda T, O: torch.swapdims(T, 0, 1)],
        "take": [lambda T, O: torch.take(T, (torch.tensor([[4], [1], [5]]) * d + torch.arange(d)))],
        "take_along_dim": [lambda T, O: torch.take_along_dim(T, idx3(T), dim=0)],
        "tile": [lambda T, O: T.tile(2, 1, 1)],
        "transpose": [lambda T, O: T.transpose(0, 1)],
        "unbind": [lambda T, O: torch.unbind(T, dim=0), lambda T, O: T.unbind(1)],
        "gather": [lambda T, O: torch.gather(T, 0, idx3(T))],
        "repeat": [lambda T, O: T.repeat(2, 1, 1), lambda T, O: T.repeat(2, 1, 1, 1)],
        "expand": [lambda T, O: T[:1].expand(4, 3, d), lambda T, O: T[:, :1].expand(2, 5, d)],
        "expand_as": [lambda T, O: T[:1].expand_as(O)],
        "index_copy": [lambda T, O: T.index_copy(0, i01, O)],
        "index_copy_": [lambda T, O: T.clone().index_copy_(0, i01, O)],
        "select": [lambda T, O: T.select(0, 1), lambda T, O: torch.select(T, 1, 2)],
        "select_scatter": [lambda T, O: torch.select_scatter(T, O[0], 0, 1)],
        "index_put": [lambda T, O: T.index_put((i01,), O)],
        "index_put_": [lambda T, O: T.clone().index_put_((i01,), O)],
        "copy_": [lambda T, O: T.clone().copy_(O)],
    }
    skipped = {"cuda": "no CUDA device in the sandbox",
               "masked_select": "returns a 1-D tensor: cannot keep the last dimension",
               "copy": "torch has no function named 'copy' (copy.copy goes through __reduce_ex__, covered by deepcopy monitor)"}
    return tab, skipped


def _setitem(T, O):
    T[0] = O[1]
    T[1, 2] = O[0, 0]
    return T


def same_struct(ck, name, ci, got, want, kind, wit):
    if isinstance(want, (tuple, list)):
        ok = isinstance(got, (tuple, list)) and len(got) == len(want)
        ck.check(ok, "handled", name, f"torch.{name}", "result_structure_differs", wit)
        if ok:
            for g_, w_ in zip(got, want):
                same_struct(ck, name, ci, g_, w_, kind, wit)
        return
    ok = isinstance(got, pp.LieTensor) and got.ltype is lie.LT[kind]
    ck.check(ok, "handled", name, f"torch.{name}", "result_is_not_a_LieTensor_of_the_same_ltype",
             lambda: dict(wit, got_type=type(got).__name__, got_ltype=str(getattr(got, "ltype", None))))
    if ok:
        ck.check(got.shape == want.shape and got.dtype == want.dtype and torch.equal(got.tensor(), want), "handled", name,
                 f"torch.{name}", "items_differ_from_torch_on_plain_tensor", lambda: dict(wit, got_shape=list(got.shape), want_shape=list(want.shape)))


def handled_monitor(ck, g):
    from pypose.lietensor.lietensor import HANDLED_FUNCTIONS
    # the functions the library documents as handled (a fixed list: a name dropped from the library's own
    # list must still be exercised), plus anything the library lists beyond it
    tab0, skipped0 = handled_table(3)
    names = list(dict.fromkeys(list(tab0) + list(skipped0) + list(HANDLED_FUNCTIONS)))
    covered, skipped_names = 0, {}
    for kind in lie.ALGS + lie.GRPS:
        d = (L.ALG.get(kind) or L.GRP.get(kind))
        tab, skipped = handled_table(d)
        for name in names:
            if name in skipped:
                skipped_names[name] = skipped[name]
                continue
            if name not in tab:
                skipped_names[name] = "no call registered (reported, not silently dropped)"
                continue
            if not hasattr(torch, name) and not hasattr(torch.Tensor, name):
                skipped_names[name] = "not present in this torch version"
                continue
            for ci, f in enumerate(tab[name]):
                X = rand_group(kind, (2, 3), torch.float64, g) if kind in lie.GRPS else rand_alg(kind, (2, 3), torch.float64, g)
                O = rand_group(kind, (2, 3), torch.float64, g) if kind in lie.GRPS else rand_alg(kind, (2, 3), torch.float64, g)
                wit = {"function": name, "call": ci, "ltype": kind}
                before = X.tensor().clone()
                okc, got = ck.call("handled", name, f"torch.{name}", f, X, O, witness=wit)
                ck.count("handled", name, key=(kind, name, ci))
                if not okc:
                    continue
                want = f(before.clone(), O.tensor().clone())
                same_struct(ck, name, ci, got, want, kind, wit)
                ck.check(torch.equal(X.tensor(), before), "handled", name, f"torch.{name}", "input_modified", wit)
                covered += 1
    ck.note("handled_functions_listed", len(names))
    ck.note("handled_functions_skipped", skipped_names)
    ck.mark("handled/covered", covered)
    # constructors, Parameter, deepcopy, new_empty, lview
    for kind in lie.ALGS + lie.GRPS:
        lt_ = lie.LT[kind]
        d = (L.ALG.get(kind) or L.GRP.get(kind))
        for shp in ((), (3,), (2, 3), (0,), (2, 0, 1)):
            for dt in (torch.float32, torch.float64):
                wit = {"ltype": kind, "shape": list(shp), "dtype": str(dt)}
                for cname, ctor in (("randn", getattr(pp, f"randn_{kind}")), ("identity", getattr(pp, f"identity_{kind}"))):
                    okc, X = ck.call("handled", f"ctor/{cname}", f"pp.{cname}_{kind}", lambda: ctor(*shp, dtype=dt), witness=wit)
                    ck.count("handled", f"ctor/{cname}", key=(kind, shp, str(dt), cname), nontrivial=0 not in shp)
                    if okc:
                        check_meta(ck, "handled", f"ctor/{cname}", f"pp.{cname}_{kind}", X, kind, tuple(shp) + (d,), dt, wit)
                        if cname == "identity" and 0 not in shp:
                            M = L.group_matrix(kind, X.tensor().reshape(-1, d).double().numpy()) if kind in lie.GRPS else \
                                L.exp_matrix(kind, X.tensor().reshape(-1, d).double().numpy())
                            ck.check(bool(np.all(M == np.eye(4))), "handled", "ctor/identity", f"pp.identity_{kind}", "identity_is_not_identity", wit)
                Xs = ctor(*shp, dtype=dt) if True else None
                like = [("randn_like", pp.randn_like), ("identity_like", pp.identity_like)]
                for cname, fn in like:
                    okc, Y = ck.call("handled", f"ctor/{cname}", f"pp.{cname}", lambda: fn(Xs), witness=wit)
                    ck.count("handled", f"ctor/{cname}", key=(kind, shp, str(dt), cname), nontrivial=0 not in shp)
                    if okc:
                        # documented defaults: randn_like -> dtype of the input; identity_like -> the global default dtype
                        want_dt = dt if cname == "randn_like" else torch.get_default_dtype()
                        check_meta(ck, "handled", f"ctor/{cname}", f"pp.{cname}", Y, kind, tuple(shp) + (d,), want_dt, wit)
                    okc, Y = ck.call("handled", f"ctor/{cname}", f"pp.{cname}", lambda: fn(Xs, dtype=torch.float64), witness=wit)
                    if okc:
                        check_meta(ck, "handled", f"ctor/{cname}", f"pp.{cname}", Y, kind, tuple(shp) + (d,), torch.float64, wit)
        # reduced-precision dtypes: whatever is returned must have the requested dtype (a constructor that cannot work in
        # half precision may raise - recorded, not judged)
        for dt in (torch.float16, torch.bfloat16):
            for shp in ((), (3,), (2, 2)):
                for cname, ctor in (("randn", getattr(pp, f"randn_{kind}")), ("identity", getattr(pp, f"identity_{kind}"))):
                    wit = {"ltype": kind, "shape": list(shp), "dtype": str(dt)}
                    try:
                        Xh = ctor(*shp, dtype=dt)
                    except Exception:
                        ck.note_add(f"half_precision_constructor_raised/{cname}_{kind}", 1)
                        continue
                    ck.count("handled", f"ctor/{cname}/half", key=(kind, shp, str(dt), cname))
                    check_meta(ck, "handled", f"ctor/{cname}/half", f"pp.{cname}_{kind}", Xh, kind, tuple(shp) + (d,), dt, wit)
                    ck.mark("ctor/half_precision")
                    try:
                        Yh = pp.randn_like(Xh)
                        check_meta(ck, "handled", "ctor/randn_like/half", "pp.randn_like", Yh, kind, tuple(shp) + (d,), dt, wit)
                    except Exception:
                        ck.note_add("half_precision_constructor_raised/randn_like", 1)
        X = rand_group(kind, (2, 3), torch.float64, g) if kind in lie.GRPS else rand_alg(kind, (2, 3), torch.float64, g)
        P = pp.Parameter(X)
        ck.count("handled", "Parameter", key=kind)
        ck.check(isinstance(P, pp.LieTensor) and isinstance(P, nn.Parameter) and P.ltype is lie.LT[kind] and P.requires_grad
                 and torch.equal(P.tensor(), X.tensor()), "handled", "Parameter", "pp.Parameter", "parameter_loses_type_or_data", {"ltype": kind})
        Q = copy.deepcopy(P)
        ck.count("handled", "deepcopy", key=kind)
        ck.check(isinstance(Q, pp.Parameter) and Q.ltype is lie.LT[kind] and torch.equal(Q.tensor(), P.tensor())
                 and Q.data_ptr() != P.data_ptr() and Q.requires_grad, "handled", "deepcopy", "Parameter.__deepcopy__", "deepcopy_loses_type_or_data", {"ltype": kind})
        m = nn.Module()
        m.p = P
        m2 = copy.deepcopy(m)
        ck.check(isinstance(m2.p, pp.Parameter) and m2.p.ltype is lie.LT[kind], "handled", "deepcopy", "Parameter.__deepcopy__", "module_deepcopy_loses_ltype", {"ltype": kind})
        E = X.new_empty((4, d))
        ck.count("handled", "new_empty", key=kind)
        ck.check(isinstance(E, pp.LieTensor) and E.ltype is lie.LT[kind] and tuple(E.shape) == (4, d) and E.dtype == X.dtype, "handled", "new_empty",
                 "LieTensor.new_empty", "new_empty_loses_type", {"ltype": kind})
        V = X.lview(3, 2)
        ck.count("handled", "lview", key=kind)
        ck.check(isinstance(V, pp.LieTensor) and V.ltype is lie.LT[kind] and tuple(V.lshape) == (3, 2) and torch.equal(V.tensor(), X.tensor().view(3, 2, d))
                 and V.data_ptr() == X.data_ptr(), "handled", "lview", "LieTensor.lview", "lview_wrong", {"ltype": kind})
        ck.check(tuple(X.lshape) == (2, 3), "handled", "lshape", "LieTensor.lshape", "lshape_wrong", {"ltype": kind})
        okr = False
        try:
            pp.LieTensor(torch.zeros(2, d + 1, dtype=torch.float64), ltype=lie.LT[kind])
        except AssertionError:
            okr = True
        ck.count("handled", "ctor/shape_check", key=kind)
        ck.check(okr, "handled", "ctor/shape_check", "LieTensor.__init__", "wrong_last_dimension_accepted", {"ltype": kind})


def run(ck):
    g = ck.tgen("c06")
    thorough = ck.tier == "thorough"
    shapes, pairs = gen.lshape_pairs()
    if ck.shard == 0:
        ck.note("lshape_pairs", len(pairs))
        ck.note("lshapes", len(shapes))
    # ---- 1. broadcast: static partition of the exhaustive pair list over the shards
    jobs = []
    for k in lie.GRPS:
        for dn in ("f64", "f32"):
            jobs.append((k, dn))
    mine_pairs = [(i, p) for i, p in enumerate(pairs) if ck.mine(i)]
    mine_shapes = [(i, s) for i, s in enumerate(shapes) if ck.mine(i)]
    for (k, dn) in jobs:
        if dn == "f32" and not thorough:
            sub = mine_pairs[:: 8]
        else:
            sub = mine_pairs
        broadcast_monitor(ck, k, dn, sub, mine_shapes, item_every=(3 if thorough else 16), g=g)
    ck.exhaustive = True     # the float64 sweep of the lshape-pair space is complete (all shards together)
    # ---- 2. handled functions (shard 0 only: deterministic table)
    if ck.shard == 0:
        handled_monitor(ck, g)
        ck.require("handled/covered", "ctor/half_precision")
        from .. import history
        history.lifecycle(ck)          # operations on operands that went through deepcopy / pickle / save+load
        # reduced precision: an operation that runs on float16 / bfloat16 operands returns the dtype of its operands
        # (an operation that cannot work in half precision may raise - recorded, not judged)
        rngh = ck.rng("half-ops")
        for prop_ in history.ALL_PROPS:
            for (name, kx, kaux, f) in history.ops_for(prop_):
                for dt in (torch.float16, torch.bfloat16):
                    X32 = history._fresh(kx, history._make(kx, rngh, (3,), torch.float32))
                    a32 = history._aux_for(kaux, rngh, (3,), torch.float32)
                    Xh = X32.to(dt)
                    ah = None if a32 is None else a32.to(dt)
                    try:
                        out = f(Xh, ah)
                    except Exception:
                        ck.note_add("half_precision_operation_raised/" + name, 1)
                        continue
                    t_ = out.tensor() if isinstance(out, pp.LieTensor) else out
                    ck.count("handled", f"half-op/{name}", key=(name, str(dt)))
                    ck.check(isinstance(t_, torch.Tensor) and t_.dtype == dt, "handled", f"half-op/{name}", name, "result_dtype_differs_from_operand_dtype",
                             {"op": name, "operand_dtype": str(dt), "result_dtype": str(getattr(t_, "dtype", None))})
                    ck.mark("half-op/ran")
        ck.require("half-op/ran")
    if ck.shard == 1 % ck.nshards:
        from .c06_purity import purity_monitor
        purity_monitor(ck, g)
        from .. import attach
        attach.run_repository_tests(ck, ["purity", "patchleak"])   # the repository's own tests under the purity / patch-leak monitors
        ck.require("suite/ran_under_monitors")
    if ck.shard >= 2 % ck.nshards or ck.nshards < 3:
        from .c06_faults import fault_monitor
        fault_monitor(ck, thorough)
    ck.require("broadcast/mixed-regimes", "broadcast/mixed-regimes-binary")
    ck.floor("broadcast", 200)
    ck.floor("broadcast.mixed", 40)
