"""pytest plugin: run the repository's own tests with the monitors attached (`-p vrf.pytest_plugin`).

Attached while the tests run:
  * Exp / Log reference-model monitors of C01 / C02 on every call the tests make (globally attached observer);
  * purity monitor: every public `pypose.<function>` and LieTensor method without a trailing underscore is wrapped;
    the tensor arguments are compared bitwise before / after the call;
  * patch-leak sanitizer: after every test the three torch internals patched by retain_ltype must be the originals.
Results are written as a partial-result JSON (core.Check.to_partial) to $VRF_PLUGIN_OUT and absorbed by the check
that launched pytest.  A monitor that fires here is triaged like any other witness.
"""
import inspect
import json
import os

import torch

import vrf  # noqa: F401  (puts the repository under test first on sys.path)
from vrf import core, instrument, attach

CK = core.Check(os.environ.get("VRF_PLUGIN_PID", "C06"), "thorough", int(os.environ.get("VERIF_SEED", "0")))
STATE = {"ctx": None, "tests": 0, "wrapped": 0}
WANT = set(os.environ.get("VRF_PLUGIN_MONITORS", "exp,log,purity,patchleak").split(","))


def _wrap_pure(owner, name, label):
    fn = owner.__dict__.get(name) if inspect.isclass(owner) else getattr(owner, name)
    if isinstance(fn, (staticmethod, classmethod, property)) or not callable(fn):
        return

    def wrapper(*a, **kw):
        ts = instrument.tensors_in((a, kw))
        if not ts or len(ts) > 64:
            return fn(*a, **kw)
        try:
            snaps = instrument.snapshot(ts)
        except Exception:
            return fn(*a, **kw)
        out = fn(*a, **kw)
        try:
            bad = instrument.changed(ts, snaps)
            CK.count("suite.purity", label, key=label, nontrivial=True)
            if bad:
                CK.violation("suite.purity", label, label, "argument_tensor_modified",
                             {"function": label, "changed_argument_indices": bad, "during": os.environ.get("PYTEST_CURRENT_TEST", "")})
        except Exception:
            pass
        return out
    wrapper.__name__ = getattr(fn, "__name__", name)
    wrapper.__doc__ = getattr(fn, "__doc__", None)
    setattr(owner, name, wrapper)
    STATE["wrapped"] += 1


def pytest_configure(config):
    import pypose as pp
    from vrf.checks import c01, c02
    busy = [False]

    def on_exp(kind, x, X):
        dn = "f64" if x.dtype == torch.float64 else "f32" if x.dtype == torch.float32 else None
        if dn and torch.isfinite(x).all() and not busy[0]:
            c01.monitor_exp(CK, kind, dn, x.double().cpu().numpy(), monitor="suite.exp", observed=X.cpu())

    def on_log(G, X, x):
        dn = "f64" if X.dtype == torch.float64 else "f32" if X.dtype == torch.float32 else None
        if dn is None or busy[0] or not torch.isfinite(X).all():
            return
        # only valid elements (unit quaternion up to rounding): tests also feed raw random tensors
        q = X[..., :4] if G in ("SO3", "RxSO3") else X[..., 3:7]
        if ((q.norm(dim=-1) - 1).abs() > 64 * torch.finfo(X.dtype).eps).any():
            return
        busy[0] = True
        try:
            c02.monitor_log(CK, G, dn, X.double().cpu().numpy(), monitor="suite.log", clauses=False)
        finally:
            busy[0] = False
    STATE["ctx"] = attach.observe(on_exp=on_exp if "exp" in WANT else None, on_log=on_log if "log" in WANT else None)
    STATE["ctx"].__enter__()
    if "purity" in WANT:
        skip = {"get_version", "import_module", "lru_cache", "retain_ltype", "is_lietensor", "hasnan", "is_SE3"}
        for n in dir(pp):
            o = getattr(pp, n)
            if n.startswith("_") or n.endswith("_") or n in skip or not inspect.isfunction(o):
                continue
            _wrap_pure(pp, n, "pp." + n)
        for n, o in list(pp.LieTensor.__dict__.items()):
            if n.startswith("_") or n.endswith("_") or not inspect.isfunction(o) or n in ("new_empty",):
                continue
            _wrap_pure(pp.LieTensor, n, "LieTensor." + n)


def pytest_runtest_teardown(item, nextitem):
    STATE["tests"] += 1
    if "patchleak" in WANT:
        leaks = instrument.patch_leaks()
        CK.count("suite.patchleak", "after_test", key=item.nodeid)
        if leaks:
            CK.violation("suite.patchleak", "after_test", "retain_ltype", "torch_internals_left_patched", {"test": item.nodeid, "left": leaks})
            instrument.restore_patches()


def pytest_sessionfinish(session, exitstatus):
    if STATE["ctx"] is not None:
        STATE["ctx"].__exit__(None, None, None)
    CK.note_add("suite_tests_run_under_monitors", STATE["tests"])
    CK.note_add("suite_functions_wrapped", STATE["wrapped"])
    out = os.environ.get("VRF_PLUGIN_OUT")
    if out:
        with open(out, "w") as f:
            json.dump(CK.to_partial(), f)
