"""C10 — linear solvers and sparse product helpers return correct results or fail loudly.

Oracle = optimality conditions evaluated in longdouble on matrices whose rank, null space and
condition number are known by construction; never a second solver.

Monitors
  ls_optimal        PINV / LSTSQ:  |A^T (A x - b)| <= u |A| ((32 max(m,n) + 512 [SVD drivers]) (|A||x| + |b|) + 64 kappa |b| [PINV])
  min_norm          PINV:          component of x outside the (constructed) row space of A <= u (64 kappa + 8 max(m,n)) (|x| + |b|/|A|)
  chol_backward     Cholesky on SPD A:  |A x - b| <= c u (|A||x| + |b|)
  chol_must_raise   Cholesky on symmetric A with an eigenvalue <= -0.1|A| (constructed spectra, a negative diagonal
                    entry at the first/middle/last pivot, small dyadic matrices, one such matrix inside a batch of
                    SPD ones): returning any tensor is the violation (mech returned_vector_for_non_pd)
  cg_residual       CG:  |b - A x| <= tol |b| + c u (|A| max(|x|,|x0|) + |b|)
  cg_zero_rhs       CG(b = 0) returns zeros
  cg_guess_untouched (side monitor, C06's) the initial guess is bitwise unchanged
  sparse_product    _sparse_csr_mm / bsr_bsc_matmul: .to_dense() equals the dense product within c u (|A||B|)_ij,
                    result shape; unsupported layout pairs must raise (recorded in the evidence)
"""
import math

import numpy as np
import torch

import pypose as pp  # noqa: F401
from pypose.optim import solver as pps
from pypose.sparse import ops as spops

SHARED_CG = {}
PID = "C10"
LEVEL = "exploration"
SHARDS = {"quick": 4, "thorough": 16}
TIMEOUT = {"quick": 900, "thorough": 5400}
RULE = ("direct solvers: A = T (U diag(s) V^T) S with orthonormal U, V, a prescribed spectrum (condition number up to 1e8 "
        "in float64 / 1e4 in float32, log-spaced, clustered or flat) and row/column maps T, S whose entries are 0, +-1/2, "
        "+-1, +-2 (duplicated, scaled and zero rows/columns): rank, row space and null space are known exactly and the "
        "zero singular values are exact; sizes 1..40 (1, 2, 3, primes, 39, 40), tall/wide/square, ranks from 0 to full, "
        "right-hand sides consistent / generic / nearly orthogonal to range(A) / zero, batch shapes of rank 0-2. Cholesky: "
        "SPD Q diag(s) Q^T, both triangles, batches; failure clause on symmetric matrices with a diagonal entry or an "
        "eigenvalue <= -0.1|A| (first/middle/last position, alone or inside a batch of SPD matrices) and on small dyadic "
        "indefinite matrices (singular PSD matrices are not judged). CG: dense/CSR/COO/BSR SPD operands (dense-spectrum and banded/block sparse, kappa <= 1e3), "
        "n = 1..40, |b| in {1e-3,1,1e3}, tol in {1e-3,1e-5,1e-8}, with/without initial guess (random, exact, zero) and "
        "SPD preconditioner (Jacobi dense/sparse, approximate inverse). sparse: all 16 (BSR,BSC,CSR,CSC)^2 layout pairs, "
        "block sizes 1..4 (rectangular), densities {0,0.1,0.5,1}, every pair of index subsets of {0..k-1} for k<=4 (5 "
        "thorough) as (row of A, column of B), targeted merge-join patterns for longer rows, square operands with equal "
        "block sizes. one case = one system / one "
        "product; distinct = distinct operand bit patterns; trivial = zero matrix / zero right-hand side / empty pattern.")
ASSUME = ["rank decisions are unambiguous by construction; when torch's own svdvals of a rank-deficient A puts a 'zero' singular "
          "value above half of pinv's default cutoff eps*max(m,n)*smax, only least-squares optimality is judged (counted as "
          "ambiguous_rank)",
          "float32: condition numbers up to 1e4 (1/kappa must stay far above eps*max(m,n))",
          "SVD-based solvers (PINV, LSTSQ gelsd/gelss) are granted a size-independent constant 512 (measured up to 45, also for "
          "numpy.linalg.lstsq, when small singular values cluster); PINV additionally u*kappa*|A||b| (explicitly formed pseudo-inverse)",
          "LSTSQ is judged on least-squares optimality only (minimum norm is stated for PINV); driver 'gels' only on full-rank input",
          "CG: the stated bound is evaluated with exact arithmetic on the returned x and is granted the round-off the "
          "recurrence cannot avoid, c*u*(|A| max(|x|,|x0|)+|b|) (x is accumulated on top of the initial guess x0); single right-hand side, single system (as documented)",
          "a layout pair the sparse helper does not support may raise; BSR x BSC must return",
          "norms are spectral / Euclidean, computed in float64 (numpy) for scaling only",
          "CPU only"]

LD = np.longdouble
DT = {"f64": torch.float64, "f32": torch.float32}
C_LS = 32.0      # x max(m,n)
C_LSK = 64.0     # x kappa |b| (PINV only)
C_SVD = 512.0    # size-independent constant of the SVD-based drivers
C_MN = 64.0      # x kappa
C_MND = 8.0      # x max(m,n)  (orthogonality of the computed singular vectors, length-n dot products)
C_CH = 16.0
C_CG = 16.0
C_SP = 16.0
SIZES = (1, 2, 3, 4, 5, 7, 8, 11, 13, 16, 17, 23, 29, 31, 32, 37, 39, 40)


def u_of(dn):
    return float(torch.finfo(DT[dn]).eps)


def tiny_of(dn):
    return float(torch.finfo(DT[dn]).tiny)


def rnd(a, dn):
    """Round a float64/longdouble array to the dtype; returned as float64 (exact values of the dtype)."""
    a = np.asarray(a, dtype=np.float64)
    return a if dn == "f64" else a.astype(np.float32).astype(np.float64)


def tt(a, dn):
    return torch.tensor(np.asarray(a, dtype=np.float64)).to(DT[dn])


def n2(v):
    return float(np.sqrt((np.asarray(v, dtype=LD) ** 2).sum()))


def digest(*arrs):
    import hashlib
    h = hashlib.blake2b(digest_size=8)
    for a in arrs:
        h.update(np.ascontiguousarray(np.asarray(a, dtype=np.float64)).tobytes())
        h.update(str(np.shape(a)).encode())
    return h.hexdigest()


# ---------------------------------------------------------------------------------------
# constructed least-squares systems
# ---------------------------------------------------------------------------------------
def orthonormal(rng, m, r):
    q, _ = np.linalg.qr(rng.standard_normal((m, r)))
    return q


def spectrum(rng, r, kappa, kind):
    if r == 1:
        return np.ones(1)
    if kind == "log":
        s = np.exp(np.linspace(0, -np.log(kappa), r))
    elif kind == "one-small":
        s = np.ones(r)
        s[-1] = 1 / kappa
    elif kind == "one-large":
        s = np.full(r, 1 / kappa)
        s[0] = 1.0
    else:
        s = np.sort(np.exp(rng.uniform(-np.log(kappa), 0, r)))[::-1]
        s[0], s[-1] = 1.0, 1 / kappa
    return s


COEF = np.array([1.0, -1.0, 2.0, -2.0, 0.5, -0.5])


def dup_map(rng, q, n, zero_frac=0.3):
    """S (q x n): every column has at most one nonzero entry (a power of two up to sign); every row is hit."""
    S = np.zeros((q, n))
    cols = rng.permutation(n)
    for c in range(q):
        S[c, cols[c]] = rng.choice(COEF) if rng.random() < 0.5 else 1.0
    for j in cols[q:]:
        if rng.random() >= zero_frac and q > 0:
            S[rng.integers(q), j] = rng.choice(COEF)
    return S


def cgs2(W):
    """Orthonormal basis (longdouble) of the column span of W (full column rank)."""
    W = np.asarray(W, dtype=LD)
    Q = np.zeros_like(W)
    for k in range(W.shape[1]):
        w = W[:, k].copy()
        for _ in range(2):
            if k:
                w = w - Q[:, :k] @ (Q[:, :k].T @ w)
        Q[:, k] = w / np.sqrt((w * w).sum())
    return Q


def make_system(rng, m, n, cls, kappa, dn, scale, skind):
    """Returns dict(A exact dtype values float64 (m,n), r, Qrow (n,r) ld, Qcol (m,r) ld, smax, smin, kappa)."""
    if cls == "zero":
        return {"A": np.zeros((m, n)), "r": 0, "Qrow": np.zeros((n, 0), dtype=LD), "Qcol": np.zeros((m, 0), dtype=LD),
                "smax": 0.0, "smin": 0.0, "kappa": 1.0, "cls": cls}
    p, q = m, n
    if cls in ("coldef", "both") and n > 1:
        q = int(rng.integers(1, n))
    if cls in ("rowdef", "both") and m > 1:
        p = int(rng.integers(1, m))
    S = dup_map(rng, q, n) if q < n else np.eye(n)
    T = dup_map(rng, p, m).T if p < m else np.eye(m)
    kS = math.sqrt((S * S).sum(1).max() / (S * S).sum(1).min())
    kT = math.sqrt((T * T).sum(0).max() / (T * T).sum(0).min())
    kc = max(1.0, kappa / (kS * kT))
    r = min(p, q)
    U, V = orthonormal(rng, p, r), orthonormal(rng, q, r)
    s = spectrum(rng, r, kc, skind)
    C = rnd((U.astype(LD) * s.astype(LD)) @ V.astype(LD).T * LD(scale), dn)
    A = T @ C @ S                       # exact: entries of T, S are powers of two, one per row/column
    assert np.array_equal(rnd(A, dn), A)
    sv = np.linalg.svd(A, compute_uv=False)
    # row space of A = S^T rowspace(C); when the core has full column rank (r == q) that is range(S^T) exactly,
    # whatever the rounding of C did; otherwise S^T span(V) up to an angle u*kappa
    Qrow = cgs2(S.T.astype(LD) @ (V.astype(LD) if r < q else np.eye(q, dtype=LD)))
    Qcol = cgs2(T.astype(LD) @ (U.astype(LD) if r < p else np.eye(p, dtype=LD)))
    return {"A": A, "r": r, "Qrow": Qrow, "Qcol": Qcol, "smax": float(sv[0]), "smin": float(sv[r - 1]),
            "kappa": float(sv[0] / sv[r - 1]), "cls": cls, "p": p, "q": q}


def make_rhs(rng, sysd, kind, dn):
    A = sysd["A"]
    m, n = A.shape
    bs = float(rng.choice([1e-3, 1.0, 1.0, 1e3]))
    if kind == "zero":
        return np.zeros((m, 1))
    if kind == "consistent" and sysd["r"] > 0:
        x0 = rng.standard_normal((n, 1))
        b = np.asarray(A.astype(LD) @ x0.astype(LD), dtype=np.float64)
        b = b / max(np.abs(b).max(), 1e-300) * bs
    elif kind == "orthogonal" and sysd["r"] < m:
        g = rng.standard_normal((m, 1)).astype(LD)
        Qc = sysd["Qcol"]
        g = g - Qc @ (Qc.T @ g)
        g = g / np.sqrt((g * g).sum())
        b = np.asarray(g, dtype=np.float64) * bs
        if sysd["r"] > 0:
            x0 = rng.standard_normal((n, 1))
            c = np.asarray(A.astype(LD) @ x0.astype(LD), dtype=np.float64)
            b = b + 1e-6 * bs * c / max(np.abs(c).max(), 1e-300)
    else:
        b = rng.standard_normal((m, 1)) * bs
    return rnd(b, dn)


def judge_ls(ck, sname, cfg, dn, sysd, b, x, bkind, batch_tag, minnorm, kappa_in_ls, ambiguous):
    u, tiny = u_of(dn), tiny_of(dn)
    A = sysd["A"]
    m, n = A.shape
    entry = f"solver.{sname}"
    regime = f"{sname}{cfg}/{dn}/{sysd['cls']}/{'tall' if m > n else 'wide' if m < n else 'square'}/b:{bkind}"
    Al, bl, xl = A.astype(LD), b.astype(LD), x.astype(LD)
    trivial = sysd["r"] == 0 or bkind == "zero"

    def wit():
        w = {"solver": sname, "config": cfg, "dtype": dn, "m": m, "n": n, "class": sysd["cls"], "rank": sysd["r"],
             "kappa": sysd["kappa"], "smax": sysd["smax"], "b_kind": bkind, "batch": batch_tag, "x": x.reshape(-1).tolist()}
        if m * n <= 64:
            w["A"], w["b"] = A.tolist(), b.reshape(-1).tolist()
        return w

    key = (sname, cfg, dn, batch_tag, digest(A, b))
    ck.count("ls_optimal", regime, key=key, nontrivial=not trivial)
    ck.mark(f"ls/{sname}/{dn}/{sysd['cls']}")
    ck.mark(f"ls/{sname}/{'tall' if m > n else 'wide' if m < n else 'square'}")
    if not ck.check(bool(np.isfinite(x).all()), "ls_optimal", regime, entry, "non_finite_solution", wit):
        return
    g = Al.T @ (Al @ xl - bl)
    nx, nb = n2(xl), n2(bl)
    # backward-stable factorisations: p(m,n) u |A| (|A||x| + |b|), p ~ max(m,n) for the QR drivers; the SVD drivers
    # (gelsd, gelss, pinv) show a size-independent constant up to ~45 when small singular values cluster (measured
    # on 6000 matrices of size 2..6, independent of kappa; numpy.linalg.lstsq behaves the same);
    # pinv(A) @ b forms the pseudo-inverse explicitly (entrywise error u/smin): u kappa |A||b| on top
    svd_based = kappa_in_ls is not False
    tol = u * sysd["smax"] * ((C_LS * max(m, n) + (C_SVD if svd_based else 0.0)) * (sysd["smax"] * nx + nb)
                              + (C_LSK * sysd["kappa"] * nb if kappa_in_ls == "pinv" else 0.0)) + 64 * tiny
    ck.note_max(f"max_r_ls_optimal/{sname}{cfg}/{dn}", n2(g) / tol)
    if nb > 0 and sysd["smax"] > 0:
        ck.note_max(f"max_ls_grad_over_u_kappa_A_b/{sname}{cfg}/{dn}", n2(g) / (u * sysd["smax"] * sysd["kappa"] * nb))
        ck.note_max(f"max_ls_grad_over_u_maxmn_scale/{sname}{cfg}/{dn}", n2(g) / (u * max(m, n) * sysd["smax"] * (sysd["smax"] * nx + nb)))
    ck.ratio("ls_optimal", regime, n2(g), tol, entry, "not_a_least_squares_solution",
             lambda: dict(wit(), gradient=np.asarray(g, dtype=np.float64).reshape(-1).tolist()))
    if minnorm:
        if ambiguous:
            ck.note_add("ambiguous_rank_cases")
            return
        ck.count("min_norm", regime, key=key, nontrivial=not trivial)
        if sysd["r"] == 0:
            ck.ratio("min_norm", regime, nx, 64 * tiny, entry, "not_minimum_norm", wit)
            return
        Q = sysd["Qrow"]
        comp = xl - Q @ (Q.T @ xl)
        tol = (C_MN * sysd["kappa"] + C_MND * max(m, n)) * u * (nx + nb / sysd["smax"]) + 64 * tiny
        ck.ratio("min_norm", regime, n2(comp), tol, entry, "not_minimum_norm",
                 lambda: dict(wit(), null_component=np.asarray(comp, dtype=np.float64).reshape(-1).tolist()))


def ambiguous_rank(A, r, dn):
    """torch's own singular values: is a constructed-zero singular value close to pinv's default cutoff?"""
    m, n = A.shape
    if r >= min(m, n) or r == 0:
        return False
    sv = torch.linalg.svdvals(tt(A, dn)).double().numpy()
    cut = u_of(dn) * max(m, n) * sv[0]
    return bool(sv[r] > 0.5 * cut)


def ls_solvers(dn, cls_full):
    out = [("PINV", "", lambda: pps.PINV(), True, "pinv"),
           ("LSTSQ", "", lambda: pps.LSTSQ(), False, False),
           ("LSTSQ", "[gelsd]", lambda: pps.LSTSQ(driver="gelsd"), False, "svd"),
           ("LSTSQ", "[gelss]", lambda: pps.LSTSQ(driver="gelss"), False, "svd")]
    rt = 1e-11 if dn == "f64" else 1e-5
    out.append(("PINV", f"[rtol={rt:g}]", lambda: pps.PINV(rtol=rt), True, "pinv"))
    if cls_full:
        out.append(("LSTSQ", "[gels]", lambda: pps.LSTSQ(driver="gels"), False, False))
    return out


def drive_ls(ck, rng, dn, thorough):
    kmax = 1e8 if dn == "f64" else 1e4
    classes = ("full", "coldef", "rowdef", "both", "zero")
    bkinds = ("generic", "consistent", "orthogonal", "zero")
    shapes = []
    for m in SIZES:
        for n in SIZES:
            shapes.append((m, n))
    rng.shuffle(shapes)
    nshape = len(shapes) if thorough else 100
    picked = [(1, 1), (1, 40), (40, 1), (40, 40), (39, 40), (2, 3), (3, 2)] + shapes[:nshape]
    for idx, (m, n) in enumerate(picked):
        if not ck.mine(idx):
            continue
        for rep in range(6 if thorough else 1):
            bshape = [(), (), (3,), (2, 2), (1,)][int(rng.integers(5))]
            B = int(np.prod(bshape)) if bshape else 1
            cls_list = [classes[int(rng.integers(len(classes) - 1))] if rng.random() < 0.93 else "zero" for _ in range(B)]
            full_only = rng.random() < 0.25
            if full_only:
                cls_list = ["full"] * B
            systems, rhs, kinds = [], [], []
            for c in cls_list:
                if c == "coldef" and n == 1:
                    c = "full"
                if c == "rowdef" and m == 1:
                    c = "full"
                if c == "both" and (m == 1 or n == 1):
                    c = "zero" if not full_only else "full"
                kap = float(10 ** rng.uniform(0, np.log10(kmax))) if rng.random() < 0.8 else kmax
                sc = float(rng.choice([1e-3, 1.0, 1.0, 1e3, 2.0 ** -30, 2.0 ** 20]))      # also far-away powers of two: the solvers are homogeneous
                if m == n and m > 1 and rng.random() < 0.4:
                    sc = 2.0 ** -30          # square, non-symmetric, entries around 1e-9 (below any absolute closeness tolerance)
                    ck.mark("ls/square-tiny-entries")
                sk = ("log", "one-small", "one-large", "random")[int(rng.integers(4))]
                sd = make_system(rng, m, n, c, kap, dn, sc, sk)
                bk = bkinds[int(rng.integers(4))] if rng.random() < 0.9 else "zero"
                if bk == "orthogonal" and sd["r"] >= m:
                    bk = "generic"
                if bk == "consistent" and sd["r"] == 0:
                    bk = "generic"
                systems.append(sd)
                kinds.append(bk)
                rhs.append(make_rhs(rng, sd, bk, dn))
            At = tt(np.stack([s["A"] for s in systems]).reshape(bshape + (m, n)), dn)
            bt = tt(np.stack(rhs).reshape(bshape + (m, 1)), dn)
            amb = [ambiguous_rank(s["A"], s["r"], dn) for s in systems]
            all_full = all(s["cls"] == "full" for s in systems)
            for sname, cfg, mk, minnorm, kls in ls_solvers(dn, all_full):
                if cfg.startswith("[rtol") and dn == "f32" and any(s["kappa"] > 2e3 for s in systems):
                    continue            # explicit cutoff 1e-5 must stay well below 1/kappa
                tag = f"batch{list(bshape)}"
                okc, X = ck.call("ls_optimal", f"{sname}{cfg}/{dn}", f"solver.{sname}", lambda: mk()(At.clone(), bt.clone()),
                                 witness={"config": cfg, "A_shape": list(At.shape), "classes": [s["cls"] for s in systems],
                                          "kappa": [s["kappa"] for s in systems],
                                          "A": At.double().tolist() if At.numel() <= 64 else "large",
                                          "b": bt.double().reshape(-1).tolist() if bt.numel() <= 64 else "large"})
                if not okc:
                    continue
                ck.mark(f"ls/batch-rank{len(bshape)}")
                if not ck.check(isinstance(X, torch.Tensor) and tuple(X.shape) == bshape + (n, 1) and X.dtype == DT[dn],
                                "ls_optimal", f"{sname}{cfg}/{dn}", f"solver.{sname}", "type_or_shape",
                                {"A": list(At.shape), "b": list(bt.shape), "x": str(getattr(X, "shape", None))}):
                    continue
                Xn = X.double().numpy().reshape(B, n, 1)
                for i, sd in enumerate(systems):
                    judge_ls(ck, sname, cfg, dn, sd, rhs[i], Xn[i], kinds[i], tag, minnorm, kls, amb[i])
            if len(ck.samples) < 3 and systems[0]["r"] > 0 and m * n <= 12:
                ck.sample({"A_hex": [[float(v).hex() for v in row] for row in systems[0]["A"]], "rank": systems[0]["r"],
                           "kappa": systems[0]["kappa"], "class": systems[0]["cls"], "dtype": dn})


# ---------------------------------------------------------------------------------------
# Cholesky
# ---------------------------------------------------------------------------------------
def make_sym(rng, n, lam, dn, scale=1.0):
    q = orthonormal(rng, n, n).astype(LD)
    A = (q * np.asarray(lam, dtype=LD)) @ q.T * LD(scale)
    A = (A + A.T) / 2
    return rnd(A, dn)


NONPD_WITNESSES = [0]


def drive_cholesky(ck, rng, dn, thorough):
    u, tiny = u_of(dn), tiny_of(dn)
    kmax = 1e8 if dn == "f64" else 1e4
    entry = "solver.Cholesky"
    sizes = list(SIZES) * (10 if thorough else 1)
    for idx, n in enumerate(sizes):
        if not ck.mine(idx):
            continue
        for upper in (False, True):
            bshape = [(), (2,), (2, 2), (1,)][int(rng.integers(4))]
            B = int(np.prod(bshape)) if bshape else 1
            mats, rhs, kaps = [], [], []
            for _ in range(B):
                kap = float(10 ** rng.uniform(0, np.log10(kmax))) if rng.random() < 0.7 else kmax
                sk = ("log", "one-small", "one-large", "random")[int(rng.integers(4))]
                sc = float(rng.choice([1e-3, 1.0, 1e3]))
                A = make_sym(rng, n, spectrum(rng, n, kap, sk), dn, sc)
                mats.append(A)
                kaps.append(kap)
                rhs.append(rnd(rng.standard_normal((n, 1)) * float(rng.choice([1e-3, 1.0, 1e3])), dn))
            At, bt = tt(np.stack(mats).reshape(bshape + (n, n)), dn), tt(np.stack(rhs).reshape(bshape + (n, 1)), dn)
            regime = f"{dn}/upper={upper}/batch-rank{len(bshape)}"
            okc, X = ck.call("chol_backward", regime, entry, lambda: pps.Cholesky(upper=upper)(At.clone(), bt.clone()),
                             witness={"n": n, "kappa": kaps, "A": At.double().tolist() if At.numel() <= 64 else "large"})
            if not okc:
                continue
            if not ck.check(tuple(X.shape) == bshape + (n, 1) and X.dtype == DT[dn], "chol_backward", regime, entry,
                            "type_or_shape", {"x": list(X.shape)}):
                continue
            Xn = X.double().numpy().reshape(B, n, 1)
            for i in range(B):
                A, b, x = mats[i].astype(LD), rhs[i].astype(LD), Xn[i].astype(LD)
                smax = float(np.linalg.norm(mats[i], 2))
                ck.count("chol_backward", regime, key=(dn, upper, digest(mats[i], rhs[i])))
                ck.mark(f"chol/spd/{dn}/upper={upper}")
                ck.ratio("chol_backward", regime, n2(A @ x - b) if np.isfinite(Xn[i]).all() else np.inf,
                         C_CH * u * (smax * n2(x) + n2(b)) + 64 * tiny, entry, "wrong_solution_for_spd",
                         lambda: {"n": n, "kappa": kaps[i], "upper": upper, "dtype": dn, "x": Xn[i].reshape(-1).tolist(),
                                  "A": mats[i].tolist() if n <= 6 else "large", "b": rhs[i].reshape(-1).tolist()})
    # ---- failure clause
    def must_raise(A_list, tagc, upper, bshape=None):
        n = A_list[0].shape[0]
        B = len(A_list)
        # judged only when "not positive definite" is unambiguous: some matrix of the call has an eigenvalue
        # <= -0.1 |A| (singular PSD matrices, for which a floating-point factorisation may legitimately succeed,
        # are not judged)
        lam = [np.linalg.eigvalsh(a) for a in A_list]
        if not any(l[0] <= -0.1 * max(abs(l[0]), abs(l[-1])) for l in lam):
            ck.note_add("chol_cases_not_judged_not_clearly_indefinite")
            return
        shp = (B,) if (B > 1 or bshape) else ()
        At = tt(np.stack(A_list).reshape(shp + (n, n)), dn)
        bt = tt(rng.standard_normal(shp + (n, 1)), dn)
        regime = f"{dn}/{tagc}/upper={upper}"
        ck.count("chol_must_raise", regime, key=(dn, tagc, upper, digest(At.double().numpy())))
        ck.mark(f"chol/notpd/{dn}/{tagc.split(':')[0]}")
        try:
            X = pps.Cholesky(upper=upper)(At.clone(), bt.clone())
        except Exception:
            return
        res = None
        if isinstance(X, torch.Tensor) and X.shape == bt.shape:
            res = (At.double() @ X.double() - bt.double()).norm().item()
        ck.note_add("chol_non_pd_calls_that_returned")
        if NONPD_WITNESSES[0] >= 6:
            # the witness list of a worker is capped (core.MAX_WITNESSES): keep room for other mechanisms
            ck.n_violations += 1
            return
        NONPD_WITNESSES[0] += 1
        ck.violation("chol_must_raise", regime, entry, "returned_vector_for_non_pd",
                     {"dtype": dn, "lambda_min_over_norm": [float(l[0] / max(abs(l[0]), abs(l[-1]))) for l in lam], "class": tagc, "upper": upper, "A": At.double().tolist() if At.numel() <= 100 else "large",
                      "b": bt.double().reshape(-1).tolist() if bt.numel() <= 40 else "large",
                      "returned": X.double().reshape(-1).tolist()[:40] if isinstance(X, torch.Tensor) else repr(X),
                      "residual_norm": res})

    fsizes = [1, 2, 3, 4, 5, 8, 13, 32, 40] * (5 if thorough else 1)
    for idx, n in enumerate(fsizes):
        if not ck.mine(idx):
            continue
        for upper in (False, True):
            # one eigenvalue <= -0.1 |A| (others positive), all negative, half/half
            for tagc, lam in (("eig:one-negative", np.r_[rng.uniform(0.2, 1.0, n - 1), -rng.uniform(0.1, 1.0)]),
                              ("eig:negative-definite", -rng.uniform(0.2, 1.0, n)),
                              ("eig:half-negative", rng.uniform(0.2, 1.0, n) * np.where(np.arange(n) % 2 == 0, -1, 1))):
                lam = np.asarray(lam) / np.abs(lam).max()
                lam[np.argmin(lam)] = min(lam.min(), -0.1)
                must_raise([make_sym(rng, n, lam, dn, float(rng.choice([1e-3, 1.0, 1e3])))], tagc, upper)
            # SPD matrix whose k-th diagonal entry is replaced by -0.5 |A|  (lambda_min <= min diagonal entry)
            for pos in sorted({0, n // 2, n - 1}):
                A = make_sym(rng, n, spectrum(rng, n, 10.0, "log"), dn)
                A[pos, pos] = -0.5
                must_raise([A], f"diag:negative-at-{'first' if pos == 0 else 'last' if pos == n - 1 else 'middle'}", upper)
            # inside a batch of SPD matrices
            good = [make_sym(rng, n, spectrum(rng, n, 10.0, "log"), dn) for _ in range(3)]
            bad = make_sym(rng, n, np.r_[np.ones(n - 1), -0.5] if n > 1 else np.array([-1.0]), dn)
            for where in (0, 3):
                lst = list(good)
                lst.insert(where, bad)
                must_raise(lst, f"batch:one-indefinite-at-{'first' if where == 0 else 'last'}", upper)
    if ck.mine(0):
        dy = {"F09": [[1.0, 2.0], [2.0, 1.0]], "swap": [[0.0, 1.0], [1.0, 0.0]], "neg1": [[-1.0]],
              "lastneg": [[2.0, 1.0, 1.0], [1.0, 2.0, 1.0], [1.0, 1.0, -1.0]], "firstneg": [[-2.0, 0.0], [0.0, 1.0]],
              "offdiag": [[1.0, 3.0, 0.0], [3.0, 1.0, 0.0], [0.0, 0.0, 4.0]], "zerodiag": [[0.0, 2.0, 0.0], [2.0, 0.0, 0.0], [0.0, 0.0, 1.0]]}
        for name, M in dy.items():
            for upper in (False, True):
                must_raise([np.array(M)], f"dyadic:{name}", upper)


# ---------------------------------------------------------------------------------------
# CG
# ---------------------------------------------------------------------------------------
def sparse_spd(rng, n, kind, dn):
    """Genuinely sparse SPD matrix (symmetric, strictly diagonally dominant), kappa <= 1e3 checked by the caller."""
    A = np.zeros((n, n))
    if kind == "tridiag":
        for i in range(n - 1):
            A[i, i + 1] = A[i + 1, i] = rng.standard_normal()
    elif kind == "block2":
        for i in range(0, n - 1, 2):
            A[i, i + 1] = A[i + 1, i] = rng.standard_normal()
    elif kind == "arrow":
        A[0, 1:] = rng.standard_normal(n - 1)
        A[1:, 0] = A[0, 1:]
    else:
        M = rng.standard_normal((n, n)) * (rng.random((n, n)) < 0.15)
        A = np.triu(M, 1) + np.triu(M, 1).T
    d = np.abs(A).sum(1)
    A = A + np.diag(d * rng.uniform(1.01, 1.5, n) + rng.uniform(0.01, 1.0, n))
    return rnd(A, dn)


def to_layout(At, layout, n, rng):
    if layout == "dense":
        return At
    if layout == "csr":
        return At.to_sparse_csr()
    if layout == "coo":
        return At.to_sparse_coo()
    if layout.startswith("bsr"):
        bs = int(layout[3:])
        return At.to_sparse_bsr((bs, bs))
    raise ValueError(layout)


def drive_cg(ck, rng, dn, thorough):
    u, tiny = u_of(dn), tiny_of(dn)
    entry = "solver.CG"
    sizes = [1, 2, 3, 4, 5, 6, 8, 9, 12, 16, 17, 24, 30, 31, 36, 40]
    reps = 8 if thorough else 1
    case = 0
    for n in sizes:
        for rep in range(reps):
            for akind in ("dense-spectrum", "tridiag", "block2", "arrow", "random-sparse"):
                case += 1
                if not ck.mine(case):
                    continue
                if akind == "dense-spectrum":
                    kap = float(10 ** rng.uniform(0, 3)) if rng.random() < 0.7 else 1e3
                    A = make_sym(rng, n, spectrum(rng, n, kap, ("log", "one-small", "one-large", "random")[int(rng.integers(4))]),
                                 dn, float(rng.choice([1e-2, 1.0, 1e2])))
                else:
                    if n < 2:
                        continue
                    A = sparse_spd(rng, n, akind, dn)
                ev = np.linalg.eigvalsh(A)
                kap = float(ev[-1] / ev[0]) if ev[0] > 0 else np.inf
                if not (kap <= 1.2e3):
                    continue
                smax = float(ev[-1])
                At = tt(A, dn)
                layouts = ["dense", "csr", "coo"] + [f"bsr{bs}" for bs in (1, 2, 3, 4) if n % bs == 0]
                dJ = 1.0 / np.diag(A)
                # SPD approximate inverse with the eigenvectors of A: eigenvalues of M A lie in [0.8, 1.25]
                w_, q_ = np.linalg.eigh(A)
                Minv = (q_ / (w_ * rng.uniform(0.8, 1.25, n))) @ q_.T
                Minv = rnd((Minv + Minv.T) / 2, dn)
                # the preconditioned operator must itself be moderately conditioned (else M is not used)
                evj = np.sort(np.linalg.eigvals(np.diag(dJ) @ A).real)
                jacobi_ok = evj[0] > 0 and evj[-1] / evj[0] <= 1e3
                evm = np.sort(np.linalg.eigvals(Minv @ A).real)
                minv_ok = evm[0] > 0 and evm[-1] / evm[0] <= 1e3 and np.linalg.eigvalsh(Minv)[0] > 0
                for layout in layouts:
                    for mkind in ("none", "jacobi-dense", "jacobi-same-layout", "approx-inverse"):
                        if mkind != "none" and rng.random() < (0.0 if thorough else 0.5):
                            continue
                        if (mkind.startswith("jacobi") and not jacobi_ok) or (mkind == "approx-inverse" and not minv_ok):
                            continue
                        x0kind = ("none", "random", "zero", "near-solution", "sparse-guess", "exact-solution")[int(rng.integers(6))]
                        tol = (1e-5, 1e-5, 1e-3, 1e-8 if dn == "f64" else 1e-4)[int(rng.integers(4))]
                        bscale = float(rng.choice([1e-3, 1.0, 1e3]))
                        b = rnd(rng.standard_normal((n, 1)) * bscale, dn)
                        b1d = bool(rng.random() < 0.3)
                        Aop = to_layout(At, layout, n, rng)
                        if mkind == "none":
                            M = None
                        elif mkind == "jacobi-dense":
                            M = tt(np.diag(dJ), dn)
                        elif mkind == "jacobi-same-layout":
                            M = to_layout(tt(np.diag(dJ), dn), layout, n, rng)
                        else:
                            M = tt(Minv, dn)
                        if x0kind == "none":
                            x0 = None
                        elif x0kind == "random":
                            x0 = tt(rng.standard_normal((n, 1)) * bscale / smax * 3, dn)
                        elif x0kind == "zero":
                            x0 = torch.zeros(n, 1, dtype=DT[dn])
                        elif x0kind == "sparse-guess":
                            # a guess with exact zeros among its entries: a unit vector / a zero-padded solution of a smaller problem
                            g0 = rng.standard_normal((n, 1)) * bscale / smax * 3
                            g0[rng.random((n, 1)) < 0.5] = 0.0
                            if not g0.any():
                                g0[int(rng.integers(n)), 0] = bscale / smax
                            if n > 1:
                                g0[int(rng.integers(n)), 0] = 0.0
                            x0 = tt(g0, dn)
                        else:
                            x0 = tt(np.linalg.solve(A, b) * (1 + 1e-3 * rng.standard_normal((n, 1))), dn)
                        if x0kind == "exact-solution":
                            # a warm start that already solves the system: the right-hand side is A x0 as the operator itself computes
                            # it, so the initial residual is exactly zero
                            g0 = rng.integers(-4, 5, (n, 1)).astype(np.float64)
                            if not g0.any():
                                g0[0, 0] = 1.0
                            x0 = tt(g0 * bscale / smax, dn)
                            with torch.no_grad():
                                b = (Aop @ x0).to_dense().double().numpy().reshape(n, 1) if hasattr(Aop @ x0, "to_dense") else (Aop @ x0).double().numpy().reshape(n, 1)
                        x0_before = None if x0 is None else x0.clone()
                        cfg = "default" if tol == 1e-5 else f"tol={tol:g}"
                        regime = f"{dn}/{layout}/M:{mkind}/x0:{x0kind}/{cfg}"
                        bt = tt(b, dn)
                        barg = bt[:, 0].clone() if b1d else bt.clone()

                        def wit():
                            return {"dtype": dn, "n": n, "layout": layout, "A_kind": akind, "kappa": kap, "cg_tol": tol, "M": mkind,
                                    "x0": x0kind, "b_is_1d": b1d, "b_norm": n2(b), "A": A.tolist() if n <= 6 else "large",
                                    "b": b.reshape(-1).tolist() if n <= 12 else "large",
                                    "x0_values": None if x0 is None or n > 12 else x0_before.double().reshape(-1).tolist()}

                        solver = pps.CG() if tol == 1e-5 else pps.CG(tol=tol)
                        if rng.random() < 0.5:
                            # history (added by the framework owner): one solver object reused across systems of different
                            # sizes, first used on a tiny system - nothing of an earlier solve may influence a later one
                            key_ = (tol, dn)
                            if key_ not in SHARED_CG:
                                SHARED_CG[key_] = solver
                                SHARED_CG[key_](torch.tensor([[2.0, 0.5], [0.5, 1.0]], dtype=DT[dn]), torch.ones(2, 1, dtype=DT[dn]))
                            solver = SHARED_CG[key_]
                            ck.mark("cg/reused-solver-object")
                        okc, X = ck.call("cg_residual", regime, entry, lambda: solver(Aop, barg, x0, M), witness=wit)
                        ck.mark(f"cg/{dn}/{layout[:3]}")
                        ck.mark(f"cg/M:{mkind}")
                        ck.mark(f"cg/x0:{x0kind}")
                        if x0 is not None:
                            ck.count("cg_guess_untouched", regime, key=(dn, layout, digest(A, b)), nontrivial=x0kind != "zero")
                            ck.check(torch.equal(x0, x0_before), "cg_guess_untouched", regime, "solver.CG(A,b,x)",
                                     "initial_guess_modified", wit)
                        if not okc:
                            continue
                        if not ck.check(isinstance(X, torch.Tensor) and tuple(X.shape) == (n, 1) and X.dtype == DT[dn]
                                        and X.layout == torch.strided, "cg_residual", regime, entry, "type_or_shape",
                                        lambda: dict(wit(), x_shape=str(getattr(X, "shape", None)))):
                            continue
                        xn = X.double().numpy()
                        ck.count("cg_residual", regime, key=(dn, layout, mkind, x0kind, tol, digest(A, b)))
                        res = n2(b.astype(LD) - A.astype(LD) @ xn.astype(LD)) if np.isfinite(xn).all() else np.inf
                        nb = n2(b)
                        # round-off the recurrences cannot avoid: x is accumulated on top of the initial guess
                        nxx = max(n2(xn), 0.0 if x0_before is None else n2(x0_before.double().numpy()))
                        bound = tol * nb + C_CG * u * (smax * nxx + nb) + 64 * tiny
                        ck.ratio("cg_residual", regime, res, bound, entry, "residual_exceeds_tol_times_norm_b",
                                 lambda: dict(wit(), x=xn.reshape(-1).tolist() if n <= 12 else "large", residual=res,
                                              tol_times_b=tol * nb))
                        ck.note_max("max_cg_residual_over_tol_b", res / (tol * nb))
                        # what the round-off allowance has to cover, in units of u (|A||x| + |b|)   (calibration of C_CG)
                        ck.note_max(f"max_cg_excess_over_u_scale/{dn}", (res - tol * nb) / (u * (smax * nxx + nb)))
                    # b = 0
                    x0 = None if rng.random() < 0.5 else tt(rng.standard_normal((n, 1)), dn)
                    x0b = None if x0 is None else x0.clone()
                    M = None if rng.random() < 0.5 else tt(np.diag(dJ), dn)
                    regime = f"{dn}/{layout}/x0:{'none' if x0 is None else 'random'}"
                    okc, X = ck.call("cg_zero_rhs", regime, entry,
                                     lambda: pps.CG()(to_layout(At, layout, n, rng), torch.zeros(n, 1, dtype=DT[dn]), x0, M),
                                     witness={"n": n, "layout": layout})
                    if okc:
                        ck.count("cg_zero_rhs", regime, key=(dn, layout, n, digest(A)), nontrivial=True)
                        ck.check(isinstance(X, torch.Tensor) and tuple(X.shape) == (n, 1) and bool((X == 0).all()),
                                 "cg_zero_rhs", regime, entry, "nonzero_solution_for_zero_rhs",
                                 lambda: {"n": n, "layout": layout, "x": X.double().reshape(-1).tolist() if isinstance(X, torch.Tensor) else repr(X)})
                        if x0 is not None:
                            ck.check(torch.equal(x0, x0b), "cg_guess_untouched", regime, "solver.CG(A,b,x)",
                                     "initial_guess_modified", {"n": n, "layout": layout, "b": "zero"})


# ---------------------------------------------------------------------------------------
# sparse products
# ---------------------------------------------------------------------------------------
LAYOUTS = ("bsr", "bsc", "csr", "csc")


def build_sparse(layout, pat, bh, bw, dense, dn):
    """pat: bool (sr, sc) block pattern (stored blocks, possibly holding zeros); dense: (sr*bh, sc*bw) values (zero
    outside the pattern)."""
    sr, sc = pat.shape
    m, n = sr * bh, sc * bw
    dt = DT[dn]
    it = torch.int64
    if layout == "bsr":
        rows, cols = np.nonzero(pat)
        crow = np.concatenate([[0], np.cumsum(pat.sum(1))])
        vals = np.stack([dense[i * bh:(i + 1) * bh, j * bw:(j + 1) * bw] for i, j in zip(rows, cols)]) if len(rows) else np.zeros((0, bh, bw))
        return torch.sparse_bsr_tensor(torch.tensor(crow, dtype=it), torch.tensor(cols, dtype=it), tt(vals, dn).reshape(-1, bh, bw),
                                       size=(m, n), dtype=dt)
    if layout == "bsc":
        cols, rows = np.nonzero(pat.T)
        ccol = np.concatenate([[0], np.cumsum(pat.sum(0))])
        vals = np.stack([dense[i * bh:(i + 1) * bh, j * bw:(j + 1) * bw] for i, j in zip(rows, cols)]) if len(rows) else np.zeros((0, bh, bw))
        return torch.sparse_bsc_tensor(torch.tensor(ccol, dtype=it), torch.tensor(rows, dtype=it), tt(vals, dn).reshape(-1, bh, bw),
                                       size=(m, n), dtype=dt)
    ep = np.kron(pat, np.ones((bh, bw), dtype=bool)).astype(bool)
    if layout == "csr":
        rows, cols = np.nonzero(ep)
        crow = np.concatenate([[0], np.cumsum(ep.sum(1))])
        return torch.sparse_csr_tensor(torch.tensor(crow, dtype=it), torch.tensor(cols, dtype=it), tt(dense[rows, cols], dn).reshape(-1),
                                       size=(m, n), dtype=dt)
    if layout == "csc":
        cols, rows = np.nonzero(ep.T)
        ccol = np.concatenate([[0], np.cumsum(ep.sum(0))])
        return torch.sparse_csc_tensor(torch.tensor(ccol, dtype=it), torch.tensor(rows, dtype=it), tt(dense[rows, cols], dn).reshape(-1),
                                       size=(m, n), dtype=dt)
    raise ValueError(layout)


def fill(rng, pat, bh, bw, dn, style):
    sr, sc = pat.shape
    if style == "int":
        v = rng.integers(-3, 4, (sr * bh, sc * bw)).astype(np.float64)
    else:
        v = rng.standard_normal((sr * bh, sc * bw)) * 10.0 ** rng.integers(-2, 3)
        v[rng.random(v.shape) < 0.1] = 0.0
    v = v * np.kron(pat, np.ones((bh, bw)))
    if pat.any() and rng.random() < 0.3:       # one stored block that holds only zeros
        i, j = [a[0] for a in np.nonzero(pat)]
        v[i * bh:(i + 1) * bh, j * bw:(j + 1) * bw] = 0.0
    return rnd(v, dn)


def subsets(k):
    return [np.array([(s >> i) & 1 for i in range(k)], dtype=bool) for s in range(2 ** k)]


def product_case(ck, rng, dn, patA, patB, dm, dn_, dp, tagp, pairs, style):
    """patA (sm,sn), patB (sn,sp) block patterns; block sizes (dm,dn_), (dn_,dp)."""
    u, tiny = u_of(dn), tiny_of(dn)
    A = fill(rng, patA, dm, dn_, dn, style)
    B = fill(rng, patB, dn_, dp, dn, style)
    ref = A.astype(LD) @ B.astype(LD)
    scale = np.asarray(np.abs(A).astype(LD) @ np.abs(B).astype(LD), dtype=np.float64)
    trivial = not (patA.any() and patB.any())
    for la, lb in pairs:
        pair = f"{la}x{lb}"
        entry = "sparse._sparse_csr_mm" if la != "direct" else "sparse.bsr_bsc_matmul"
        fn = spops._sparse_csr_mm
        if la == "direct":
            la, lb, fn, pair = "bsr", "bsc", spops.bsr_bsc_matmul, "bsr_bsc_matmul(bsr,bsc)"
        regime = f"{pair}/{dn}/{tagp}/b{dm}x{dn_}x{dp}"
        a = build_sparse(la, patA, dm, dn_, A, dn)
        b = build_sparse(lb, patB, dn_, dp, B, dn)
        ck.mark(f"sparse/pair/{pair}")

        def wit():
            return {"pair": pair, "dtype": dn, "block_sizes": [dm, dn_, dp], "pattern": tagp, "patA": patA.astype(int).tolist(),
                    "patB": patB.astype(int).tolist(), "A": A.tolist() if A.size <= 64 else "large",
                    "B": B.tolist() if B.size <= 64 else "large"}

        must_return = (la, lb) == ("bsr", "bsc")
        try:
            Y = fn(a, b)
        except Exception as e:  # noqa
            if must_return:
                import traceback
                ck.violation("sparse_product", regime, entry, "raised:" + type(e).__name__,
                             dict(wit(), exception=repr(e)[:300], traceback=traceback.format_exc(limit=-4)[-1200:]))
            else:
                ck.note_add(f"sparse_pair_raised/{pair}")
                RAISED.add(pair)
            continue
        ck.note_add(f"sparse_pair_returned/{pair}")
        RETURNED.add(pair)
        ck.count("sparse_product", regime, key=(pair, dn, digest(A, B, patA, patB)), nontrivial=not trivial)
        ok = isinstance(Y, torch.Tensor) and tuple(Y.shape) == ref.shape
        if not ck.check(ok, "sparse_product", regime, entry, "type_or_shape",
                        lambda: dict(wit(), out=str(getattr(Y, "shape", None)))):
            continue
        okd, Yd = ck.call("sparse_product", regime, entry, lambda: Y.to_dense() if Y.layout != torch.strided else Y, witness=wit)
        if not okd:
            continue
        got = Yd.double().numpy()
        err = np.abs(got.astype(LD) - ref).astype(np.float64)
        err = np.where(np.isfinite(got), err, np.inf)
        ck.ratios("sparse_product", regime, err.reshape(-1), (C_SP * u * scale + 8 * tiny).reshape(-1), entry, "wrong_product",
                  lambda i: dict(wit(), index=[int(i // ref.shape[1]), int(i % ref.shape[1])], got=float(got.reshape(-1)[i]),
                                 expected=float(ref.reshape(-1)[i])))


RAISED, RETURNED = set(), set()


def drive_sparse(ck, rng, dn, thorough):
    allpairs = [(a, b) for a in LAYOUTS for b in LAYOUTS]
    core = [("bsr", "bsc"), ("direct", "direct")]
    case = 0
    # (1) every pair of index subsets of {0..k-1} as (row of A, column of B)
    for k in ((1, 2, 3, 4, 5) if thorough else (1, 2, 3, 4)):
        S = subsets(k)
        patA = np.stack(S)                    # (2^k, k): row i of A has the index set S[i]
        patB = np.stack(S).T                  # (k, 2^k)
        for (dm, dq, dp) in ((1, 1, 1), (2, 2, 2), (1, 3, 2), (4, 1, 3), (3, 4, 1), (2, 3, 4)):
            case += 1
            if not ck.mine(case):
                continue
            perm_r, perm_c = rng.permutation(len(S)), rng.permutation(len(S))
            pairs = allpairs + core if (dm, dq, dp) in ((1, 1, 1), (2, 2, 2), (2, 3, 4)) else core
            product_case(ck, rng, dn, patA[perm_r], patB[:, perm_c], dm, dq, dp, f"all-subset-pairs/k{k}", pairs,
                         "int" if rng.random() < 0.4 else "normal")
            ck.mark(f"sparse/exhaustive-subset-pairs/k{k}")
    # (2) random densities, all layout pairs, block sizes 1..4
    dens = (0.0, 0.1, 0.5, 1.0)
    nrep = 24 if thorough else 2
    for dA in dens:
        for dB in dens:
            for rep in range(nrep):
                case += 1
                if not ck.mine(case):
                    continue
                sm, sn, sp = (int(v) for v in rng.integers(1, 7, 3))
                dm, dq, dp = (int(v) for v in rng.integers(1, 5, 3))
                patA, patB = rng.random((sm, sn)) < dA, rng.random((sn, sp)) < dB
                if dA == 1.0:
                    patA[:] = True
                if dB == 1.0:
                    patB[:] = True
                if rng.random() < 0.4 and sm > 1:
                    patA[rng.integers(sm)] = False           # empty row
                if rng.random() < 0.4 and sp > 1:
                    patB[:, rng.integers(sp)] = False        # empty column
                if rng.random() < 0.3 and sn > 1:
                    patA[:, rng.integers(sn)] = False        # empty column of A / row of B
                    patB[rng.integers(sn)] = False
                product_case(ck, rng, dn, patA, patB, dm, dq, dp, f"density{dA:g}x{dB:g}", allpairs + core,
                             "int" if rng.random() < 0.3 else "normal")
                ck.mark(f"sparse/density/{dA:g}x{dB:g}")
                ck.mark(f"sparse/block/{dm}")
                ck.mark(f"sparse/block/{dq}")
                ck.mark(f"sparse/block/{dp}")
    # (2b) square operands with equal block sizes (where a transposed / mis-read operand still has a valid shape)
    for d in dens:
        for rep in range(nrep):
            case += 1
            if not ck.mine(case):
                continue
            sq, bs = int(rng.integers(1, 6)), int(rng.integers(1, 5))
            patA, patB = rng.random((sq, sq)) < max(d, 0.05), rng.random((sq, sq)) < max(d, 0.05)
            if d == 0.0:
                patA[:], patB[:] = False, False
                patA[rng.integers(sq), rng.integers(sq)] = True
                patB[rng.integers(sq), rng.integers(sq)] = True
            product_case(ck, rng, dn, patA, patB, bs, bs, bs, f"square/density{d:g}", allpairs + core,
                         "int" if rng.random() < 0.3 else "normal")
            ck.mark("sparse/square-operands")
    # (3) targeted merge-join patterns on long rows
    for sn in ((8, 12, 19) if thorough else (8, 12)):
        idx = np.arange(sn)
        sets = {"even": idx % 2 == 0, "odd": idx % 2 == 1, "first": idx == 0, "last": idx == sn - 1, "low": idx < sn // 2,
                "high": idx >= sn // 2, "all": idx >= 0, "none": idx < 0, "low+last": (idx < sn // 2) | (idx == sn - 1),
                "first+high": (idx == 0) | (idx >= sn // 2), "mid": idx == sn // 2, "all-but-first": idx > 0,
                "all-but-last": idx < sn - 1, "every3": idx % 3 == 0, "every3+1": idx % 3 == 1}
        names = list(sets)
        patA = np.stack([sets[k] for k in names])
        patB = np.stack([sets[k] for k in names]).T
        for (dm, dq, dp) in ((1, 1, 1), (2, 1, 2), (3, 2, 1), (1, 4, 4)):
            case += 1
            if not ck.mine(case):
                continue
            product_case(ck, rng, dn, patA, patB, dm, dq, dp, f"merge-join/sn{sn}", core + [("csr", "csc"), ("csc", "csr")],
                         "int" if rng.random() < 0.4 else "normal")
            ck.mark("sparse/merge-join-targeted")


# ---------------------------------------------------------------------------------------
def run(ck):
    if ck.shard == 0:
        # repeat-call monitor (shared, added by the framework owner): history / reused-object / memory-layout independence
        from .. import repeat
        repeat.run(ck, PID, repeat.table(PID, ck.rng("repeat")))
    thorough = ck.tier == "thorough"
    for dn in ("f64", "f32"):
        drive_ls(ck, ck.rng(f"ls/{dn}"), dn, thorough)
        drive_cholesky(ck, ck.rng(f"chol/{dn}"), dn, thorough)
        drive_cg(ck, ck.rng(f"cg/{dn}"), dn, thorough)
        drive_sparse(ck, ck.rng(f"sp/{dn}"), dn, thorough)
        for sname in ("PINV", "LSTSQ"):
            for c in ("full", "coldef", "rowdef", "both", "zero"):
                ck.require(f"ls/{sname}/{dn}/{c}")
        for upper in (False, True):
            ck.require(f"chol/spd/{dn}/upper={upper}")
        for c in ("eig", "diag", "batch", "dyadic"):
            ck.require(f"chol/notpd/{dn}/{c}")
        for lay in ("den", "csr", "coo", "bsr"):
            ck.require(f"cg/{dn}/{lay}")
    ck.require("cg/reused-solver-object")
    ck.note("sparse_pairs_that_raised", sorted(RAISED))
    ck.note("sparse_pairs_that_returned", sorted(RETURNED))
    for sname in ("PINV", "LSTSQ"):
        for c in ("tall", "wide", "square"):
            ck.require(f"ls/{sname}/{c}")
    for r in (0, 1, 2):
        ck.require(f"ls/batch-rank{r}")
    for mk in ("none", "jacobi-dense", "jacobi-same-layout", "approx-inverse"):
        ck.require(f"cg/M:{mk}")
    ck.require("ls/square-tiny-entries")
    for xk in ("none", "random", "zero", "near-solution", "sparse-guess", "exact-solution"):
        ck.require(f"cg/x0:{xk}")
    for a in LAYOUTS:
        for b in LAYOUTS:
            ck.require(f"sparse/pair/{a}x{b}")
    ck.require("sparse/pair/bsr_bsc_matmul(bsr,bsc)", "sparse/merge-join-targeted", "sparse/square-operands")
    for k in (1, 2, 3, 4):
        ck.require(f"sparse/exhaustive-subset-pairs/k{k}")
    for d in (1, 2, 3, 4):
        ck.require(f"sparse/block/{d}")
    for dA in ("0", "0.1", "0.5", "1"):
        for dB in ("0", "0.1", "0.5", "1"):
            ck.require(f"sparse/density/{dA}x{dB}")
    ck.floor("ls_optimal", 300)
    ck.floor("min_norm", 80)
    ck.floor("chol_backward", 40)
    ck.floor("chol_must_raise", 100)
    ck.floor("cg_residual", 150)
    ck.floor("cg_zero_rhs", 40)
    ck.floor("cg_guess_untouched", 50)
    ck.floor("sparse_product", 150)
