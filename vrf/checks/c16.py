"""C16 — IMU preintegration equals the documented recursion and is chunking-invariant.

Monitors (all on the dict returned by IMUPreintegrator.__call__):

* recursion   every output frame of a single call equals the sequential recursion
                  dR <- dR Exp(w dt),  dv <- dv + dR a dt,  dp <- dp + dv dt + 1/2 dR a dt^2
              (pre-step dR in the dv/dp updates) composed with the initial state,
                  R = R_i dR,  v = v_i + R_i dv,  p = p_i + R_i dp + v_i Dt,
              evaluated in longdouble 3x3 matrices with Exp = lie_ref.exp_matrix (no case
              split).  a_k = acc_k - Rot_k^T g, with Rot_k the supplied rotation of frame k or,
              when none is supplied, the integrated rotation the module reports for frame k
              (R_i dR after the step): the reading under which "supplied" and "integrated"
              are interchangeable frame by frame.
* chunking    the same stream fed in consecutive chunks (reset=False, fresh module) gives
              the states of the single call, for every tested composition of F.
* ranks       (H) / (F,H) / (B,F,H) inputs describe the same computation; a batch row equals
              the stream integrated alone.
* init_state / reset_true   a call with an explicit init_state, and the second call of a
              reset=True module, start from the documented initial state.
* cov         every returned 9x9 covariance is symmetric positive semidefinite (it is not
              chunk-invariant and nobody asks that here).
"""
import itertools

import numpy as np
import torch
import pypose as pp

from .. import lie
from ..oracles import lie_ref as LR

PID = "C16"
LEVEL = "exploration"
SHARDS = {"quick": 4, "thorough": 16}
TIMEOUT = {"quick": 1200, "thorough": 5400}
RULE = ("Cells = dtype {f32,f64} x rotation {known, integrated} x gravity {0, 9.81007}; for every cell and EVERY "
        "frame count F (thorough 1..200; quick every F <= 64 plus 65,96,100,127,128,129,150,199,200 and 3 random "
        "per shard) one stream (thorough: two) with batch size B cycling 1..4, initial state cycling "
        "{constructor default, shared (H), per-batch (B,1,H)} with random non-identity rotation, dt drawn from "
        "{constant log-uniform in [1e-4,1], per-frame log-uniform, all 1e-4, all 1, mixed 1e-4/1}, gyro ~ N(0, "
        "{0.1,1,3}^2) rad/s and acc ~ N(0,9)+offset with some exactly-zero frames, random noise covariances in a "
        "third of the streams. Chunkings: ALL 2^(F-1) compositions of F for F <= 8 (quick: all eight cells for F <= 6, "
        "four alternating cells for F = 7, 8), otherwise [1,F-1] and [F-1,1] (quick: one of them), halves, all-ones "
        "(quick F <= 12 or F in {33,64}; thorough F <= 32 or F % 8 == 0) and 2 (thorough 4) random compositions "
        "(1, 2, 3, sqrt(F) [thorough also F/4] random cut points). Rank paths: (F,H) for B=1 streams, (H) for F=1 and frame-by-frame feeding, each batch row "
        "alone. One case = one (stream, call history); distinct = distinct input bit patterns x history; "
        "trivial = none (every stream has non-zero motion).")
ASSUME = ["reference recursion in numpy longdouble with lie_ref.exp_matrix/quat_R; the gravity vector is "
          "[0,0,float32(g)] (the module's buffer is checked to hold exactly that)",
          "R_j = R_i dR_ij (the code's order; the docstring writes dR_ij * R_i, which contradicts the chunking "
          "clause of the same property for every non-commuting stream, so it is read as a typo)",
          "without a supplied rotation, gravity is removed with the integrated rotation the module reports for "
          "the same frame (R_i dR after the step)",
          "tolerances C*u*k*scale_k with k the frame index, C = 32; scale_k = 1+max|w dt| (rotation matrix "
          "entries), |v_i| + sum (|acc|+|g|) dt (velocity), |p_i| + |v_i| t_k + sum_j vscale_j dt_j (position)",
          "covariance: max|C - C^T| <= 64 u max|C| and lambda_min(sym C) >= -64 u lambda_max",
          "per-batch initial states use the (B,1,H) layout in which the module stores its own state; CPU only"]

C_STATE = 32.0
C_COV = 64.0
G_STD = 9.81007
LD = LR.LD


# ---------------------------------------------------------------------------- reference
def imu_ref(dt, gyro, acc, g, p0, R0, v0, rot=None):
    """dt (B,F,1), gyro/acc (B,F,3), g (3,), p0/v0 (B,3), R0 (B,3,3), rot (B,F,3,3) | None."""
    dt, gyro, acc, g = LR.ld(dt), LR.ld(gyro), LR.ld(acc), LR.ld(g)
    p0, v0, R0 = LR.ld(p0), LR.ld(v0), LR.ld(R0)
    B, F = dt.shape[:2]
    E = LR.exp_matrix("so3", gyro * dt)[..., :3, :3]
    ang = np.sqrt(((gyro * dt) ** 2).sum(-1))
    gn = np.sqrt((g * g).sum())
    dR = np.broadcast_to(np.eye(3, dtype=LD), (B, 3, 3)).copy()
    dv, dp, T = np.zeros((B, 3), LD), np.zeros((B, 3), LD), np.zeros((B, 1), LD)
    Ro, vo, po = np.empty((B, F, 3, 3), LD), np.empty((B, F, 3), LD), np.empty((B, F, 3), LD)
    rs, vs, ps = np.empty((B, F)), np.empty((B, F)), np.empty((B, F))
    vsum, psum, amax = np.zeros(B, LD), np.zeros(B, LD), np.zeros(B, LD)
    nv0, np0 = np.sqrt((v0 * v0).sum(-1)), np.sqrt((p0 * p0).sum(-1))
    for k in range(F):
        h = dt[:, k]
        dRn = np.matmul(dR, E[:, k])
        Rg = rot[:, k] if rot is not None else np.matmul(R0, dRn)
        a = acc[:, k] - np.einsum("bji,j->bi", Rg, g)
        Ra = np.einsum("bij,bj->bi", dR, a)
        dp = dp + dv * h + LD(0.5) * Ra * h * h
        dv = dv + Ra * h
        dR, T = dRn, T + h
        Ro[:, k] = np.matmul(R0, dR)
        vo[:, k] = v0 + np.einsum("bij,bj->bi", R0, dv)
        po[:, k] = p0 + np.einsum("bij,bj->bi", R0, dp) + v0 * T
        vsum = vsum + (np.sqrt((acc[:, k] ** 2).sum(-1)) + gn) * h[:, 0]
        psum = psum + vsum * h[:, 0]
        amax = np.maximum(amax, ang[:, k])
        rs[:, k] = 1 + amax
        vs[:, k] = nv0 + vsum
        ps[:, k] = np0 + nv0 * T[:, 0] + psum
    return {"R": Ro, "v": vo, "p": po, "rs": rs, "vs": vs, "ps": ps}


# ---------------------------------------------------------------------------- streams
class Stream:
    pass


DT_KINDS = ("const", "varying", "lo", "hi", "mixed")
INIT_KINDS = ("default", "shared", "batch")


def make_stream(rng, dn, known, grav, F, B, init_kind, dt_kind, cid):
    s = Stream()
    s.dn, s.known, s.grav, s.F, s.B, s.init_kind, s.dt_kind, s.cid = dn, known, grav, F, B, init_kind, dt_kind, cid
    dtype = s.dtype = lie.DT[dn]
    if dt_kind == "const":
        dt = np.full((B, F, 1), 10.0 ** rng.uniform(-4, 0))
    elif dt_kind == "varying":
        dt = 10.0 ** rng.uniform(-4, 0, (B, F, 1))
    elif dt_kind == "lo":
        dt = np.full((B, F, 1), 1e-4)
    elif dt_kind == "hi":
        dt = np.full((B, F, 1), 1.0)
    else:
        dt = np.where(rng.random((B, F, 1)) < 0.5, 1e-4, 1.0)
    gs = float(rng.choice([0.1, 1.0, 3.0]))
    gyro = rng.standard_normal((B, F, 3)) * gs
    off = rng.standard_normal(3)
    off = off / np.linalg.norm(off) * (G_STD if rng.random() < 0.7 else 0.0)
    acc = rng.standard_normal((B, F, 3)) * 3.0 + off
    if F >= 3:
        gyro[:, int(rng.integers(0, F))] = 0.0          # exact zero rate: Exp(0)
        acc[:, int(rng.integers(0, F))] = 0.0
    s.dt, s.gyro, s.acc = [torch.as_tensor(x).to(dtype) for x in (dt, gyro, acc)]
    s.rot = lie.random_group("SO3", rng, B * F, dtype).tensor().reshape(B, F, 4) if known else None
    if s.rot is not None:
        s.rot = lie.lt("SO3", s.rot, dtype)
    nb = {"default": 0, "shared": 1, "batch": B}[init_kind]
    if nb:
        s.p0 = torch.as_tensor(rng.standard_normal((nb, 1, 3)) * 5.0).to(dtype)
        s.v0 = torch.as_tensor(rng.standard_normal((nb, 1, 3)) * 2.0).to(dtype)
        s.R0 = lie.lt("SO3", lie.random_group("SO3", rng, nb, dtype).tensor().reshape(nb, 1, 4), dtype)
    else:
        s.p0 = s.v0 = s.R0 = None
    s.covs = None
    r_ = rng.random()
    if r_ < 0.25:
        s.covs = (float(10.0 ** rng.uniform(-8, -1)), float(10.0 ** rng.uniform(-8, -1)))
    elif r_ < 0.6:
        # the documented three-element form: different covariance on the three axes (one axis may be noise-free)
        g_ = 10.0 ** rng.uniform(-6, -1, 3)
        a_ = 10.0 ** rng.uniform(-6, -1, 3)
        if rng.random() < 0.4:
            g_[int(rng.integers(3))] = 0.0
        s.covs = (torch.as_tensor(g_).to(dtype), torch.as_tensor(a_).to(dtype))
        s.per_axis_cov = True
    return s


def build(s, reset=False, with_init=True, row=None):
    """Fresh module for stream s (row: the module for batch row `row` alone)."""
    kw = {"gravity": float(s.grav), "reset": reset}
    if s.covs is not None:
        kw["gyro_cov"], kw["acc_cov"] = [c.clone() if isinstance(c, torch.Tensor) else c for c in s.covs]
    if with_init and s.init_kind == "shared":
        kw.update(pos=s.p0[0, 0].clone(), rot=lie.lt("SO3", s.R0.tensor()[0, 0].clone(), s.dtype), vel=s.v0[0, 0].clone())
    elif with_init and s.init_kind == "batch":
        if row is None:
            kw.update(pos=s.p0.clone(), rot=lie.lt("SO3", s.R0.tensor().clone(), s.dtype), vel=s.v0.clone())
        else:
            kw.update(pos=s.p0[row].clone(), rot=lie.lt("SO3", s.R0.tensor()[row].clone(), s.dtype), vel=s.v0[row].clone())
    return pp.module.IMUPreintegrator(**kw).to(s.dtype)


def init_arrays(s, B):
    if s.p0 is None:
        return np.zeros((B, 3)), np.broadcast_to(np.eye(3), (B, 3, 3)).copy(), np.zeros((B, 3))
    p0 = np.broadcast_to(s.p0[:, 0].double().numpy(), (B, 3))
    v0 = np.broadcast_to(s.v0[:, 0].double().numpy(), (B, 3))
    R0 = np.broadcast_to(LR.quat_R(s.R0.tensor()[:, 0].double().numpy()), (B, 3, 3))
    return p0, R0, v0


def reference(s, rows=None):
    g = np.array([0.0, 0.0, float(np.float32(s.grav))])
    sel = slice(None) if rows is None else rows
    dt, gy, ac = s.dt[sel].double().numpy(), s.gyro[sel].double().numpy(), s.acc[sel].double().numpy()
    rot = LR.quat_R(s.rot.tensor()[sel].double().numpy()) if s.known else None
    p0, R0, v0 = init_arrays(s, s.B)
    return imu_ref(dt, gy, ac, g, p0[sel], R0[sel], v0[sel], rot)


def call_args(s, a=0, b=None, row=None, squeeze=0):
    """Inputs of frames [a,b) (optionally one batch row, optionally without leading dims)."""
    b = s.F if b is None else b
    rs = slice(None) if row is None else slice(row, row + 1)
    dt, gy, ac = s.dt[rs, a:b], s.gyro[rs, a:b], s.acc[rs, a:b]
    rot = s.rot.tensor()[rs, a:b] if s.known else None
    for _ in range(squeeze):
        dt, gy, ac = dt[0], gy[0], ac[0]
        rot = rot[0] if rot is not None else None
    kw = {}
    if rot is not None:
        kw["rot"] = lie.lt("SO3", rot.clone(), s.dtype)
    return (dt.clone(), gy.clone(), ac.clone()), kw


def regime_of(s):
    f1 = s.F + 1
    fc = "F=1" if s.F == 1 else "F<=8" if s.F <= 8 else "F+1=pow2" if f1 & (f1 - 1) == 0 else "F<=64" if s.F <= 64 else "F>64"
    return f"{s.dn}/{'rot' if s.known else 'norot'}/g{'0' if s.grav == 0 else '9.81'}/{fc}/{s.init_kind}"


def wit_of(s, extra=None):
    w = {"case": s.cid, "dtype": s.dn, "known_rot": s.known, "gravity": s.grav, "F": s.F, "B": s.B,
         "init": s.init_kind, "dt_kind": s.dt_kind, "noise_cov": [c.tolist() if isinstance(c, torch.Tensor) else c for c in s.covs] if s.covs else None}
    if s.F * s.B <= 12:
        w.update(dt=s.dt.double().tolist(), gyro=s.gyro.double().tolist(), acc=s.acc.double().tolist(),
                 rot=s.rot.tensor().double().tolist() if s.known else None,
                 p0=None if s.p0 is None else s.p0.double().tolist(),
                 R0=None if s.R0 is None else s.R0.tensor().double().tolist(),
                 v0=None if s.v0 is None else s.v0.double().tolist())
    if extra:
        w.update(extra)
    return w


def shapes_ok(ck, monitor, regime, s, out, B, F):
    ok = (isinstance(out, dict) and all(k in out for k in ("rot", "vel", "pos", "cov"))
          and isinstance(out["rot"], pp.LieTensor) and out["rot"].ltype is pp.SO3_type
          and tuple(out["rot"].shape) == (B, F, 4) and tuple(out["vel"].shape) == (B, F, 3)
          and tuple(out["pos"].shape) == (B, F, 3) and tuple(out["cov"].shape) == (B, 9, 9)
          and all(out[k].dtype == s.dtype for k in ("rot", "vel", "pos", "cov")))
    if not ok:
        ck.check(False, monitor, regime, "IMUPreintegrator.forward", "type_or_shape",
                 wit_of(s, {"expected_BF": [B, F], "got": {k: list(getattr(v, "shape", [])) for k, v in out.items()}
                            if isinstance(out, dict) else str(type(out))}))
    return ok


def as_np(out):
    return {"R": LR.quat_R(out["rot"].tensor().detach().double().numpy()),
            "v": out["vel"].detach().double().numpy(), "p": out["pos"].detach().double().numpy()}


def judge(ck, monitor, regime, s, got, want, ref, tag, extra=None):
    """got/want: dicts R (B,F,3,3), v, p (B,F,3); tolerances from ref scales (same rows)."""
    u = lie.u_of(s.dtype)
    F = got["v"].shape[1]
    k = np.arange(1, F + 1, dtype=np.float64)[None, :]
    tiny = 1e3 * lie.tiny_of(s.dtype)
    eR = np.abs(got["R"] - want["R"]).max((-1, -2)).astype(np.float64)
    ev = np.sqrt(((got["v"] - want["v"]) ** 2).sum(-1)).astype(np.float64)
    ep = np.sqrt(((got["p"] - want["p"]) ** 2).sum(-1)).astype(np.float64)
    ok = True
    for name, e, sc in (("rotation", eR, ref["rs"]), ("velocity", ev, ref["vs"]), ("position", ep, ref["ps"])):
        tol = C_STATE * u * k * sc + tiny

        def wit(i, _e=e, _n=name):
            b, f = divmod(i, F)
            key = {"rotation": "R", "velocity": "v", "position": "p"}[_n]
            return wit_of(s, dict(extra or {}, batch_row=b, frame=f, quantity=_n,
                                  got=np.asarray(got[key][b, f], dtype=np.float64).tolist(),
                                  expected=np.asarray(want[key][b, f], dtype=np.float64).tolist()))

        ok &= ck.ratios(f"{monitor}.{name[:3]}", regime, e.reshape(-1), tol.reshape(-1), "IMUPreintegrator.forward",
                        f"{name}_{tag}", wit)
        ck.monitors[f"{monitor}.{name[:3]}"]["calls"] += int(e.size)
    return ok


def judge_cov(ck, s, regime, out, extra=None):
    C = out["cov"].detach().double().numpy()
    u = lie.u_of(s.dtype)
    if not np.all(np.isfinite(C)):
        ck.check(False, "cov", regime, "IMUPreintegrator.forward", "covariance_not_finite", wit_of(s, extra))
        return
    mx = np.abs(C).max((-1, -2))
    asym = np.abs(C - np.swapaxes(C, -1, -2)).max((-1, -2))
    w = np.linalg.eigvalsh((C + np.swapaxes(C, -1, -2)) / 2)
    lmax = np.maximum(w.max(-1), 0)
    tiny = 1e3 * lie.tiny_of(s.dtype)
    ck.count("cov", regime, n=C.shape[0], key=(s.cid, repr(extra)))
    ck.ratios("cov", regime, asym, C_COV * u * mx + tiny, "IMUPreintegrator.forward", "covariance_not_symmetric",
              lambda i: wit_of(s, dict(extra or {}, batch_row=i, asym=float(asym[i]), max_entry=float(mx[i]))))
    ck.ratios("cov.psd", regime, np.maximum(-w.min(-1), 0), C_COV * u * lmax + tiny, "IMUPreintegrator.forward",
              "covariance_not_psd",
              lambda i: wit_of(s, dict(extra or {}, batch_row=i, lambda_min=float(w[i].min()), lambda_max=float(w[i].max()))))
    ck.monitors["cov.psd"]["calls"] += C.shape[0]


def bad_optional(s, kind):
    """An unusable optional argument: the call is rejected (raises) and has therefore not been fed."""
    if kind == "acc_cov:dtype":
        return {"acc_cov": torch.full((1, 1, 3), 1e-3, dtype=torch.float32 if s.dtype == torch.float64 else torch.float64)}
    if kind == "gyro_cov:shape":
        return {"gyro_cov": torch.full((1, 1, 2), 1e-3, dtype=s.dtype)}
    return {"init_state": {"pos": torch.zeros(1, 1, 3, dtype=s.dtype)}}       # incomplete init_state (no rot/vel)


REJECT_KINDS = ("acc_cov:dtype", "gyro_cov:shape", "init_state:incomplete")


def run_history(ck, monitor, regime, s, comp, row=None, squeeze=0, mod=None, extra=None, reject=None):
    """Feed the stream in the chunks of `comp` to one fresh module; -> concatenated outputs or None.
    reject=(chunk index, kind): that chunk is first offered with an unusable optional argument; when the module
    rejects it (raises) the same chunk is then fed correctly."""
    m = build(s, row=row) if mod is None else mod
    parts, kept, a = [], [], 0
    B = s.B if row is None else 1
    for ci, n in enumerate(comp):
        args, kw = call_args(s, a, a + n, row=row, squeeze=squeeze)
        if reject is not None and reject[0] == ci:
            try:
                m(*args, **dict(kw, **bad_optional(s, reject[1])))
                ck.mark("rejected-call/accepted:" + reject[1])
                return None                      # the module accepted it: nothing to judge for this scenario
            except Exception:
                ck.mark("rejected-call/raised:" + reject[1])
        okc, out = ck.call(monitor, regime, "IMUPreintegrator.forward", m, *args,
                           witness=wit_of(s, dict(extra or {}, composition=list(comp), chunk_start=a, chunk_len=n)), **kw)
        if not okc:
            return None
        if not shapes_ok(ck, monitor, regime, s, out, B, n):
            return None
        judge_cov(ck, s, regime, out, dict(extra or {}, composition=list(comp), chunk_start=a))
        parts.append(out)
        kept.append({k_: (v_.tensor() if isinstance(v_, pp.LieTensor) else v_).detach().clone() for k_, v_ in out.items() if v_ is not None})
        a += n
    # what earlier chunks returned is the caller's: feeding later chunks must not have changed it
    for ci, (out_, kept_) in enumerate(zip(parts, kept)):
        same = all(torch.equal((out_[k_].tensor() if isinstance(out_[k_], pp.LieTensor) else out_[k_]).detach(), v_) for k_, v_ in kept_.items())
        ck.check(same, monitor, regime, "IMUPreintegrator.forward", "earlier_output_changed_by_a_later_call",
                 lambda: wit_of(s, dict(extra or {}, composition=list(comp), chunk=ci)))
    return {"rot": lie.lt("SO3", torch.cat([p["rot"].tensor() for p in parts], 1), s.dtype),
            "vel": torch.cat([p["vel"] for p in parts], 1), "pos": torch.cat([p["pos"] for p in parts], 1)}


def compositions_all(F):
    for mask in range(1 << (F - 1)):
        comp, run = [], 1
        for i in range(F - 1):
            if mask >> i & 1:
                comp.append(run)
                run = 1
            else:
                run += 1
        comp.append(run)
        yield tuple(comp)


def compositions_some(F, rng, thorough, cid=0):
    if thorough:
        out = [(1, F - 1), (F - 1, 1), (F // 2, F - F // 2)]
        ones = F <= 32 or F % 8 == 0
        ncuts = [1, 2, 3, max(1, int(round(F ** 0.5))), max(1, F // 4)]
    else:
        out = [(1, F - 1) if cid % 2 else (F - 1, 1), (F // 2, F - F // 2)]
        ones = F <= 12 or F in (33, 64)
        ncuts = [1, 2, 3, max(1, int(round(F ** 0.5)))]
    if ones:
        out.append((1,) * F)
    for _ in range(4 if thorough else 2):
        ncut = int(rng.choice(ncuts))
        cuts = np.sort(rng.choice(np.arange(1, F), size=min(ncut, F - 1), replace=False))
        edges = [0] + cuts.tolist() + [F]
        out.append(tuple(int(b - a) for a, b in zip(edges[:-1], edges[1:])))
    seen, uniq = set(), []
    for c in out:
        if c not in seen and len(c) > 1:
            seen.add(c)
            uniq.append(c)
    return uniq


def comp_class(comp, F, exhaustive):
    if exhaustive:
        return "all-compositions"
    if len(comp) == F:
        return "ones"
    if len(comp) == 2:
        return "two"
    return "random"


def run_stream(ck, s, rng, thorough):
    regime = regime_of(s)
    u = lie.u_of(s.dtype)
    B, F = s.B, s.F
    ref = reference(s)
    # ---- module sanity: the gravity buffer is the float32 rounding of the requested value
    m = build(s)
    gexp = torch.tensor([0.0, 0.0, float(np.float32(s.grav))], dtype=s.dtype)
    if not (m.gravity.dtype == s.dtype and torch.equal(m.gravity, gexp)):
        ck.check(False, "recursion", regime, "IMUPreintegrator.__init__", "gravity_buffer_unexpected",
                 wit_of(s, {"buffer": m.gravity.tolist()}))
    # ---- single call vs the recursion
    single = run_history(ck, "recursion", regime, s, (F,), mod=m)
    rows = np.concatenate([s.dt.double().numpy().reshape(B, -1), s.gyro.double().numpy().reshape(B, -1),
                           s.acc.double().numpy().reshape(B, -1)], -1)
    ck.count("recursion", regime, n=B, rows=rows)
    ck.mark(f"cell/{s.dn}/{'rot' if s.known else 'norot'}/g{'0' if s.grav == 0 else '9.81'}")
    ck.mark("len/F+1=pow2" if (F + 1) & F == 0 else "len/F+1!=pow2")
    ck.mark(f"init/{s.init_kind}")
    ck.mark(f"batch/B{B}")
    ck.mark(f"dt/{s.dt_kind}")
    if not s.known and s.grav != 0 and s.init_kind != "default":
        ck.mark("gravity-through-integrated-rotation/init_rot!=I")
    if single is None:
        return
    got1 = as_np(single)
    judge(ck, "recursion", regime, s, got1, ref, ref, "differs_from_recursion")
    ck.note_max("max_F", F)
    if len(ck.samples) < 3 and F <= 3:
        ck.sample({"case": wit_of(s), "pos_last_hex": [float(v).hex() for v in got1["p"][0, -1]],
                   "ref_pos_last": np.asarray(ref["p"][0, -1], dtype=np.float64).tolist()})
    # ---- chunkings with reset=False
    if F >= 2:
        exhaustive = F <= 6 or (F <= 8 and (thorough or (s.cell in (0, 3, 5, 6)) == (F == 7)))
        comps = [c for c in compositions_all(F) if len(c) > 1] if exhaustive else compositions_some(F, rng, thorough, s.cid)
        for comp in comps:
            cc = comp_class(comp, F, exhaustive)
            hist = run_history(ck, "chunking", regime, s, comp)
            ck.count("chunking", f"{regime}/{cc}", key=(s.cid, comp))
            ck.mark(f"chunks/{cc}")
            if min(comp) == 1:
                ck.mark("chunks/has-single-frame-chunk")
            if hist is None:
                continue
            judge(ck, "chunking", regime, s, as_np(hist), got1, ref, "differs_between_chunked_and_single_call",
                  {"composition": list(comp)})
        # ---- a chunk that was rejected (the call raised) has not been fed: repeating it correctly continues the stream
        comp = comps[int(rng.integers(len(comps)))]
        kind = REJECT_KINDS[s.cid % len(REJECT_KINDS)]
        rj = (int(rng.integers(0, len(comp))), kind)
        hist = run_history(ck, "chunking", regime, s, comp, reject=rj)
        if hist is not None:
            ck.count("chunking", f"{regime}/after-rejected-call", key=(s.cid, comp, rj))
            ck.mark("chunks/after-rejected-call")
            judge(ck, "chunking", regime, s, as_np(hist), got1, ref, "differs_after_a_rejected_call",
                  {"composition": list(comp), "rejected_chunk": rj[0], "rejected_with": kind})
    # ---- rank paths
    if B == 1:
        hist = run_history(ck, "ranks", regime, s, (F,), squeeze=1, extra={"rank": "(F,H)"})
        ck.count("ranks", f"{regime}/(F,H)", key=(s.cid, "FH"))
        ck.mark("rank/(F,H)")
        if hist is not None:
            judge(ck, "ranks", regime, s, as_np(hist), got1, ref, "differs_between_rank_paths", {"rank": "(F,H)"})
        if F == 1 or F <= (12 if thorough else 6) or F % 50 == 0:
            # frame by frame with rank-1 inputs: a chunking into ones through the (H) path
            m1 = build(s)
            parts, bad = [], False
            for f in range(F):
                args, kw = call_args(s, f, f + 1, squeeze=2)
                okc, out = ck.call("ranks", regime, "IMUPreintegrator.forward", m1, *args,
                                   witness=wit_of(s, {"rank": "(H)", "frame": f}), **kw)
                if not okc or not shapes_ok(ck, "ranks", regime, s, out, 1, 1):
                    bad = True
                    break
                parts.append(out)
            ck.count("ranks", f"{regime}/(H)", key=(s.cid, "H"))
            ck.mark("rank/(H)")
            if not bad:
                hist = {"rot": lie.lt("SO3", torch.cat([p["rot"].tensor() for p in parts], 1), s.dtype),
                        "vel": torch.cat([p["vel"] for p in parts], 1), "pos": torch.cat([p["pos"] for p in parts], 1)}
                judge(ck, "ranks", regime, s, as_np(hist), got1, ref, "differs_between_rank_paths", {"rank": "(H) frame by frame"})
    else:
        ck.mark("rank/(B,F,H)")
        r = int(rng.integers(0, B))
        hist = run_history(ck, "ranks", regime, s, (F,), row=r, squeeze=1, extra={"rank": "(F,H) of batch row", "row": r})
        ck.count("ranks", f"{regime}/row-alone", key=(s.cid, "row", r))
        ck.mark("rank/row-alone")
        if hist is not None:
            sub = {k: v[r:r + 1] for k, v in got1.items()}
            rref = {k: v[r:r + 1] for k, v in ref.items()}
            judge(ck, "ranks", regime, s, as_np(hist), sub, rref, "differs_between_rank_paths",
                  {"rank": "(F,H) of batch row", "row": r})
    # ---- explicit init_state, and reset=True modules
    if s.cid % 3 == 0:
        run_init_state(ck, s, regime, ref, got1, rng)


def run_init_state(ck, s, regime, ref, got1, rng):
    B, F = s.B, s.F
    p0, R0, v0 = init_arrays(s, B)
    if s.R0 is None:
        st = {"pos": torch.zeros(B, 1, 3, dtype=s.dtype), "rot": pp.identity_SO3(B, 1, dtype=s.dtype),
              "vel": torch.zeros(B, 1, 3, dtype=s.dtype)}
    else:
        st = {"pos": s.p0.expand(B, 1, 3).clone(), "vel": s.v0.expand(B, 1, 3).clone(),
              "rot": lie.lt("SO3", s.R0.tensor().expand(B, 1, 4).clone(), s.dtype)}
    cut = int(rng.integers(1, F)) if F > 1 else None
    comp = (F,) if cut is None else (cut, F - cut)
    # (a) reset=True module without constructor state, state handed over explicitly between the chunks
    m = build(s, reset=True, with_init=False)
    parts, a = [], 0
    for n in comp:
        args, kw = call_args(s, a, a + n)
        okc, out = ck.call("init_state", regime, "IMUPreintegrator.forward", m, *args, init_state=dict(st),
                           witness=wit_of(s, {"composition": list(comp), "chunk_start": a}), **kw)
        if not okc or not shapes_ok(ck, "init_state", regime, s, out, B, n):
            return
        parts.append(out)
        st = {"pos": out["pos"][:, -1:].clone(), "vel": out["vel"][:, -1:].clone(),
              "rot": lie.lt("SO3", out["rot"].tensor()[:, -1:].clone(), s.dtype)}
        a += n
    hist = {"rot": lie.lt("SO3", torch.cat([p["rot"].tensor() for p in parts], 1), s.dtype),
            "vel": torch.cat([p["vel"] for p in parts], 1), "pos": torch.cat([p["pos"] for p in parts], 1)}
    ck.count("init_state", regime, key=(s.cid, comp))
    judge(ck, "init_state", regime, s, as_np(hist), ref, ref, "differs_from_recursion_with_explicit_init_state",
          {"composition": list(comp)})
    # (b) reset=True module: the second call starts again from the constructor's state
    m = build(s, reset=True)
    n1 = max(1, F // 2)
    args, kw = call_args(s, F - n1, F)
    okc, _ = ck.call("reset_true", regime, "IMUPreintegrator.forward", m, *args, witness=wit_of(s), **kw)
    args, kw = call_args(s)
    okc2, out = ck.call("reset_true", regime, "IMUPreintegrator.forward", m, *args, witness=wit_of(s), **kw)
    ck.count("reset_true", regime, key=(s.cid,))
    if okc and okc2 and shapes_ok(ck, "reset_true", regime, s, out, B, F):
        judge(ck, "reset_true", regime, s, as_np(out), ref, ref, "second_call_of_reset_module_not_from_initial_state")


def probe_documented_init_layout(ck):
    """Recorded, not judged: forward's docstring gives init_state entries the shape (B, H_in); the module stores
    and accepts (B, 1, H).  The note says what the (B, H) layout does for B = 2, F = 3 (see ASSUME)."""
    B, F = 2, 3
    dt = torch.full((B, F, 1), 0.1, dtype=torch.float64)
    gy = torch.ones(B, F, 3, dtype=torch.float64) * 0.1
    st = {"pos": torch.zeros(B, 3, dtype=torch.float64), "rot": pp.identity_SO3(B, dtype=torch.float64),
          "vel": torch.zeros(B, 3, dtype=torch.float64)}
    try:
        pp.module.IMUPreintegrator(reset=True, gravity=0.0).double()(dt, gy, gy, init_state=st)
        ck.note("init_state_layout_(B,H)_as_in_docstring", "accepted")
    except Exception as e:  # noqa
        ck.note("init_state_layout_(B,H)_as_in_docstring", "raises " + type(e).__name__ + " (not judged)")


def run(ck):
    thorough = ck.tier == "thorough"
    rng = ck.rng("c16")
    if ck.shard == 0:
        probe_documented_init_layout(ck)
    if thorough:
        Fs = list(range(1, 201))
    else:
        Fs = list(range(1, 65)) + [65, 96, 100, 127, 128, 129, 150, 199, 200]
        Fs += [int(v) for v in rng.integers(66, 200, 3)]
    cells = list(itertools.product(("f64", "f32"), (False, True), (G_STD, 0.0)))
    reps = 2 if thorough else 1
    cid = 0
    for rep in range(reps):
        for F in Fs:
            for j, (dn, known, grav) in enumerate(cells):
                cid += 1
                if not ck.mine(cid):
                    continue
                if rep == 0:
                    B = (F + j) % 4 + 1
                    init_kind = INIT_KINDS[(F + j // 2 + j) % 3]
                else:
                    B = int(rng.integers(1, 5))
                    init_kind = INIT_KINDS[int(rng.integers(0, 3))]
                dt_kind = DT_KINDS[int(rng.integers(0, len(DT_KINDS)))] if rng.random() < 0.6 else "varying"
                s = make_stream(rng, dn, known, grav, F, B, init_kind, dt_kind, cid)
                s.cell = j
                run_stream(ck, s, rng, thorough)
    for dn, known, grav in cells:
        ck.require(f"cell/{dn}/{'rot' if known else 'norot'}/g{'0' if grav == 0 else '9.81'}")
    ck.require("len/F+1=pow2", "len/F+1!=pow2", "gravity-through-integrated-rotation/init_rot!=I",
               "chunks/all-compositions", "chunks/ones", "chunks/two", "chunks/random", "chunks/has-single-frame-chunk", "chunks/after-rejected-call",
               "rank/(F,H)", "rank/(H)", "rank/(B,F,H)", "rank/row-alone")
    ck.require(*[f"init/{k}" for k in INIT_KINDS], *[f"batch/B{b}" for b in (1, 2, 3, 4)],
               *[f"dt/{k}" for k in DT_KINDS])
    ck.floor("recursion", 800)
    ck.floor("chunking", 3000)
    ck.floor("ranks", 300)
    ck.floor("cov", 5000)
    ck.floor("init_state", 50)
    ck.floor("reset_true", 50)
