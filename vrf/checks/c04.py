"""C04 — reverse-mode autograd through LieTensor programs gives the exact left-perturbation
Jacobians, finite everywhere incl. identity / zero.

Monitors: (1) every operator alone at hostile points, (2) random well-typed expression trees to
depth 6 with mixed leaf kinds, shared leaves, broadcasting batch shapes and random cotangents,
(3) the Jacobian front-ends (torch.autograd.functional.jacobian, modjac (loop / vectorize),
pp.func.jacrev, modjacrev / modjacfwd on Euclidean modules) contracted against the same oracle.
Oracle: central differences with a Richardson step in float64 through the public forward ops.
Sanitizers: autograd anomaly mode (witness only), isfinite on every returned gradient, bitwise
before/after comparison of the leaves (backward must not write into them).
"""
import itertools

import numpy as np
import torch
import pypose as pp
from torch import nn

from .. import lie, progs, history
from ..oracles import lie_ref as L
from ..progs import Leaf, Node, T_G, T_A

PID = "C04"
LEVEL = "exploration"
SHARDS = {"quick": 16, "thorough": 16}
TIMEOUT = {"quick": 1200, "thorough": 7200}
RULE = ("Programs = random well-typed expression trees (depth <= 6) over Exp, Log, Inv, @, Act3, Act4, Adj, AdjT, Retr, +, "
        "matrix, Jinvp (rotation >= 0.1 rad), algebra +/scale, with 1-4 leaves of mixed kinds (group / algebra / R^3 / R^4), "
        "leaf modes identity / tiny (down to eps/2) / thin (rotation 1.5eps..1e-5 with O(1) translation and scale) / generic / large rotation (<= pi-0.45), broadcasting lshapes, random "
        "cotangents; plus every operator alone at each mode for all four groups. One case = (program, leaf values, "
        "cotangent); distinct = distinct (program text, leaf bits); trivial = programs discarded by a guard (Log/Jinvp input "
        "within 0.3 rad of pi, sim3 truncation bound > 1e-3).")
ASSUME = ["finite-difference oracle (central, h=2e-3 and 1e-3, Richardson) evaluated through pypose's own forward ops, which "
          "C01/C02/C03/C05 monitor independently",
          "tolerance 1e-6*(1+max|grad|) + 0.05*(h^2 spread of the two FD estimates) [+ 8x the documented sim3 series "
          "truncation bound sum_{k>=6}|ad xi|^k/(k+1)! for programs through sim3 Exp / Sim3 Log / Sim3 Jinvp]",
          "float32: finite and within 60*sqrt(eps32)*(1+max|grad64|) of the float64 gradient", "CPU only"]

BACKWARD_CALLS = {}


def instrument():
    """Count calls of every hand-written backward (regime evidence: all 32 must be seen)."""
    import pypose.lietensor.operation as op
    for name in dir(op):
        cls = getattr(op, name)
        if isinstance(cls, type) and issubclass(cls, torch.autograd.Function) and cls is not torch.autograd.Function:
            BACKWARD_CALLS[name] = 0
            orig = cls.backward

            def make(name, orig):
                def backward(ctx, *g):
                    BACKWARD_CALLS[name] += 1
                    return orig(ctx, *g)
                return staticmethod(backward)
            cls.backward = make(name, orig)


def trunc_bound(adn):
    if not adn:
        return 0.0
    a = max(adn)
    import math
    return sum(a ** k / math.factorial(k + 1) for k in range(6, 40))


def sim3_ad_norms(trace_vals):
    return trace_vals


def _ad2(x):
    t = x.tensor().detach().double().reshape(-1, 7).numpy()
    return max(float(np.linalg.norm(L.ad_matrix("sim3", r).astype(np.float64), 2)) for r in t) if len(t) else 0.0


progs._sim3_ad_norm = _ad2      # exact 2-norm of ad(xi) instead of the crude bound


def clone_leaves(leaves, dtype=None, grad=True, flags=None):
    out = []
    for i, x in enumerate(leaves):
        t = x.tensor() if isinstance(x, pp.LieTensor) else x
        t = t.detach().clone()
        if dtype is not None:
            t = t.to(dtype)
        y = pp.LieTensor(t, ltype=x.ltype) if isinstance(x, pp.LieTensor) else t
        y.requires_grad_(bool(grad) and (flags is None or flags[i]))
        out.append(y)
    return out


def loss_of(tree, out, g):
    """Scalar the program is contracted to.  A group-valued output is read in the tangent
    coordinates of a left perturbation of the output (the first manifold-dim slots of the raw
    cotangent, which is how the library's backward passes consume cotangents of group values)."""
    r = progs.raw(out)
    if tree.typ[0] == "G":
        m = progs.tangent_dim(tree.typ)
        return (r[..., :m] * g.to(r.dtype)).sum()
    return (r * g.to(r.dtype)).sum()


def backward_grads(ck, tree, leaves, g, entry, regime, monitor, flags=None, raw_cotangent=False):
    """Run forward+backward on fresh clones; returns (grads list, out) or None if it raised."""
    xs = clone_leaves(leaves, flags=flags)
    lossf = (lambda t_, o_, g_: (progs.raw(o_) * g_.to(progs.raw(o_).dtype)).sum()) if raw_cotangent else loss_of
    before = [(x.tensor() if isinstance(x, pp.LieTensor) else x).detach().clone() for x in xs]
    msg = None
    try:
        with torch.autograd.set_detect_anomaly(True):
            out = progs.evaluate(tree, xs)
            lossf(tree, out, g).backward()
            out = progs.raw(out)
    except RuntimeError as e:
        msg = str(e)[:300]
        if "nan" not in msg.lower():
            ck.violation(monitor, regime, entry, "backward_raised:RuntimeError", {"program": tree.show(), "error": msg})
            return None
        # anomaly mode reports a NaN produced inside some backward node; the verdict is on the
        # gradients actually returned, so repeat without anomaly mode and judge those
        ck.note_add("anomaly_reports", 1)
        xs = clone_leaves(leaves, flags=flags)
        out = progs.evaluate(tree, xs)
        lossf(tree, out, g).backward()
        out = progs.raw(out)
    except Exception as e:  # noqa
        ck.violation(monitor, regime, entry, "backward_raised:" + type(e).__name__,
                     {"program": tree.show(), "error": repr(e)[:300]})
        return None
    grads = []
    for x, b in zip(xs, before):
        gr = x.grad
        grads.append(None if gr is None else (gr.tensor() if isinstance(gr, pp.LieTensor) else gr).detach().clone())
        now = (x.tensor() if isinstance(x, pp.LieTensor) else x).detach()
        if not torch.equal(now, b):
            ck.violation(monitor, regime, entry, "leaf_modified_by_backward", {"program": tree.show()})
    return grads, out.detach(), msg


def judge(ck, tree, types, leaves, g_seed, monitor, regime_base, entry, f32=True, front_ends=False, rng=None, flags=None):
    """One monitored program.  Returns 'ok' | 'discarded' | 'raised'."""
    show = tree.show()
    trace = progs.Trace()
    try:
        with torch.no_grad():
            out0 = progs.raw(progs.evaluate(tree, leaves, trace))
    except Exception as e:  # a valid, well-typed program: the forward must not raise
        ck.violation(monitor, regime_base, entry, "forward_raised:" + type(e).__name__,
                     {"program": show, "error": repr(e)[:300], "lshapes": [list(x.shape) for x in leaves]})
        return "raised"
    if not torch.isfinite(out0).all():
        ck.note_add("discarded_nonfinite_forward", 1)
        return "discarded"
    if trace.log_angles and max(trace.log_angles) > np.pi - 0.3:
        ck.note_add("discarded_near_pi", 1)
        return "discarded"
    if trace.jinvp_angles and min(trace.jinvp_angles) < 0.1:
        ck.note_add("discarded_jinvp_zero_rotation", 1)
        return "discarded"
    tb = trunc_bound(trace.sim3_ad)
    if tb > 1e-3:
        ck.note_add("discarded_sim3_truncation", 1)
        return "discarded"
    gen = torch.Generator().manual_seed(int(g_seed))
    gshape = tuple(out0.shape[:-1]) + (progs.tangent_dim(tree.typ),) if tree.typ[0] == "G" else tuple(out0.shape)
    g = torch.randn(gshape, generator=gen, dtype=torch.float64)
    if tree.typ[0] == "G":
        with torch.no_grad():
            out0_inv = progs.evaluate(tree, leaves).Inv()
    if flags is not None and not any(flags):
        flags = None
    res = backward_grads(ck, tree, leaves, g, entry, regime_base, monitor, flags=flags)
    if res is None:
        return "raised"
    grads, out, anomaly = res
    if flags is not None:
        ck.mark("constants/some_leaves_do_not_require_grad")
        for i_, f_ in enumerate(flags):
            if not f_:
                if grads[i_] is not None:
                    ck.violation(monitor, regime_base, entry, "gradient_returned_for_constant_leaf", {"program": show, "leaf": i_})
                grads[i_] = "const"
    # group-valued output read through .tensor() with an arbitrary raw cotangent (non-zero last slot): the property's
    # structural clauses (finite, last slot of every group leaf's grad exactly zero) hold for every upstream cotangent
    if tree.typ[0] == "G":
        graw = torch.randn(out0.shape, generator=gen, dtype=torch.float64)
        rr = backward_grads(ck, tree, leaves, graw, entry, regime_base, monitor + ".rawcot", flags=flags, raw_cotangent=True)
        if rr is not None:
            ck.count(monitor + ".rawcot", regime_base, key=(show, int(g_seed)))
            for x, t, gr in zip(leaves, types, rr[0]):
                if gr is None:
                    continue
                ck.check(bool(torch.isfinite(gr).all()), monitor + ".rawcot", regime_base, entry, "nonfinite_gradient", {"program": show, "raw_cotangent": True})
                if t[0] == "G":
                    ck.check(bool((gr[..., progs.tangent_dim(t):] == 0).all()), monitor + ".rawcot", regime_base, entry, "nonzero_last_slot",
                             {"program": show, "raw_cotangent": True, "grad": gr.tolist() if gr.numel() < 40 else None})

    def fun(ls):
        o = progs.evaluate(tree, ls)
        if tree.typ[0] == "G":      # tangent coordinates of the output's left perturbation
            return ((o @ out0_inv).Log().tensor() * g).sum()
        return (progs.raw(o) * g).sum()

    ncoord = sum(int(np.prod(x.shape[:-1])) * progs.tangent_dim(t) for x, t in zip(leaves, types))
    key = (show, tuple(tuple(x.shape) for x in leaves), int(g_seed), leaves[0].detach().double().numpy().tobytes()[:64])
    regime = regime_base + ("/trunc" if tb > 0 else "")
    ck.count(monitor, regime, key=key)
    for o in trace.ops:
        ck.mark("op/" + o)
    worst_fin = True
    # ---- structure: finite, last slot exactly zero for group leaves
    for x, t, gr in zip(leaves, types, grads):
        if isinstance(gr, str):
            continue
        if gr is None:
            gr = torch.zeros_like(x.tensor() if isinstance(x, pp.LieTensor) else x)
        if not torch.isfinite(gr).all():
            worst_fin = False
            ck.violation(monitor, regime, entry, "nonfinite_gradient",
                         {"program": show, "leaf_type": str(t), "leaf": x.detach().double().tolist() if x.numel() < 40 else None,
                          "grad": gr.tolist() if gr.numel() < 40 else None, "anomaly": anomaly})
        if t[0] == "G":
            m = progs.tangent_dim(t)
            ck.check(bool((gr[..., m:] == 0).all()), monitor, regime, entry, "nonzero_last_slot",
                     {"program": show, "grad": gr.tolist() if gr.numel() < 40 else None})
    if not worst_fin:
        return "ok"
    # ---- values against the finite-difference oracle
    if ncoord <= 40:
        ref, spread = progs.fd_full(fun, leaves, types)
        gmax = max([float(r.abs().max()) if r.numel() else 0.0 for r in ref] + [0.0])
        tol = 1e-6 * (1 + gmax) + 0.05 * spread + 8 * tb * (1 + gmax)
        for li, (x, t, gr, r) in enumerate(zip(leaves, types, grads, ref)):
            m = progs.tangent_dim(t)
            if isinstance(gr, str):
                continue
            got = torch.zeros_like(r) if gr is None else gr[..., :m].double()
            err = float((got - r).abs().max()) if r.numel() else 0.0
            ck.ratio(monitor, regime, err, tol, entry, "gradient_differs_from_finite_difference",
                     lambda: {"program": show, "leaf": li, "leaf_type": str(t),
                              "leaf_value": x.detach().double().tolist() if x.numel() < 40 else None,
                              "autograd": got.tolist() if got.numel() < 40 else None,
                              "finite_difference": r.tolist() if r.numel() < 40 else None, "fd_spread": spread,
                              "trunc_bound": tb, "cotangent_seed": int(g_seed)})
    else:
        for j in range(5):
            dirs = [torch.randn(tuple(x.shape[:-1]) + (progs.tangent_dim(t),), generator=gen, dtype=torch.float64) *
                    (0.0 if isinstance(gr_, str) else 1.0) for x, t, gr_ in zip(leaves, types, grads)]
            ref, spread = progs.fd_directional(fun, leaves, types, dirs)
            got = sum(float((gr[..., :progs.tangent_dim(t)].double() * d).sum()) for gr, t, d in zip(grads, types, dirs)
                      if gr is not None and not isinstance(gr, str))
            scale = sum(float(d.abs().sum()) for d in dirs)
            gmax = abs(ref) / max(scale, 1.0)
            tol = (1e-6 * (1 + gmax) + 8 * tb * (1 + gmax)) * scale + 0.05 * spread
            ck.ratio(monitor, regime, abs(got - ref), tol, entry, "gradient_differs_from_finite_difference",
                     lambda: {"program": show, "directional": True, "autograd": got, "finite_difference": ref,
                              "lshapes": [list(x.shape) for x in leaves], "cotangent_seed": int(g_seed)})
    # ---- float32: finite and sqrt(eps)-level agreement with float64
    if f32:
        l32 = clone_leaves(leaves, torch.float32, grad=False)
        r32 = backward_grads(ck, tree, l32, g, entry, regime + "/f32", monitor + ".f32", flags=flags)
        if r32 is not None:
            g32, _, an32 = r32
            ck.count(monitor + ".f32", regime, key=key)
            gmax = max([float(x.abs().max()) for x in grads if x is not None and not isinstance(x, str) and x.numel()] + [0.0])
            for t, a, b in zip(types, g32, grads):
                if a is None or b is None or isinstance(b, str):
                    continue
                if not torch.isfinite(a).all():
                    ck.violation(monitor + ".f32", regime, entry, "nonfinite_gradient",
                                 {"program": show, "dtype": "float32", "anomaly": an32,
                                  "leaves": [x.detach().double().tolist() for x in leaves if x.numel() < 40]})
                    continue
                if t[0] == "G":
                    ck.check(bool((a[..., progs.tangent_dim(t):] == 0).all()), monitor + ".f32", regime, entry, "nonzero_last_slot",
                             {"program": show})
                cond = float(out.abs().max()) if out.numel() else 0.0
                tol32 = 60 * np.sqrt(lie.u_of(torch.float32)) * (1 + gmax) * (1 + 0.0 * cond)
                ck.ratio(monitor + ".f32", regime, float((a.double() - b).abs().max()) if a.numel() else 0.0, tol32, entry,
                         "float32_gradient_far_from_float64", lambda: {"program": show, "g32": a.tolist() if a.numel() < 40 else None,
                                                                        "g64": b.tolist() if b.numel() < 40 else None})
    # ---- Jacobian front-ends contracted with the same cotangent
    if front_ends and tree.typ[0] != "G" and flags is None:
        check_front_ends(ck, tree, types, leaves, g, grads, regime, entry, show)
    return "ok"


def check_front_ends(ck, tree, types, leaves, g, grads, regime, entry, show):
    gmax = max([float(x.abs().max()) for x in grads if x is not None and x.numel()] + [0.0])
    tol = 1e-9 * (1 + gmax)

    def contract(J, x):
        # J: out.shape + x.shape ; returns sum_out g * J
        k = g.dim()
        return (J.double() * g.reshape(g.shape + (1,) * (J.dim() - k))).sum(tuple(range(k)))

    # torch.autograd.functional.jacobian over the leaves
    xs = clone_leaves(leaves, grad=False)

    def f(*ls):
        return progs.raw(progs.evaluate(tree, list(ls)))
    for name, kw in (("functional.jacobian", {}), ("functional.jacobian[vectorize]", {"vectorize": True})):
        try:
            J = torch.autograd.functional.jacobian(f, tuple(xs), **kw)
        except Exception as e:  # the program itself ran (its backward was judged above): a front-end that cannot differentiate it has failed
            ck.note_add(f"front_end_raised/{name}", 1)
            ck.violation("front_end", name, "torch.autograd.functional.jacobian", "raised:" + type(e).__name__,
                         {"program": show, "api": name, "error": str(e)[:300]})
            continue
        ck.count("front_end", f"{name}", key=(name, show))
        for Ji, x, gr in zip(J, xs, grads):
            want = torch.zeros_like(x.tensor() if isinstance(x, pp.LieTensor) else x).double() if gr is None else gr.double()
            ck.ratio("front_end", name, float((contract(Ji, x) - want).abs().max()) if want.numel() else 0.0, tol,
                     "torch.autograd.functional.jacobian", "jacobian_differs_from_backward", {"program": show, "api": name})
    # modjac on a module owning the leaves as parameters
    class M(nn.Module):
        def __init__(s):
            super().__init__()
            for i, x in enumerate(leaves):
                p = pp.Parameter(pp.LieTensor(x.tensor().detach().clone(), ltype=x.ltype)) if isinstance(x, pp.LieTensor) \
                    else nn.Parameter(x.detach().clone())
                setattr(s, f"p{i}", p)

        def forward(s):
            return progs.raw(progs.evaluate(tree, [getattr(s, f"p{i}") for i in range(len(leaves))]))
    for name, kw in (("modjac", {}), ("modjac[vectorize]", {"vectorize": True})):
        try:
            J = pp.optim.functional.modjac(M(), input=None, flatten=False, **kw)
        except AssertionError as e:
            ck.violation("front_end", name, "optim.functional.modjac", "modjac_reports_nan", {"program": show, "error": str(e)[:200]})
            continue
        except Exception as e:
            ck.note_add(f"front_end_raised/{name}", 1)
            ck.violation("front_end", name, "optim.functional.modjac", "raised:" + type(e).__name__,
                         {"program": show, "api": name, "error": str(e)[:300]})
            continue
        J = J if isinstance(J, tuple) else (J,)
        ck.count("front_end", name, key=(name, show))
        for Ji, x, gr in zip(J, leaves, grads):
            want = torch.zeros_like(x.tensor() if isinstance(x, pp.LieTensor) else x).double() if gr is None else gr.double()
            ck.ratio("front_end", name, float((contract(Ji, x) - want).abs().max()) if want.numel() else 0.0, tol,
                     "optim.functional.modjac", "jacobian_differs_from_backward", {"program": show, "api": name})
    # pp.func.jacrev (retain_ltype + functorch)
    if len(xs) >= 2:
        # argnums in a non-ascending order: the k-th result must be the Jacobian w.r.t. input argnums[k]
        order = tuple(reversed(range(len(xs))))
        try:
            Jp = pp.func.jacrev(f, argnums=order)(*xs)
            ck.count("front_end", "func.jacrev[argnums reversed]", key=("jacrev-rev", show))
            for Ji, ai in zip(Jp, order):
                Ji = Ji.tensor() if isinstance(Ji, pp.LieTensor) else Ji
                x, gr = xs[ai], grads[ai]
                want = torch.zeros_like(x.tensor() if isinstance(x, pp.LieTensor) else x).double() if gr is None else gr.double()
                okshape = tuple(Ji.shape[g.dim():]) == tuple(want.shape)
                ck.check(okshape, "front_end", "func.jacrev[argnums reversed]", "func.jacrev", "jacobians_not_in_the_order_of_argnums",
                         {"program": show, "argnums": list(order)})
                if okshape:
                    ck.ratio("front_end", "func.jacrev[argnums reversed]", float((contract(Ji, x) - want).abs().max()) if want.numel() else 0.0, tol,
                             "func.jacrev", "jacobians_not_in_the_order_of_argnums", {"program": show, "argnums": list(order)})
        except Exception:
            ck.note_add("front_end_raised/func.jacrev[reversed]", 1)
    try:
        J = pp.func.jacrev(f, argnums=tuple(range(len(xs))))(*xs)
        ck.count("front_end", "func.jacrev", key=("jacrev", show))
        for Ji, x, gr in zip(J, xs, grads):
            Ji = Ji.tensor() if isinstance(Ji, pp.LieTensor) else Ji
            want = torch.zeros_like(x.tensor() if isinstance(x, pp.LieTensor) else x).double() if gr is None else gr.double()
            ck.ratio("front_end", "func.jacrev", float((contract(Ji, x) - want).abs().max()) if want.numel() else 0.0, tol,
                     "func.jacrev", "jacobian_differs_from_backward", {"program": show})
    except Exception as e:
        ck.note_add("front_end_raised/func.jacrev", 1)


def exact_exp_log(ck, rng, thorough):
    """Exp and Log alone against the *exact* left Jacobian (longdouble series sum ad^k/(k+1)!, no finite differences):
    d Exp(x) = Jl(x) dx and d Log(X) = Jl^-1(Log X) dtau in left-perturbation coordinates.  Tolerance
    (1e-11 + 256 eps/theta^2)(1 + |expected|) - three to five orders tighter than the FD monitor - plus the documented
    truncation bound for sim3.  A float32 backward of every kind is run first: nothing a float32 call leaves behind
    (cached thresholds, buffers) may change a later float64 result."""
    u = 2.0 ** -52
    for k in progs.GROUPS:
        a = L.GRP2ALG[k]
        x32 = pp.LieTensor(torch.randn(2, L.ALG[a]) * 0.3, ltype=lie.LT[a]).requires_grad_(True)
        x32.Exp().Log().tensor().sum().backward()
    n = 160 if thorough else 40
    for k in progs.GROUPS:
        a = L.GRP2ALG[k]
        m = L.MANIFOLD[k]
        for i in range(n):
            theta = float(10.0 ** rng.uniform(-3, 0.45))
            axis = rng.standard_normal(3)
            axis /= np.linalg.norm(axis)
            tau = rng.standard_normal(3) * float(rng.choice([0.1, 1.0, 3.0]))
            sig = float(rng.uniform(-0.4, 0.4))
            if a == "sim3":
                theta, tau, sig = min(theta, 0.5) * 0.6, tau * 0.1, sig * 0.3
            xv = np.asarray(L.join_alg(a, L.ld(tau), L.ld(axis * theta), L.LD(sig)), dtype=np.float64)
            g = torch.as_tensor(rng.standard_normal(m))
            Jl = np.asarray(L.left_jacobian(a, xv), dtype=np.float64)
            adn = float(np.linalg.norm(np.asarray(L.ad_matrix(a, xv), dtype=np.float64), 2))
            tb = trunc_bound([adn]) if a == "sim3" else 0.0
            base = (1e-11 + 256 * u / theta ** 2)
            # ---- Exp
            x = pp.LieTensor(torch.as_tensor(xv).clone(), ltype=lie.LT[a]).requires_grad_(True)
            X = x.Exp()
            (X.tensor()[..., :m] * g).sum().backward()
            want = g.numpy() @ Jl
            got = x.grad.tensor().numpy() if isinstance(x.grad, pp.LieTensor) else x.grad.numpy()
            reg = f"{a}.Exp/theta:{'<0.02' if theta < 0.02 else '0.02-0.35' if theta < 0.35 else '>0.35'}"
            ck.count("exact_jacobian", reg, key=(a, "Exp", i, xv.tobytes()))
            ck.ratio("exact_jacobian", reg, float(np.abs(got - want).max()), (base + 8 * tb) * (1 + float(np.abs(want).max())) , f"{a}.Exp",
                     "gradient_differs_from_exact_left_jacobian", lambda: {"x": xv.tolist(), "autograd": got.tolist(), "exact": want.tolist(), "theta": theta})
            # ---- Log at X = Exp(x)
            Xl = pp.LieTensor(X.tensor().detach().clone(), ltype=lie.LT[k]).requires_grad_(True)
            y = Xl.Log()
            (y.tensor() * g).sum().backward()
            yv = y.tensor().detach().numpy()
            Jli = np.linalg.inv(np.asarray(L.left_jacobian(a, yv), dtype=np.float64))
            want = g.numpy() @ Jli
            gotX = Xl.grad.tensor().numpy() if isinstance(Xl.grad, pp.LieTensor) else Xl.grad.numpy()
            tbl = tb * (1 + adn) ** 2 if a == "sim3" else 0.0
            ck.count("exact_jacobian", reg.replace(".Exp", ".Log"), key=(a, "Log", i, xv.tobytes()))
            ck.ratio("exact_jacobian", reg.replace(".Exp", ".Log"), float(np.abs(gotX[:m] - want).max()),
                     (base * float(np.linalg.cond(Jl)) + 8 * tbl) * (1 + float(np.abs(want).max())), f"{k}.Log",
                     "gradient_differs_from_exact_left_jacobian", lambda: {"X": Xl.tensor().tolist(), "autograd": gotX.tolist(), "exact": want.tolist(), "theta": theta})
            ck.check(float(gotX[m:].__abs__().max()) == 0.0, "exact_jacobian", reg, f"{k}.Log", "nonzero_last_slot", {"grad": gotX.tolist()})
            ck.mark("exact/" + reg.split("/")[1])
    ck.require("exact/theta:<0.02", "exact/theta:0.02-0.35", "exact/theta:>0.35")


def lshapes_for(rng, n):
    base = [(), (), (), (2,), (1,), (2, 1), (3, 2)][int(rng.integers(7))]
    out = []
    for i in range(n):
        if not base or rng.random() < 0.5:
            out.append(base)
        else:
            s = list(base)
            j = int(rng.integers(len(s)))
            s[j] = 1
            if rng.random() < 0.3:
                s = s[1:]
            out.append(tuple(s))
    return out


UNARY = [("Exp", "A", "G"), ("Log", "G", "A"), ("Inv", "G", "G"), ("matrix", "G", "M")]
BINARY = [("Mul", "G", "G", "G"), ("Retr", "G", "A", "G"), ("add", "G", "A", "G"), ("Adj", "G", "A", "A"),
          ("AdjT", "G", "A", "A"), ("Jinvp", "G", "A", "A"), ("Act3", "G", "P3", "P3"), ("Act4", "G", "P4", "P4")]


def typ_of(c, k):
    return {"G": T_G(k), "A": T_A(L.GRP2ALG[k]), "P3": "P3", "P4": "P4", "M": "M"}[c]


def run(ck):
    instrument()
    rng = ck.rng("c04")
    thorough = ck.tier == "thorough"
    dt = torch.float64
    if ck.shard == 0:
        exact_exp_log(ck, ck.rng("exact-first"), thorough)   # first thing in this process: float32 calls precede every float64 call
    if ck.shard == 2 % ck.nshards:
        # the same object evaluated under no_grad first / twice with grad enabled: gradients as on a fresh object (all operators, matrix(), accessors)
        for prop_ in history.ALL_PROPS:
            history.grad_mode_history(ck, prop_)
    # ---------------- (1) every operator alone, hostile points, all groups
    cases = []
    for k in progs.GROUPS:
        for (op, a, r) in UNARY:
            for mode in ("identity", "tiny", "thin", "thin", "generic", "large", "mixed"):
                cases.append((k, op, (a,), r, mode))
        for (op, a, b, r) in BINARY:
            for mode in ("identity", "tiny", "thin", "thin", "generic", "large", "mixed"):
                cases.append((k, op, (a, b), r, mode))
    reps = 4 if thorough else 1
    ci = 0
    BCAST = [((), (3,)), ((2,), ()), ((1,), (2,)), ((2, 1), (1, 3)), ((), (2, 2))]
    variants = []
    for rep in range(reps):
        for (k, op, args, r, mode) in cases:
            variants.append((rep, k, op, args, r, mode, None, None))
            if mode == "generic":
                # a batch of exactly three items (a batch extent equal to the size of the vector parts: axis mix-ups show only there)
                variants.append((rep, k, op, args, r, mode, [(3,)] * len(args), None))
            if len(args) == 2 and mode in ("generic", "thin"):
                # one operand broadcast against many (single pose x many points / twists, and the converse)
                variants.append((rep, k, op, args, r, mode, BCAST[(len(variants) + rep) % len(BCAST)], None))
                # one operand is a constant (requires_grad=False), the other a leaf
                variants.append((rep, k, op, args, r, mode, None, [(len(variants) + rep) % 2 == 0, (len(variants) + rep) % 2 == 1]))
    for (rep, k, op, args, r, mode, bshapes, flags) in variants:
        if True:
            ci += 1
            if not ck.mine(ci):
                continue
            types = [typ_of(c, k) for c in args]
            tree = Node(op, [Leaf(i, t) for i, t in enumerate(types)], typ_of(r, k))
            if op == "Jinvp" and mode in ("identity", "tiny", "thin", "mixed"):
                continue        # outside C04's stated domain (zero rotation)
            if mode == "mixed" and k == "Sim3" and op in ("Log", "Jinvp", "Exp", "Retr", "add"):
                continue        # the documented truncation bound needs |ad xi| small for every item: covered by the other modes
            lsh = list(bshapes) if bshapes is not None else [(), ()] if rep % 2 == 0 else lshapes_for(rng, 2)
            if mode == "mixed":
                lsh = [(6,), (6,)] if rep % 2 == 0 else [(2, 3), (2, 3)]
            leaves = []
            for i, t in enumerate(types):
                md = mode
                if op == "Jinvp" and i == 0:
                    md = "large" if mode == "large" else "generic"
                if k == "Sim3" and op in ("Log", "Jinvp", "Exp", "Retr", "add") and mode in ("generic", "large", "thin"):
                    # keep |ad xi| small enough for the documented truncation to stay below 1e-3
                    if mode == "thin" and t[0] in ("G", "A"):
                        x = progs.make_leaf(rng, t, lsh[i], dt, "thin")
                        r = x.tensor().clone()
                        r[..., :3] *= 0.2
                        r[..., -1] = r[..., -1] ** 0.3 if t[0] == "G" else r[..., -1] * 0.3
                        leaves.append(pp.LieTensor(r, ltype=x.ltype))
                        continue
                    x = progs.make_leaf(rng, t, lsh[i], dt, "generic")
                    if t[0] == "G":
                        x = pp.LieTensor(lie.random_group(k, rng, max(1, int(np.prod(lsh[i]))), dt, max_angle=0.5, sigma_max=0.2,
                                                          t_scale=0.2).tensor().reshape(lsh[i] + (8,)), ltype=lie.LT[k])
                    elif t[0] == "A" and op in ("Exp", "Retr", "add"):
                        x = pp.LieTensor(x.tensor() * 0.4, ltype=x.ltype)
                    leaves.append(x)
                    continue
                leaves.append(progs.make_leaf(rng, t, lsh[i], dt, md))
            if op == "Jinvp":
                # rotation of X bounded away from zero
                X = leaves[0]
                hi, lo = progs._angle_of(X)
                if lo < 0.1:
                    continue
            st = judge(ck, tree, types, leaves, ck.subseed(("g", ci)), "op_alone",
                       f"{k}/{op}/{mode}" + (("/bcast" if len(set(bshapes)) > 1 else "/batch3") if bshapes else "") + ("/const" if flags else ""), f"{k}.{op}",
                       front_ends=(rep == 0 and bshapes is None), rng=rng, flags=flags)
            if bshapes:
                ck.mark("alone/broadcast" if len(set(bshapes)) > 1 else "alone/batch-of-three")
            ck.mark(f"alone/{k}/{op}/{mode}/{st}")
    if ck.shard == 1 % ck.nshards:
        exact_exp_log(ck, rng, thorough)        # after a float64-first history of this process
    # ---------------- (2) random programs
    nprog = (1400 if thorough else 60)
    made = 0
    roots = [T_G(k) for k in progs.GROUPS] + [T_A(L.GRP2ALG[k]) for k in progs.GROUPS] + ["P3", "P4", "M"]
    attempts = 0
    while made < nprog and attempts < nprog * 6:
        attempts += 1
        depth = int(rng.integers(2, 7))
        types = []
        tree = progs.gen_tree(rng, roots[int(rng.integers(len(roots)))], depth, types)
        if isinstance(tree, Leaf) or len(types) > 4:
            continue
        mode = ["generic", "generic", "generic", "tiny", "identity", "large", "thin"][int(rng.integers(7))]
        lsh = lshapes_for(rng, len(types))
        leaves = []
        for t, s in zip(types, lsh):
            md = mode if rng.random() < 0.8 else "generic"
            x = progs.make_leaf(rng, t, s, dt, md)
            if t[0] in ("G", "A") and t[1] in ("Sim3", "sim3"):
                # smaller Sim3 elements so that programs through Sim3 Log survive the truncation guard
                if t[0] == "G":
                    x = pp.LieTensor(lie.random_group("Sim3", rng, max(1, int(np.prod(s))), dt, max_angle=0.4, sigma_max=0.15,
                                                      t_scale=0.15).tensor().reshape(s + (8,)), ltype=lie.LT["Sim3"]) if md != "identity" else x
                else:
                    x = pp.LieTensor(x.tensor() * 0.3, ltype=x.ltype)
            leaves.append(x)
        pflags = [bool(rng.random() < 0.7) for _ in types] if (len(types) > 1 and rng.random() < 0.3) else None
        st = judge(ck, tree, types, leaves, ck.subseed(("p", attempts)), "program", f"depth{depth}/{mode}", "program",
                   front_ends=(made % 4 == 0), rng=rng, flags=pflags)
        if st == "ok":
            made += 1
            if len(ck.samples) < 8:
                ck.sample({"program": tree.show(), "leaf_types": [str(t) for t in types], "lshapes": [list(s) for s in lsh], "mode": mode})
    ck.note_add("programs_judged", made)
    ck.note_add("program_attempts", attempts)
    # ---------------- (3) modjacrev / modjacfwd on Euclidean modules (documented to mirror torch.func)
    for i in range(6 if thorough else 2):
        torch.manual_seed(ck.subseed(("mod", i)))
        lin = nn.Sequential(nn.Linear(3, 4), nn.Tanh(), nn.Linear(4, 2)).double()
        x = torch.randn(5, 3, dtype=dt)
        J1 = pp.optim.functional.modjac(lin, x, flatten=False)
        J2 = pp.optim.functional.modjacrev(lin, x)
        J3 = pp.optim.functional.modjacfwd(lin, x)
        names = [n for n, _ in lin.named_parameters()]
        for n, j1 in zip(names, J1):
            for api, J in (("modjacrev", J2), ("modjacfwd", J3)):
                ck.count("front_end", api, key=(api, i, n))
                ck.ratio("front_end", api, float((J[n] - j1).abs().max()), 1e-10 * (1 + float(j1.abs().max())),
                         "optim.functional." + api, "jacobian_differs_from_modjac", {"param": n})
        # modjac itself against finite differences on the first weight
        W = lin[0].weight
        eps = 1e-5
        with torch.no_grad():
            base = lin(x).clone()
            W[0, 0] += eps
            up = lin(x).clone()
            W[0, 0] -= 2 * eps
            dn = lin(x).clone()
            W[0, 0] += eps
        fd = (up - dn) / (2 * eps)
        ck.count("front_end", "modjac/fd", key=("mjfd", i))
        ck.ratio("front_end", "modjac/fd", float((J1[0][..., 0, 0] - fd).abs().max()), 1e-7 * (1 + float(fd.abs().max())),
                 "optim.functional.modjac", "jacobian_differs_from_finite_difference", {})
    # ---------------- regime evidence: which hand-written backward classes ran
    seen = {k: v for k, v in BACKWARD_CALLS.items() if v}
    ck.note("backward_classes_seen", sorted(seen))
    for k, v in BACKWARD_CALLS.items():
        if v:
            ck.mark("backward/" + k, v)
        ck.require("backward/" + k)
    ck.require("alone/broadcast", "alone/batch-of-three", "constants/some_leaves_do_not_require_grad")
    ck.floor("op_alone", 100)
    ck.floor("program", 20)
