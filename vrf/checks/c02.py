"""C02 — Log is the principal inverse of Exp on SO3, SE3, RxSO3, Sim3.

Monitors (all oracles in the reference matrix domain, vrf/oracles/lie_ref.py, longdouble):

  log_expm   (a) the case-split-free matrix exponential of the generator of Log(X) equals the
                 documented 4x4 matrix of X (built from the raw components the *input* had
                 after rounding to the dtype), blockwise with the tolerances of C01
  log_norm   (b) |phi(Log X)| <= pi (1 + 16u)   (pi v/|v| carries three roundings)
  log_negq   (c) rotation angle <= pi - 1e-2:  Log(X) = Log(X with q -> -q)
  log_inv    (c) rotation angle <= pi - 1e-2:  Log(Inv X) = -Log X
  log_exp    (d) |phi| <= pi - 1e-3:  Log(Exp x) = x  (rotation relative, log-scale absolute in
                 units of the scale's relative error, translation sqrt(u) relative)
  log_mp         a sample of (a) judged against mpmath.expm instead of the longdouble oracle
  log_shape      batch shapes of rank 0..3 incl. empty: type/shape, equal to the flat call

Near angle pi Log is discontinuous (sign of the axis); only (a) and (b) are judged there.
"""
import numpy as np
import torch
import pypose as pp

from .. import gen, lie
from ..core import row_digests, key_digest
from ..oracles import lie_ref as L

PID = "C02"
LEVEL = "exploration"
SHARDS = {"quick": 4, "thorough": 16}
TIMEOUT = {"quick": 900, "thorough": 5400}
RULE = ("Valid group elements are built in longdouble from (axis, angle, hemisphere, translation, scale) and "
        "rounded to the dtype under test; the oracle sees the rounded values. Angle ladder: exact 0, 1e-30..1e-3 "
        "dense around eps and sqrt(eps) of the dtype, O(1), pi-{1e-15..2e-2}, pi; both signs of w; raw quaternions "
        "with v=0, |v| = eps*{1/4..2}, w=0, |w| = eps*{1/4..16} (each index set of the quaternion logarithm hit "
        "exactly); log-scale ladder 0, +-(1e-30..8) dense around eps and sqrt(eps); translation norms 0..1e6 with "
        "random / axis-parallel / axis-orthogonal directions; full angle x log-scale grid, translations drawn per "
        "cell. Log(Exp x) on the matching algebra ladder with |phi| <= pi-1e-3. Both dtypes, four groups, batch "
        "ranks 0-3 incl. empty. One case = one group element (or algebra vector for log_exp); distinct = distinct "
        "input bit patterns per monitor; trivial = the identity element / zero vector.")
ASSUME = ["longdouble scaling-and-squaring Taylor oracle for expm (validated each run against mpmath.expm at 50 digits)",
          "a float quaternion is unit only up to rounding; the reference matrix of X uses the normalised quaternion",
          "translation tolerance 8*sqrt(eps)*|t| + 64*eps*|tau|*max(1,s) as in C01; Log(Exp x) compared at "
          "64*eps relative (rotation), 32*eps*(1+|sigma|) (log-scale), 8*sqrt(eps) relative (translation)",
          "raw quaternions with |v| and |w| both below eps are not unit quaternions and are not generated",
          "Inv is pypose's own (clause Log(Inv X) = -Log X is a relation between public functions)",
          "CPU only"]

C_ROT, C_TRANS_REL, C_TRANS_ABS = 64.0, 8.0, 64.0
C_PHI, C_SIG, C_NORM = 64.0, 32.0, 16.0
PI = np.pi


# ---------------------------------------------------------------------- generators
def angle_ladder(u):
    out = list(gen.small_ladder(u))
    out += [1e-2, 0.1, 0.5, 1.0, 1.5, 2.0, 2.5, 3.0, 3.1]
    for d in (1e-15, 1e-12, 1e-9, 1e-7, 1e-6, 1e-5, 1e-4, 1e-3, 5e-3, 1e-2, 2e-2,
              u, 4 * u, 64 * u, np.sqrt(u), 4 * np.sqrt(u)):
        out.append(PI - d)
    out.append(PI)
    return sorted(set(out))


def raw_quats(u, rng, n_dirs):
    """Raw (v, w) that sit exactly on / next to the thresholds of the three index sets."""
    qs = []
    dirs = list(np.eye(3)) + [d for d in gen.unit_vectors(rng, n_dirs, 0.0)]
    for d in dirs:
        for sw in (1.0, -1.0):
            qs.append(np.r_[0 * d, sw])                               # v = 0 exactly
            for m in (0.25, 0.5, 1.0, 1.01, 2.0):                     # |v| around eps, w = +-1
                qs.append(np.r_[d * (u * m), sw])
            for m in (0.0, 0.25, 0.5, 1.0, 1.01, 2.0, 16.0):          # |w| around eps, |v| = 1
                w = sw * u * m
                qs.append(np.r_[d * np.sqrt(1.0 - w * w), w])
    return np.array(qs)


def directions(rng, axis, n):
    """Translation directions: random, an eighth parallel and an eighth orthogonal to the axis."""
    tdir = gen.unit_vectors(rng, n)
    k = n // 8
    if k:
        tdir[:k] = axis[:k]
        orth = np.cross(axis[k:2 * k], gen.unit_vectors(rng, k, 0.0))
        orth /= np.maximum(np.linalg.norm(orth, axis=-1, keepdims=True), 1e-300)
        tdir[k:2 * k] = orth
    return tdir


def log_uniform(rng, n, lo, hi):
    return 10.0 ** rng.uniform(lo, hi, n)


def random_cells(rng, n, max_angle):
    """Continuous part of the workload: log-uniform magnitudes between the ladder points."""
    a = np.where(rng.random(n) < 0.6, log_uniform(rng, n, -20, np.log10(max_angle)),
                 max_angle - log_uniform(rng, n, -16, 0))
    a = np.clip(a, 0.0, max_angle)
    s = log_uniform(rng, n, -20, np.log10(8.0)) * rng.choice([-1.0, 1.0], n)
    return a, s


def group_ladder(G, u, rng, tdraws, nrand):
    """(N, D) float64 rows of group elements of kind G (longdouble construction, rounded to f64
    here and to the dtype under test by the monitor)."""
    has_t, has_s = G in ("SE3", "Sim3"), G in ("RxSO3", "Sim3")
    A = np.array(angle_ladder(u))
    S = np.array(gen.sigma_ladder(u)) if has_s else np.array([0.0])
    T = np.array(gen.trans_ladder())
    a, s = np.meshgrid(A, S, indexing="ij")
    a, s = a.reshape(-1), s.reshape(-1)
    reps = (tdraws if has_t else 1) * (1 if has_s else 8)
    a, s = np.tile(a, reps), np.tile(s, reps)
    ar, sr = random_cells(rng, nrand, PI)
    a, s = np.concatenate([a, ar]), np.concatenate([s, sr if has_s else 0 * sr])
    n = a.size
    axis = gen.unit_vectors(rng, n)
    q = L.axis_angle_quat(axis, a) * L.ld(rng.choice([-1.0, 1.0], n))[:, None]
    # raw quaternions on the index-set thresholds, with log-scales / translations from the ladders
    qr = raw_quats(u, rng, 6 if has_s or has_t else 12)
    rr = (4 if has_s else 1) * (2 if has_t else 1)
    qr = np.tile(qr, (rr, 1))
    q = np.concatenate([q, L.ld(qr)], 0)
    s = np.concatenate([s, rng.choice(S, len(qr))])
    axis = np.concatenate([axis, gen.unit_vectors(rng, len(qr))])
    n = len(q)
    tn = np.where(rng.random(n) < 0.7, rng.choice(T, n), log_uniform(rng, n, -12, 6)) if has_t else np.zeros(n)
    t = directions(rng, axis, n) * tn[:, None]
    X = L.join_grp(G, L.ld(t), q, np.exp(L.ld(s)))
    return np.asarray(X, dtype=np.float64)


def algebra_ladder(kind, u, rng, tdraws, nrand):
    has_t, has_s = kind in ("se3", "sim3"), kind in ("rxso3", "sim3")
    A = np.array([v for v in angle_ladder(u) if v <= PI - 1e-3])
    S = np.array(gen.sigma_ladder(u)) if has_s else np.array([0.0])
    T = np.array(gen.trans_ladder())
    a, s = np.meshgrid(A, S, indexing="ij")
    a, s = a.reshape(-1), s.reshape(-1)
    reps = (tdraws if has_t else 1) * (1 if has_s else 8)
    a, s = np.tile(a, reps), np.tile(s, reps)
    ar, sr = random_cells(rng, nrand, PI - 1e-3)
    a, s = np.concatenate([a, ar]), np.concatenate([s, sr if has_s else 0 * sr])
    n = a.size
    axis = gen.unit_vectors(rng, n)
    tn = np.where(rng.random(n) < 0.7, rng.choice(T, n), log_uniform(rng, n, -12, 6)) if has_t else np.zeros(n)
    t = directions(rng, axis, n) * tn[:, None]
    return np.asarray(L.join_alg(kind, t, axis * a[:, None], s), dtype=np.float64)


# ---------------------------------------------------------------------- reference quantities of an input
def ref_of(G, Xin):
    """Reference (longdouble) description of rounded group elements: angle in [0, pi], sign of w,
    |v|, |w|, log-scale, |t|."""
    t, q, s = L.split_grp(G, Xin)
    vn = np.sqrt((q[..., :3] ** 2).sum(-1))
    w = q[..., 3]
    ang = 2 * np.arctan2(vn, np.abs(w))
    return {"t": t, "q": q, "s": s, "vn": vn, "w": w, "ang": ang.astype(np.float64),
            "sg": np.log(s).astype(np.float64), "tn": np.sqrt((t * t).sum(-1)).astype(np.float64)}


def regime(G, dn, r, i, u):
    hemi = "w>0" if r["w"][i] > 0 else "w<0" if r["w"][i] < 0 else "w=0"
    return (f"{G}/{dn}/th:{gen.cls_angle(r['ang'][i], u)}/{hemi}/sg:{gen.cls_small(r['sg'][i], u)}"
            f"/t:{gen.cls_trans(r['tn'][i])}")


def marks(ck, G, dn, r, u):
    """Coarse required regimes, defined on classes of the *input* (they survive a rewrite)."""
    su = np.sqrt(u)
    vn, aw, ang, sg = r["vn"].astype(np.float64), np.abs(r["w"]).astype(np.float64), r["ang"], np.abs(r["sg"])
    tag = f"in/{G}/{dn}/"
    for name, m in (("|v|>u&|w|>u", (vn > u) & (aw > u)), ("|v|>u&|w|<=u", (vn > u) & (aw <= u)),
                    ("|v|<=u", vn <= u), ("v=0", vn == 0), ("w=0", aw == 0),
                    ("w<0&angle>pi-1e-3", (r["w"] < 0) & (ang > PI - 1e-3)),
                    ("w>0&angle>pi-1e-3", (r["w"] > 0) & (ang > PI - 1e-3)),
                    ("w<0&angle<1e-3", (r["w"] < 0) & (ang < 1e-3))):
        c = int(np.count_nonzero(m))
        if c:
            ck.mark(tag + name, c)
    if G in ("RxSO3", "Sim3"):
        for name, m in (("th<=u&sg<=u", (ang <= u) & (sg <= u)), ("th<=u&sg>u", (ang <= u) & (sg > u)),
                        ("th>u&sg<=u", (ang > u) & (sg <= u)), ("th>u&sg>u", (ang > u) & (sg > u)),
                        ("both-in-(u,sqrt(u))", (ang > u) & (ang < su) & (sg > u) & (sg < su)),
                        ("sg-in-(u,sqrt(u))", (sg > u) & (sg < su))):
            c = int(np.count_nonzero(m))
            if c:
                ck.mark(tag + name, c)


def required(ck, G, dn):
    tag = f"in/{G}/{dn}/"
    ck.require(tag + "|v|>u&|w|>u", tag + "|v|>u&|w|<=u", tag + "|v|<=u", tag + "v=0", tag + "w=0",
               tag + "w<0&angle>pi-1e-3", tag + "w>0&angle>pi-1e-3", tag + "w<0&angle<1e-3")
    if G in ("RxSO3", "Sim3"):
        ck.require(tag + "th<=u&sg<=u", tag + "th<=u&sg>u", tag + "th>u&sg<=u", tag + "th>u&sg>u",
                   tag + "both-in-(u,sqrt(u))", tag + "sg-in-(u,sqrt(u))")


def nrm(a):
    return np.sqrt((a * a).sum(-1)).astype(np.float64)


def book(ck, monitor, tagkey, keys, rows_nontrivial):
    uniq, cnt = np.unique(np.array(keys), return_counts=True)
    for k, c in zip(uniq, cnt):
        ck.count(monitor, k, n=int(c), nontrivial=False)
    ck.digests.update(int(d) ^ key_digest((monitor,) + tagkey) for d in row_digests(rows_nontrivial))


def sub_ratios(ck, monitor, regime, err, tol, entry, mech, wit):
    """ck.ratios for a block-specific sub-monitor ('name.trans'), whose evaluations are counted here."""
    ok = ck.ratios(monitor, regime, err, tol, entry, mech, wit)
    ck.monitors[monitor]["calls"] += int(np.size(err))
    return ok


# ---------------------------------------------------------------------- monitors (a) (b) (c)
def monitor_log(ck, G, dn, X64, monitor="log_expm", clauses=True, mp_budget=0, rng=None):
    """X64: (N, D) rows of group elements (rounded to the dtype here; the rounded values are what
    pypose and the oracle see)."""
    dtype = lie.DT[dn]
    u = lie.u_of(dtype)
    tiny = 1e3 * lie.tiny_of(dtype)
    alg = L.GRP2ALG[G]
    X = lie.lt(G, X64, dtype)
    entry = f"{G}.Log"
    n = int(X.shape[0])
    if n == 0:
        return
    okc, x = ck.call(monitor, f"{G}/{dn}", entry, lambda: X.Log(), witness={"n": n})
    if not okc:
        return
    Xin = X.tensor().detach().double().numpy()
    out = x.tensor().detach().double().numpy()
    ck.check(x.ltype is lie.LT[alg] and x.dtype == dtype and tuple(x.shape) == (n, L.ALG[alg]),
             monitor, f"{G}/{dn}", entry, "type_or_shape", {"ltype": str(x.ltype), "shape": list(x.shape)})
    r = ref_of(G, Xin)
    s = r["s"].astype(np.float64)
    E = L.exp_matrix(alg, out)
    M = L.group_matrix(G, Xin)
    tau, phi, sigma = L.split_alg(alg, out)
    ntau, th_out = nrm(tau), nrm(phi)
    d_rot = np.abs(M[:, :3, :3] - E[:, :3, :3]).max((-1, -2)).astype(np.float64)
    tol_rot = C_ROT * u * s
    d_t = nrm(M[:, :3, 3] - E[:, :3, 3])
    tol_t = C_TRANS_REL * np.sqrt(u) * r["tn"] + C_TRANS_ABS * u * ntau * np.maximum(1.0, s) + tiny

    def wit(i):
        return {"group": G, "dtype": dn, "X": Xin[i].tolist(), "X_hex": [float(v).hex() for v in Xin[i]],
                "Log_X": out[i].tolist(), "angle_ref": float(r["ang"][i]), "w": float(r["w"][i]),
                "sigma_ref": float(r["sg"][i]), "t_norm": float(r["tn"][i]),
                "t_of_X": np.asarray(M[i, :3, 3], dtype=np.float64).tolist(),
                "t_of_expm_Log": np.asarray(E[i, :3, 3], dtype=np.float64).tolist()}

    keys = [regime(G, dn, r, i, u) for i in range(n)]
    ident = (r["vn"] == 0) & (r["tn"] == 0) & (r["s"] == 1)
    book(ck, monitor, (G, dn), keys, Xin[~ident])
    marks(ck, G, dn, r, u)
    rg = f"{G}/{dn}"
    ck.check(bool(np.isfinite(out).all()), monitor, rg, entry, "non_finite_output",
             lambda: wit(int(np.nonzero(~np.isfinite(out).all(-1))[0][0])))
    ck.ratios(monitor, rg, d_rot, tol_rot, entry, "expm_of_Log_rotation_scale_block", wit)
    if G in ("SE3", "Sim3"):
        ck.ratios(monitor + ".trans", rg, d_t, tol_t, entry, "expm_of_Log_translation_block", wit)
        ck.monitors[monitor + ".trans"]["calls"] += n
    # (b) principal branch
    ck.ratios("log_norm", rg, np.maximum(th_out - PI, 0.0), C_NORM * u * PI, entry, "rotation_norm_exceeds_pi", wit)
    ck.monitors["log_norm"]["calls"] += n
    ck.note_max("max_rot_err_over_u", float((d_rot / (u * s)).max()))
    if len(ck.samples) < 6:
        j = n // 2
        ck.sample({"group": G, "dtype": dn, "X_hex": [float(v).hex() for v in Xin[j]], "Log_X": out[j].tolist(),
                   "rot_err_over_eps": float(d_rot[j] / u), "trans_err": float(d_t[j])})

    # (c) away from pi: same Log for the negated quaternion, Log(Inv X) = -Log X
    if clauses:
        away = r["ang"] <= PI - 1e-2
        idx = np.nonzero(away)[0]
        if idx.size:
            qs = {"SO3": slice(0, 4), "SE3": slice(3, 7), "RxSO3": slice(0, 4), "Sim3": slice(3, 7)}[G]
            Xa = X.tensor()[torch.as_tensor(idx)]
            Xn = Xa.clone()
            Xn[:, qs] = -Xn[:, qs]
            ref_tau, ref_phi, ref_sig = ntau[idx], th_out[idx], np.abs(sigma[idx]).astype(np.float64)

            def cmp(mon, got, want, mech_prefix, entry_, tol_sig_abs):
                g = got.tensor().detach().double().numpy()
                gt, gp, gs = L.split_alg(alg, g)
                wt, wp, ws = L.split_alg(alg, want)
                wi = lambda k: dict(wit(int(idx[k])), other_Log=g[k].tolist())  # noqa: E731
                keys_ = [keys[i] for i in idx]
                book(ck, mon, (G, dn), keys_, Xin[idx][~ident[idx]])
                ck.check(bool(np.isfinite(g).all()), mon, rg, entry_, "non_finite_output")
                ck.ratios(mon, rg, nrm(gp - wp), C_PHI * u * ref_phi + tiny, entry_, mech_prefix + "_rotation", wi)
                if G in ("RxSO3", "Sim3"):
                    sub_ratios(ck, mon + ".sigma", rg, np.abs(gs - ws).astype(np.float64), tol_sig_abs, entry_,
                               mech_prefix + "_log_scale", wi)
                if G in ("SE3", "Sim3"):
                    sub_ratios(ck, mon + ".trans", rg, nrm(gt - wt), C_TRANS_REL * np.sqrt(u) * ref_tau + tiny, entry_,
                               mech_prefix + "_translation", wi)

            okn, xn = ck.call("log_negq", rg, entry, lambda: lie.lt(G, Xn, dtype).Log())
            if okn:
                cmp("log_negq", xn, out[idx], "Log_differs_for_negated_quaternion", entry, 4 * u * ref_sig + tiny)
            oki, xi = ck.call("log_inv", rg, f"{G}.Inv+Log", lambda: lie.lt(G, Xa, dtype).Inv().Log())
            if oki:
                cmp("log_inv", xi, -out[idx], "Log_of_Inv_is_not_minus_Log", f"{G}.Inv+Log",
                    C_SIG * u * (1 + ref_sig))

    # direct mpmath judgement of a sample (pypose vs mp, oracle vs mp)
    if mp_budget:
        for i in rng.choice(n, size=min(mp_budget, n), replace=False):
            Em = L.mp_to_ld(L.mp_expm(L.generator(alg, out[i])))
            gap = oracle_gap(E[i], Em, ntau[i], np.exp(float(sigma[i])))
            ck.note_max("max_oracle_vs_mpmath", gap)
            if gap > 0.5:
                ck.inconclusive_because(f"longdouble oracle disagrees with mpmath by {gap:.2e} float64 error units at "
                                        f"{out[i].tolist()}")
            ck.count("log_mp", keys[i], key=(G, dn, Xin[i].tobytes()), nontrivial=not bool(ident[i]))
            ck.ratio("log_mp", keys[i], float(np.abs(M[i, :3, :3] - Em[:3, :3]).max()), tol_rot[i], entry,
                     "expm_of_Log_rotation_scale_block", lambda: wit(int(i)))
            if G in ("SE3", "Sim3"):
                ck.ratio("log_mp", keys[i], float(nrm(M[i, :3, 3] - Em[:3, 3])), tol_t[i], entry,
                         "expm_of_Log_translation_block", lambda: wit(int(i)))


def oracle_gap(E, Em, tau_norm, s):
    """Discrepancy of the two reference exponentials in float64 error units of each block."""
    u = 2.0 ** -52
    a = float(np.abs(E[:3, :3] - Em[:3, :3]).max()) / (u * s)
    nt = float(np.sqrt((Em[:3, 3] ** 2).sum()))
    den = np.sqrt(u) * nt + u * tau_norm * max(1.0, s)
    b = float(np.sqrt(((E[:3, 3] - Em[:3, 3]) ** 2).sum())) / den if den > 0 else float(np.abs(E[:3, 3]).max())
    return max(a, b)


# ---------------------------------------------------------------------- monitor (d)
def monitor_log_exp(ck, kind, dn, x64):
    dtype = lie.DT[dn]
    u = lie.u_of(dtype)
    tiny = 1e3 * lie.tiny_of(dtype)
    x = lie.lt(kind, x64, dtype)
    n = int(x.shape[0])
    G = L.ALG2GRP[kind]
    entry = f"{kind}.Exp+{G}.Log"
    rg = f"{kind}/{dn}"
    okc, y = ck.call("log_exp", rg, entry, lambda: x.Exp().Log(), witness={"n": n})
    if not okc:
        return
    xin = x.tensor().detach().double().numpy()
    got = y.tensor().detach().double().numpy()
    ck.check(y.ltype is lie.LT[kind] and y.dtype == dtype and tuple(y.shape) == tuple(x.shape), "log_exp", rg, entry,
             "type_or_shape", {"ltype": str(y.ltype), "shape": list(y.shape)})
    tau, phi, sigma = L.split_alg(kind, xin)
    gt, gp, gs = L.split_alg(kind, got)
    th, nt, sg = nrm(phi), nrm(tau), sigma.astype(np.float64)
    ok_dom = th <= PI - 1e-3
    keys = [f"{kind}/{dn}/th:{gen.cls_angle(th[i], u)}/sg:{gen.cls_small(sg[i], u)}/ta:{gen.cls_trans(nt[i])}"
            for i in range(n)]
    book(ck, "log_exp", (kind, dn), keys, xin[np.abs(xin).sum(-1) > 0])

    def wit(i):
        return {"algebra": kind, "dtype": dn, "x": xin[i].tolist(), "x_hex": [float(v).hex() for v in xin[i]],
                "Log_Exp_x": got[i].tolist(), "theta": float(th[i]), "sigma": float(sg[i]), "tau_norm": float(nt[i])}

    m = ok_dom
    sel = lambda a: a[m]  # noqa: E731
    wi = lambda k: wit(int(np.nonzero(m)[0][k]))  # noqa: E731
    ck.check(bool(np.isfinite(got[m]).all()), "log_exp", rg, entry, "non_finite_output")
    ck.ratios("log_exp", rg, sel(nrm(gp - phi)), C_PHI * u * sel(th) + tiny, entry, "Log_Exp_rotation", wi)
    if kind in ("rxso3", "sim3"):
        ck.ratios("log_exp.sigma", rg, sel(np.abs(gs - sigma).astype(np.float64)), C_SIG * u * (1 + np.abs(sel(sg))),
                  entry, "Log_Exp_log_scale", wi)
        ck.monitors["log_exp.sigma"]["calls"] += int(m.sum())
    if kind in ("se3", "sim3"):
        ck.ratios("log_exp.trans", rg, sel(nrm(gt - tau)), C_TRANS_REL * np.sqrt(u) * sel(nt) + tiny, entry,
                  "Log_Exp_translation", wi)
        ck.monitors["log_exp.trans"]["calls"] += int(m.sum())
    su = np.sqrt(u)
    for name, mm in (("th<=u", th <= u), ("th-in-(u,sqrt(u))", (th > u) & (th < su)), ("th>pi-1e-2", th > PI - 1e-2)):
        if mm.any():
            ck.mark(f"alg/{kind}/{dn}/{name}", int(mm.sum()))


# ---------------------------------------------------------------------- driver
def run(ck):
    rng = ck.rng("c02")
    thorough = ck.tier == "thorough"
    tdraws = 12 if thorough else 3
    nrand = 60000 if thorough else 8000
    mp_budget = 250 if thorough else 25
    worst = L.selftest(ck.rng("selftest"), n=6 if thorough else 2)
    ck.note_max("max_oracle_selftest_rel", worst)
    if worst > 1e-17:
        ck.inconclusive_because(f"longdouble expm oracle off by {worst:.2e} relative against mpmath")
    for dn in ("f64", "f32"):
        u = lie.u_of(lie.DT[dn])
        for G in lie.GRPS:
            alg = L.GRP2ALG[G]
            X = group_ladder(G, u, rng, tdraws, nrand)
            X = X[rng.permutation(len(X))]
            # mixed regimes inside one batched call (masked / index-set paths see every mixture)
            for c in np.array_split(X, max(1, len(X) // 20000)):
                monitor_log(ck, G, dn, c, mp_budget=mp_budget, rng=rng)
            # uniform regimes: single items, every item of the call in the same index set
            singles = raw_quats(u, rng, 0)
            S = (0.0, u, np.sqrt(u) / 2, -0.3) if G in ("RxSO3", "Sim3") else (0.0,)
            for k, q in enumerate(singles):
                sg = S[k % len(S)]
                row = np.asarray(L.join_grp(G, L.ld([[1.0, -2.0, 0.5]]), L.ld(q[None]), np.exp(L.ld([sg]))), dtype=np.float64)
                monitor_log(ck, G, dn, row, monitor="log_single", clauses=False)
            x = algebra_ladder(alg, u, rng, tdraws, nrand)
            x = x[rng.permutation(len(x))]
            for c in np.array_split(x, max(1, len(x) // 20000)):
                monitor_log_exp(ck, alg, dn, c)
            required(ck, G, dn)
            ck.require(f"alg/{alg}/{dn}/th<=u", f"alg/{alg}/{dn}/th-in-(u,sqrt(u))", f"alg/{alg}/{dn}/th>pi-1e-2")
        # batch shapes: the op on a shaped tensor equals the op on its items
        for G in lie.GRPS:
            alg = L.GRP2ALG[G]
            D = L.GRP[G]
            for shp in gen.batch_shapes():
                nit = int(np.prod(shp)) if shp else 1
                Xs = lie.random_group(G, rng, max(nit, 1), lie.DT[dn], adversarial=True, sigma_max=2.0)
                Xt = lie.lt(G, Xs.tensor()[:nit].reshape(shp + (D,)), lie.DT[dn])
                okc, Y = ck.call("log_shape", f"{G}/{dn}/{shp}", f"{G}.Log", lambda: pp.Log(Xt))
                if not okc:
                    continue
                ck.count("log_shape", f"{G}/{dn}/rank{len(shp)}{'/empty' if 0 in shp else ''}", key=str(shp),
                         nontrivial=0 not in shp)
                ck.check(tuple(Y.shape) == shp + (L.ALG[alg],) and Y.ltype is lie.LT[alg] and Y.dtype == lie.DT[dn],
                         "log_shape", str(shp), f"{G}.Log", "type_or_shape", {"shape": list(Y.shape)})
                if 0 not in shp:
                    flat = lie.lt(G, Xt.tensor().reshape(-1, D), lie.DT[dn]).Log().tensor()
                    dlt = (flat.reshape(Y.shape) - Y.tensor()).abs().max().item()
                    ck.ratio("log_shape", str(shp), dlt, 8 * lie.u_of(lie.DT[dn]) * (1 + Y.tensor().abs().max().item()),
                             f"{G}.Log", "batched_differs_from_flat", {"shape": list(shp)})
                    monitor_log(ck, G, dn, Xt.tensor().reshape(-1, D).double().numpy(), monitor="log_shape_items")
    # ---- realistic driver (added by the framework owner): Log calls made inside optimisers, IMU integration and
    # splines are fed to the same monitor through the globally attached observer (inputs real use produces)
    from .. import attach
    busy = [False]

    def on_log(G, X, x):
        if busy[0]:
            return
        dn = "f64" if X.dtype == torch.float64 else "f32" if X.dtype == torch.float32 else None
        if dn is None or not torch.isfinite(X).all():
            return
        busy[0] = True
        try:
            monitor_log(ck, G, dn, X.double().numpy(), monitor="log_attached", clauses=False)
        finally:
            busy[0] = False
    with attach.observe(on_log=on_log) as st:
        for dt_ in (torch.float64, torch.float32):
            attach.realistic_workloads(ck.rng("attached"), dt_, steps=10 if ck.tier == "thorough" else 6)
    if ck.shard == ck.nshards - 1:
        attach.run_repository_tests(ck, ["log"])        # the repository's own tests, Log monitor attached
        ck.require("suite/ran_under_monitors")
    ck.note_add("attached_log_calls", st["log_calls"])
    if ck.shard == 0:
        from .. import history
        history.run(ck, "C02", reps=4 if ck.tier == "thorough" else 2)
    ck.floor("log_attached", 50)
    ck.floor("log_expm", 1000)
    ck.floor("log_negq", 500)
    ck.floor("log_inv", 500)
    ck.floor("log_exp", 1000)
    ck.floor("log_mp", 20)
