"""Dynamic 'sanitizers' of this stack: ATen write-watch, purity snapshots, patch-leak check,
source-free failpoints (sys.monitoring LINE events)."""
import sys

import torch
from torch.utils._python_dispatch import TorchDispatchMode
from torch.utils._pytree import tree_flatten


# ------------------------------------------------------------------ purity snapshots
def tensors_in(obj, out=None, depth=0):
    """All tensors reachable from call arguments (lists / tuples / dicts, not module state)."""
    if out is None:
        out = []
    if isinstance(obj, torch.Tensor):
        out.append(obj)
    elif isinstance(obj, (list, tuple)) and depth < 4:
        for o in obj:
            tensors_in(o, out, depth + 1)
    elif isinstance(obj, dict) and depth < 4:
        for o in obj.values():
            tensors_in(o, out, depth + 1)
    return out


def snapshot(tensors):
    snaps = []
    for t in tensors:
        d = torch.Tensor.as_subclass(t.detach(), torch.Tensor) if not t.is_sparse and t.layout == torch.strided else None
        snaps.append(None if d is None else d.clone())
    return snaps


def changed(tensors, snaps):
    """Indices of tensors whose values differ bitwise (NaN-aware) from the snapshot."""
    bad = []
    for i, (t, s) in enumerate(zip(tensors, snaps)):
        if s is None:
            continue
        d = torch.Tensor.as_subclass(t.detach(), torch.Tensor)
        if d.shape != s.shape or d.dtype != s.dtype:
            bad.append(i)
            continue
        if d.is_floating_point() or d.is_complex():
            same = torch.equal(torch.nan_to_num(d, nan=12345.678), torch.nan_to_num(s, nan=12345.678)) and \
                torch.equal(torch.isnan(d), torch.isnan(s))
        else:
            same = torch.equal(d, s)
        if not same:
            bad.append(i)
    return bad


class WriteWatch(TorchDispatchMode):
    """Sees every ATen call made while a public function runs; records the ops whose schema
    marks an argument as written when that argument shares storage with a watched tensor."""

    def __init__(self, watched):
        super().__init__()
        self.ptrs = {}
        for i, t in enumerate(watched):
            try:
                self.ptrs[t.untyped_storage().data_ptr()] = i
            except Exception:
                pass
        self.writes = []
        self.ops = 0

    def __torch_dispatch__(self, func, types, args=(), kwargs=None):
        kwargs = kwargs or {}
        self.ops += 1
        try:
            schema = func._schema
            for a, v in zip(schema.arguments, args):
                if a.alias_info is not None and a.alias_info.is_write and isinstance(v, torch.Tensor):
                    p = v.untyped_storage().data_ptr()
                    if p in self.ptrs:
                        self.writes.append((str(func), self.ptrs[p]))
        except Exception:
            pass
        return func(*args, **kwargs)


# ------------------------------------------------------------------ patch-leak
import torch._functorch.vmap as _vmap
import torch._functorch.eager_transforms as _et
import torch.autograd.forward_ad as _fad

ORIGINALS = {"forward_ad.make_dual": _fad.make_dual,
             "eager_transforms._wrap_tensor_for_grad": _et._wrap_tensor_for_grad,
             "vmap._add_batch_dim": _vmap._add_batch_dim}


def patch_leaks():
    """Names of the torch internals that are not *the* objects captured at import."""
    now = {"forward_ad.make_dual": _fad.make_dual,
           "eager_transforms._wrap_tensor_for_grad": _et._wrap_tensor_for_grad,
           "vmap._add_batch_dim": _vmap._add_batch_dim}
    return [k for k in ORIGINALS if now[k] is not ORIGINALS[k]]


def restore_patches():
    _fad.make_dual = ORIGINALS["forward_ad.make_dual"]
    _et._wrap_tensor_for_grad = ORIGINALS["eager_transforms._wrap_tensor_for_grad"]
    _vmap._add_batch_dim = ORIGINALS["vmap._add_batch_dim"]


# ------------------------------------------------------------------ failpoints
class InjectedFault(RuntimeError):
    pass


class InjectedBaseFault(BaseException):
    """KeyboardInterrupt-class fault (does not derive from Exception)."""


class FaultInjector:
    """Counts LINE events in the selected files while `armed`, and raises at the k-th one.

    with FaultInjector(files, k=None) as fi: ...   -> dry run, fi.count = number of events
    with FaultInjector(files, k=7, exc=InjectedFault) as fi: ...  -> raises at the 7th event
    The harness arms it only while the user function is on the stack.
    """
    TOOL = 3

    def __init__(self, prefixes, k=None, exc=InjectedFault):
        self.prefixes, self.k, self.exc = tuple(prefixes), k, exc
        self.count, self.armed, self.fired_at = 0, False, None
        self._decided = {}

    def _cb(self, code, line):
        mon = sys.monitoring
        ok = self._decided.get(code)
        if ok is None:
            ok = code.co_filename.startswith(self.prefixes)
            self._decided[code] = ok
        if not ok:
            return mon.DISABLE
        if not self.armed:
            return None
        self.count += 1
        if self.k is not None and self.count == self.k:
            self.fired_at = (code.co_filename, line, code.co_name)
            self.armed = False
            raise self.exc(f"injected fault #{self.k} at {code.co_filename}:{line}")
        return None

    def __enter__(self):
        mon = sys.monitoring
        mon.use_tool_id(self.TOOL, "vrf-failpoints")
        mon.register_callback(self.TOOL, mon.events.LINE, self._cb)
        mon.set_events(self.TOOL, mon.events.LINE)
        mon.restart_events()
        return self

    def __exit__(self, *a):
        mon = sys.monitoring
        mon.set_events(self.TOOL, 0)
        mon.register_callback(self.TOOL, mon.events.LINE, None)
        mon.free_tool_id(self.TOOL)
        return False
