"""C11 — matrix and Euler conversions are inverses of matrix() / of each other.

Monitors (oracle = lie_ref in longdouble, never pypose):

  from_matrix_ref   mat2SO3/mat2SE3/mat2RxSO3/mat2Sim3/from_matrix on matrices built by the *reference*
                    (group_matrix rounded to the dtype; 3x3 / 3x4 / 4x4): the returned element has the
                    same matrix (blockwise, relative to the scale), a unit quaternion, the same scale
                    (cube root of the determinant of what was passed in) and the same translation.
  from_matrix_pp    the same on X.matrix() of a LieTensor X (so the literal statement of the property);
                    the main path is the reference-built one so that a bug in matrix() cannot mask a
                    bug in mat2*.
  euler2SO3         equals Rz(yaw) Ry(pitch) Rx(roll) built in longdouble from the (rounded) angles.
  euler_roundtrip   X.euler(eps): outside the gimbal band (|sin pitch| < 1 - eps, with a 64u margin so
                    that the library's own flag cannot disagree with the oracle's) the angles are in
                    their principal ranges and give back the rotation of X, both through the longdouble
                    Rz Ry Rx and through the library's euler2SO3.  Tolerance C*u/cos(pitch).
  check_rejects     check=True: matrices whose measured defect (orthogonality, determinant; measured in
                    longdouble on the rounded input, after removing the scale for the scaled types)
                    exceeds the stated atol/rtol by >= 10x must raise ValueError.
  check_accepts     matrices whose measured defect is <= 0.1x the tolerance never raise.
"""
import warnings

import numpy as np
import torch
import pypose as pp

from .. import gen, lie
from ..oracles import lie_ref as L

PID = "C11"
LEVEL = "exploration"
SHARDS = {"quick": 4, "thorough": 16}
TIMEOUT = {"quick": 900, "thorough": 5400}
RULE = ("Rotations drawn per item from 9 recipes (uniform; angle pi+-{0,1e-12..1e-3} about an axis dominated by x / y / "
        "z; exact 0, pi/2, pi about coordinate axes; pi+-delta and exactly w=0 about random axes; ties (1,1,0),(1,0,1),"
        "(0,1,1),(1,1,1) at pi and 2pi/3; R22 within +-1e-5 of the library's branch threshold; angle 0/1e-12..1e-3), "
        "random quaternion sign, scales log-uniform in [1e-3,1e3] incl. the end points, translations 1e-3..1e3; every "
        "function x accepted layout (3x3, 3x4, 4x4) x dtype x check flag, flat batches and 7 batch shapes. Euler angles: "
        "principal ranges, beyond them (to 4pi, some to 50), exact multiples of pi/2, pitch = +-(pi/2 - k*sqrt(2 eps)). "
        "Rejection: stretch, shear, reflection, noise, rank deficiency, uniform scale (unscaled types), one bad item "
        "in a valid batch, each kept only if its measured defect is >= 10x (<= 0.1x for the valid ones) the tolerance. "
        "One case = one matrix / one angle triple; distinct = distinct input bit patterns per monitor.")
ASSUME = ["lie_ref.group_matrix / quat_R in longdouble; Rz Ry Rx built from longdouble sin/cos of the rounded angles",
          "the scale of a passed matrix is the cube root of its determinant (longdouble cofactor expansion)",
          "tolerances: rotation block 32 u s (64 u s on X.matrix()), unit quaternion 24 u, scale 32 u s, "
          "translation 4 u |t|; euler2SO3 24 u; round trip 24 u / cos(pitch) (+24 u through the library's euler2SO3)",
          "inside the gimbal band |sin pitch| >= 1 - eps - 64u nothing but finiteness is judged",
          "a wrong 4x4 bottom row is documented to warn, not to raise: observed, not judged",
          "empty batches are not in the property's quantifier and are not exercised", "CPU only"]

C_ROT, C_ROT_PP, C_Q, C_S, C_T, C_E2S, C_RT = 32.0, 64.0, 24.0, 32.0, 4.0, 24.0, 24.0
HAS_T = {"SO3": False, "SE3": True, "RxSO3": False, "Sim3": True}
HAS_S = {"SO3": False, "SE3": False, "RxSO3": True, "Sim3": True}
MAT2 = {"SO3": pp.mat2SO3, "SE3": pp.mat2SE3, "RxSO3": pp.mat2RxSO3, "Sim3": pp.mat2Sim3}
LAYOUTS = ("3x3", "3x4", "4x4")
RECIPES = ("uniform", "pi-x", "pi-y", "pi-z", "axis-exact", "pi-random", "ties", "R22-threshold", "tiny")
PI = np.arctan(L.LD(1)) * 4
SHAPES = [(), (1,), (5,), (2, 2), (2, 3), (3, 1, 2), (2, 3, 4)]


# ------------------------------------------------------------------------------- generators
def make_quats(rng, n, recipe=None):
    """(n,4) longdouble unit quaternions and the recipe index of each."""
    rec = rng.integers(0, len(RECIPES), n) if recipe is None else np.full(n, RECIPES.index(recipe))
    axis = L.ld(gen.unit_vectors(rng, n, 0.0))
    ang = L.ld(rng.uniform(0, np.pi, n))
    dl = L.ld(10.0 ** rng.uniform(-12, -3, n)) * L.ld(rng.choice([-1.0, 0.0, 1.0], n))
    for k in (1, 2, 3):                                   # axis dominated by x / y / z
        m = rec == k
        if m.any():
            a = 0.35 * rng.standard_normal((int(m.sum()), 3))
            a[:, k - 1] = rng.choice([-1.0, 1.0], int(m.sum())) * (1 + np.abs(a[:, k - 1]))
            axis[m] = L.ld(a)
    m = rec == 6
    if m.any():
        ties = np.array([[1, 1, 0], [1, 0, 1], [0, 1, 1], [1, 1, 1], [1, -1, 0], [-1, 1, 1], [1, 0, -1]], dtype=np.float64)
        axis[m] = L.ld(ties[rng.integers(0, len(ties), int(m.sum()))])
    near = (rec == 1) | (rec == 2) | (rec == 3) | (rec == 5)
    ang = np.where(near, PI + dl, ang)
    tie_ang = np.where(rng.integers(0, 2, n) == 0, PI + dl, 2 * PI / 3 + dl)
    ang = np.where(rec == 6, tie_ang, ang)
    ang = np.where(rec == 8, np.abs(dl), ang)
    # R22 = cos(angle) about x or y within a few 1e-5 of 0 (the library switches branch at R22 < atol)
    m = rec == 7
    if m.any():
        k = int(m.sum())
        a = np.zeros((k, 3))
        a[np.arange(k), rng.integers(0, 2, k)] = rng.choice([-1.0, 1.0], k)
        axis[m] = L.ld(a) + L.ld(rng.standard_normal((k, 3)) * rng.choice([0.0, 1e-9, 1e-6], k)[:, None])
        c = rng.choice([0.0, 1e-5, -1e-5, 1e-5 * (1 + 1e-3), 1e-5 * (1 - 1e-3), 1e-6, 2e-5, 1e-5 * (1 + 1e-9)], k)
        ang[m] = np.arccos(L.ld(c))
    q = L.axis_angle_quat(axis, ang)
    q[(rec == 5) & (dl == 0), 3] = 0                       # exactly pi about a random axis
    m = rec == 4
    if m.any():
        k = int(m.sum())
        qa = np.zeros((k, 4), dtype=L.LD)
        idx, which = rng.integers(0, 3, k), rng.integers(0, 4, k)
        r2 = np.sqrt(L.LD(0.5))
        for j in range(k):
            if which[j] <= 1:
                qa[j, idx[j]] = 1                         # pi about x / y / z
            elif which[j] == 2:
                qa[j, idx[j]], qa[j, 3] = r2, r2           # pi/2
            else:
                qa[j, 3] = 1
        q[m] = qa
    q = q * L.ld(rng.choice([-1.0, 1.0], n))[:, None]
    return q, rec


def make_scales(rng, n):
    s = 10.0 ** rng.uniform(-3, 3, n)
    pick = rng.integers(0, 10, n)
    s = np.where(pick == 0, 1e-3, np.where(pick == 1, 1e3, np.where(pick == 2, 1.0, s)))
    return L.ld(s)


def make_trans(rng, n):
    t = rng.standard_normal((n, 3)) * 10.0 ** rng.integers(-3, 4, (n, 1))
    t[rng.integers(0, 12, n) == 0] = 0
    return L.ld(t)


def det3(A):
    return (A[..., 0, 0] * (A[..., 1, 1] * A[..., 2, 2] - A[..., 1, 2] * A[..., 2, 1])
            - A[..., 0, 1] * (A[..., 1, 0] * A[..., 2, 2] - A[..., 1, 2] * A[..., 2, 0])
            + A[..., 0, 2] * (A[..., 1, 0] * A[..., 2, 1] - A[..., 1, 1] * A[..., 2, 0]))


def dominance(R):
    """c0..c3: which of R00, R11, R22, trace is the largest (the four regions of the extraction)."""
    tr = R[..., 0, 0] + R[..., 1, 1] + R[..., 2, 2]
    return np.stack([R[..., 0, 0], R[..., 1, 1], R[..., 2, 2], tr], -1).astype(np.float64).argmax(-1)


def lib_region(R, atol=1e-5):
    """the documented partition of the inputs used by the library (thresholds on the diagonal)."""
    d2 = R[..., 2, 2] < atol
    a = R[..., 0, 0] > R[..., 1, 1]
    b = R[..., 0, 0] < -R[..., 1, 1]
    return np.where(d2 & a, 0, np.where(d2 & ~a, 1, np.where(~d2 & b, 2, 3)))


def layout_of(M4, layout):
    return M4[..., :3, :3] if layout == "3x3" else M4[..., :3, :] if layout == "3x4" else M4


def raw(X):
    if isinstance(X, pp.LieTensor):
        X = X.tensor()
    return X.detach().double().numpy()


def rows_of(Mt):
    a = Mt.detach().double().numpy()
    return a.reshape(-1, a.shape[-2] * a.shape[-1]) if a.size else a.reshape(0, 1)


def conv_call(ck, monitor, regime, entry, fn, witness):
    """A conversion of a valid input: an exception is a violation.  The broadcast failure of the scale
    test on batch ranks >= 2 gets its own mechanism tag."""
    try:
        with warnings.catch_warnings():
            warnings.simplefilter("ignore")
            return True, fn()
    except Exception as e:  # noqa
        msg = repr(e)[:300]
        mech = "raised:" + type(e).__name__
        if isinstance(e, RuntimeError) and "must match the size of tensor" in msg:
            mech = "raised:RuntimeError:scale_test_does_not_broadcast_over_batch_rank>=2"
        w = dict(witness() if callable(witness) else witness)
        w["exception"] = msg
        ck.violation(monitor, regime, entry, mech, w)
        return False, None


# ------------------------------------------------------------------------------- from_matrix monitors
def judge_element(ck, monitor, reg, entry, kind, dn, layout, out, Mr, shape, c_rot, wit, rec, ref_t=None):
    """out: LieTensor returned for the (rounded) input matrices Mr (longdouble, shape + (r, c))."""
    dtype = lie.DT[dn]
    u, tiny = lie.u_of(dtype), lie.tiny_of(dtype)
    if not ck.check(isinstance(out, pp.LieTensor) and out.ltype is lie.LT[kind] and out.dtype == dtype
                    and tuple(out.shape) == tuple(shape) + (L.GRP[kind],), monitor, reg, entry, "type_or_shape",
                    lambda: {"shape": list(out.shape), "ltype": str(getattr(out, "ltype", None)), "expected": list(shape)}):
        return
    Xr = raw(out).reshape(-1, L.GRP[kind])
    Mr = Mr.reshape((-1,) + Mr.shape[-2:])
    A = Mr[:, :3, :3]
    s_ref = np.cbrt(det3(A)) if HAS_S[kind] else np.ones(A.shape[0], dtype=L.LD)
    t_ref = Mr[:, :3, 3] if (HAS_T[kind] and Mr.shape[-1] == 4) else np.zeros((A.shape[0], 3), dtype=L.LD)
    Mo = L.group_matrix(kind, Xr)
    t_o, q_o, s_o = L.split_grp(kind, Xr)
    sabs = np.abs(s_ref).astype(np.float64)
    with np.errstate(all="ignore"):
        d_rot = np.abs(Mo[:, :3, :3] - A).max((-1, -2)).astype(np.float64)
        d_q = np.abs(L.quat_norm(q_o) - 1).astype(np.float64)
        d_s = np.abs(s_o - s_ref).astype(np.float64)
        d_t = np.sqrt(((t_o - t_ref) ** 2).sum(-1)).astype(np.float64)
        tn = np.sqrt((t_ref ** 2).sum(-1)).astype(np.float64)
    ck.ratios(monitor, reg, d_rot, c_rot * u * sabs, entry, "matrix_of_result_differs:rotation_scale_block", wit)
    ck.ratios(monitor, reg, d_q, C_Q * u, entry, "quaternion_not_unit", wit)
    if HAS_S[kind]:
        ck.ratios(monitor, reg, d_s, C_S * u * sabs, entry, "scale_differs", wit)
        ck.check(bool(np.all(s_o > 0)), monitor, reg, entry, "scale_not_positive", lambda: wit(0))
    ck.ratios(monitor, reg, d_t, C_T * u * tn + tiny * (tn > 0), entry, "translation_differs", wit)
    # bookkeeping: regions of the quaternion extraction, defined on the input
    R = A / np.where(s_ref == 0, 1, s_ref)[:, None, None]
    dom, reg_lib = dominance(R), lib_region(np.asarray(R, dtype=np.float64))
    ang = L.rotation_angle(R).astype(np.float64)
    acl = np.where(np.abs(ang - np.pi) < 1e-2, 1, 0)
    key = dom * 2 + acl
    uniq, cnt = np.unique(key, return_counts=True)
    for k, c in zip(uniq, cnt):
        ck.count(monitor, f"{reg}/dom:c{int(k) // 2}/{'~pi' if int(k) % 2 else 'generic'}", n=int(c), nontrivial=False)
    for k in np.unique(dom):
        ck.mark(f"dom/{kind}/{dn}/c{int(k)}", int((dom == k).sum()))
        ck.mark(f"dom~pi/{kind}/{dn}/c{int(k)}", int(((dom == k) & (acl == 1)).sum()))
    for k in np.unique(reg_lib):
        ck.mark(f"region/{kind}/{dn}/c{int(k)}", int((reg_lib == k).sum()))
    if rec is not None:
        for k in np.unique(rec):
            ck.mark(f"recipe/{kind}/{dn}/{RECIPES[int(k)]}", int((np.asarray(rec) == k).sum()))
    from ..core import row_digests, key_digest
    ck.digests.update(int(d) ^ key_digest((monitor, kind, dn, layout)) for d in
                      row_digests(np.asarray(Mr, dtype=np.float64).reshape(Mr.shape[0], -1)))
    ck.note_max(f"max_rot_err_over_u_s/{dn}", float(np.nanmax(d_rot / (u * sabs))) if len(d_rot) else 0.0)


def reference_batch(kind, rng, shape, dtype, recipe=None):
    """Reference-built 4x4 matrices (longdouble, then rounded to dtype) of valid elements."""
    n = int(np.prod(shape, dtype=np.int64)) if len(shape) else 1
    q, rec = make_quats(rng, n, recipe)
    s = make_scales(rng, n) if HAS_S[kind] else np.ones(n, dtype=L.LD)
    t = make_trans(rng, n)                     # also for the rotation-only types: must be ignored there
    M = np.zeros((n, 4, 4), dtype=L.LD)
    M[:, :3, :3] = s[:, None, None] * L.quat_R(q)
    M[:, :3, 3] = t
    M[:, 3, 3] = 1
    Mt = torch.as_tensor(np.asarray(M, dtype=np.float64).reshape(tuple(shape) + (4, 4))).to(dtype)
    Xref = np.asarray(L.join_grp(kind, t, q, s), dtype=np.float64).reshape(tuple(shape) + (L.GRP[kind],))
    return Mt, rec, Xref


def witness_mat(kind, dn, layout, Mt, fn):
    a = Mt.detach().double().numpy()
    a = a.reshape((-1,) + a.shape[-2:])

    def w(i):
        j = i % a.shape[0] if a.shape[0] else 0
        return {"kind": kind, "dtype": dn, "layout": layout, "fn": fn, "batch_shape": list(Mt.shape[:-2]),
                "matrix": a[j].tolist(), "matrix_hex": [[float(v).hex() for v in r] for r in a[j]]}
    return w


def monitor_from_matrix(ck, kind, dn, rng, shape, tag="", recipe=None):
    dtype = lie.DT[dn]
    M4, rec, _ = reference_batch(kind, rng, shape, dtype, recipe)
    for layout in LAYOUTS:
        Mt = layout_of(M4, layout).clone()
        Mr = L.ld(Mt)
        for fname, f in ((f"mat2{kind}", lambda **kw: MAT2[kind](Mt, **kw)),
                         ("from_matrix", lambda **kw: pp.from_matrix(Mt, lie.LT[kind], **kw))):
            for chk in (True, False):
                reg = f"{fname}/{kind}/{dn}/{layout}/check={chk}{tag}"
                wit = witness_mat(kind, dn, layout, Mt, fname)
                kw = {} if chk else {"check": False}
                ok, out = conv_call(ck, "from_matrix_ref", reg, f"convert.{fname}[{kind}]", lambda: f(**kw),
                                    lambda: dict(wit(0), check=chk))
                if ok:
                    judge_element(ck, "from_matrix_ref", reg, f"convert.{fname}[{kind}]", kind, dn, layout, out, Mr,
                                  shape, C_ROT, wit, rec)
        if len(ck.samples) < 5 and Mt.numel():
            j = Mt.reshape((-1,) + tuple(Mt.shape[-2:]))[0]
            ck.sample({"kind": kind, "dtype": dn, "layout": layout,
                       "matrix_hex": [[float(v).hex() for v in r] for r in j.double().numpy()],
                       "mat2": raw(MAT2[kind](j, check=False)).tolist()})


def monitor_from_pp_matrix(ck, kind, dn, rng, shape, tag=""):
    """from_matrix(X.matrix()) for a LieTensor X: the element X is recovered (through M)."""
    dtype = lie.DT[dn]
    _, rec, Xref = reference_batch(kind, rng, shape, dtype)
    X = lie.lt(kind, Xref, dtype)
    MX = L.group_matrix(kind, raw(X))
    ok, Mm = conv_call(ck, "from_matrix_pp", f"{kind}/{dn}{tag}", f"{kind}.matrix", lambda: X.matrix(), {"kind": kind})
    if not ok:
        return
    layouts = ("3x3",) if Mm.shape[-1] == 3 else LAYOUTS
    for layout in layouts:
        Mt = layout_of(Mm, layout)
        ref = MX.copy()
        if layout == "3x3":
            ref[..., :3, 3] = 0
        for fname, f in ((f"mat2{kind}", lambda: MAT2[kind](Mt)),
                         ("from_matrix", lambda: pp.from_matrix(Mt, lie.LT[kind]))):
            reg = f"{fname}/{kind}/{dn}/{layout}/pp.matrix{tag}"
            wit = witness_mat(kind, dn, layout, Mt, fname)
            ok, out = conv_call(ck, "from_matrix_pp", reg, f"convert.{fname}[{kind}]", f, lambda: wit(0))
            if ok:
                judge_element(ck, "from_matrix_pp", reg, f"convert.{fname}[{kind}]", kind, dn, layout, out,
                              layout_of(ref, "3x4" if layout != "3x3" else "3x3"), shape, C_ROT_PP, wit, rec)


# ------------------------------------------------------------------------------- Euler monitors
def rot_zyx(e):
    """Rz(yaw) Ry(pitch) Rx(roll), longdouble, e[..., (roll, pitch, yaw)]."""
    e = L.ld(e)
    r, p, y = e[..., 0], e[..., 1], e[..., 2]
    cr, sr, cp, sp, cy, sy = np.cos(r), np.sin(r), np.cos(p), np.sin(p), np.cos(y), np.sin(y)
    R = np.empty(e.shape[:-1] + (3, 3), dtype=L.LD)
    R[..., 0, 0] = cy * cp
    R[..., 0, 1] = cy * sp * sr - sy * cr
    R[..., 0, 2] = cy * sp * cr + sy * sr
    R[..., 1, 0] = sy * cp
    R[..., 1, 1] = sy * sp * sr + cy * cr
    R[..., 1, 2] = sy * sp * cr - cy * sr
    R[..., 2, 0] = -sp
    R[..., 2, 1] = cp * sr
    R[..., 2, 2] = cp * cr
    return R


def make_eulers(rng, n, eps=2e-4):
    e = np.stack([rng.uniform(-np.pi, np.pi, n), rng.uniform(-np.pi / 2, np.pi / 2, n), rng.uniform(-np.pi, np.pi, n)], -1)
    cls = rng.integers(0, 6, n)
    m = cls == 1                                            # beyond the principal ranges
    e[m] = rng.uniform(-4 * np.pi, 4 * np.pi, (int(m.sum()), 3))
    m = cls == 2                                            # exact multiples of pi/2 (as rounded)
    e[m] = rng.integers(-4, 5, (int(m.sum()), 3)) * (np.pi / 2)
    m = cls == 3                                            # pitch next to the gimbal band
    k = rng.choice([0.0, 1e-6, 0.5, 0.9, 0.99, 1.01, 1.1, 2.0, 5.0], int(m.sum()))
    e[m, 1] = rng.choice([-1.0, 1.0], int(m.sum())) * (np.pi / 2 - k * np.sqrt(2 * eps))
    m = cls == 4                                            # large / tiny
    e[m] = rng.uniform(-50, 50, (int(m.sum()), 3)) * rng.choice([1.0, 1e-3, 1e-9], (int(m.sum()), 1))
    return e, cls


def monitor_euler2SO3(ck, dn, rng, shape):
    dtype = lie.DT[dn]
    u = lie.u_of(dtype)
    n = int(np.prod(shape, dtype=np.int64)) if len(shape) else 1
    e, cls = make_eulers(rng, n)
    et = torch.as_tensor(e.reshape(tuple(shape) + (3,))).to(dtype)
    er = et.double().numpy().reshape(-1, 3)
    reg = f"euler2SO3/{dn}/rank{len(shape)}"
    wit = lambda i: {"dtype": dn, "euler(roll,pitch,yaw)": er[i % len(er)].tolist(),  # noqa: E731
                     "hex": [float(v).hex() for v in er[i % len(er)]]}
    ok, X = conv_call(ck, "euler2SO3", reg, "convert.euler2SO3", lambda: pp.euler2SO3(et), lambda: wit(0))
    if not ok:
        return
    if not ck.check(isinstance(X, pp.LieTensor) and X.ltype is pp.SO3_type and X.dtype == dtype
                    and tuple(X.shape) == tuple(shape) + (4,), "euler2SO3", reg, "convert.euler2SO3", "type_or_shape",
                    lambda: {"shape": list(X.shape), "expected": list(shape)}):
        return
    q = raw(X).reshape(-1, 4)
    d = np.abs(L.quat_R(q) - rot_zyx(er)).max((-1, -2)).astype(np.float64)
    ck.ratios("euler2SO3", reg, d, C_E2S * u, "convert.euler2SO3", "not_Rz_Ry_Rx", wit)
    ck.ratios("euler2SO3", reg, np.abs(L.quat_norm(q) - 1).astype(np.float64), C_Q * u, "convert.euler2SO3",
              "quaternion_not_unit", wit)
    names = ("principal", "beyond", "multiples-of-pi/2", "near-gimbal", "large-or-tiny", "principal")
    for k in np.unique(cls):
        ck.count("euler2SO3", f"euler2SO3/{dn}/{names[int(k)]}", n=int((cls == k).sum()), nontrivial=False)
        ck.mark(f"euler2SO3/{dn}/{names[int(k)]}")
    from ..core import row_digests, key_digest
    ck.digests.update(int(v) ^ key_digest(("euler2SO3", dn)) for v in row_digests(er))


def monitor_euler2SO3_argument_forms(ck, rng):
    """The documented non-tensor / integer-typed forms of the angles (Python lists of ints or floats, integer tensors):
    the rotation is Rz Ry Rx of those numbers (a whole number of radians is an angle like any other)."""
    u = lie.u_of(torch.float32)
    for form in ("list-of-ints", "nested-list-of-ints", "int64-tensor", "int32-tensor", "list-of-floats", "float64-list-as-tensor"):
        for rep in range(6):
            n = 1 if form in ("list-of-ints", "list-of-floats") else int(rng.integers(1, 5))
            if "float" in form:
                e = rng.uniform(-3, 3, (n, 3))
            else:
                e = rng.integers(-6, 7, (n, 3)).astype(np.float64)
                if rep == 0:
                    e[0] = [0, 0, 1]
            arg = {"list-of-ints": lambda: [int(v) for v in e[0]], "nested-list-of-ints": lambda: [[int(v) for v in r] for r in e],
                   "int64-tensor": lambda: torch.tensor(e).to(torch.int64), "int32-tensor": lambda: torch.tensor(e).to(torch.int32),
                   "list-of-floats": lambda: [float(v) for v in e[0]], "float64-list-as-tensor": lambda: torch.tensor(e.tolist(), dtype=torch.float64)}[form]()
            reg = f"euler2SO3/argument-form/{form}"
            wit = {"form": form, "euler(roll,pitch,yaw)": e.tolist()}
            ok, X = conv_call(ck, "euler2SO3", reg, "convert.euler2SO3", lambda: pp.euler2SO3(arg), lambda: wit)
            ck.count("euler2SO3", reg, key=(form, rep, e.tobytes()))
            if not ok:
                continue
            if not ck.check(isinstance(X, pp.LieTensor) and X.ltype is pp.SO3_type and X.is_floating_point() and X.shape[-1] == 4,
                            "euler2SO3", reg, "convert.euler2SO3", "type_or_shape", lambda: dict(wit, got=repr(X)[:200])):
                continue
            q = raw(X).reshape(-1, 4)
            uu = lie.u_of(X.dtype)
            d = np.abs(L.quat_R(q) - rot_zyx(e[:len(q)])).max((-1, -2)).astype(np.float64)
            ck.ratios("euler2SO3", reg, d, C_E2S * uu * (1 + np.abs(e[:len(q)]).max(-1)), "convert.euler2SO3", "not_Rz_Ry_Rx", lambda i: wit)
            ck.ratios("euler2SO3", reg, np.abs(L.quat_norm(q) - 1).astype(np.float64), C_Q * uu, "convert.euler2SO3", "quaternion_not_unit", lambda i: wit)
            ck.mark("euler2SO3/form:" + form)


def monitor_euler_roundtrip(ck, kind, dn, rng, shape, eps):
    """X.euler(eps) for group elements X whose rotation is built from Euler angles (so that the pitch
    can be placed next to the gimbal band) or from the hostile quaternion recipes."""
    dtype = lie.DT[dn]
    u = lie.u_of(dtype)
    n = int(np.prod(shape, dtype=np.int64)) if len(shape) else 1
    eps_v = 2e-4 if eps is None else eps
    e, _ = make_eulers(rng, n, eps_v)
    q1 = L.R_to_quat(rot_zyx(e))
    q2, _ = make_quats(rng, n)
    use2 = rng.integers(0, 3, n) == 0
    q = np.where(use2[:, None], q2, q1) * L.ld(rng.choice([-1.0, 1.0], n))[:, None]
    s = make_scales(rng, n) if HAS_S[kind] else np.ones(n, dtype=L.LD)
    Xv = np.asarray(L.join_grp(kind, make_trans(rng, n), q, s), dtype=np.float64)
    X = lie.lt(kind, Xv.reshape(tuple(shape) + (L.GRP[kind],)), dtype)
    Xr = raw(X).reshape(-1, L.GRP[kind])
    R = L.quat_R(L.split_grp(kind, Xr)[1])
    sinp = -R[:, 2, 0]
    reg = f"euler/{kind}/{dn}/eps={eps}"
    entry = f"{kind}.euler"
    wit = lambda i: {"kind": kind, "dtype": dn, "eps": eps_v, "X": Xr[i % len(Xr)].tolist(),  # noqa: E731
                     "X_hex": [float(v).hex() for v in Xr[i % len(Xr)]], "sin_pitch_ref": float(sinp[i % len(Xr)])}
    # call forms: the method, and the function pp.euler (positional and keyword eps)
    form = ("method", "function", "function-keyword")[int(rng.integers(0, 3))]
    ck.mark("euler/form:" + form + ("" if eps is None else "/explicit-eps"))
    call = {"method": (lambda: X.euler()) if eps is None else (lambda: X.euler(eps=eps)),
            "function": (lambda: pp.euler(X)) if eps is None else (lambda: pp.euler(X, eps)),
            "function-keyword": (lambda: pp.euler(X)) if eps is None else (lambda: pp.euler(X, eps=eps))}[form]
    entry = entry if form == "method" else "convert.euler"
    ok, ang = conv_call(ck, "euler_roundtrip", reg, entry, call, lambda: dict(wit(0), call_form=form))
    if not ok:
        return
    if not ck.check(tuple(ang.shape) == tuple(shape) + (3,) and ang.dtype == dtype and not isinstance(ang, pp.LieTensor),
                    "euler_roundtrip", reg, entry, "type_or_shape", lambda: {"shape": list(ang.shape)}):
        return
    a = ang.double().numpy().reshape(-1, 3)
    ck.check(bool(np.isfinite(a).all()), "euler_roundtrip", reg, entry, "nonfinite_angle", lambda: wit(0))
    judged = np.abs(sinp).astype(np.float64) < 1.0 - eps_v - 64 * u
    ck.note_add("euler_in_gimbal_band_not_judged", int((~judged).sum()))
    ck.mark(f"euler-band/{dn}/inside", int((~judged).sum()))
    ck.mark(f"euler-band/{dn}/within-2x-of-edge", int((judged & (1 - np.abs(sinp).astype(np.float64) < 2 * eps_v)).sum()))
    if not judged.any():
        return
    idx = np.nonzero(judged)[0]
    aj, Rj = a[idx], R[idx]
    cosp = np.sqrt(np.maximum(1 - (sinp[idx] ** 2), 0)).astype(np.float64)
    witj = lambda i: dict(wit(int(idx[i])), angles=aj[i].tolist())  # noqa: E731
    lim = np.pi * (1 + 4 * u)
    ck.check(bool(np.all(np.abs(aj[:, 0]) <= lim) and np.all(np.abs(aj[:, 2]) <= lim) and np.all(np.abs(aj[:, 1]) <= lim / 2)),
             "euler_roundtrip", reg, entry, "angle_outside_principal_range",
             lambda: witj(int(np.argmax((np.abs(aj[:, 0]) > lim) | (np.abs(aj[:, 2]) > lim) | (np.abs(aj[:, 1]) > lim / 2)))))
    d = np.abs(rot_zyx(aj) - Rj).max((-1, -2)).astype(np.float64)
    ck.ratios("euler_roundtrip", reg, d, C_RT * u / cosp, entry, "angles_do_not_give_back_the_rotation", witj)
    # the literal composition euler2SO3(X.euler())
    ok2, Xb = conv_call(ck, "euler_roundtrip", reg, "convert.euler2SO3", lambda: pp.euler2SO3(ang), lambda: wit(0))
    if ok2 and tuple(Xb.shape) == tuple(shape) + (4,):
        d2 = np.abs(L.quat_R(raw(Xb).reshape(-1, 4)[idx]) - Rj).max((-1, -2)).astype(np.float64)
        ck.ratios("euler_roundtrip", reg, d2, C_RT * u / cosp + C_E2S * u, "convert.euler2SO3(euler)",
                  "euler2SO3_of_euler_is_another_rotation", witj)
    ck.count("euler_roundtrip", reg, n=int(len(idx)), nontrivial=False)
    from ..core import row_digests, key_digest
    ck.digests.update(int(v) ^ key_digest(("euler_rt", kind, dn)) for v in row_digests(Xr[idx]))
    if len(ck.samples) < 8:
        ck.sample({"kind": kind, "dtype": dn, "eps": eps_v, "X_hex": [float(v).hex() for v in Xr[idx[0]]],
                   "euler": aj[0].tolist(), "err_over_u": float(d[0] / u)})


# ------------------------------------------------------------------------------- check=True clause
def defect(kind, Ar, rtol, atol):
    """Measured invalidity of the (rounded) 3x3 blocks Ar (longdouble): the largest of the orthogonality
    and determinant defects in units of the stated tolerance; inf for non-positive determinants of the scaled
    types / non-finite input."""
    det = det3(Ar)
    with np.errstate(all="ignore"):
        if HAS_S[kind]:
            s = np.cbrt(det)
            A = Ar / np.where(s == 0, 1, s)[..., None, None]
        else:
            s = np.ones(Ar.shape[:-2], dtype=L.LD)
            A = Ar
        E = np.abs(np.matmul(A, np.swapaxes(A, -1, -2)) - np.eye(3, dtype=L.LD))
        tol = atol + rtol * np.eye(3)
        d_orth = (E / tol).max((-1, -2)).astype(np.float64)
        d_det = (np.abs(det3(A) - 1) / (atol + rtol)).astype(np.float64)
        bad = ~np.isfinite(np.asarray(Ar, dtype=np.float64)).all((-1, -2))
        if HAS_S[kind]:
            bad = bad | (np.asarray(det, dtype=np.float64) <= 0)
        out = np.maximum(d_orth, d_det)
    return np.where(bad, np.inf, np.nan_to_num(out, nan=np.inf))


INVALID = ("stretch", "shear", "reflection", "noise", "rank-deficient", "uniform-scale")


def perturb(kind, rng, R, cls, mag_):
    """R (3,3) longdouble rotation -> invalid 3x3 (before the valid scale of the scaled types is applied)."""
    i, j = rng.choice(3, 2, replace=False)
    A = R.copy()
    if cls == "stretch":
        D = np.eye(3, dtype=L.LD)
        D[i, i] += mag_
        A = R @ D
    elif cls == "shear":
        D = np.eye(3, dtype=L.LD)
        D[i, j] += mag_
        A = R @ D
    elif cls == "reflection":
        D = np.eye(3, dtype=L.LD)
        D[i, i] = -1
        A = R @ D
    elif cls == "noise":
        A = R + mag_ * L.ld(rng.standard_normal((3, 3)))
    elif cls == "rank-deficient":
        if mag_ > 0.5:
            A = np.zeros((3, 3), dtype=L.LD)
        else:
            A[:, i] = 0
    elif cls == "uniform-scale":
        A = (1 + mag_) * R
    return A


def monitor_check(ck, kind, dn, rng, n_cases, tols):
    dtype = lie.DT[dn]
    fn_list = ((f"mat2{kind}", lambda M, **kw: MAT2[kind](M, **kw)),
               ("from_matrix", lambda M, **kw: pp.from_matrix(M, lie.LT[kind], **kw)))
    for (rtol, atol) in tols:
        kw = {} if (rtol, atol) == (1e-5, 1e-5) else {"rtol": rtol, "atol": atol}
        unit = atol + rtol
        for c in range(n_cases):
            layout = LAYOUTS[int(rng.integers(0, 3))]
            fname, f = fn_list[int(rng.integers(0, 2))]
            q, _ = make_quats(rng, 1)
            R = L.quat_R(q)[0]
            # documented legality of a scaled input includes |s| > atol: stay a decade above it
            s = max(make_scales(rng, 1)[0], L.LD(10 * atol)) if HAS_S[kind] else L.LD(1)
            t = make_trans(rng, 1)[0]
            shape = [(), (), (1,), (4,), (2, 2)][int(rng.integers(0, 5))]
            nb = int(np.prod(shape, dtype=np.int64)) if len(shape) else 1
            # ---- invalid
            cls = INVALID[int(rng.integers(0, len(INVALID)))]
            if cls == "uniform-scale" and HAS_S[kind]:
                cls = "shear"
            mag_ = float(unit * 10.0 ** rng.uniform(1.2, 5)) if rng.integers(0, 4) else float(rng.uniform(0.05, 2))
            if rtol != atol and cls in ("shear", "noise") and rng.random() < 0.75:
                # unequal tolerances: a defect between the two (invalid by the smaller one only) is what tells them apart
                lo_, hi_ = min(rtol, atol), max(rtol, atol)
                mag_ = float(lo_ * 10.0 ** rng.uniform(1.3, max(1.4, np.log10(hi_ / lo_) - 1.0)))
            A = s * perturb(kind, rng, R, cls, mag_)
            M4 = np.zeros((nb, 4, 4), dtype=L.LD)
            # the other items of the batch are valid elements
            qo, _ = make_quats(rng, nb)
            so = np.maximum(make_scales(rng, nb), L.LD(10 * atol)) if HAS_S[kind] else np.ones(nb, dtype=L.LD)
            M4[:, :3, :3] = so[:, None, None] * L.quat_R(qo)
            M4[:, :3, 3] = make_trans(rng, nb)
            M4[:, 3, 3] = 1
            pos = int(rng.integers(0, nb))
            M4[pos, :3, :3] = A
            M4[pos, :3, 3] = t
            Mt = layout_of(torch.as_tensor(np.asarray(M4, dtype=np.float64).reshape(tuple(shape) + (4, 4))).to(dtype), layout).clone()
            Ar = L.ld(Mt).reshape((-1,) + tuple(Mt.shape[-2:]))[:, :3, :3]
            # how the matrix takes part in autograd has no bearing on whether it is a valid rotation
            amode = ("plain", "requires_grad", "plain", "parameter", "non-leaf", "no_grad")[c % 6]
            wrap = {"plain": lambda M_: M_, "requires_grad": lambda M_: M_.clone().requires_grad_(True), "parameter": lambda M_: torch.nn.Parameter(M_.clone()),
                    "non-leaf": lambda M_: M_.clone().requires_grad_(True) * 1.0, "no_grad": lambda M_: M_.clone().requires_grad_(True)}[amode]
            Mt = wrap(Mt)
            ck.mark("check/autograd:" + amode)
            dfc = defect(kind, Ar, rtol, atol)
            reg = f"{fname}/{kind}/{dn}/{layout}/tol={atol:g}"
            wit = witness_mat(kind, dn, layout, Mt, fname)
            if dfc[pos] >= 10 and np.all(np.delete(dfc, pos) <= 0.1):
                raised, other = False, None
                try:
                    with warnings.catch_warnings():
                        warnings.simplefilter("ignore")
                        if amode == "no_grad":
                            with torch.no_grad():
                                f(Mt, check=True, **kw)
                        else:
                            f(Mt, check=True, **kw)
                except ValueError:
                    raised = True
                except Exception as e:  # noqa
                    other = repr(e)[:300]
                ck.count("check_rejects", f"{reg}/{cls}", key=(kind, dn, layout, fname, Mt.detach().double().numpy().tobytes()))
                ck.mark(f"reject/{kind}/{dn}/{cls}")
                ck.mark(f"reject-batch/{kind}/{dn}/{'single' if nb == 1 else 'one-bad-of-many'}")
                ck.check(raised, "check_rejects", reg, f"convert.{fname}[{kind}]",
                         "invalid_matrix_accepted:" + cls if other is None else "wrong_exception_type",
                         lambda: dict(wit(pos), invalid_class=cls, measured_defect_over_tol=float(min(dfc[pos], 1e300)),
                                      position_in_batch=pos, rtol=rtol, atol=atol, exception=other, autograd=amode))
                ck.note_add("invalid_cases_judged")
            else:
                ck.note_add("invalid_cases_discarded_defect_below_10x")
            # ---- valid, perturbed by <= 0.1 x tolerance
            E = L.ld(rng.standard_normal((nb, 3, 3)))
            E = (E + np.swapaxes(E, -1, -2)) * L.LD(unit * 10.0 ** rng.uniform(-4, -1.6))
            M4v = np.zeros((nb, 4, 4), dtype=L.LD)
            M4v[:, :3, :3] = so[:, None, None] * np.matmul(L.quat_R(qo), np.eye(3, dtype=L.LD) + E)
            M4v[:, :3, 3] = make_trans(rng, nb)
            M4v[:, 3, 3] = 1
            Mv = layout_of(torch.as_tensor(np.asarray(M4v, dtype=np.float64).reshape(tuple(shape) + (4, 4))).to(dtype), layout).clone()
            dv = defect(kind, L.ld(Mv).reshape((-1,) + tuple(Mv.shape[-2:]))[:, :3, :3], rtol, atol)
            Mv = wrap(Mv)
            if np.all(dv <= 0.1):
                witv = witness_mat(kind, dn, layout, Mv, fname)
                ok, out = conv_call(ck, "check_accepts", reg, f"convert.{fname}[{kind}]", lambda: f(Mv, check=True, **kw),
                                    lambda: dict(witv(0), measured_defect_over_tol=float(dv.max()), rtol=rtol, atol=atol))
                ck.count("check_accepts", reg, key=(kind, dn, layout, fname, Mv.detach().double().numpy().tobytes()))
                ck.note_max("max_valid_defect_over_tol", float(dv.max()))
            else:
                ck.note_add("valid_cases_discarded_defect_above_0.1x")
        ck.mark(f"check-tol/{kind}/{dn}/atol={atol:g}")


def bottom_row_observation(ck, kind, dn, rng):
    """Documented: a 4x4 input whose last row is not [0,0,0,1] warns (SE3/Sim3); observed, not judged."""
    if not HAS_T[kind]:
        return
    M4, _, _ = reference_batch(kind, rng, (3,), lie.DT[dn])
    M4[1, 3, 0] = 0.5
    try:
        with warnings.catch_warnings(record=True) as w:
            warnings.simplefilter("always")
            MAT2[kind](M4)
        ck.note_add("bottom_row_warning_seen" if any("last row" in str(x.message) for x in w) else "bottom_row_no_warning")
    except Exception:  # noqa
        ck.note_add("bottom_row_raised")


# ------------------------------------------------------------------------------- driver
def run(ck):
    if ck.shard == 0:
        # repeat-call monitor (shared, added by the framework owner): history / reused-object / memory-layout independence
        from .. import repeat
        repeat.run(ck, PID, repeat.table(PID, ck.rng("repeat")))
    thorough = ck.tier == "thorough"
    rng = ck.rng("c11")
    N = 3000 if thorough else 800
    reps = 6 if thorough else 1
    job = 0
    for dn in ("f64", "f32"):
        for kind in lie.GRPS:
            for rep in range(reps):
                job += 1
                if ck.mine(job):
                    monitor_from_matrix(ck, kind, dn, rng, (N,))
                    monitor_from_pp_matrix(ck, kind, dn, rng, (N,))
                    # every recipe as a uniform batch (all items in one branch of the masked assignment)
                    for r in RECIPES:
                        monitor_from_matrix(ck, kind, dn, rng, (16,), tag="/uniform-batch", recipe=r)
                job += 1
                if ck.mine(job):
                    for shp in SHAPES:
                        monitor_from_matrix(ck, kind, dn, rng, shp, tag="/shape")
                        monitor_from_pp_matrix(ck, kind, dn, rng, shp, tag="/shape")
                        ck.mark(f"shape/{kind}/{dn}/{shp}")
                job += 1
                if ck.mine(job):
                    for eps in (None, 2e-4, 1e-2, 1e-3) + ((1e-6,) if dn == "f64" else ()):
                        monitor_euler_roundtrip(ck, kind, dn, rng, (N,), eps)
                    for shp in SHAPES:
                        monitor_euler_roundtrip(ck, kind, dn, rng, shp, None)
                job += 1
                if ck.mine(job):
                    tols = [(1e-5, 1e-5), (1e-3, 1e-3)] + ([(1e-9, 1e-9)] if dn == "f64" else [])
                    # rtol != atol (off-diagonal entries of R R^T - I are judged by atol alone, diagonal ones by atol + rtol)
                    tols += [(1e-3, 1e-7), (1e-7, 1e-3)] if dn == "f64" else [(1e-2, 1e-5), (1e-5, 1e-2)]
                    monitor_check(ck, kind, dn, rng, (200 if thorough else 60), tols)
                    bottom_row_observation(ck, kind, dn, rng)
            # requirements (input classes)
            for c in range(4):
                ck.require(f"dom/{kind}/{dn}/c{c}", f"region/{kind}/{dn}/c{c}")
            for c in range(3):
                ck.require(f"dom~pi/{kind}/{dn}/c{c}")
            for r in RECIPES:
                ck.require(f"recipe/{kind}/{dn}/{r}")
            for shp in SHAPES:
                ck.require(f"shape/{kind}/{dn}/{shp}")
            for cls in INVALID:
                if not (cls == "uniform-scale" and HAS_S[kind]):
                    ck.require(f"reject/{kind}/{dn}/{cls}")
            ck.require(f"reject-batch/{kind}/{dn}/single", f"reject-batch/{kind}/{dn}/one-bad-of-many",
                       f"check-tol/{kind}/{dn}/atol=1e-05")
        for rep in range(reps * 2):
            job += 1
            if ck.mine(job):
                monitor_euler2SO3(ck, dn, rng, (4 * N,))
                for shp in SHAPES:
                    monitor_euler2SO3(ck, dn, rng, shp)
        for nm in ("principal", "beyond", "multiples-of-pi/2", "near-gimbal", "large-or-tiny"):
            ck.require(f"euler2SO3/{dn}/{nm}")
        ck.require(f"euler-band/{dn}/inside", f"euler-band/{dn}/within-2x-of-edge")
    if ck.shard == 1 % ck.nshards:
        monitor_euler2SO3_argument_forms(ck, rng)
    ck.require(*["euler2SO3/form:" + f_ for f_ in ("list-of-ints", "nested-list-of-ints", "int64-tensor", "int32-tensor", "list-of-floats")])
    ck.require("euler/form:function/explicit-eps", "euler/form:function-keyword/explicit-eps", "euler/form:method/explicit-eps")
    ck.require("check/autograd:requires_grad", "check/autograd:parameter", "check/autograd:non-leaf", "check/autograd:no_grad")
    ck.floor("from_matrix_ref", 20000)
    ck.floor("from_matrix_pp", 5000)
    ck.floor("euler2SO3", 2000)
    ck.floor("euler_roundtrip", 5000)
    ck.floor("check_rejects", 300)
    ck.floor("check_accepts", 300)
