#!/venv/bin/python
"""Regenerates MANIFEST.json from the table below (run after adding a check)."""
import json, os, subprocess
ROOT = os.path.dirname(os.path.abspath(__file__))
PY = "/venv/bin/python"
CHECKS = {
 "C01": dict(cat="exploration", tech="reference-model monitor: every Exp call vs longdouble/mpmath matrix exponential on hostile magnitude ladders",
   text="Runtime monitor compares every Exp result of a hostile ladder workload (all four algebras, both dtypes, dense around eps/sqrt(eps), angles to 3*pi, batch ranks 0-3) with an independent case-split-free matrix exponential; held on the executions observed, not a proof.",
   note="Trusted: numpy longdouble scaling-and-squaring oracle (validated against mpmath each run); tolerances 64*eps (rotation/scale), 8*sqrt(eps) relative + 64*eps*|tau| floor (translation); CPU only.", ref="DESIGN.md 3 C01"),
 "C02": dict(cat="exploration", tech="reference-model monitor: expm(generator(Log X)) vs reference matrix of X, principal-branch / hemisphere / inverse metamorphic monitors",
   text="Every Log result of ladder workloads built from (axis, angle, t, s) (angles dense near 0 and pi, both hemispheres, the three index sets of the quaternion log, scales e^+-8) is checked through an independent matrix exponential, plus |phi|<=pi, Log(q)=Log(-q), Log(Inv X)=-Log X and Log(Exp x)=x away from pi.",
   note="Trusted: longdouble expm oracle (mpmath-validated per run); C01 block tolerances; comparisons near pi only through the matrix exponential.", ref="DESIGN.md 3 C02"),
 "C03": dict(cat="exploration", tech="reference-model monitor in the longdouble matrix domain + history monitor (validity and shadow matrix after every operation of 10^4-step histories)",
   text="Products, inverses, identities, matrix()/accessors, Act on 3- and 4-vectors (w=0, w<0), associativity and action composition are compared with the reference matrix representation built from raw components (blockwise condition-aware tolerances, scales e^+-8, translations 1e+-6, both dtypes, broadcasting); long mixed histories of @, Inv, add_, Retr, + on one element are checked at every quiescent point for validity (|q|-1 <= 4u(n+1), s>0) and against a longdouble shadow matrix.",
   note="Trusted: lie_ref longdouble matrices; accuracy of Exp of an increment is budgeted from the measured distance to the reference (C01 decides it).", ref="DESIGN.md 3 C03"),
 "C09": dict(cat="exploration", tech="reference-model monitor: mpmath closed forms of the kernels; corrector identities J'^T R' and J'^T J' against reference rho', rho'' on optimizer-shaped inputs; GN/LM driver with spy solver",
   text="Every kernel vs its documented closed form in mpmath (tolerance relative to the largest intermediate term), finite / zero-at-zero / monotone / Huber continuity / negative input raises; FastTriggs and Triggs called as the optimizer calls them on built-in and user kernels (rho''>0, =0, <0): gradient identity for both, Hessian identity where rho''>0, Triggs == FastTriggs elsewhere; a GN/LM driver checks the right-hand side and the reported loss against the closed forms.",
   note="Trusted: mpmath closed forms and float64 reference derivatives (self-tested against mpmath.diff each run); rows where |rho''| is below the round-off of the terms autograd sums are allowed the deviation that noise can cause.", ref="DESIGN.md 3 C09"),
 "C10": dict(cat="exploration", tech="optimality-condition monitor (normal equations, minimum norm on constructed null spaces, backward error, CG stopping rule) + sparse products vs dense product; must-raise oracle for non-PD Cholesky",
   text="PINV / LSTSQ / Cholesky / CG on matrices constructed with exact rank deficiency and prescribed condition number (sizes 1..40, batches, kappa <= 1e8 direct, <= 1e3 CG, dense/CSR/COO/BSR operands, initial guess, preconditioners): least-squares optimality, minimum norm (PINV), backward error, |b-Ax| <= tol|b|, zero for b=0; Cholesky on matrices with lambda_min <= -0.1|A| must raise (currently the known finding F09); all 16 sparse layout pairs: returned products equal the dense product, unsupported pairs must raise (listed in the evidence).",
   note="Trusted: constructed factors (exact null spaces); singular PSD matrices are not judged for Cholesky; min-norm judged for PINV only.", ref="DESIGN.md 3 C10"),
 "C11": dict(cat="exploration", tech="reference-model monitor: conversions vs longdouble reference matrices; constructed inputs for every branch region; accept/reject oracle for check=True",
   text="mat2SO3/SE3/Sim3/RxSO3 and from_matrix on reference-built matrices (3x3/3x4/4x4, all four extraction branches incl. exactly pi about the axes and pi+-1e-12..1e-3, scales 1e-3..1e3, batch rank up to 3, both dtypes) must reproduce matrix, unit quaternion and scale; euler2SO3 = RzRyRx and the Euler round trip outside the gimbal band with principal ranges; check=True must raise for defects >= 10x tolerance and never for <= 0.1x.",
   note="Trusted: lie_ref; expected scale = longdouble cube root of the determinant of the matrix actually passed; gimbal band not judged.", ref="DESIGN.md 3 C11"),
 "C04": dict(cat="exploration", tech="program-level monitor: random typed LieTensor expression trees, autograd vs Richardson finite differences in left-perturbation coordinates; NaN sanitizer (anomaly mode + isfinite), leaf write check",
   text="Reverse-mode gradients of every operator alone (identity / tiny / thin-band / generic / large rotation) and of random well-typed programs to depth 6 (shared leaves, broadcasting, random cotangents, all four groups) are compared with a finite-difference oracle in tangent coordinates; last slot zero, finiteness, float32 agreement, and the Jacobian front-ends (functional.jacobian, modjac, func.jacrev, modjacrev/fwd) contracted against the same oracle. All 32 hand-written backward classes must be observed.",
   note="Trusted: FD oracle through pypose's forward ops (decided by C01/C02/C03/C05); tolerance 1e-6 relative + FD spread + documented sim3 truncation bound; Jinvp only away from zero rotation; CPU.", ref="DESIGN.md 3 C04"),
 "C05": dict(cat="exploration", tech="reference-model monitor: adjoint / retraction / Jinvp / Jr identities judged in the longdouble matrix domain; FD metamorphic monitor",
   text="Adj, AdjT (linear form vee(M a^ M^-1) and literal expm identity), Retr / + / add / add_ in 9 operand variants, Jinvp against Jl^-1 from the commutator series (Sim3 up to the documented truncation bound) and against finite differences, Jr against the matrix-exponential block formula and the first-order statement, on hostile ladders for all four groups and both dtypes.",
   note="Trusted: lie_ref longdouble oracles; Sim3 Jinvp judged only where the documented series has a usable remainder bound.", ref="DESIGN.md 3 C05"),
 "C06": dict(cat="fault_enumeration", tech="exhaustive shape-pair sweep + handled-function table + purity registry with ATen write-watch (TorchDispatchMode) + sys.monitoring failpoints at every LINE event inside retain_ltype/jacrev-wrapped functions",
   text="(1) all 2479 broadcastable lshape pairs (rank<=3, extents 0..3) x every unary/binary op x four types: result meta-data and items vs the flattened op; (2) every HANDLED_FUNCTIONS entry vs torch on the plain tensor, constructors, Parameter, deepcopy; (3) ~200 registry calls over the public surface with bitwise before/after of all argument tensors; (4) an exception injected at each of the measured LINE events (complete sweep) of five wrapped scenarios plus natural faults; the three patched torch attributes must be the originals.",
   note="Trusted: torch's own broadcasting as shape oracle; purity judged on explicit arguments; failpoints in pypose/harness frames only (not inside torch); CPU.", ref="DESIGN.md 3 C06"),
 "C07": dict(cat="exploration", tech="client-boundary spies (solver, strategy, corrector, update_parameter) + finite-difference tangent Jacobian oracle + reference weight expansion and damping recurrence",
   text="One monitored GN/LM step on random residual models (mixed Euclidean / algebra / group parameters, 1-2 outputs, batch rank 0-3, frozen parameter, random programs): R and J handed to the corrector equal the model residual and the FD left-perturbation Jacobian; the recorded A, b equal WJ', -WR' (GN) or the clamped/damped recurrence (LM); the solver's answer solves it (min-norm for PINV); the update is addition / left retraction; frozen parameters untouched.",
   note="Trusted: FD Jacobian oracle (1e-6 relative); corrector and kernel outputs taken from the spies (decided by C09); Cholesky/CG only on PD systems (see known finding F09).", ref="DESIGN.md 3 C07"),
 "C08": dict(cat="fault_enumeration", tech="trace monitor: event log per step() replayed by an offline protocol checker; engineered wall models; solver fault injected at every solve index",
   text="Per step() call the spies produce (SOLVE UPDATE LOSS STRATEGY [RESTORE])* traces; the checker enforces <= reject+1 trials, returned == optimizer.loss == recomputed robust loss at the final parameters, no worse loss unless rejections exhausted, restore to pre-trial parameters, clean end on solver failure, documented Constant/Adaptive/TrustRegion transitions within bounds, GN loss/last bookkeeping. Histories up to 30 calls; models engineered so that the first k trials increase the loss (k=0..reject+1 observed); the solver raises at every j of a measured dry run.",
   note="Trusted: loss recomputed through the model forward and kernel objects; strategy ratios within 1e-9 of a threshold are not judged.", ref="DESIGN.md 3 C08"),
 "C17": dict(cat="exploration", tech="optimality monitor vs own Kabsch/Umeyama reference and random perturbations; brute-force closest-point metric for ICP; pose recovery from exact projections for EPnP",
   text="svdtf / svdstf results must be proper rigid / similarity transforms whose sum of squared residuals is not larger than the numpy reference optimum nor than 24-50 perturbed transforms, exact correspondences reproduced (generic, planar, collinear, duplicated, 3-point, reflection-prone noisy sets, a float32 reflection stress of ~1e5 items, batch rank up to 3); ICP never increases the mean squared closest-point distance and recovers small exact perturbations inside the reference convergence basin (reused object, init variants); EPnP recovers the pose from exact projections (N=6..100, with/without refinement).",
   note="Trusted: geom_ref numpy oracles; EPnP judged only for well-conditioned 2Nx12 systems ((s1/s11)^2 <= 1e10, exclusions counted); transform equality only for non-degenerate sets.", ref="DESIGN.md 3 C17"),
 "C18": dict(cat="exploration", tech="brute-force reference monitor + permutation-equivariance metamorphic monitor + pinhole round trips",
   text="knn, nbr_filter, voxel_filter (centroid and random), knn_filter (with and without radius), random_filter compared with O(n^2) numpy definitions on clouds of 1..300 points in 1..6 dims with extra channels, outliers first/middle/last, single point / single voxel, all k, norms 1/2/inf, radii placed inside distance gaps, voxel quotients away from integers, and on random permutations of the cloud; point2pixel / pixel2point / reprojerr / cart2homo / homo2cart round trips and model values incl. negative focal lengths, extrinsics and batched intrinsics.",
   note="Trusted: geom_ref; index equality only on rows without near-ties; decisions exactly at a radius or voxel face are not judged.", ref="DESIGN.md 3 C18"),
 "C12": dict(cat="exploration", tech="unambiguous-history monitor: interval tokens in a free non-commutative monoid (any wrong partner/order/duplicate poisons the output); exhaustive length sweep; group folds vs longdouble reference products",
   text="cumops / cumops_ on interval tokens for every L in 1..4096 (exhaustive for the index schedule, both orders), cummul/cumprod (and in-place variants, defaults) through a Tensor subclass carrying the token operation, every dim of rank 1-4 tensors incl. permuted/strided views with sentinels, purity of out-of-place and aliasing of in-place variants; group-valued folds (24 call variants, four groups, both dtypes) vs the sequential fold in reference matrices.",
   note="Trusted: the token monoid (self-tested each run) and lie_ref; exhaustive: true refers to the cumops/cumops_ length sweep.", ref="DESIGN.md 3 C12"),
 "C13": dict(cat="exploration", tech="reference-model monitor: longdouble Kalman recursion (Joseph form) next to every EKF/UKF call, self-fed runs of 50 steps; linearised reference for nonlinear EKF; statistical monitor (>= 6 sigma band from the exact posterior and ESS) for PF; covariance validity",
   text="EKF and UKF (k in {None, 0, +-real}) on random linear-Gaussian systems written as NLS (dims 1-6, spectra over 6 orders of magnitude, non-diagonal P, time-varying A) must return the exact Kalman predict-then-update posterior, step by step over self-fed runs with Q/R tensor objects reused across calls; nonlinear EKF equals the documented recursion on analytic Jacobians; EKF/PF always and UKF for k>=0 return symmetric PSD covariances; the PF estimate lies within a 6-sigma Monte-Carlo band (exact posterior covariance, effective sample size, self-normalised bias) of the posterior mean of its documented particle model.",
   note="Trusted: kalman_ref (self-tested each run against an information-form recursion); tolerance from a first-order rounding-error model incl. cond(S); PF runs with ESS < 200 discarded and counted; batched filters not documented and not monitored.", ref="DESIGN.md 3 C13"),
 "C14": dict(cat="exploration", tech="KKT monitor on an independent roll-out model: feasibility, recomputed cost, autograd and costate gradients, dense reduced-QP optimum, perturbation test; history monitor over repeated solves",
   text="LQR on LTI/LTV systems (batch 1-3, horizon 1-20, dims 1-6 incl. n_state=1, stable/unstable, PD Q with kappa up to 1e6, random p, c1, x_init, nominal trajectories) must start at x_init, satisfy the reference dynamics, report the recomputed cost, have zero gradient w.r.t. every input (two independent gradient computations) and agree with a dense QP optimum where conditioning allows; independence from u_traj and from earlier solves / system time; MPC on linear systems returns the same optimum, on nonlinear systems a feasible trajectory with consistent cost.",
   note="Trusted: lqr_ref (no Riccati recursion, no pypose); box constraints and LTV with dt != 1 not exercised.", ref="DESIGN.md 3 C14"),
 "C15": dict(cat="exploration", tech="icontract snapshot/ensure on System.__call__ + reference time automaton over random call histories; symbolic (sympy) Jacobian oracle for generated NLS; second-order slope test",
   text="Every event of random call sequences (forward, reset, systime assignment, set_refpoint, mode switches) is shadowed by a reference counter automaton; LTI/LTV outputs equal the reference affine equations with time-indexed matrices; for randomly generated smooth time-dependent NLS (expression trees with exact rational constants and symbolic Jacobians) A,B,C,D equal the partial Jacobians at the reference point - also when read after further calls -, c1,c2 make the affine model exact there, and the model error shrinks as h^2.",
   note="Trusted: dyn_ref (sympy-derived Jacobians evaluated in numpy); batched NLS linearisation is not documented and not demanded.", ref="DESIGN.md 3 C15"),
 "C16": dict(cat="exploration", tech="reference-recursion monitor + metamorphic monitors (chunking invariance over all compositions, input-rank equivalence) + covariance validity",
   text="IMU preintegration outputs vs the sequential recursion in reference matrices for every frame count (quick: every F<=64 and a sample above; thorough: every F<=200), B=1..4, dt in [1e-4,1], with/without known rotation, gravity 0 / 9.81007, both dtypes; one call vs all compositions of the frame axis for F<=8 and random chunkings above with reset=False; ranks (H),(F,H),(B,F,H) equivalent; explicit init_state hand-over; covariance symmetric PSD.",
   note="Trusted: lie_ref; the oracle uses R_i * dR_ij (the order under which chunking invariance can hold) and the module's own gravity buffer; covariance chunk-invariance is not demanded by the property.", ref="DESIGN.md 3 C16"),
}
NOT_BUILT = "check not built yet (in progress); no claim is made for this property in this commit"
def main():
    props = [json.loads(l) for l in open(os.path.join(ROOT, "properties.jsonl"))]
    checks, na = [], []
    for p in props:
        pid = p["id"]
        c = CHECKS.get(pid)
        if c is None or not os.path.exists(os.path.join(ROOT, "vrf", "checks", pid.lower() + ".py")):
            na.append({"property_id": pid, "reason": NOT_BUILT}); continue
        checks.append({
            "property_id": pid,
            "quick_cmd": f"{PY} -m vrf check {pid} --tier quick",
            "thorough_cmd": f"{PY} -m vrf check {pid} --tier thorough",
            "evidence_file": f"/verif/evidence/{pid}.json",
            "replay_cmd_template": f"{PY} -m vrf check {pid} --replay {{path}}",
            "engine": "vrf",
            "level_claimed": {"category": c["cat"], "text": c["text"], "design_ref": c["ref"]},
            "level_note": c["note"],
            "technique": c["tech"],
        })
    man = {
      "version": 1,
      "setup_cmd": "./setup.sh",
      "hooks": {"guard": "PYPOSE_VERIF", "enable": "no source hooks: all monitors, spies and failpoints are attached at run time by the harness (wrappers on public callables, TorchDispatchMode, sys.monitoring); checks import the working tree of /repo directly (VERIF_REPO)",
                "baseline_off_cmd": "cd /repo && /venv/bin/python -m pytest -ra -q -p no:cacheprovider --timeout=900 --continue-on-collection-errors",
                "source_commits": [], "add_only": True},
      "engines": [{"name": "vrf", "path": "/verif/vrf", "serves_properties": [c["property_id"] for c in checks],
                   "kind_free_text": "runtime monitoring: reference-model monitors, contracts, trace checkers, fault injection, dynamic sanitizers (NaN anomaly mode, ATen write-watch, patch-leak)"}],
      "checks": checks,
      "notes": "Runtime monitoring only. Exit 0 held-on-observed, 1 VIOLATION, 3 INCONCLUSIVE (never on the unchanged tree), 2 harness error. Genuine defects found on the original tree were repaired by 18 'fix:' commits in /repo (listed as fixed in known_findings.json).",
      "not_applicable": na,
    }
    json.dump(man, open(os.path.join(ROOT, "MANIFEST.json"), "w"), indent=1)
    import sys; sys.path.append(os.path.join(ROOT, ".deps"))
    import jsonschema
    jsonschema.validate(man, json.load(open("/root/.vp/MANIFEST.schema.json")))
    print("MANIFEST ok:", len(checks), "checks,", len(na), "not claimed")
if __name__ == "__main__":
    main()
