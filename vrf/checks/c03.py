"""C03 — group product, inverse, identity and point action obey the group laws; matrix() is a
homomorphism onto the documented representation; validity over long operation histories.

Oracle: the reference matrix representation M(.) = lie_ref.group_matrix(kind, raw components)
in longdouble.  Every law is judged in the matrix domain, blockwise:

    rotation/scale block   max|dM[:3,:3]|  <=  C * u * P[0,0]
    translation block      ||dM[:3,3]||    <=  C * u * P[0,1]

where P is the product of the 2x2 *magnitude matrices* [[s, |t|], [0, 1]] of the factors of
the expression under test (so with scales e^+-8 and translations 1e+-6 the tolerance is
neither vacuous for the rotation block nor false for the translation block).

History clause: one element undergoes up to 10^4 mixed operations (X@Y, Y@X, Inv, add_,
Retr, +); after every operation the raw element is read and must be finite, have positive
scale and ||q|-1| <= 4*u*(n+1) (the initial rounding counts as one operation); a longdouble shadow matrix driven
by the same operations (lie_ref.exp_matrix for increments) must still be represented by the
element within an error budget that grows by C_H*u*(magnitudes of the step) per operation
(plus what C01 allows Exp of the increment to be off, see hostile_operands).
"""
import numpy as np
import torch
import pypose as pp

from .. import gen, lie
from ..oracles import lie_ref as L

PID = "C03"
LEVEL = "exploration"
SHARDS = {"quick": 4, "thorough": 16}
TIMEOUT = {"quick": 900, "thorough": 5400}
RULE = ("Static part: per group type and dtype, batches of elements drawn per item from 8 recipes (generic; "
        "angle pi-+1e-12..1e-3 and exactly pi; angle 0/1e-12..1e-3; exact axis-aligned 0, pi/2, pi; scale e^+-8; "
        "|t| = 1e-6..1e6; all of these together; w<0 hemisphere) with random quaternion sign, combined into "
        "pairs/triples and points (3-vectors 1e-3..1e3, zero, basis; 4-vectors with w in {0,1,-1,+-random,1e-3,1e3}), "
        "flat batches and 9 broadcasting shape pairs. One case = one item of a batched evaluation; distinct = distinct "
        "input bit patterns per monitor. History part: one element, a random program of up to 10^4 operations with "
        "per-history operation mix, hostile operands (near-pi, tiny, both hemispheres, cancelling translations), "
        "mean-reverting scale and pulled-back translation; one case = one (history, step).")
ASSUME = ["lie_ref.group_matrix / exp_matrix in longdouble (exp_matrix is validated against mpmath by C01)",
          "tolerance C*u*(product of magnitude matrices [[s,|t|],[0,1]] of the factors), C=32 for single operations "
          "and products of two, 48 for triples",
          "history shadow budget per step: rotation 32u + 4*measured quaternion drift; translation the same times the "
          "magnitudes entering the step; the accuracy of Exp of an increment is C01's clause: budgeted with 8x the measured "
          "distance of the library's Exp(a) from lie_ref.exp_matrix(a), capped by C01's tolerance (64u rotation, "
          "8 sqrt(u)|t| + 64 u |tau| max(1,e^sigma) translation)",
          "unit quaternion of a single product / inverse: 16u / 8u (24u for triples); history: 4u(n+1)",
          "identity_() exists only for SO3 (NotImplementedError elsewhere is not judged)", "CPU only"]

C1, C2, C3 = 32.0, 32.0, 48.0          # single op / two factors / three factors
C_H = 32.0                              # history budget per step
RECIPES = ("generic", "nearpi", "tiny", "axis", "bigscale", "bigtrans", "alladv", "negw")
HAS_T = {"SO3": False, "SE3": True, "RxSO3": False, "Sim3": True}
HAS_S = {"SO3": False, "SE3": False, "RxSO3": True, "Sim3": True}
IDENT = {"SO3": pp.identity_SO3, "SE3": pp.identity_SE3, "RxSO3": pp.identity_RxSO3, "Sim3": pp.identity_Sim3}
IDENT_ALG = {"SO3": pp.identity_so3, "SE3": pp.identity_se3, "RxSO3": pp.identity_rxso3, "Sim3": pp.identity_sim3}
ALGCTOR = {"SO3": pp.so3, "SE3": pp.se3, "RxSO3": pp.rxso3, "Sim3": pp.sim3}


# ------------------------------------------------------------------------------- generators
def make_elements(kind, rng, shape, dtype, recipe=None):
    """Valid elements (unit quaternion up to the rounding to dtype) of lshape `shape`.
    Returns (LieTensor, recipe index per item)."""
    n = int(np.prod(shape, dtype=np.int64)) if len(shape) else 1
    rec = rng.integers(0, len(RECIPES), n) if recipe is None else np.full(n, RECIPES.index(recipe))
    axis = gen.unit_vectors(rng, n, 0.2)
    ang = L.ld(rng.uniform(0, np.pi, n))
    dl = L.ld(10.0 ** rng.uniform(-12, -3, n))
    pick3 = rng.integers(0, 3, n)
    nearpi = (rec == 1) | (rec == 6)
    PI = np.arctan(L.LD(1)) * 4
    ang = np.where(nearpi, PI + np.where(pick3 == 0, -dl, np.where(pick3 == 1, dl, 0 * dl)), ang)
    ang = np.where(rec == 2, np.where(pick3 == 0, 0 * dl, dl), ang)
    ang = np.where(rec == 7, L.ld(rng.uniform(np.pi, 2 * np.pi, n)), ang)
    q = L.axis_angle_quat(axis, ang)
    q[nearpi & (pick3 == 2), 3] = 0              # exactly pi about a random axis: w = 0
    # exact axis-aligned rotations by 0, pi/2, pi: components written literally
    ax = rec == 3
    if ax.any():
        k = int(ax.sum())
        qa = np.zeros((k, 4), dtype=L.LD)
        idx = rng.integers(0, 3, k)
        which = rng.integers(0, 3, k)            # 0: angle pi, 1: pi/2, 2: identity
        r2 = np.sqrt(L.LD(0.5))
        for j in range(k):
            if which[j] == 0:
                qa[j, idx[j]] = 1
            elif which[j] == 1:
                qa[j, idx[j]] = r2
                qa[j, 3] = r2
            else:
                qa[j, 3] = 1
        q[ax] = qa
    q = q * L.ld(rng.choice([-1.0, 1.0], n))[:, None]
    t = L.ld(rng.standard_normal((n, 3)))
    big_t = (rec == 5) | (rec == 6)
    t = np.where(big_t[:, None], L.ld(gen.unit_vectors(rng, n, 0.2)) * L.ld(10.0 ** rng.integers(-6, 7, n))[:, None], t)
    sig = L.ld(rng.uniform(-1, 1, n))
    big_s = (rec == 4) | (rec == 6)
    pick_s = rng.integers(0, 3, n)             # e^+-8 exactly, e^+-(4..8), e^+-(8..20): scales down to 2e-9 and up to 5e8
    sg8 = np.select([pick_s == 0, pick_s == 1], [8.0 + 0 * pick_s, rng.uniform(4, 8, n)], rng.uniform(8, 20, n)) * rng.choice([-1.0, 1.0], n)
    sig = np.where(big_s, L.ld(sg8), sig)
    X = L.join_grp(kind, t, q, np.exp(sig))
    X = lie.lt(kind, np.asarray(X, dtype=np.float64).reshape(tuple(shape) + (L.GRP[kind],)), dtype)
    return X, rec.reshape(shape)


def make_points(rng, shape, dtype, four=False):
    n = int(np.prod(shape, dtype=np.int64)) if len(shape) else 1
    p = rng.standard_normal((n, 3)) * 10.0 ** rng.integers(-3, 4, (n, 1))
    cls = rng.integers(0, 8, n)
    p[cls == 0] = 0.0
    b = cls == 1
    if b.any():
        e = np.zeros((int(b.sum()), 3))
        e[np.arange(int(b.sum())), rng.integers(0, 3, int(b.sum()))] = 1.0
        p[b] = e
    wcls = None
    if four:
        wcls = rng.integers(0, 7, n)
        w = np.select([wcls == 0, wcls == 1, wcls == 2, wcls == 3, wcls == 4, wcls == 5],
                      [0.0 * cls, 1.0 + 0 * cls, -1.0 + 0 * cls, rng.uniform(0.1, 10, n), -rng.uniform(0.1, 10, n),
                       1e-3 + 0 * cls], 1e3 + 0.0 * cls)
        p = np.concatenate([p, w[:, None]], -1)
        wcls = wcls.reshape(shape)
    pt = torch.as_tensor(p.reshape(tuple(shape) + (p.shape[-1],))).to(dtype)
    return pt, wcls


WNAMES = ("w=0", "w=1", "w=-1", "w>0", "w<0", "w=1e-3", "w=1e3")


# ------------------------------------------------------------------------------- oracle helpers
def raw(X):
    if isinstance(X, pp.LieTensor):
        X = X.tensor()
    return X.detach().double().numpy()


def mag(kind, Xr):
    """2x2 magnitude matrix [[s, |t|], [0, 1]] (float64) of raw elements."""
    t, q, s = L.split_grp(kind, Xr)
    m = np.zeros(Xr.shape[:-1] + (2, 2))
    m[..., 0, 0] = np.abs(s).astype(np.float64)
    m[..., 0, 1] = np.sqrt((t * t).sum(-1)).astype(np.float64)
    m[..., 1, 1] = 1.0
    return m


def mag_inv(m):
    """magnitude matrix of the inverse element."""
    o = np.zeros_like(m)
    o[..., 0, 0] = 1.0 / m[..., 0, 0]
    o[..., 0, 1] = m[..., 0, 1] / m[..., 0, 0]
    o[..., 1, 1] = 1.0
    return o


def flat(a, shape, tail):
    return np.broadcast_to(a, tuple(shape) + tuple(a.shape[len(a.shape) - tail:])).reshape((-1,) + tuple(a.shape[len(a.shape) - tail:]))


def cmp_M(ck, monitor, regime, got, ref, P, u, c, entry, mech, wit, tiny):
    """got/ref (..., 4, 4) longdouble, P (..., 2, 2) magnitude product; all broadcastable."""
    shape = np.broadcast_shapes(got.shape[:-2], ref.shape[:-2], P.shape[:-2])
    got, ref, P = flat(got, shape, 2), flat(ref, shape, 2), flat(P, shape, 2)
    d = got - ref
    with np.errstate(all="ignore"):
        d_rot = np.abs(d[:, :3, :3]).max((-1, -2)).astype(np.float64)
        d_t = np.sqrt((d[:, :3, 3] ** 2).sum(-1)).astype(np.float64)
    ok1 = ck.ratios(monitor, regime, d_rot, c * u * P[:, 0, 0], entry, mech + ":rotation_scale_block", wit)
    ok2 = ck.ratios(monitor, regime, d_t, c * u * P[:, 0, 1] + tiny * (P[:, 0, 1] > 0), entry,
                    mech + ":translation_block", wit)
    return ok1 and ok2


def cmp_vec(ck, monitor, regime, got, ref, scale, u, c, entry, mech, wit):
    shape = np.broadcast_shapes(got.shape[:-1], ref.shape[:-1], scale.shape)
    got, ref, scale = flat(got, shape, 1), flat(ref, shape, 1), flat(scale, shape, 0)
    with np.errstate(all="ignore"):
        d = np.sqrt(((got - ref) ** 2).sum(-1)).astype(np.float64)
    return ck.ratios(monitor, regime, d, c * u * scale, entry, mech, wit)


def check_valid(ck, monitor, regime, entry, kind, Wr, u, c, wit):
    """The result of a product / inverse is a valid element: unit quaternion (to c*u), positive scale, finite."""
    _, q, sc = L.split_grp(kind, Wr)
    with np.errstate(all="ignore"):
        dq = np.abs(L.quat_norm(q) - 1).astype(np.float64).reshape(-1)
    ck.ratios(monitor, regime, dq, c * u, entry, "result_quaternion_not_unit", wit)
    ck.check(bool(np.isfinite(Wr).all()) and bool(np.all(sc > 0)), monitor, regime, entry,
             "result_nonfinite_or_scale_not_positive", lambda: wit(0))


def count_items(ck, monitor, kind, dn, rec, rows):
    rec = np.asarray(rec).reshape(-1)
    uniq, cnt = np.unique(rec, return_counts=True)
    for k, c in zip(uniq, cnt):
        ck.count(monitor, f"{kind}/{dn}/{RECIPES[int(k)]}", n=int(c), nontrivial=False)
    from ..core import row_digests, key_digest
    ck.digests.update(int(d) ^ key_digest((monitor, kind, dn)) for d in row_digests(rows))


def witness_fn(kind, dn, **arrs):
    """Lazily built witness: item i of each (flattened, broadcast) raw input."""
    def w(i):
        out = {"kind": kind, "dtype": dn}
        for k, a in arrs.items():
            a = np.asarray(a, dtype=np.float64)
            a2 = a.reshape(-1, a.shape[-1])
            j = i % a2.shape[0] if a2.shape[0] else 0
            out[k] = a2[j].tolist()
            out[k + "_hex"] = [float(v).hex() for v in a2[j]]
        return out
    return w


def bshape(*arrs):
    return np.broadcast_shapes(*[a.shape[:-1] for a in arrs])


def bflat(a, shape):
    return np.broadcast_to(a, tuple(shape) + a.shape[-1:]).reshape(-1, a.shape[-1])


# ------------------------------------------------------------------------------- static monitors
def check_type(ck, monitor, regime, entry, Z, kind, dtype, shape):
    return ck.check(isinstance(Z, pp.LieTensor) and Z.ltype is lie.LT[kind] and Z.dtype == dtype
                    and tuple(Z.shape) == tuple(shape) + (L.GRP[kind],), monitor, regime, entry, "type_or_shape",
                    lambda: {"ltype": str(getattr(Z, "ltype", None)), "shape": list(Z.shape), "expected": list(shape)})


def monitor_products(ck, kind, dn, X, Y, Z, recX, tag=""):
    """mul_hom, assoc, matrix_hom on broadcastable X, Y, Z."""
    dtype = lie.DT[dn]
    u, tiny = lie.u_of(dtype), lie.tiny_of(dtype)
    reg = f"{kind}/{dn}{tag}"
    Xr, Yr, Zr = raw(X), raw(Y), raw(Z)
    MX, MY, MZ = L.group_matrix(kind, Xr), L.group_matrix(kind, Yr), L.group_matrix(kind, Zr)
    gX, gY, gZ = mag(kind, Xr), mag(kind, Yr), mag(kind, Zr)
    sh2 = bshape(Xr, Yr)
    wit2 = witness_fn(kind, dn, X=bflat(Xr, sh2), Y=bflat(Yr, sh2))
    entry = f"{kind}.Mul"
    for op, f in (("matmul", lambda: X @ Y), ("mul", lambda: X * Y)):
        ok, W = ck.call("mul_hom", reg, entry, f, witness={"op": op})
        if not ok:
            continue
        check_type(ck, "mul_hom", reg, entry, W, kind, dtype, sh2)
        if W.numel():
            cmp_M(ck, "mul_hom", reg, L.group_matrix(kind, raw(W)), np.matmul(MX, MY), np.matmul(gX, gY), u, C2,
                  entry, "product_not_matrix_product", wit2, tiny)
            check_valid(ck, "mul_hom", reg, entry, kind, raw(W), u, 16.0, wit2)
        count_items(ck, "mul_hom", kind, dn, np.broadcast_to(recX, sh2), lie.rows(bflat(Xr, sh2), bflat(Yr, sh2)))
        if op == "matmul" and W.numel():
            # matrix() of the product equals the product of the matrix()s (pypose outputs only)
            okm, mats = ck.call("matrix_hom", reg, f"{kind}.matrix", lambda: (W.matrix(), X.matrix(), Y.matrix()))
            if okm:
                a, b, c_ = (L.ld(m) for m in mats)
                d = a - np.matmul(b, c_)
                P = np.matmul(gX, gY)
                shape = np.broadcast_shapes(d.shape[:-2], P.shape[:-2])
                dd, PP = flat(d, shape, 2), flat(P, shape, 2)
                ck.ratios("matrix_hom", reg, np.abs(dd[:, :3, :3]).max((-1, -2)).astype(np.float64),
                          C3 * u * PP[:, 0, 0], f"{kind}.matrix", "matrix_not_homomorphism:rotation_scale_block", wit2)
                if d.shape[-1] == 4:
                    ck.ratios("matrix_hom", reg, np.sqrt((dd[:, :3, 3] ** 2).sum(-1)).astype(np.float64),
                              C3 * u * PP[:, 0, 1] + tiny * (PP[:, 0, 1] > 0), f"{kind}.matrix",
                              "matrix_not_homomorphism:translation_block", wit2)
                count_items(ck, "matrix_hom", kind, dn, np.broadcast_to(recX, sh2),
                            lie.rows(bflat(Xr, sh2), bflat(Yr, sh2)))
    # associativity, each side against the reference triple product
    sh3 = bshape(Xr, Yr, Zr)
    wit3 = witness_fn(kind, dn, X=bflat(Xr, sh3), Y=bflat(Yr, sh3), Z=bflat(Zr, sh3))
    ref3, P3 = np.matmul(np.matmul(MX, MY), MZ), np.matmul(np.matmul(gX, gY), gZ)
    for side, f in (("(XY)Z", lambda: (X @ Y) @ Z), ("X(YZ)", lambda: X @ (Y @ Z))):
        ok, W = ck.call("assoc", reg, entry, f, witness={"side": side})
        if not ok:
            continue
        check_type(ck, "assoc", reg, entry, W, kind, dtype, sh3)
        if W.numel():
            cmp_M(ck, "assoc", reg, L.group_matrix(kind, raw(W)), ref3, P3, u, C3, entry,
                  "triple_product_" + side, wit3, tiny)
            check_valid(ck, "assoc", reg, entry, kind, raw(W), u, 24.0, wit3)
        count_items(ck, "assoc", kind, dn, np.broadcast_to(recX, sh3),
                    lie.rows(bflat(Xr, sh3), bflat(Yr, sh3), bflat(Zr, sh3)))


def monitor_inverse(ck, kind, dn, X, recX, tag=""):
    dtype = lie.DT[dn]
    u, tiny = lie.u_of(dtype), lie.tiny_of(dtype)
    reg = f"{kind}/{dn}{tag}"
    Xr = raw(X)
    MX, gX = L.group_matrix(kind, Xr), mag(kind, Xr)
    gI = mag_inv(gX)
    entry = f"{kind}.Inv"
    wit = witness_fn(kind, dn, X=Xr)
    ok, Xi = ck.call("inverse", reg, entry, lambda: X.Inv())
    if not ok:
        return
    check_type(ck, "inverse", reg, entry, Xi, kind, dtype, Xr.shape[:-1])
    if not Xi.numel():
        return
    Xir = raw(Xi)
    MI = L.group_matrix(kind, Xir)
    I4 = np.eye(4, dtype=L.LD)
    check_valid(ck, "inverse", reg, entry, kind, Xir, u, 8.0, wit)
    cmp_M(ck, "inverse", reg, np.matmul(MI, MX), I4, np.matmul(gI, gX), u, C2, entry, "left_inverse_in_M", wit, tiny)
    cmp_M(ck, "inverse", reg, np.matmul(MX, MI), I4, np.matmul(gX, gI), u, C2, entry, "right_inverse_in_M", wit, tiny)
    # through the library's own product as well
    for side, f, P in (("left", lambda: Xi @ X, np.matmul(gI, gX)), ("right", lambda: X @ Xi, np.matmul(gX, gI))):
        okp, W = ck.call("inverse", reg, f"{kind}.Mul", f, witness={"side": side})
        if okp:
            cmp_M(ck, "inverse", reg, L.group_matrix(kind, raw(W)), I4, P, u, C3, entry, side + "_inverse_product", wit, tiny)
    # Inv is an involution in M
    ok2, Xii = ck.call("inverse", reg, entry, lambda: Xi.Inv())
    if ok2:
        cmp_M(ck, "inverse", reg, L.group_matrix(kind, raw(Xii)), MX, gX + gX, u, C2, entry, "inverse_of_inverse", wit, tiny)
    count_items(ck, "inverse", kind, dn, recX, Xr.reshape(-1, Xr.shape[-1]))


def monitor_matrix(ck, kind, dn, X, recX, tag=""):
    """X.matrix() equals M(X); its blocks equal rotation()/translation()/scale()."""
    dtype = lie.DT[dn]
    u, tiny = lie.u_of(dtype), lie.tiny_of(dtype)
    reg = f"{kind}/{dn}{tag}"
    Xr = raw(X)
    lsh = Xr.shape[:-1]
    MX, gX = L.group_matrix(kind, Xr), mag(kind, Xr)
    entry = f"{kind}.matrix"
    wit = witness_fn(kind, dn, X=Xr)
    ok, Mm = ck.call("matrix", reg, entry, lambda: X.matrix())
    if not ok:
        return
    k = 3 if kind == "SO3" else 4
    if not ck.check(tuple(Mm.shape) == tuple(lsh) + (k, k) and Mm.dtype == dtype and not isinstance(Mm, pp.LieTensor),
                    "matrix", reg, entry, "type_or_shape", {"shape": list(Mm.shape), "lshape": list(lsh)}):
        return
    if not Mm.numel():
        return
    Mg = L.ld(Mm)
    G4 = np.zeros(tuple(lsh) + (4, 4), dtype=L.LD)
    G4[..., 3, 3] = 1
    G4[..., :k, :k] = Mg
    cmp_M(ck, "matrix", reg, G4, MX, gX, u, C1, entry, "matrix_differs_from_representation", wit, tiny)
    if k == 4:
        bottom = np.asarray(Mg[..., 3, :], dtype=np.float64)
        ck.check(bool(np.all(bottom == np.array([0.0, 0.0, 0.0, 1.0]))), "matrix", reg, entry, "bottom_row_not_0001",
                 lambda: {"bottom": bottom.reshape(-1, 4)[:4].tolist()})
    # accessors
    oka, acc = ck.call("accessors", reg, f"{kind}.rotation/translation/scale",
                       lambda: (X.rotation(), X.translation(), X.scale()))
    if not oka:
        return
    rot, tr, sc = acc
    good = ck.check(isinstance(rot, pp.LieTensor) and rot.ltype is pp.SO3_type and tuple(rot.shape) == tuple(lsh) + (4,)
                    and tuple(tr.shape) == tuple(lsh) + (3,) and tuple(sc.shape) == tuple(lsh) + (1,)
                    and rot.dtype == dtype and tr.dtype == dtype and sc.dtype == dtype,
                    "accessors", reg, f"{kind}.rotation/translation/scale", "type_or_shape",
                    lambda: {"rot": list(rot.shape), "tr": list(tr.shape), "sc": list(sc.shape)})
    if good:
        A = np.zeros(tuple(lsh) + (4, 4), dtype=L.LD)
        A[..., :3, :3] = L.ld(sc)[..., None] * L.quat_R(raw(rot))
        A[..., :3, 3] = L.ld(tr)
        A[..., 3, 3] = 1
        cmp_M(ck, "accessors", reg, G4, A, gX, u, C1, f"{kind}.rotation/translation/scale",
              "matrix_blocks_differ_from_accessors", wit, tiny)
        qn = np.abs(L.quat_norm(raw(rot)) - 1).astype(np.float64).reshape(-1)
        ck.ratios("accessors", reg, qn, 8 * u, f"{kind}.rotation", "rotation_accessor_not_unit", wit)
        if not HAS_T[kind]:
            ck.check(bool((tr == 0).all()), "accessors", reg, f"{kind}.translation", "translation_of_rotation_type_nonzero")
        if not HAS_S[kind]:
            ck.check(bool((sc == 1).all()), "accessors", reg, f"{kind}.scale", "scale_of_unscaled_type_not_one")
        count_items(ck, "accessors", kind, dn, recX, Xr.reshape(-1, Xr.shape[-1]))
    count_items(ck, "matrix", kind, dn, recX, Xr.reshape(-1, Xr.shape[-1]))


def monitor_act(ck, kind, dn, X, Y, p3, p4, wcls, recX, tag=""):
    dtype = lie.DT[dn]
    u, tiny = lie.u_of(dtype), lie.tiny_of(dtype)
    reg = f"{kind}/{dn}{tag}"
    Xr, Yr = raw(X), raw(Y)
    MX, MY, gX, gY = L.group_matrix(kind, Xr), L.group_matrix(kind, Yr), mag(kind, Xr), mag(kind, Yr)
    entry = f"{kind}.Act"
    for four, p in ((False, p3), (True, p4)):
        mon = "act4" if four else "act3"
        pr = p.detach().double().numpy()
        ph = L.ld(pr) if four else np.concatenate([L.ld(pr), np.ones(pr.shape[:-1] + (1,), dtype=L.LD)], -1)
        sh = bshape(Xr, pr)
        wit = witness_fn(kind, dn, X=bflat(Xr, sh), p=bflat(pr, sh))
        n3 = np.sqrt((ph[..., :3] ** 2).sum(-1)).astype(np.float64)
        aw = np.abs(ph[..., 3]).astype(np.float64)
        ref = np.matmul(MX, ph[..., None])[..., 0]
        scale = gX[..., 0, 0] * n3 + gX[..., 0, 1] * aw
        for op, f in (("Act", lambda: X.Act(p)), ("matmul", lambda: X @ p), ("mul", lambda: X * p)):
            ok, out = ck.call(mon, reg, entry, f, witness={"op": op})
            if not ok:
                continue
            if not ck.check(tuple(out.shape) == tuple(sh) + (pr.shape[-1],) and out.dtype == dtype
                            and not isinstance(out, pp.LieTensor), mon, reg, entry, "type_or_shape",
                            {"shape": list(out.shape), "expected": list(sh)}):
                continue
            if not out.numel():
                continue
            o = L.ld(out)
            cmp_vec(ck, mon, reg, o[..., :3], ref[..., :3], scale + tiny, u, C1, entry,
                    "act_differs_from_matrix_times_point" + ("4" if four else "3"), wit)
            if four:
                cmp_vec(ck, mon, reg, o[..., 3:], ref[..., 3:], aw, u, C1, entry, "homogeneous_w_changed", wit)
            count_items(ck, mon, kind, dn, np.broadcast_to(recX, sh), lie.rows(bflat(Xr, sh), bflat(pr, sh)))
        if four and wcls is not None:
            for c in np.unique(wcls):
                ck.mark(f"act4/{kind}/{dn}/{WNAMES[int(c)]}", int((wcls == c).sum()))
        # (X@Y).Act(p) = X.Act(Y.Act(p)), each side against M(X) M(Y) p
        sh2 = bshape(Xr, Yr, pr)
        wit2 = witness_fn(kind, dn, X=bflat(Xr, sh2), Y=bflat(Yr, sh2), p=bflat(pr, sh2))
        ref2 = np.matmul(np.matmul(MX, MY), ph[..., None])[..., 0]
        P = np.matmul(gX, gY)
        scale2 = P[..., 0, 0] * n3 + P[..., 0, 1] * aw
        for side, f in (("(XY)p", lambda: (X @ Y).Act(p)), ("X(Yp)", lambda: X.Act(Y.Act(p)))):
            ok, out = ck.call("act_compose", reg, entry, f, witness={"side": side})
            if not ok or not out.numel():
                continue
            o = L.ld(out)
            cmp_vec(ck, "act_compose", reg, o[..., :3], ref2[..., :3], scale2 + tiny, u, C3, entry,
                    "composed_action_" + side, wit2)
            if four:
                cmp_vec(ck, "act_compose", reg, o[..., 3:], ref2[..., 3:], aw, u, C1, entry, "homogeneous_w_changed", wit2)
            count_items(ck, "act_compose", kind, dn, np.broadcast_to(recX, sh2),
                        lie.rows(bflat(Xr, sh2), bflat(Yr, sh2), bflat(pr, sh2)))


def monitor_identity(ck, kind, dn, X, p3, p4, recX, tag=""):
    dtype = lie.DT[dn]
    u, tiny = lie.u_of(dtype), lie.tiny_of(dtype)
    reg = f"{kind}/{dn}{tag}"
    Xr = raw(X)
    lsh = tuple(Xr.shape[:-1])
    MX, gX = L.group_matrix(kind, Xr), mag(kind, Xr)
    wit = witness_fn(kind, dn, X=Xr)
    I4 = np.eye(4, dtype=L.LD)
    ctors = [("identity_" + kind, lambda: IDENT[kind](*lsh, dtype=dtype)),
             ("identity_like", lambda: pp.identity_like(X, dtype=dtype)),
             ("ltype.identity", lambda: lie.LT[kind].identity(*lsh, dtype=dtype)),
             ("identity_" + kind + "()", lambda: IDENT[kind](dtype=dtype))]
    if kind == "SO3":
        ctors.append(("identity_", lambda: X.clone().identity_()))
    else:
        # documented for every type, implemented for SO3 only: a NotImplementedError is not judged,
        # any value that is returned must be the identity
        def inplace():
            try:
                return X.clone().identity_()
            except NotImplementedError:
                ck.note_add("identity__not_implemented/" + kind)
                return None
        ctors.append(("identity_", inplace))
    for name, f in ctors:
        entry = f"{kind}.{name}"
        ok, E = ck.call("identity", reg, entry, f)
        if not ok or E is None:
            continue
        esh = () if name.endswith("()") else lsh
        if not check_type(ck, "identity", reg, entry, E, kind, dtype, esh):
            continue
        ck.count("identity", f"{reg}/{name}", key=(kind, dn, name, lsh), nontrivial=True)
        if not E.numel():
            continue
        Er = raw(E)
        d = np.abs(L.group_matrix(kind, Er) - I4).max()
        _, q, _ = L.split_grp(kind, Er)
        ck.check(float(d) == 0.0 and bool(np.all(L.quat_norm(q) == 1)), "identity", reg, entry, "identity_matrix_not_I",
                 lambda: {"E": Er.reshape(-1, Er.shape[-1])[0].tolist()})
        for side, g in (("left", lambda: E @ X), ("right", lambda: X @ E)):
            okp, W = ck.call("identity", reg, f"{kind}.Mul", g, witness={"side": side, "ctor": name})
            if okp:
                check_type(ck, "identity", reg, entry, W, kind, dtype, lsh)
                if W.numel():
                    cmp_M(ck, "identity", reg, L.group_matrix(kind, raw(W)), MX, gX, u, C1, entry,
                          "identity_not_neutral_" + side, wit, tiny)
        for p in (p3, p4):
            oka, out = ck.call("identity", reg, f"{kind}.Act", lambda: E.Act(p))
            if oka and out.numel():
                pr = L.ld(p)
                cmp_vec(ck, "identity", reg, L.ld(out), np.broadcast_to(pr, out.shape), np.sqrt((pr ** 2).sum(-1)).astype(np.float64),
                        u, C1, entry, "identity_moves_points", witness_fn(kind, dn, p=p.double().numpy()))
        okm, Em = ck.call("identity", reg, f"{kind}.matrix", lambda: E.matrix())
        if okm:
            k = Em.shape[-1]
            ck.check(bool((Em == torch.eye(k, dtype=dtype)).all()), "identity", reg, entry, "identity_matrix_not_I")
    count_items(ck, "identity", kind, dn, recX, Xr.reshape(-1, Xr.shape[-1]))
    # algebra identities: the zero vector (neutral increment)
    ok, z = ck.call("identity", reg, f"{kind}.identity_alg", lambda: IDENT_ALG[kind](*lsh, dtype=dtype))
    if ok:
        alg = L.GRP2ALG[kind]
        good = ck.check(z.ltype is lie.LT[alg] and tuple(z.shape) == lsh + (L.ALG[alg],) and bool((z == 0).all()),
                        "identity", reg, f"{kind}.identity_alg", "algebra_identity_not_zero")
        if good and z.numel():
            okx, E = ck.call("identity", reg, f"{alg}.Exp", lambda: z.Exp())
            if okx:
                ck.check(float(np.abs(L.group_matrix(kind, raw(E)) - I4).max()) == 0.0, "identity", reg,
                         f"{kind}.identity_alg", "exp_of_algebra_identity_not_I")


SHAPE_PAIRS = [((), ()), ((1,), (5,)), ((5,), (1,)), ((4,), (4,)), ((3, 1), (1, 4)), ((2, 3), (3,)), ((3,), (2, 3)),
               ((2, 1, 3), (2, 3)), ((), (2, 2)),
               # one element against a cloud / a cloud of elements against one operand (sizes around 64 and 256, 1000)
               ((), (64,)), ((1,), (257,)), ((), (1000,)), ((300,), ()), ((1,), (3, 70))]


def static_part(ck, rng):
    thorough = ck.tier == "thorough"
    N = 1024 if thorough else 512
    reps = 3 if thorough else 1
    for dn in ("f64", "f32"):
        dtype = lie.DT[dn]
        for kind in lie.GRPS:
            for rep in range(reps):
                X, rx = make_elements(kind, rng, (N,), dtype)
                Y, _ = make_elements(kind, rng, (N,), dtype)
                Z, _ = make_elements(kind, rng, (N,), dtype)
                p3, _ = make_points(rng, (N,), dtype)
                p4, wc = make_points(rng, (N,), dtype, four=True)
                for r in np.unique(rx):
                    ck.mark(f"cls/{kind}/{dn}/{RECIPES[int(r)]}", int((rx == r).sum()))
                monitor_products(ck, kind, dn, X, Y, Z, rx)
                monitor_inverse(ck, kind, dn, X, rx)
                monitor_matrix(ck, kind, dn, X, rx)
                monitor_act(ck, kind, dn, X, Y, p3, p4, wc, rx)
                if rep == 0:
                    monitor_identity(ck, kind, dn, X[:64], p3[:64], p4[:64], rx[:64])
                if len(ck.samples) < 4:
                    W = X[:1] @ Y[:1]
                    ck.sample({"kind": kind, "dtype": dn, "X_hex": [float(v).hex() for v in raw(X)[0]],
                               "Y_hex": [float(v).hex() for v in raw(Y)[0]], "X@Y": raw(W)[0].tolist(),
                               "max|M(X@Y)-M(X)M(Y)|": float(np.abs(L.group_matrix(kind, raw(W)[0]) - L.group_matrix(kind, raw(X)[0])
                                                                      @ L.group_matrix(kind, raw(Y)[0])).max())})
            # batch shapes with broadcasting (and one empty pair)
            for sa, sb in SHAPE_PAIRS + [((0,), (0,)), ((2, 0), (1,))]:
                tag = "/shape"
                X, rx = make_elements(kind, rng, sa, dtype)
                Y, _ = make_elements(kind, rng, sb, dtype)
                Z, _ = make_elements(kind, rng, sa, dtype)
                p3, _ = make_points(rng, sb, dtype)
                p4, wc = make_points(rng, sb, dtype, four=True)
                monitor_products(ck, kind, dn, X, Y, Z, rx, tag)
                monitor_inverse(ck, kind, dn, X, rx, tag)
                monitor_matrix(ck, kind, dn, X, rx, tag)
                monitor_act(ck, kind, dn, X, Y, p3, p4, wc, rx, tag)
                monitor_identity(ck, kind, dn, X, p3, p4, rx, tag)
                ck.mark(f"shape/{kind}/{dn}/{sa}x{sb}")
            for r in RECIPES:
                ck.require(f"cls/{kind}/{dn}/{r}")
            for w in WNAMES:
                ck.require(f"act4/{kind}/{dn}/{w}")
            for sa, sb in SHAPE_PAIRS:
                ck.require(f"shape/{kind}/{dn}/{sa}x{sb}")


# ------------------------------------------------------------------------------- histories
OPS = ("X@Y", "Y@X", "Inv", "add_", "Retr", "+")
CHECKPOINTS = (10, 100, 1000, 2000, 10000)


def sim_inverse(S):
    """Inverse of [[sR, t], [0, 1]] in longdouble."""
    A = S[:3, :3]
    s2 = (A * A).sum() / 3
    Ai = A.T / s2
    out = np.zeros((4, 4), dtype=L.LD)
    out[:3, :3] = Ai
    out[:3, 3] = -Ai @ S[:3, 3]
    out[3, 3] = 1
    return out


def lie_dn(dtype):
    return 'f64' if dtype == torch.float64 else 'f32'


def hostile_operands(ck, kind, rng, n, dtype):
    """Pre-generated operands of a history: group elements Y (two variants: expanding / contracting
    scale) and increments a (two variants), already rounded to dtype, with their reference matrices."""
    alg = L.GRP2ALG[kind]
    axis = gen.unit_vectors(rng, n, 0.15)
    pick = rng.integers(0, 8, n)
    ang = rng.uniform(0, np.pi, n)
    ang = np.where(pick == 0, np.pi - 10.0 ** rng.uniform(-12, -3, n), ang)
    ang = np.where(pick == 1, 10.0 ** rng.uniform(-12, -3, n), ang)
    ang = np.where(pick == 2, rng.uniform(np.pi, 2 * np.pi, n), ang)
    ang = np.where(pick == 3, np.pi, ang)
    q = L.axis_angle_quat(axis, ang) * L.ld(rng.choice([-1.0, 1.0], n))[:, None]
    tY = L.ld(gen.unit_vectors(rng, n, 0.1) * (10.0 ** rng.uniform(-6, 2, n))[:, None])
    tY[rng.integers(0, 10, n) == 0] = 0
    spick = rng.integers(0, 3, n)
    asig = np.where(spick == 0, 0.0, np.where(spick == 1, 10.0 ** rng.uniform(-10, -1, n), rng.uniform(0.1, 0.7, n)))
    Ys, MYs = [], []
    for sgn in (1.0, -1.0):
        Yv = L.join_grp(kind, tY, q, np.exp(L.ld(sgn * asig)))
        Yt = lie.lt(kind, np.asarray(Yv, dtype=np.float64), dtype)
        Ys.append(Yt)
        MYs.append(L.group_matrix(kind, raw(Yt)))
    # increments
    ipick = rng.integers(0, 6, n)
    th = np.where(ipick == 0, 0.0, np.where(ipick <= 2, 10.0 ** rng.uniform(-12, -1, n), rng.uniform(0.1, np.pi, n)))
    th = np.where(ipick == 5, rng.uniform(np.pi, 2 * np.pi, n), th)
    phi = gen.unit_vectors(rng, n, 0.15) * th[:, None]
    tau = gen.unit_vectors(rng, n, 0.1) * (10.0 ** rng.uniform(-6, 1, n))[:, None]
    tau[rng.integers(0, 10, n) == 0] = 0
    s2 = rng.integers(0, 3, n)
    asg = np.where(s2 == 0, 0.0, np.where(s2 == 1, 10.0 ** rng.uniform(-10, -1, n), rng.uniform(0.1, 0.5, n)))
    As, EAs, DEs = [], [], []
    u = lie.u_of(dtype)
    for sgn in (1.0, -1.0):
        a = np.asarray(L.join_alg(alg, tau, phi, sgn * asg), dtype=np.float64)
        at = torch.as_tensor(a).to(dtype)
        As.append(at)
        E = L.exp_matrix(alg, at.double().numpy())
        EAs.append(E)
        # How far the library's own Exp of the increment is from the reference exponential, capped by what
        # C01 allows Exp to be off (rotation/scale block 64u, translation 8 sqrt(u)|t| + 64u|tau|max(1,e^sigma)):
        # accuracy of Exp is C01's clause, the history monitor only budgets for it.
        ok, Ex = ck.call("history_valid", f"{kind}/{lie_dn(dtype)}", f"{alg}.Exp", lambda: ALGCTOR[kind](at).Exp())
        if not ok:
            return None
        Mx = L.group_matrix(kind, raw(Ex))
        sE = np.sqrt((E[:, :3, :3] ** 2).sum((-1, -2)) / 3).astype(np.float64)
        tE = np.sqrt((E[:, :3, 3] ** 2).sum(-1)).astype(np.float64)
        tn = np.sqrt((L.split_alg(alg, at.double().numpy())[0] ** 2).sum(-1)).astype(np.float64)
        with np.errstate(all="ignore"):
            d_rot = np.nan_to_num(np.abs(Mx[:, :3, :3] - E[:, :3, :3]).max((-1, -2)).astype(np.float64) / sE, nan=np.inf)
            d_t = np.nan_to_num(np.sqrt(((Mx[:, :3, 3] - E[:, :3, 3]) ** 2).sum(-1)).astype(np.float64), nan=np.inf)
        floor_t = 64 * u * tn * np.maximum(1.0, sE)
        # x8: a single-item Exp inside the operation may round differently from this batched one, and in
        # the cancelling coefficients ((1-cos th)/th^2 ...) that difference is as large as the error itself
        DEs.append((np.minimum(8 * d_rot, 64 * u), np.minimum(8 * d_t, 8 * np.sqrt(u) * tE + floor_t) + floor_t))
    return Ys, MYs, As, EAs, DEs


def run_history(ck, kind, dn, n_ops, hid, rng, batched):
    """One element, n_ops operations; the monitors look at the element after every operation."""
    dtype = lie.DT[dn]
    u, tiny = lie.u_of(dtype), lie.tiny_of(dtype)
    alg = L.GRP2ALG[kind]
    reg = f"{kind}/{dn}"
    lsh = (1,) if batched else ()
    X, _ = make_elements(kind, rng, lsh, dtype, recipe="generic")
    S = L.group_matrix(kind, raw(X).reshape(-1))
    w = rng.dirichlet(np.ones(len(OPS)) * 1.5)
    w[2] = min(w[2], 0.1)
    w /= w.sum()
    ops = rng.choice(len(OPS), n_ops, p=w)
    coin = rng.integers(0, 2, n_ops)
    long_a = rng.integers(0, 4, n_ops) == 0          # `other` with trailing entries (documented as ignored)
    fpull = 1.0 - 2.0 ** (-rng.integers(1, 12, n_ops).astype(np.float64))
    pre = hostile_operands(ck, kind, rng, n_ops, dtype)
    if pre is None:
        return
    Ys, MYs, As, EAs, DEs = pre
    b_rot, b_t = C_H * u, u * float(np.sqrt((S[:3, 3] ** 2).sum()))
    worst_valid, worst_shadow = 0.0, 0.0
    npull = 0
    opcount = np.zeros(len(OPS), dtype=np.int64)
    drift = {}
    Xr = raw(X).reshape(-1)
    dX = abs(float(L.quat_norm(L.split_grp(kind, Xr)[1])) - 1.0)
    for i in range(n_ops):
        n = i + 1
        op = int(ops[i])
        sS = float(np.sqrt((S[:3, :3] ** 2).sum() / 3))
        tS = float(np.sqrt((S[:3, 3] ** 2).sum()))
        var = int(coin[i])
        if HAS_S[kind]:
            ls = np.log(sS)
            var = 1 if ls > 1.0 else 0 if ls < -1.0 else var
        entry = f"{kind}.history[{OPS[op]}]"
        eps_step = C_H * u + 4.0 * dX
        if HAS_T[kind] and tS > 1e4 and op != 2:
            # pull the translation back with a hostile Y@X whose translation nearly cancels s_Y R_Y t
            op = 1
            Y0 = raw(Ys[var][i])
            tq_s = L.split_grp(kind, Y0)
            MY0 = L.group_matrix(kind, Y0)
            tpull = -L.LD(fpull[i]) * (MY0[:3, :3] @ S[:3, 3])
            Yv = L.join_grp(kind, tpull, tq_s[1], tq_s[2])
            Y = lie.lt(kind, np.asarray(Yv, dtype=np.float64), dtype)
            MY = L.group_matrix(kind, raw(Y))
            npull += 1
            entry = f"{kind}.history[Y@X]"
        elif op in (0, 1):
            Y, MY = Ys[var][i], MYs[var][i]
        if op in (0, 1):
            yt = Y.tensor() if isinstance(Y, pp.LieTensor) else Y
            Yb = pp.LieTensor(yt.reshape(lsh + (-1,)).clone(), ltype=lie.LT[kind])
            sY = float(np.sqrt((MY[:3, :3] ** 2).sum() / 3))
            tY = float(np.sqrt((MY[:3, 3] ** 2).sum()))
            if op == 0:
                ok, Xn = ck.call("history_valid", reg, entry, lambda: X @ Yb)
                S = S @ MY
                b_t = b_t + (b_rot + eps_step) * sS * tY + C_H * u * (tS + sS * tY)
            else:
                ok, Xn = ck.call("history_valid", reg, entry, lambda: Yb @ X)
                S = MY @ S
                b_t = sY * b_t + eps_step * sY * tS + C_H * u * (tY + sY * tS)
            b_rot += eps_step
        elif op == 2:
            ok, Xn = ck.call("history_valid", reg, entry, lambda: X.Inv())
            S = sim_inverse(S)
            b_t = b_t / sS + (b_rot + 2 * eps_step) * tS / sS
            b_rot += eps_step
        else:
            a, E = As[var][i], EAs[var][i]
            sE = float(np.sqrt((E[:3, :3] ** 2).sum() / 3))
            tE = float(np.sqrt((E[:3, 3] ** 2).sum()))
            av = torch.cat([a, torch.full((1,), 7.5, dtype=dtype)]) if long_a[i] and op != 4 else a
            av = av.reshape(lsh + (-1,)) if batched else av
            if op == 3:
                def f():
                    r = X.add_(av)
                    if r is not X:
                        raise AssertionError("add_ did not return its input object")
                    return X
                ok, Xn = ck.call("history_valid", reg, entry, f)
            elif op == 4:
                ok, Xn = ck.call("history_valid", reg, entry, lambda: X.Retr(ALGCTOR[kind](av)))
            else:
                ok, Xn = ck.call("history_valid", reg, entry, lambda: X + av)
            S = E @ S
            b_t = sE * b_t + (eps_step + float(DEs[var][0][i])) * sE * tS + C_H * u * (tE + sE * tS) + float(DEs[var][1][i])
            b_rot += eps_step + C_H * u + float(DEs[var][0][i])
        if not ok:
            return
        opcount[op] += 1
        if not check_type(ck, "history_valid", reg, entry, Xn, kind, dtype, lsh):
            return
        X = Xn
        Xr = raw(X).reshape(-1)
        t_, q_, s_ = L.split_grp(kind, Xr)
        fin = bool(np.isfinite(Xr).all())
        dX = abs(float(L.quat_norm(q_)) - 1.0) if fin else np.inf
        tolq = 4.0 * (n + 1) * u                  # the rounding of the initial element counts as one operation
        if not ck.ratio("history_valid", reg, dX, tolq, entry, "quaternion_norm_drift_beyond_4un",
                        lambda: {"history": hid, "n": n, "X": Xr.tolist(), "kind": kind, "dtype": dn}):
            return
        if not ck.check(fin and float(s_) > 0, "history_valid", reg, entry, "nonfinite_or_scale_not_positive",
                        lambda: {"history": hid, "n": n, "X": Xr.tolist(), "kind": kind, "dtype": dn}):
            return
        worst_valid = max(worst_valid, dX / tolq)
        if n in CHECKPOINTS:
            drift[n] = dX / u
        # the element still represents the reference transformation
        Mx = L.group_matrix(kind, Xr)
        sS = float(np.sqrt((S[:3, :3] ** 2).sum() / 3))
        d_rot = float(np.abs(Mx[:3, :3] - S[:3, :3]).max())
        d_t = float(np.sqrt(((Mx[:3, 3] - S[:3, 3]) ** 2).sum()))
        wit = lambda: {"history": hid, "n": n, "kind": kind, "dtype": dn, "X": Xr.tolist(),  # noqa: E731
                       "S": np.asarray(S, dtype=np.float64).tolist(), "op": OPS[op]}
        ok1 = ck.ratio("history_shadow", reg, d_rot, b_rot * sS, entry, "element_left_reference:rotation_scale_block", wit)
        ok2 = ck.ratio("history_shadow", reg, d_t, b_t + tiny * (b_t > 0), entry, "element_left_reference:translation_block", wit)
        if not (ok1 and ok2):
            return
    # bookkeeping
    for k in range(len(OPS)):
        if opcount[k]:
            ck.count("history_valid", f"{reg}/{OPS[k]}", n=int(opcount[k]), nontrivial=False)
            ck.count("history_shadow", f"{reg}/{OPS[k]}", n=int(opcount[k]), nontrivial=False)
            ck.mark(f"history-op/{kind}/{OPS[k]}", int(opcount[k]))
    from ..core import row_digests, key_digest
    rows = np.stack([np.full(n_ops, hid), np.arange(n_ops), ops], -1).astype(np.int64)
    ck.digests.update(int(d) ^ key_digest(("history", kind, dn, ck.seed, ck.shard)) for d in row_digests(rows))
    if n_ops >= 2000:
        ck.mark(f"history/{kind}/{dn}/n>=2000")
    if n_ops >= 10000:
        ck.mark(f"history/{kind}/{dn}/n>=10000")
    ck.note_add("history_operations", n_ops)
    ck.note_add("history_pullbacks", npull)
    for n, v in drift.items():
        ck.note_max(f"max_qdrift_over_u/{dn}/n={n}", v)
    ck.note_max(f"max_final_qdrift_over_u_sqrt_n/{dn}", dX / u / np.sqrt(n_ops))
    ck.note_max(f"max_shadow_budget_rot_over_u/{dn}", b_rot / u)
    if len(ck.samples) < 8:
        ck.sample({"history": hid, "kind": kind, "dtype": dn, "ops": n_ops, "op_counts": dict(zip(OPS, opcount.tolist())),
                   "final_X": Xr.tolist(), "final_|q|-1_over_u": dX / u, "drift_over_u_at": drift,
                   "final_shadow_rot_err_over_u": d_rot / sS / u})


def companion_history(ck, kind, dn, n_ops, hid, rng):
    """Added by the framework owner: the same history applied to one element alone and to that element as row 0 of a
    batch of three (rows 1, 2 are bystanders with their own operands).  After every operation row 0 of the batch must
    equal the lone element (they are re-synchronised after each comparison, so rounding cannot accumulate) and every row
    must stay a valid element: a result must not depend on what else is in the batch."""
    dtype = lie.DT[dn]
    u = lie.u_of(dtype)
    alg = L.GRP2ALG[kind]
    reg = f"{kind}/{dn}/batch3"
    X = lie.random_group(kind, rng, 1, dtype, max_angle=2.0, sigma_max=0.3)
    X = pp.LieTensor(X.tensor().reshape(-1).clone(), ltype=lie.LT[kind])
    B = lie.random_group(kind, rng, 3, dtype, max_angle=2.0, sigma_max=0.3)
    B = pp.LieTensor(B.tensor().clone(), ltype=lie.LT[kind])
    with torch.no_grad():
        B.tensor()[0] = X.tensor()
    for i in range(n_ops):
        op = int(rng.integers(0, 6))
        Y3 = lie.random_group(kind, rng, 3, dtype, max_angle=1.5, sigma_max=0.05, t_scale=0.3)
        a3 = lie.lt(alg, rng.standard_normal((3, L.ALG[alg])) * 10.0 ** rng.uniform(-6, -0.5), dtype)
        if HAS_S[kind]:
            # keep the scale mean-reverting
            sg = a3.tensor()[:, -1].abs() * (-torch.sign(torch.log(B.tensor()[:, -1])))
            a3 = lie.lt(alg, torch.cat([a3.tensor()[:, :-1], sg[:, None]], -1), dtype)
        Y1 = pp.LieTensor(Y3.tensor()[0].clone(), ltype=lie.LT[kind])
        a1 = pp.LieTensor(a3.tensor()[0].clone(), ltype=lie.LT[alg])
        entry = f"{kind}.history[{OPS[min(op, len(OPS) - 1)]}]/batch"
        def both(f):
            return f(X, Y1, a1), f(B, Y3, a3)
        try:
            if op == 0:
                Xn, Bn = both(lambda Z, Y, a: Z @ Y)
            elif op == 1:
                Xn, Bn = both(lambda Z, Y, a: Y @ Z)
            elif op == 2:
                Xn, Bn = both(lambda Z, Y, a: Z.Inv())
            elif op == 3:
                Xn, Bn = both(lambda Z, Y, a: Z.add_(a))
            elif op == 4:
                Xn, Bn = both(lambda Z, Y, a: Z.Retr(a))
            else:
                Xn, Bn = both(lambda Z, Y, a: Z + a)
        except Exception as e:  # noqa
            ck.violation("history_batch", reg, entry, "raised:" + type(e).__name__, {"history": hid, "n": i, "error": repr(e)[:300]})
            return
        X, B = Xn, Bn
        xb, x1 = B.tensor().detach().double().numpy(), X.tensor().detach().double().numpy()
        ck.count("history_batch", reg, key=(hid, i), nontrivial=True)
        _, q, sc = L.split_grp(kind, xb)
        dq = np.abs(np.asarray(L.quat_norm(q), dtype=np.float64) - 1.0)
        okv = ck.ratio("history_batch", reg, float(dq.max()), 4.0 * (i + 2) * u, entry, "quaternion_norm_drift_beyond_4un",
                       lambda: {"history": hid, "n": i + 1, "rows": xb.tolist(), "kind": kind, "dtype": dn})
        okv = okv and ck.check(bool(np.isfinite(xb).all() and (np.asarray(sc, dtype=np.float64) > 0).all()), "history_batch", reg, entry,
                               "nonfinite_or_scale_not_positive", lambda: {"history": hid, "n": i + 1, "rows": xb.tolist()})
        sc0 = 1.0 + float(np.abs(x1).max())
        oke = ck.ratio("history_batch", reg, float(np.abs(xb[0] - x1).max()), 16 * u * sc0, entry, "row_of_batch_differs_from_the_same_element_alone",
                       lambda: {"history": hid, "n": i + 1, "alone": x1.tolist(), "row0_of_batch": xb[0].tolist(), "kind": kind, "dtype": dn})
        if not (okv and oke):
            return
        with torch.no_grad():        # re-synchronise row 0 (bitwise) so that rounding differences cannot accumulate
            B.tensor()[0] = X.tensor()
    ck.mark(f"history-batch/{kind}/{dn}", n_ops)


def histories(ck):
    thorough = ck.tier == "thorough"
    for j, (k_, dn_) in enumerate([(k, dn) for dn in ("f64", "f32") for k in lie.GRPS]):
        if ck.mine(j):
            companion_history(ck, k_, dn_, 4000 if thorough else 700, ("batch", j), np.random.default_rng(ck.subseed(f"cb{j}")))
        ck.require(f"history-batch/{k_}/{dn_}")
    combos = [(k, dn) for dn in ("f64", "f32") for k in lie.GRPS]
    plan = []
    per = 8 if thorough else 2
    length = 10000 if thorough else 2000
    for r in range(per):
        for (k, dn) in combos:
            plan.append((k, dn, length))
    if not thorough:
        plan += [("Sim3", "f32", 10000), ("SE3", "f64", 10000)]
    # longest first, each to the least loaded shard (deterministic), so that the shards finish together
    order = sorted(range(len(plan)), key=lambda i: -plan[i][2])
    loads = [0] * ck.nshards
    for i in order:
        tgt = int(np.argmin(loads))
        loads[tgt] += plan[i][2]
        if tgt != ck.shard:
            continue
        k, dn, n = plan[i]
        run_history(ck, k, dn, n, i, np.random.default_rng(ck.subseed(f"hist{i}")), batched=bool(i % 2))
    for (k, dn) in combos:
        ck.require(f"history/{k}/{dn}/n>=2000")
        if thorough:
            ck.require(f"history/{k}/{dn}/n>=10000")
    for k in lie.GRPS:
        for o in OPS:
            ck.require(f"history-op/{k}/{o}")
    if not thorough:
        ck.require("history/Sim3/f32/n>=10000", "history/SE3/f64/n>=10000")


def run(ck):
    static_part(ck, ck.rng("static"))
    histories(ck)
    if ck.shard == 0:
        # call-history independence of every operation (shared monitor, added by the framework owner)
        from .. import history
        history.run(ck, "C03", reps=4 if ck.tier == "thorough" else 2)
    for m, n in (("mul_hom", 2000), ("assoc", 2000), ("inverse", 1000), ("matrix", 1000), ("accessors", 1000),
                 ("act3", 2000), ("act4", 2000), ("act_compose", 2000), ("matrix_hom", 1000), ("identity", 50),
                 ("history_valid", 30000), ("history_shadow", 30000)):
        ck.floor(m, n)
