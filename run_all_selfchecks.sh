#!/bin/bash
# Runs every seeded change and every self-check mutant against the quick tiers (long: ~3 h); prints one line per patch.
cd "$(dirname "$0")"; ./setup.sh >/dev/null
/venv/bin/python -m vrf.selfcheck --seeded | grep -o '"patch": "[^"]*", "rc": [-0-9]*, "wall": [0-9.]*, "status": "[^"]*"\|[0-9]*/[0-9]* caught'
for c in C01 C02 C03 C04 C05 C06 C07 C08 C09 C10 C11 C12 C13 C14 C15 C16 C17 C18 C19 C20; do
  /venv/bin/python -m vrf.selfcheck $c | grep -o '"patch": "[^"]*", "rc": [-0-9]*, "wall": [0-9.]*, "status": "[^"]*"\|[0-9]*/[0-9]* caught'
done
