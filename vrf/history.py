"""History monitor shared by C01/C02/C03/C05: the value of an operation depends only on the values of its
operands, not on earlier calls, on what the caller did to an earlier result, or on the operand having been
updated in place (caches keyed on object identity / storage / version, results aliasing a cached object).

For every (op, type): r1 = f(X); the caller scribbles over r1 in place; f(X) again must still be the value;
X is then updated in place to new values (copy_, add_, indexed assignment); f(X) must equal f(fresh tensor with
those values).  Compared within 8 eps (same shapes, same kernels: bitwise in practice)."""
import copy
import pickle

import numpy as np
import torch
import pypose as pp

from . import lie
from .oracles import lie_ref as L


def _vals(t):
    """Values of a result / operand as a plain detached copy.  A tensor that cannot even be read (autograd refuses access to a view whose
    base was modified behind its back) yields a NaN placeholder, so that the comparison it feeds reports the violation."""
    try:
        return (t.tensor() if isinstance(t, pp.LieTensor) else t).detach().clone()
    except RuntimeError:
        return torch.full((1,), float("nan"), dtype=torch.float64)


def _fresh(kind, vals):
    return pp.LieTensor(vals.clone(), ltype=lie.LT[kind]) if kind != "R" else vals.clone()


def _scribble(r):
    t = r.tensor() if isinstance(r, pp.LieTensor) else r
    if isinstance(t, torch.Tensor) and t.numel() and t.is_floating_point():
        with torch.no_grad():
            torch.Tensor.as_subclass(t, torch.Tensor).mul_(0.5).add_(1.0)
        return True
    return False


def _close(a, b, u):
    if a.shape != b.shape:
        return float("inf")
    if a.numel() == 0:
        return 0.0
    return float(((a.double() - b.double()).abs() / (8 * u * (1 + b.double().abs()))).max())


def ops_for(prop):
    """(name, operand kind of X per group, f(X, aux) -> tensor)."""
    out = []
    for G in lie.GRPS:
        a = L.GRP2ALG[G]
        if prop == "C01":
            out.append((f"{a}.Exp", a, None, lambda X, aux: X.Exp()))
        if prop == "C02":
            out.append((f"{G}.Log", G, None, lambda X, aux: X.Log()))
        if prop == "C03":
            out += [(f"{G}.Inv", G, None, lambda X, aux: X.Inv()),
                    (f"{G}.Mul[left]", G, G, lambda X, aux: X @ aux),
                    (f"{G}.Mul[right]", G, G, lambda X, aux: aux @ X),
                    (f"{G}.Act3", G, "P3", lambda X, aux: X.Act(aux)),
                    (f"{G}.Act4", G, "P4", lambda X, aux: X.Act(aux)),
                    (f"{G}.matrix", G, None, lambda X, aux: X.matrix()),
                    (f"{G}.rotation", G, None, lambda X, aux: X.rotation()),
                    (f"{G}.translation", G, None, lambda X, aux: X.translation()),
                    (f"{G}.scale", G, None, lambda X, aux: X.scale())]
        if prop == "C05":
            out += [(f"{G}.Adj", G, a, lambda X, aux: X.Adj(aux)),
                    (f"{G}.AdjT", G, a, lambda X, aux: X.AdjT(aux)),
                    (f"{G}.Jinvp", G, a, lambda X, aux: X.Jinvp(aux)),
                    (f"{G}.Retr", G, a, lambda X, aux: X.Retr(aux)),
                    (f"{G}.__add__", G, a, lambda X, aux: X + aux),
                    (f"{a}.__add__", a, a, lambda X, aux: X + aux)]
    if prop == "C05":
        out += [("so3.Jr", "so3", None, lambda X, aux: X.Jr()), ("SO3.Jr", "SO3", None, lambda X, aux: X.Jr())]
    return out


def _make(kind, rng, shape, dtype):
    n = int(np.prod(shape)) if shape else 1
    if kind in lie.GRPS:
        return lie.random_group(kind, rng, n, dtype, max_angle=2.5, sigma_max=0.4).tensor().reshape(tuple(shape) + (L.GRP[kind],))
    if kind in lie.ALGS:
        return torch.as_tensor(rng.standard_normal(tuple(shape) + (L.ALG[kind],)) * 0.6).to(dtype)
    d = 3 if kind == "P3" else 4
    return torch.as_tensor(rng.standard_normal(tuple(shape) + (d,))).to(dtype)


def _special(kind, shape, dtype):
    """The neutral operand: the zero vector of an algebra / the identity of a group / zero points."""
    if kind in lie.GRPS:
        v = torch.zeros(tuple(shape) + (L.GRP[kind],), dtype=dtype)
        v[..., 6 if kind in ("SE3", "Sim3") else 3] = 1.0
        if kind in ("RxSO3", "Sim3"):
            v[..., -1] = 1.0
        return v
    d = L.ALG[kind] if kind in lie.ALGS else (3 if kind == "P3" else 4)
    return torch.zeros(tuple(shape) + (d,), dtype=dtype)


CTORS = {"SO3": "identity_SO3", "SE3": "identity_SE3", "RxSO3": "identity_RxSO3", "Sim3": "identity_Sim3",
         "so3": "identity_so3", "se3": "identity_se3", "rxso3": "identity_rxso3", "sim3": "identity_sim3"}


def neutral_operand_history(ck, prop):
    """Results computed from the neutral operand (zero vector / identity element) and freshly constructed identities are the
    caller's like any other: after the caller edited one in place, the same call returns the value again (nothing shared / cached)."""
    rng = ck.rng("neutral")
    for dn in ("f64", "f32"):
        dtype = lie.DT[dn]
        u = lie.u_of(dtype)
        for (name, kx, kaux, f) in ops_for(prop):
            for shape in ((), (1,), (2,), (2, 3)):
                X = _fresh(kx, _special(kx, shape, dtype))
                aux = _aux_for(kaux, rng, shape, dtype)
                wit = {"op": name, "dtype": dn, "lshape": list(shape), "operand": "neutral element"}
                regime = f"{name}/{dn}/neutral"
                ok, r1 = ck.call("history", regime, name, f, X, aux, witness=wit)
                if not ok:
                    continue
                c1 = _vals(r1)
                ck.count("history", regime, key=(name, dn, tuple(shape), "neutral"))
                r1t = _plain(r1)
                Xt = _plain(X)
                if isinstance(r1t, torch.Tensor) and r1t.numel() and r1t.untyped_storage().data_ptr() == Xt.untyped_storage().data_ptr():
                    continue                     # documented views of the operand (accessors)
                try:
                    done = _scribble(r1)
                except RuntimeError:
                    done = False                 # an expanded result cannot be written through
                if done:
                    ok, r2 = ck.call("history", regime, name, f, _fresh(kx, _special(kx, shape, dtype)), aux, witness=wit)
                    if ok:
                        ck.ratio("history", regime, _close(_vals(r2), c1, u), 1.0, name,
                                 "result_depends_on_what_the_caller_did_to_an_earlier_result", wit)
                    ck.mark("history/neutral-operand")
        if prop == "C03":
            for kind, ctor in CTORS.items():
                for lsize in ((), (1,), (2,), (1, 1)):
                    make = lambda: getattr(pp, ctor)(*lsize, dtype=dtype)
                    wit = {"constructor": ctor, "lsize": list(lsize), "dtype": dn}
                    regime = f"{ctor}/{dn}"
                    ok, a = ck.call("history", regime, ctor, make, witness=wit)
                    if not ok:
                        continue
                    want = _special(kind, lsize, dtype)
                    ck.check(tuple(a.shape) == tuple(want.shape) and torch.equal(_vals(a), want), "history", regime, ctor, "constructor_is_not_the_neutral_element", wit)
                    with torch.no_grad():
                        _plain(a).mul_(0.5).add_(0.25)            # the caller moves the element it was given
                    ok, b = ck.call("history", regime, ctor, make, witness=wit)
                    ck.count("history", regime, key=(ctor, dn, lsize))
                    if ok:
                        ck.check(tuple(b.shape) == tuple(want.shape) and torch.equal(_vals(b), want), "history", regime, ctor,
                                 "constructor_returns_an_element_edited_by_an_earlier_caller", wit)
                    ok, c = ck.call("history", regime, ctor + "/identity_like", lambda: pp.identity_like(a), witness=wit)
                    if ok:
                        ck.check(torch.equal(_vals(c), want.to(c.dtype)), "history", regime, "identity_like", "constructor_returns_an_element_edited_by_an_earlier_caller", wit)
                    ck.mark("history/constructors")
    ck.require("history/neutral-operand")


def run(ck, prop, reps=2):
    cross_talk(ck, prop)          # first: nothing of this worker has been through a backward yet
    grad_mode_history(ck, prop)
    neutral_operand_history(ck, prop)
    rng = ck.rng("history")
    turn = 0
    for rep in range(reps):
        for dn in ("f64", "f32"):
            dtype = lie.DT[dn]
            u = lie.u_of(dtype)
            for (name, kx, kaux, f) in ops_for(prop):
                shape = [(), (3,), (2, 2)][(rep + len(name)) % 3]
                aux = None if kaux is None else (_fresh(kaux, _make(kaux, rng, shape, dtype)) if kaux in lie.LT else _make(kaux, rng, shape, dtype))
                v1, v2 = _make(kx, rng, shape, dtype), _make(kx, rng, shape, dtype)
                X = _fresh(kx, v1)
                wit = {"op": name, "dtype": dn, "lshape": list(shape)}
                regime = f"{name}/{dn}"
                ok, r1 = ck.call("history", regime, name, f, X, aux, witness=wit)
                if not ok:
                    continue
                c1 = _vals(r1)
                ck.count("history", regime, key=(name, dn, rep, v1.numpy().tobytes()[:64]))
                # (a) the caller modifies the result it was given; the operation is asked again
                r1t = r1.tensor() if isinstance(r1, pp.LieTensor) else r1
                is_view = isinstance(r1t, torch.Tensor) and r1t.numel() and \
                    r1t.untyped_storage().data_ptr() == (X.tensor() if isinstance(X, pp.LieTensor) else X).untyped_storage().data_ptr()
                if is_view:
                    ck.mark("history/result_is_a_view_of_the_operand(not scribbled)")
                if not is_view and _scribble(r1):
                    ok, r1b = ck.call("history", regime, name, f, X, aux, witness=wit)
                    if ok:
                        ck.ratio("history", regime, _close(_vals(r1b), c1, u), 1.0, name, "result_depends_on_what_the_caller_did_to_an_earlier_result", wit)
                    ck.check(torch.equal(_vals(X), v1), "history", regime, name, "operand_changed", wit)
                # (b) the operand is updated in place to new values (three ways), then used again
                turn += 1
                how = ["copy_", "index", "retract", "data", "numpy", "view-add_"][turn % 6]
                if how == "view-add_" and not (kx in lie.GRPS and len(shape) >= 1):
                    how = "retract"
                base = None
                if how == "view-add_":
                    # the operand is a view (all but the first item) of a larger tensor and is retracted in place through that view:
                    # the memory of the larger tensor holds the new element afterwards
                    base = _fresh(kx, torch.cat([_make(kx, rng, (1,) + tuple(shape[1:]), dtype), v1], 0))
                    base0 = _vals(base)
                    X = base[1:]
                if how == "numpy":
                    # the operand shares its memory with a numpy array that the caller refills (no autograd version bump)
                    arr = v1.numpy().copy()
                    X = pp.LieTensor(torch.from_numpy(arr), ltype=lie.LT[kx]) if kx != "R" else torch.from_numpy(arr)
                    ck.call("history", regime, name, f, X, aux, witness=dict(wit, update=how))
                    arr[...] = v2.numpy()
                with torch.no_grad():
                    if how == "numpy":
                        pass
                    elif how == "data":
                        # written through .data: the values change, the version counter does not
                        (X.tensor() if isinstance(X, pp.LieTensor) else X).data[...] = v2
                    elif how == "copy_":
                        X.copy_(_fresh(kx, v2) if kx != "R" else v2)
                    elif how == "index":
                        (X.tensor() if isinstance(X, pp.LieTensor) else X)[...] = v2
                    elif how == "view-add_":
                        d = _fresh(L.GRP2ALG[kx], _make(L.GRP2ALG[kx], rng, shape, dtype))
                        want = _vals(d.Exp() @ _fresh(kx, v1))
                        X.add_(d)
                        v2 = want
                        ck.check(torch.equal(_vals(base)[:1], base0[:1]), "history", regime, f"{kx}.add_", "in_place_update_through_a_view_touched_other_items", wit)
                        ck.ratio("history", regime, _close(_vals(base)[1:], want, u), 1.0, f"{kx}.add_",
                                 "in_place_update_through_a_view_did_not_reach_the_memory_of_the_base_tensor", dict(wit, update=how))
                    else:
                        if kx in lie.GRPS:
                            d = _fresh(L.GRP2ALG[kx], _make(L.GRP2ALG[kx], rng, shape, dtype))
                            X.add_(d)
                            v2 = _vals(X)
                        else:
                            X.copy_(_fresh(kx, v2))
                ok, r2 = ck.call("history", regime, name, f, X, aux, witness=dict(wit, update=how))
                ok2, ref = ck.call("history", regime, name, f, _fresh(kx, v2), aux if aux is None else (_fresh(kaux, _vals(aux)) if kaux in lie.LT else aux.clone()),
                                   witness=dict(wit, update=how))
                if ok and ok2:
                    ck.ratio("history", regime, _close(_vals(r2), _vals(ref), u), 1.0, name, "result_depends_on_call_history_of_the_operand",
                             dict(wit, update=how))
                    ck.mark("history/" + how)
    # ---- memory layouts: the same values handed over as non-contiguous views / expanded (stride-0) tensors / tensors that
    # require grad must give the same result as a fresh contiguous tensor
    for dn in ("f64", "f32"):
        dtype = lie.DT[dn]
        u = lie.u_of(dtype)
        for (name, kx, kaux, f) in ops_for(prop):
            for lay in ("strided-batch", "strided-last", "expanded", "transposed", "requires_grad", "aux_requires_grad", "both_require_grad",
                        "no_grad", "parameter", "deepcopy", "pickle", "aux_deepcopy", "aux_pickle"):
                shape = (3,) if lay != "transposed" else (2, 3)
                v = _make(kx, rng, shape, dtype)
                d = v.shape[-1]
                if lay == "strided-batch":
                    big = torch.zeros((6, d), dtype=dtype)
                    big[::2] = v
                    view = big[::2]
                elif lay == "strided-last":
                    big = torch.zeros((3, 2 * d), dtype=dtype)
                    big[:, ::2] = v
                    view = big[:, ::2]
                elif lay == "expanded":
                    v = v[:1].expand(3, d).clone()
                    view = v[:1].expand(3, d)
                elif lay == "transposed":
                    big = v.transpose(0, 1).contiguous()
                    view = big.transpose(0, 1)
                elif lay in ("requires_grad", "both_require_grad", "no_grad"):
                    view = v.clone().requires_grad_(True)
                else:
                    view = v.clone()
                strided = lay in ("strided-batch", "strided-last", "expanded", "transposed")
                if strided and view.is_contiguous() and lay != "expanded":
                    continue
                if lay in ("aux_requires_grad", "both_require_grad", "aux_deepcopy", "aux_pickle") and kaux is None:
                    continue
                aux = None if kaux is None else (_fresh(kaux, _make(kaux, rng, shape, dtype)) if kaux in lie.LT else _make(kaux, rng, shape, dtype))
                aux_plain = aux
                if lay in ("aux_requires_grad", "both_require_grad"):
                    # how an operand takes part in autograd must not change the value of the result
                    aux = (_fresh(kaux, _vals(aux)) if kaux in lie.LT else aux.clone()).requires_grad_(True)
                Xv = pp.LieTensor(view, ltype=lie.LT[kx]) if kx != "R" else view
                if lay == "parameter":
                    Xv = pp.Parameter(Xv) if kx != "R" else torch.nn.Parameter(Xv)
                # object lifecycle: an operand that went through copy.deepcopy / pickle is the same element
                if lay == "deepcopy":
                    Xv = copy.deepcopy(Xv)
                elif lay == "pickle":
                    Xv = pickle.loads(pickle.dumps(Xv))
                elif lay == "aux_deepcopy":
                    aux = copy.deepcopy(aux)
                elif lay == "aux_pickle":
                    aux = pickle.loads(pickle.dumps(aux))
                regime = f"{name}/{dn}/layout:{lay}"
                wit = {"op": name, "dtype": dn, "layout": lay}
                if lay == "no_grad":
                    with torch.no_grad():
                        ok, r = ck.call("layout", regime, name, f, Xv, aux, witness=wit)
                else:
                    ok, r = ck.call("layout", regime, name, f, Xv, aux, witness=wit)
                ok2, ref = ck.call("layout", regime, name, f, _fresh(kx, v), aux_plain, witness=wit)
                ck.count("layout", regime, key=(name, dn, lay))
                if ok and ok2:
                    ck.ratio("layout", regime, _close(_vals(r), _vals(ref), u), 1.0, name, "result_depends_on_memory_layout_of_the_operand" if strided else
                             "result_depends_on_how_an_operand_takes_part_in_autograd", wit)
                    ck.check(torch.equal(_vals(Xv), v), "layout", regime, name, "operand_changed", wit)
                    ck.mark("layout/" + lay)
    if prop == "C03":
        # in-place identity_() on views of a larger tensor (implemented for SO3): every item of the view becomes the identity,
        # nothing else of the base changes
        for dn in ("f64", "f32"):
            dtype = lie.DT[dn]
            for lay in ("contiguous", "transposed", "column-slice", "row-stride", "rotation-of-poses"):
                if lay == "rotation-of-poses":
                    base = _fresh("SE3", _make("SE3", rng, (3, 4), dtype))
                    view = base[:, 1:3].rotation()
                    sel = (slice(None), slice(1, 3), slice(3, 7))
                else:
                    base = _fresh("SO3", _make("SO3", rng, (3, 4), dtype))
                    view, sel = {"contiguous": (base, (slice(None), slice(None))), "transposed": (base.transpose(0, 1), (slice(None), slice(None))),
                                 "column-slice": (base[:, :2], (slice(None), slice(0, 2))), "row-stride": (base[::2], (slice(0, None, 2), slice(None)))}[lay]
                    sel = sel + (slice(None),)
                before = base.tensor().clone()
                regime = f"SO3.identity_/{dn}/{lay}"
                ok, _ = ck.call("layout", regime, "SO3.identity_", lambda: view.identity_(), witness={"layout": lay, "dtype": dn})
                ck.count("layout", regime, key=("identity_", dn, lay))
                if not ok:
                    continue
                now = base.tensor()
                want = before.clone()
                want[sel] = torch.tensor([0.0, 0.0, 0.0, 1.0], dtype=dtype)
                ck.check(torch.equal(now, want), "layout", regime, "SO3.identity_", "identity__does_not_write_the_identity_into_the_view",
                         {"layout": lay, "dtype": dn, "base_after": now.tolist()})
                ck.mark("layout/identity_/" + lay)
        ck.require("layout/identity_/transposed", "layout/identity_/column-slice")
    if prop in ("C02", "C03", "C05"):
        ck.require("history/view-add_")
    ck.require("history/data", "history/numpy", "layout/no_grad", "layout/parameter", "layout/deepcopy", "layout/pickle")
    if prop in ("C03", "C05"):
        ck.require("layout/aux_requires_grad", "layout/both_require_grad")
    ck.require("history/copy_", "history/index", "history/retract", "layout/strided-batch", "layout/strided-last", "layout/expanded",
               "layout/transposed", "layout/requires_grad")
    ck.floor("history", 8)


ALL_PROPS = ("C01", "C02", "C03", "C05")
XT_SHAPES = ((), (3,), (2, 2))


def _aux_for(kaux, rng, shape, dtype):
    if kaux is None:
        return None
    return _fresh(kaux, _make(kaux, rng, shape, dtype)) if kaux in lie.LT else _make(kaux, rng, shape, dtype)


def _plain(r):
    return r.tensor() if isinstance(r, pp.LieTensor) else r


def battery(rng, dtype):
    """Forward and backward of every operation of the four Lie-tensor properties on fresh operands that require grad,
    for the lshapes the monitors use: whatever the library remembers between calls (templates, memoised blocks,
    switch-overs) has been through all of it afterwards.  -> (calls that ran, calls that raised)."""
    ran = failed = 0
    for prop in ALL_PROPS:
        for (name, kx, kaux, f) in ops_for(prop):
            for shape in XT_SHAPES:
                try:
                    X = _fresh(kx, _make(kx, rng, shape, dtype)).requires_grad_(True)
                    aux = _aux_for(kaux, rng, shape, dtype)
                    if aux is not None:
                        aux = aux.requires_grad_(True)
                    t = _plain(f(X, aux))
                    if isinstance(t, torch.Tensor) and t.requires_grad:
                        (t * torch.as_tensor(rng.standard_normal(tuple(t.shape))).to(t.dtype)).sum().backward()
                    ran += 1
                except Exception:
                    failed += 1
    return ran, failed


def cross_talk(ck, prop):
    """r1 = f(X) for every operation of `prop`; then the battery; then f(X) again on the same operands: the value of an
    operation does not depend on which other library calls (forward or backward, any type) ran in between."""
    rng = ck.rng("crosstalk")
    for dn in ("f64", "f32"):
        dtype = lie.DT[dn]
        u = lie.u_of(dtype)
        held = []
        for (name, kx, kaux, f) in ops_for(prop):
            for shape in XT_SHAPES:
                X = _fresh(kx, _make(kx, rng, shape, dtype))
                aux = _aux_for(kaux, rng, shape, dtype)
                wit = {"op": name, "dtype": dn, "lshape": list(shape)}
                ok, r1 = ck.call("crosstalk", f"{name}/{dn}", name, f, X, aux, witness=wit)
                if ok:
                    held.append((name, f, X, aux, _vals(r1), wit, r1))
        ran, failed = battery(rng, dtype)
        ck.note_add("crosstalk_battery_calls", ran)
        ck.note_add("crosstalk_battery_calls_raised", failed)
        for (name, f, X, aux, c1, wit, r1) in held:
            # the result handed out before is the caller's: nothing called since may have changed it
            ck.check(torch.equal(torch.nan_to_num(_vals(r1)), torch.nan_to_num(c1)), "crosstalk", f"{name}/{dn}", name,
                     "earlier_result_changed_by_a_later_call", wit)
            ok, r2 = ck.call("crosstalk", f"{name}/{dn}", name, f, X, aux, witness=wit)
            ck.count("crosstalk", f"{name}/{dn}", key=(name, dn, tuple(wit["lshape"])))
            if ok:
                ck.ratio("crosstalk", f"{name}/{dn}", _close(_vals(r2), c1, u), 1.0, name,
                         "result_depends_on_other_library_calls_made_in_between", wit)
        ck.mark("crosstalk/" + dn)
    ck.require("crosstalk/f64", "crosstalk/f32")


def grad_mode_history(ck, prop):
    """The same object evaluated first under no_grad and then with grad enabled (and twice with grad enabled): the later
    result takes part in autograd exactly like the result on a fresh object - same gradient, every backward works."""
    rng = ck.rng("gradmode")
    for dn in ("f64", "f32"):
        dtype = lie.DT[dn]
        u = lie.u_of(dtype)
        for (name, kx, kaux, f) in ops_for(prop):
            shape = (3,)
            v = _make(kx, rng, shape, dtype)
            aux = _aux_for(kaux, rng, shape, dtype)
            X1 = _fresh(kx, v).requires_grad_(True)
            X2 = _fresh(kx, v).requires_grad_(True)
            wit = {"op": name, "dtype": dn, "lshape": list(shape)}
            regime = f"{name}/{dn}"
            with torch.no_grad():
                ok0, _ = ck.call("gradmode", regime, name, f, X1, aux, witness=wit)
            ok1, ra = ck.call("gradmode", regime, name, f, X1, aux, witness=wit)
            ok1b, rb = ck.call("gradmode", regime, name, f, X1, aux, witness=wit)
            ok2, ref = ck.call("gradmode", regime, name, f, X2, aux, witness=wit)
            ck.count("gradmode", regime, key=(name, dn))
            if not (ok0 and ok1 and ok1b and ok2):
                continue
            ta, tb, tr = _plain(ra), _plain(rb), _plain(ref)
            if not (isinstance(tr, torch.Tensor) and tr.requires_grad):
                continue
            if not ck.check(ta.requires_grad and tb.requires_grad, "gradmode", regime, name,
                            "result_detached_from_autograd_after_an_earlier_call_under_no_grad", wit):
                continue
            g = torch.as_tensor(rng.standard_normal(tuple(tr.shape))).to(dtype)
            grads = []
            for t, X, tag in ((ta, X1, "first"), (tb, X1, "second"), (tr, X2, "fresh")):
                okg, gr = ck.call("gradmode", regime, name, lambda t=t, X=X: torch.autograd.grad((t * g).sum(), X, allow_unused=True)[0],
                                  witness=dict(wit, backward_of=tag + " grad-enabled result"))
                grads.append(_plain(gr) if okg and gr is not None else None)
            if grads[2] is None:
                continue
            for gr, tag in ((grads[0], "first"), (grads[1], "second")):
                if gr is None:
                    ck.check(False, "gradmode", regime, name, "no_gradient_reaches_the_operand_after_an_earlier_call_under_no_grad", dict(wit, result=tag))
                else:
                    ck.ratio("gradmode", regime, _close(gr.detach(), grads[2].detach(), u), 1.0, name,
                             "gradient_depends_on_an_earlier_call_in_another_grad_mode", dict(wit, result=tag))
            ck.mark("gradmode/" + dn)
    ck.require("gradmode/f64", "gradmode/f32")


def lifecycle(ck, props=ALL_PROPS):
    """Operands that went through copy.deepcopy / pickle / torch.save+load are the same elements: every operation gives the same
    value and the same type as on the original (used by C06)."""
    import io
    rng = ck.rng("lifecycle")

    def via(kind, t):
        if kind == "deepcopy":
            return copy.deepcopy(t)
        if kind == "pickle":
            return pickle.loads(pickle.dumps(t))
        b = io.BytesIO()
        torch.save(t, b)
        b.seek(0)
        return torch.load(b, weights_only=False)
    for prop in props:
        for dn in ("f64", "f32"):
            dtype = lie.DT[dn]
            u = lie.u_of(dtype)
            for (name, kx, kaux, f) in ops_for(prop):
                shape = (3,)
                X = _fresh(kx, _make(kx, rng, shape, dtype))
                aux = _aux_for(kaux, rng, shape, dtype)
                wit = {"op": name, "dtype": dn}
                ok0, ref = ck.call("lifecycle", f"{name}/{dn}", name, f, X, aux, witness=wit)
                if not ok0:
                    continue
                for kind in ("deepcopy", "pickle", "save-load"):
                    for who in ("operand", "second operand"):
                        if who == "second operand" and not isinstance(aux, pp.LieTensor):
                            continue
                        X2, a2 = (via(kind, X), aux) if who == "operand" else (X, via(kind, aux))
                        w2 = dict(wit, copied=who, through=kind)
                        ok, r = ck.call("lifecycle", f"{name}/{dn}/{kind}", name, f, X2, a2, witness=w2)
                        ck.count("lifecycle", f"{name}/{dn}/{kind}", key=(name, dn, kind, who))
                        if not ok:
                            continue
                        same_type = type(r) is type(ref) and (not isinstance(ref, pp.LieTensor) or r.ltype.__class__ is ref.ltype.__class__)
                        ck.check(same_type, "lifecycle", f"{name}/{dn}/{kind}", name, "result_type_differs_for_a_copied_operand", w2)
                        if same_type:
                            ck.ratio("lifecycle", f"{name}/{dn}/{kind}", _close(_vals(r), _vals(ref), u), 1.0, name,
                                     "result_differs_for_a_copied_operand", w2)
                        ck.mark("lifecycle/" + kind)
    ck.require("lifecycle/deepcopy", "lifecycle/pickle", "lifecycle/save-load")
