"""C05 — Adj, AdjT, Retr, +, Jinvp, Jr satisfy their defining tangent-space identities.

Every identity is judged in the reference matrix domain (vrf/oracles/lie_ref.py, longdouble), from
the raw components the operands had after rounding to the dtype under test:

  adj_lin / adjT_lin     Adj(X,a) = vee(M hat(a) M^-1), AdjT(X,a) = vee(M^-1 hat(a) M)  (all magnitudes
                         of a: the linear form of the identity, well conditioned for any |a|)
  adj_expm / adjT_expm   the literal identity  M expm(hat a) = expm(hat Adj(X,a)) M,
                         expm(hat a) M = M expm(hat AdjT(X,a))   (rotation of a <= 10 rad, |sigma_a| <= 4)
  retr                   M(Retr(X,a)) = M(X+a) = M(X.add(a)) = M(X.add_(a)) = expm(hat a) M(X), also with
                         extra trailing components in the added tensor (ignored)
  alg_add                algebra x + a is plain addition of the first d components, bitwise
  jinvp_ref              Jinvp(X,p) = Jl(Log X)^-1 p, reference Jl = sum ad^k/(k+1)! (longdouble Horner series
                         of the adjoint representation built from commutators of the generators), reference
                         Log from the raw quaternion; Sim3: plus the documented truncation (terms after B_4)
  jinvp_fd               Jinvp(X,p) = d/dh Log(Exp(h p) X) at 0 (Richardson central differences through the
                         float64 public forward functions)
  jr_ref / jr_fd / jr_zero   Jr(x) against sum (-ad)^k/(k+1)!, Exp(x+d) = Exp(x) Exp(Jr d) + O(|d|^2) at two
                         step sizes in the reference domain, Jr(0) = I bitwise; so3Type.Jr and SO3Type.Jr
  bcast                  broadcastable batch-shape pairs for all binary operators
"""
import numpy as np
import torch
import pypose as pp

from .. import gen, lie
from ..core import row_digests, key_digest
from ..oracles import lie_ref as L

PID = "C05"
LEVEL = "exploration"
SHARDS = {"quick": 4, "thorough": 16}
TIMEOUT = {"quick": 900, "thorough": 5400}
RULE = ("Group elements built in longdouble from (axis, angle, hemisphere, translation, scale) and rounded to the "
        "dtype: angle from {0, eps*{1/2,1,2}, sqrt(eps)*{1/2,1,2}, 1e-30..1e-2, 0.1..3, pi-1e-2, pi-1e-3} or "
        "log-uniform, translation norm from {0, 1e-12..1e6}, log-scale from {0, +-eps, +-sqrt(eps), .. +-8}; "
        "algebra operands a, p with each block drawn independently from {0, 1e-30, eps, sqrt(eps), 1e-3, O(1), pi, "
        "6, 30, 1e3} (rotation), {0,1e-12,1e-3,1,1e3} (translation), {0,+-eps..+-8 (+-1e3 for the linear Adj "
        "monitors)} (log-scale); Sim3 Jinvp on X = Exp(xi) with |xi| capped so that the documented truncation "
        "bound stays below 1e-2; both dtypes; four groups; 13 broadcastable lshape pairs incl. empty and rank 3. "
        "One case = one (X, a) pair; distinct = distinct bit patterns of the pair per monitor; trivial = identity "
        "X with zero a.")
ASSUME = ["longdouble reference: exp by scaling-and-squaring Taylor (validated against mpmath each run), Jl by "
          "60-term Horner series of ad built from generator commutators (validated against a 50-digit mpmath series "
          "each run), Gaussian elimination with partial pivoting in longdouble",
          "reference Log from the normalised raw quaternion (atan2) and W^-1 t with W read off the reference exp; "
          "self-checked each run by exp(ref_log(X)) = M(X)",
          "tolerances: 64*eps*scale for rotation/scale blocks and Adj/AdjT (scale = product of operand magnitudes of "
          "each block), 8*sqrt(eps) relative for translation-coupled blocks of Jinvp and for Jr, the C01 translation "
          "tolerance for Retr/+",
          "Sim3 Jinvp is allowed the remainder sum_{k>=3} |B_2k|/(2k)! |ad xi|_2^(2k) |p|_2 of its documented series",
          "the finite-difference side of jinvp_fd is evaluated in float64 for both dtypes",
          "CPU only"]

C = 64.0
C_SQ = 8.0
REF_NOISE = 1e-17          # rounding floor of the longdouble reference itself (eps_ld = 1.1e-19, x ~100)
PI = np.pi
LD = L.LD


# ====================================================================== reference model (no pypose below)
def nrm(a):
    return np.sqrt((a * a).sum(-1)).astype(np.float64)


def ld_solve(A, b):
    """Batched Gaussian elimination with partial pivoting in longdouble. A (N,n,n), b (N,n)."""
    A, b = np.array(A, dtype=LD), np.array(b, dtype=LD)
    N, n = b.shape
    ar = np.arange(N)
    for k in range(n):
        piv = np.abs(A[:, k:, k]).argmax(1) + k
        rk, rp = A[ar, k].copy(), A[ar, piv].copy()
        A[ar, k], A[ar, piv] = rp, rk
        bk, bp = b[ar, k].copy(), b[ar, piv].copy()
        b[ar, k], b[ar, piv] = bp, bk
        f = A[:, k + 1:, k] / A[:, k, k][:, None]
        A[:, k + 1:, :] -= f[:, :, None] * A[:, None, k, :]
        b[:, k + 1:] -= f * b[:, None, k]
    x = np.zeros_like(b)
    for k in range(n - 1, -1, -1):
        x[:, k] = (b[:, k] - (A[:, k, k + 1:] * x[:, k + 1:]).sum(-1)) / A[:, k, k]
    return x


def ad_matrix(alg, x):
    """ad(x) y = vee([hat x, hat y]) from the generators (N,d,d)."""
    d = L.ALG[alg]
    Gx = L.generator(alg, x)
    cols = []
    for i in range(d):
        e = np.zeros(d, dtype=LD)
        e[i] = 1
        Ge = L.generator(alg, e)
        cols.append(L.vee(alg, np.matmul(Gx, Ge) - np.matmul(Ge, Gx)))
    return np.stack(cols, -1)


def series_jl(A, terms=60):
    """sum_k A^k/(k+1)!  (Horner, longdouble)."""
    n = A.shape[-1]
    I = np.broadcast_to(np.eye(n, dtype=LD), A.shape)
    S = I.copy()
    for k in range(terms, 0, -1):
        S = I + np.matmul(A, S) / LD(k + 1)
    return S


def unit_tau(alg, x):
    """x with its translation block normalised, and the norm (1 where the block is zero / absent)."""
    x = L.ld(x).copy()
    nt = np.ones(x.shape[:-1], dtype=LD)
    if alg in ("se3", "sim3"):
        n = np.sqrt((x[..., :3] ** 2).sum(-1))
        nt = np.where(n > 0, n, LD(1))
        x[..., :3] = x[..., :3] / nt[..., None]
    return x, nt


def jl_inv_apply(alg, x, p):
    """Jl(x)^-1 p.  Jl(x) = S Jl(x_unit) S^-1 with S = diag(|tau| I, 1..): the translation enters linearly."""
    xu, nt = unit_tau(alg, x)
    J = series_jl(ad_matrix(alg, xu))
    p = L.ld(p).copy()
    if alg in ("se3", "sim3"):
        p[..., :3] = p[..., :3] / nt[..., None]
    y = ld_solve(J, p)
    if alg in ("se3", "sim3"):
        y[..., :3] = y[..., :3] * nt[..., None]
    return y


def ref_log(G, X):
    """Principal logarithm of raw group components in longdouble (atan2 form; W read off the reference exp)."""
    alg = L.GRP2ALG[G]
    t, q, s = L.split_grp(G, X)
    q = q / np.sqrt((q * q).sum(-1, keepdims=True))
    q = np.where(q[..., 3:] < 0, -q, q)
    v, w = q[..., :3], q[..., 3]
    vn = np.sqrt((v * v).sum(-1))
    theta = 2 * np.arctan2(vn, w)
    fac = np.where(vn > 0, theta / np.where(vn > 0, vn, LD(1)), 2 / np.where(w != 0, w, LD(1)))
    phi = fac[..., None] * v
    sigma = np.log(s)
    tau = np.zeros_like(phi)
    if G in ("SE3", "Sim3"):
        cols = []
        for j in range(3):
            e = np.zeros_like(phi)
            e[..., j] = 1
            cols.append(L.exp_matrix(alg, L.join_alg(alg, e, phi, sigma))[..., :3, 3])
        W = np.stack(cols, -1)
        tau = ld_solve(W, t)
    return L.join_alg(alg, tau, phi, sigma)


def group_inverse_matrix(G, X):
    t, q, s = L.split_grp(G, X)
    Rt = np.swapaxes(L.quat_R(q), -1, -2)
    Mi = np.zeros(q.shape[:-1] + (4, 4), dtype=LD)
    Mi[..., :3, :3] = Rt / s[..., None, None]
    Mi[..., :3, 3] = -np.matmul(Rt, t[..., None])[..., 0] / s[..., None]
    Mi[..., 3, 3] = 1
    return Mi


def bernoulli_tail(z):
    """sum_{k>=3} |B_2k|/(2k)! z^(2k) = sum 2 zeta(2k) (z/2pi)^(2k), z < 2 pi."""
    z = np.asarray(z, dtype=np.float64)
    r2 = (z / (2 * PI)) ** 2
    out = np.zeros_like(z)
    zeta = {3: 1.0173430619844492, 4: 1.0040773561979444, 5: 1.0009945751278180, 6: 1.0002460865533080}
    for k in range(3, 60):
        out = out + 2 * zeta.get(k, 1.0 + 2.0 ** (-2 * k + 1)) * r2 ** k
    return out


def mp_series_jl(A, dps=50, terms=90):
    import mpmath as mp
    mp.mp.dps = dps
    n = A.shape[0]
    M = mp.matrix(n, n)
    for i in range(n):
        for j in range(n):
            M[i, j] = mp.mpf(float(A[i, j])) + mp.mpf(float(A[i, j] - LD(float(A[i, j]))))
    S, T = mp.eye(n), mp.eye(n)
    for k in range(1, terms):
        T = T * M / (k + 1)
        S = S + T
    return L.mp_to_ld(S)


def selftest(ck, rng, n):
    """Validate the reference pieces against mpmath / each other; a failure makes the run inconclusive."""
    worst = L.selftest(rng, n=2)
    for alg in lie.ALGS:
        d = L.ALG[alg]
        for _ in range(n):
            x = rng.standard_normal(d) * rng.choice([1e-8, 0.3, 1.0, 2.5])
            if alg in ("se3", "sim3"):
                x[:3] /= max(np.linalg.norm(x[:3]), 1e-300)
            A = ad_matrix(alg, x[None])[0]
            gap = float(np.abs(series_jl(A[None])[0] - mp_series_jl(A)).max())
            worst = max(worst, gap)
        G = L.ALG2GRP[alg]
        X = lie.random_group(G, rng, 16, torch.float64, adversarial=True).tensor().numpy()
        xl = ref_log(G, X)
        E, M = L.exp_matrix(alg, xl), L.group_matrix(G, X)
        rel = np.abs(E - M).max((-1, -2)) / np.abs(M).max((-1, -2))
        worst = max(worst, float(rel.max()))
    A = rng.standard_normal((8, 7, 7))
    b = rng.standard_normal((8, 7))
    res = np.abs(np.matmul(L.ld(A), ld_solve(A, b)[..., None])[..., 0] - b).max()
    worst = max(worst, float(res) * 1e-2)
    ck.note_max("max_reference_selftest", worst)
    if worst > 1e-15:
        ck.inconclusive_because(f"reference self-test off by {worst:.2e}")


def sub_ratios(ck, monitor, regime, err, tol, entry, mech, wit):
    """ck.ratios for a block-specific sub-monitor ('name.trans'), whose evaluations are counted here."""
    ok = ck.ratios(monitor, regime, err, tol, entry, mech, wit)
    ck.monitors[monitor]["calls"] += int(np.size(err))
    return ok


# ====================================================================== generators
def pick(rng, ladder, n, extra=None, frac=0.3):
    v = rng.choice(np.asarray(ladder, dtype=np.float64), n)
    if extra is not None:
        m = rng.random(n) < frac
        v = np.where(m, extra(n), v)
    return v


def gen_group(G, rng, n, u, max_angle=PI - 1e-3, t_big=True, sig_max=8.0):
    su = np.sqrt(u)
    A = [0.0, 1e-30, u / 2, u, 2 * u, su / 2, su, 2 * su, 1e-12, 1e-9, 1e-6, 1e-4, 1e-3, 1e-2, 0.1, 0.5, 1.0, 1.5, 2.0, 2.5,
         3.0, PI - 1e-2, PI - 1e-3]
    A = [a for a in A if a <= max_angle]
    ang = pick(rng, A, n, lambda k: np.minimum(10.0 ** rng.uniform(-18, 0.5, k), max_angle))
    S = [0.0] + [sg * m for m in (u, su, 1e-3, 0.1, 0.5, 1.0, 2.0, 4.0, 8.0) if m <= sig_max for sg in (1, -1)]
    sig = pick(rng, S, n) if G in ("RxSO3", "Sim3") else np.zeros(n)
    T = [0.0, 1e-12, 1e-6, 1e-3, 1.0, 37.5, 1e3] + ([1e6] if t_big else [])
    tn = pick(rng, T, n) if G in ("SE3", "Sim3") else np.zeros(n)
    axis = gen.unit_vectors(rng, n)
    q = L.axis_angle_quat(axis, ang) * L.ld(rng.choice([-1.0, 1.0], n))[:, None]
    t = gen.unit_vectors(rng, n) * tn[:, None]
    return np.asarray(L.join_grp(G, L.ld(t), q, np.exp(L.ld(sig))), dtype=np.float64)


def gen_alg(alg, rng, n, u, rot_max=1e3, sig_max=8.0, tau_max=1e3, zero_frac=0.04):
    su = np.sqrt(u)
    R = [r for r in (0.0, 1e-30, u, su, 1e-3, 0.3, 1.0, 3.0, PI, 6.0, 30.0, 1e3) if r <= rot_max]
    th = pick(rng, R, n, lambda k: np.minimum(10.0 ** rng.uniform(-12, 1, k), rot_max), 0.2)
    T = [r for r in (0.0, 1e-12, 1e-3, 1.0, 1e3) if r <= tau_max]
    tn = pick(rng, T, n) if alg in ("se3", "sim3") else np.zeros(n)
    S = [0.0] + [sg * m for m in (u, 1e-3, 0.5, 2.0, 8.0, 1e3) if m <= sig_max for sg in (1, -1)]
    sg = pick(rng, S, n) if alg in ("rxso3", "sim3") else np.zeros(n)
    x = np.asarray(L.join_alg(alg, gen.unit_vectors(rng, n) * tn[:, None], gen.unit_vectors(rng, n) * th[:, None], sg),
                   dtype=np.float64)
    x[rng.random(n) < zero_frac] = 0.0
    return x


def gen_sim3_small(rng, n, u):
    """Sim3 elements X = Exp(xi) (reference exp) with |xi| small enough for the truncation bound."""
    su = np.sqrt(u)
    th = pick(rng, [0.0, u, su, 1e-6, 1e-3, 0.1, 0.3, 0.6, 1.0, 1.5], n, lambda k: rng.uniform(0, 1.5, k))
    sg = pick(rng, [0.0, u, -u, su, -su, 1e-3, -1e-3, 0.1, -0.3, 0.7, -0.7], n)
    tn = pick(rng, [0.0, 1e-12, 1e-3, 0.1, 0.5, 1.0], n)
    axis, td = gen.unit_vectors(rng, n), gen.unit_vectors(rng, n)
    xi = np.asarray(L.join_alg("sim3", td * tn[:, None], axis * th[:, None], sg), dtype=np.float64)
    E = L.exp_matrix("sim3", xi)
    q = L.axis_angle_quat(axis, th) * L.ld(rng.choice([-1.0, 1.0], n))[:, None]
    return np.asarray(L.join_grp("Sim3", E[:, :3, 3], q, np.exp(L.ld(sg))), dtype=np.float64)


def cls_mag(v):
    v = float(v)
    return "0" if v == 0 else "tiny" if v < 1e-9 else "mid" if v <= 10 else "large"


def describe(G, Xin, u):
    t, q, s = L.split_grp(G, Xin)
    vn = np.sqrt((q[..., :3] ** 2).sum(-1))
    ang = (2 * np.arctan2(vn, np.abs(q[..., 3]))).astype(np.float64)
    return {"t": t, "q": q, "s": s.astype(np.float64), "ang": ang, "sg": np.log(s).astype(np.float64), "tn": nrm(t),
            "ident": (vn == 0) & (nrm(t) == 0) & (s == 1)}


def keys_of(G, dn, D, ain, u):
    an = nrm(L.ld(ain)) if ain is not None else np.zeros(len(D["ang"]))
    return [f"{G}/{dn}/th:{gen.cls_angle(D['ang'][i], u)}/sg:{gen.cls_small(D['sg'][i], u)}/t:{gen.cls_trans(D['tn'][i])}"
            f"/a:{cls_mag(an[i])}" for i in range(len(an))]


def book(ck, monitor, G, dn, D, Xin, ain, u):
    keys = keys_of(G, dn, D, ain, u)
    uniq, cnt = np.unique(np.array(keys), return_counts=True)
    for k, c in zip(uniq, cnt):
        ck.count(monitor, k, n=int(c), nontrivial=False)
    rows = np.concatenate([Xin, ain], -1) if ain is not None else Xin
    triv = D["ident"] & ((np.abs(ain).sum(-1) == 0) if ain is not None else True)
    ck.digests.update(int(d) ^ key_digest((monitor, G, dn)) for d in row_digests(rows[~triv]))
    su = np.sqrt(u)
    for name, m in (("X:th=0", D["ang"] == 0), ("X:th<=u", (D["ang"] > 0) & (D["ang"] <= u)),
                    ("X:th-in-(u,sqrt(u)]", (D["ang"] > u) & (D["ang"] <= su)), ("X:th>3", D["ang"] > 3.0)):
        if m.any():
            ck.mark(f"{monitor}/{G}/{dn}/{name}", int(m.sum()))
    if ain is not None:
        an = nrm(L.ld(ain))
        for name, m in (("a=0", an == 0), ("a-large", an > 100), ("a-tiny", (an > 0) & (an < 1e-9))):
            if m.any():
                ck.mark(f"{monitor}/{G}/{dn}/{name}", int(m.sum()))
    return keys


def np64(t):
    return t.detach().double().numpy() if isinstance(t, torch.Tensor) else np.asarray(t, dtype=np.float64)


def witness_fn(G, dn, Xin, ain, out, extra=None):
    def wit(i):
        w = {"group": G, "dtype": dn, "X": Xin[i].tolist(), "X_hex": [float(v).hex() for v in Xin[i]],
             "got": np.asarray(out[i], dtype=np.float64).reshape(-1).tolist()}
        if ain is not None:
            w["a"] = ain[i].tolist()
            w["a_hex"] = [float(v).hex() for v in ain[i]]
        if extra is not None:
            w["expected"] = np.asarray(extra[i], dtype=np.float64).reshape(-1).tolist()
        return w
    return wit


# ====================================================================== judges (flat arrays in, oracle verdicts out)
def judge_adj(ck, G, dn, Xin, ain, out, transposed, monitor):
    """Linear form: Adj(X,a) = vee(M hat(a) M^-1); AdjT(X,a) = vee(M^-1 hat(a) M)."""
    u, tiny = lie.u_of(lie.DT[dn]), 1e3 * lie.tiny_of(lie.DT[dn])
    alg = L.GRP2ALG[G]
    entry = f"{G}.{'AdjT' if transposed else 'Adj'}"
    D = describe(G, Xin, u)
    M, Mi, Ha = L.group_matrix(G, Xin), group_inverse_matrix(G, Xin), L.generator(alg, ain)
    H = np.matmul(np.matmul(Mi, Ha), M) if transposed else np.matmul(np.matmul(M, Ha), Mi)
    ref = L.vee(alg, H)
    rt, rp, rs = L.split_alg(alg, ref)
    gt, gp, gs = L.split_alg(alg, out)
    at, ap, asg = L.split_alg(alg, ain)
    s = D["s"]
    sc_t = (nrm(at) + D["tn"] * (nrm(ap) + np.abs(asg).astype(np.float64))) / s if transposed else \
        s * nrm(at) + D["tn"] * (nrm(ap) + np.abs(asg).astype(np.float64))
    book(ck, monitor, G, dn, D, Xin, ain, u)
    wit = witness_fn(G, dn, Xin, ain, out, ref)
    rg = f"{G}/{dn}"
    name = "AdjT" if transposed else "Adj"
    # the reference forms M hat(a) M^-1 in longdouble: its own rounding (1e-19 * |rotation + scale part of a|) is the floor
    floor = REF_NOISE * (nrm(ap) + np.abs(asg).astype(np.float64)) + tiny
    ck.check(bool(np.isfinite(out).all()), monitor, rg, entry, "non_finite_output")
    ck.ratios(monitor, rg, nrm(gp - rp), C * u * nrm(ap) + floor, entry, f"{name}_rotation_block_wrong", wit)
    if alg in ("se3", "sim3"):
        sub_ratios(ck, monitor + ".trans", rg, nrm(gt - rt), C * u * sc_t + tiny, entry, f"{name}_translation_block_wrong", wit)
    if alg in ("rxso3", "sim3"):
        sub_ratios(ck, monitor + ".sigma", rg, np.abs(gs - rs).astype(np.float64), 4 * u * np.abs(asg).astype(np.float64) + floor,
                  entry, f"{name}_log_scale_wrong", wit)
    return D


def judge_adj_expm(ck, G, dn, Xin, ain, out, transposed, monitor):
    """The literal identity through the case-split-free matrix exponential (moderate a only)."""
    u, tiny = lie.u_of(lie.DT[dn]), 1e3 * lie.tiny_of(lie.DT[dn])
    alg = L.GRP2ALG[G]
    at, ap, asg = L.split_alg(alg, ain)
    tha, sga = nrm(ap), asg.astype(np.float64)
    m = (tha <= 10.0) & (np.abs(sga) <= 4.0) & np.isfinite(out).all(-1)
    if not m.any():
        return
    Xin, ain, out, tha, sga = Xin[m], ain[m], out[m], tha[m], sga[m]
    at, ap = at[m], ap[m]
    entry = f"{G}.{'AdjT' if transposed else 'Adj'}"
    D = describe(G, Xin, u)
    M, Ea, Ey = L.group_matrix(G, Xin), L.exp_matrix(alg, ain), L.exp_matrix(alg, out)
    lhs, rhs = (np.matmul(Ea, M), np.matmul(M, Ey)) if transposed else (np.matmul(M, Ea), np.matmul(Ey, M))
    s, es = D["s"], np.exp(sga)
    book(ck, monitor, G, dn, D, Xin, ain, u)
    wit = witness_fn(G, dn, Xin, ain, out)
    rg = f"{G}/{dn}"
    name = "AdjT" if transposed else "Adj"
    d_rot = np.abs(lhs[:, :3, :3] - rhs[:, :3, :3]).max((-1, -2)).astype(np.float64)
    ck.ratios(monitor, rg, d_rot, C * u * s * es * (1 + tha), entry, f"{name}_identity_rotation_scale_block", wit)
    if alg in ("se3", "sim3"):
        base = (1.0 if transposed else s) * nrm(at) + D["tn"] * (1 + tha + np.abs(sga))
        tol = C * u * np.maximum(1.0, es) * (1 + tha) * base + tiny
        sub_ratios(ck, monitor + ".trans", rg, nrm(lhs[:, :3, 3] - rhs[:, :3, 3]), tol, entry,
                  f"{name}_identity_translation_block", wit)


def judge_retr(ck, G, dn, Xin, ain, out, monitor, entry):
    """M(result) = expm(hat a) M(X); `ain` are the manifold components only."""
    u, tiny = lie.u_of(lie.DT[dn]), 1e3 * lie.tiny_of(lie.DT[dn])
    alg = L.GRP2ALG[G]
    D = describe(G, Xin, u)
    at, ap, asg = L.split_alg(alg, ain)
    tha, sga = nrm(ap), asg.astype(np.float64)
    es = np.exp(sga)
    Ea, M, Z = L.exp_matrix(alg, ain), L.group_matrix(G, Xin), L.group_matrix(G, out)
    ref = np.matmul(Ea, M)
    book(ck, monitor, G, dn, D, Xin, ain, u)
    wit = witness_fn(G, dn, Xin, ain, out)
    rg = f"{G}/{dn}"
    ck.check(bool(np.isfinite(out).all()), monitor, rg, entry, "non_finite_output")
    d_rot = np.abs(Z[:, :3, :3] - ref[:, :3, :3]).max((-1, -2)).astype(np.float64)
    ck.ratios(monitor, rg, d_rot, C * u * D["s"] * es * (1 + tha), entry, "result_is_not_Exp(a)@X:rotation_scale_block", wit)
    if G in ("SE3", "Sim3"):
        tol = C_SQ * np.sqrt(u) * nrm(Ea[:, :3, 3]) + C * u * nrm(at) * np.maximum(1.0, es) \
            + C * u * (1 + tha) * es * D["tn"] + tiny
        sub_ratios(ck, monitor + ".trans", rg, nrm(Z[:, :3, 3] - ref[:, :3, 3]), tol, entry,
                  "result_is_not_Exp(a)@X:translation_block", wit)
    else:
        ck.check(bool(np.all(Z[:, :3, 3] == 0)), monitor, rg, entry, "translation_nonzero")


def judge_jinvp(ck, G, dn, Xin, pin, out, monitor="jinvp_ref"):
    u, tiny = lie.u_of(lie.DT[dn]), 1e3 * lie.tiny_of(lie.DT[dn])
    su = np.sqrt(u)
    alg = L.GRP2ALG[G]
    entry = f"{G}.Jinvp"
    D = describe(G, Xin, u)
    x = ref_log(G, Xin)
    ref = jl_inv_apply(alg, x, pin)
    xt, xp, xs = L.split_alg(alg, x)
    pt, pp_, ps = L.split_alg(alg, pin)
    rt, rp, rs = L.split_alg(alg, ref)
    gt, gp, gs = L.split_alg(alg, out)
    th = nrm(xp)
    book(ck, monitor, G, dn, D, Xin, pin, u)
    wit = witness_fn(G, dn, Xin, pin, out, ref)
    rg = f"{G}/{dn}"
    ck.check(bool(np.isfinite(out).all()), monitor, rg, entry, "non_finite_output")
    band = (th > u) & (th <= 1e-2)          # closed-form coefficients of the coupling block cancel here
    if G == "Sim3":
        z = np.linalg.norm(np.asarray(ad_matrix(alg, x), dtype=np.float64), 2, axis=(-2, -1)) * (1 + 1e-9)
        pn = nrm(L.ld(pin))
        # err <= (rigorous remainder bound) + round-off; the bound is attained (pure rotations, p orthogonal to
        # the axis), so the ratio is taken of the excess over the bound against the round-off allowance
        bound = bernoulli_tail(z) * pn * (1 + 1e-6)
        ck.note_max("max_sim3_truncation_bound_rel", float(bernoulli_tail(z).max()))
        err = nrm(L.ld(out) - ref)
        big = bound > 1e-6 * pn          # where the truncation, not round-off, is what is being measured
        if big.any():
            ck.note_max("max_sim3_err_over_truncation_bound", float(np.max(err[big] / bound[big])))
        ck.ratios(monitor, rg, np.maximum(err - bound, 0.0), C * u * (1 + z) ** 4 * pn + tiny, entry,
                  "Jinvp_differs_from_Jl_inv_beyond_documented_truncation", wit)
        return D, x
    tol_p = C * u * nrm(pp_) * (1 + th) + tiny
    for msk, suffix in ((~band, ""), (band, ":rotation_in_(eps,1e-2]")):
        if not msk.any():
            continue
        ii = np.nonzero(msk)[0]
        wi = lambda k, ii=ii: wit(int(ii[k]))  # noqa: E731
        ck.ratios(monitor, rg, nrm(gp - rp)[msk], tol_p[msk], entry, "Jinvp_rotation_block_differs_from_Jl_inv" + suffix, wi)
        if G == "SE3":
            tol_t = C * u * nrm(pt) * (1 + th) + C_SQ * su * nrm(xt) * nrm(pp_) * (1 + th) + tiny
            sub_ratios(ck, monitor + ".trans", rg, nrm(gt - rt)[msk], tol_t[msk], entry,
                      "Jinvp_translation_block_differs_from_Jl_inv" + suffix, wi)
        if G == "RxSO3":
            sub_ratios(ck, monitor + ".sigma", rg, np.abs(gs - rs).astype(np.float64)[msk],
                      (4 * u * np.abs(ps).astype(np.float64) + tiny)[msk], entry, "Jinvp_log_scale_block_wrong" + suffix, wi)
    return D, x


def judge_jinvp_fd(ck, G, dn, Xin, pin, out, monitor="jinvp_fd"):
    """Jinvp(X,p)/|p| against the Richardson central difference of h -> Log(Exp(h p/|p|) X) through pypose's
    float64 forward functions (X, p are the dtype-rounded operands, exactly representable in float64)."""
    u, tiny = lie.u_of(lie.DT[dn]), 1e3 * lie.tiny_of(lie.DT[dn])
    su = np.sqrt(u)
    alg = L.GRP2ALG[G]
    entry = f"{G}.Jinvp"
    D0 = describe(G, Xin, u)
    pn = nrm(L.ld(pin))
    m = (D0["ang"] <= PI - 0.2) & (pn > 0) & np.isfinite(out).all(-1)
    if not m.any():
        return
    Xin, pin, out, pn = Xin[m], pin[m], out[m], pn[m]
    D = describe(G, Xin, u)
    phat = pin / pn[:, None]
    X64 = lie.lt(G, Xin, torch.float64)

    def g(h):
        return np64((lie.lt(alg, h * phat, torch.float64).Exp() * X64).Log().tensor())

    def cd(h):
        return (g(h) - g(-h)) / (2 * h)

    h = 2.0 ** -10
    okc, fd = ck.call(monitor, f"{G}/{dn}", f"{alg}.Exp+{G}.Mul+{G}.Log", lambda: (4 * cd(h / 2) - cd(h)) / 3)
    if not okc:
        return
    got = out / pn[:, None]
    x = ref_log(G, Xin)
    xt, xp, xs = L.split_alg(alg, x)
    pt, pp_, ps = L.split_alg(alg, phat)
    th = nrm(xp)
    gt, gp, gs = L.split_alg(alg, got)
    ft, fp, fs = L.split_alg(alg, fd)
    book(ck, monitor, G, dn, D, Xin, pin, u)
    wit = witness_fn(G, dn, Xin, pin, got, fd)
    rg = f"{G}/{dn}"
    band = (th > u) & (th <= 1e-2)
    trunc = np.zeros(len(th))
    if G == "Sim3":
        z = np.linalg.norm(np.asarray(ad_matrix(alg, x), dtype=np.float64), 2, axis=(-2, -1)) * (1 + 1e-9)
        trunc = bernoulli_tail(z) * (1 + 1e-6)
    coup = nrm(xt) * (nrm(pp_) + np.abs(ps).astype(np.float64))
    tol_p = C_SQ * su * (1 + th) + tiny + 0 * th
    tol_t = C_SQ * su * (1 + th) * (1 + coup) * np.maximum(1.0, 1.0 / D["s"] if G == "Sim3" else 1.0) + tiny
    for msk, suffix in ((~band, ""), (band, ":rotation_in_(eps,1e-2]")):
        if not msk.any():
            continue
        ii = np.nonzero(msk)[0]
        wi = lambda k, ii=ii: wit(int(ii[k]))  # noqa: E731
        ex = lambda e: np.maximum(e - trunc, 0.0)[msk]  # noqa: E731  (excess over the Sim3 truncation bound)
        ck.ratios(monitor, rg, ex(nrm(gp - fp)), tol_p[msk], entry, "Jinvp_rotation_block_is_not_dLog" + suffix, wi)
        if alg in ("se3", "sim3"):
            sub_ratios(ck, monitor + ".trans", rg, ex(nrm(gt - ft)), tol_t[msk], entry,
                      "Jinvp_translation_block_is_not_dLog" + suffix, wi)
        if alg in ("rxso3", "sim3"):
            sub_ratios(ck, monitor + ".sigma", rg, ex(np.abs(gs - fs).astype(np.float64)), tol_p[msk], entry,
                      "Jinvp_log_scale_block_is_not_dLog" + suffix, wi)


def judge_jr(ck, kind, dn, xin, J, monitor, entry, x_is_group=False):
    """J: (N,3,3) returned by Jr; xin: so3 rows, or SO3 rows when x_is_group (then x = ref_log)."""
    u = lie.u_of(lie.DT[dn])
    su = np.sqrt(u)
    x = ref_log("SO3", xin) if x_is_group else L.ld(xin)
    th = nrm(x)
    # right Jacobian = sum (-ad)^k/(k+1)! = top-right block of expm([[-ad, I], [0, 0]]) (no case split, any theta)
    aug = np.zeros((len(th), 6, 6), dtype=LD)
    aug[:, :3, :3] = -ad_matrix("so3", x)
    aug[:, :3, 3:] = np.eye(3, dtype=LD)
    ref = L.expm_ld(aug)[:, :3, 3:]
    keys = [f"{kind}/{dn}/th:{gen.cls_angle(th[i], u)}" for i in range(len(th))]
    uniq, cnt = np.unique(np.array(keys), return_counts=True)
    for k, c in zip(uniq, cnt):
        ck.count(monitor, k, n=int(c), nontrivial=False)
    ck.digests.update(int(d) ^ key_digest((monitor, kind, dn)) for d in row_digests(xin[th > 0]))
    for name, m in (("th=0", th == 0), ("th<=u", (th > 0) & (th <= u)), ("th-in-(u,sqrt(u)]", (th > u) & (th <= su)),
                    ("th>3", th > 3)):
        if m.any():
            ck.mark(f"{monitor}/{kind}/{dn}/{name}", int(m.sum()))

    def wit(i):
        return {"kind": kind, "dtype": dn, "x": xin[i].tolist(), "x_hex": [float(v).hex() for v in xin[i]],
                "Jr": np.asarray(J[i], dtype=np.float64).tolist(), "Jr_ref": np.asarray(ref[i], dtype=np.float64).tolist()}

    rg = f"{kind}/{dn}"
    ck.check(bool(np.isfinite(J).all()), monitor, rg, entry, "non_finite_output")
    d = np.abs(L.ld(J) - ref).max((-1, -2)).astype(np.float64)
    ck.ratios(monitor, rg, d, C_SQ * su * (1 + 0 * th), entry, "Jr_differs_from_right_Jacobian", wit)
    zero = th == 0
    if zero.any():
        ck.check(bool(np.all(J[zero] == np.eye(3))), "jr_zero", rg, entry, "Jr_at_zero_is_not_identity",
                 lambda: wit(int(np.nonzero(zero)[0][0])))
        ck.count("jr_zero", f"{kind}/{dn}", n=int(zero.sum()), key=(kind, dn))
    # first-order statement, reference domain: |Exp(x+d) - Exp(x) Exp(J d)| <= 2|d|^2 + 8 sqrt(u) |d|
    if not x_is_group:
        rngd = np.random.default_rng(int(row_digests(xin[:1])[0] % (2 ** 32)) if len(xin) else 0)
        dirs = gen.unit_vectors(rngd, len(th), 0.0)
        Ex = L.exp_matrix("so3", x)[:, :3, :3]
        errs = []
        for hstep in (1e-3, 1e-6):
            dd = L.ld(dirs) * LD(hstep)
            Jd = np.matmul(L.ld(J), dd[..., None])[..., 0]
            lhs = L.exp_matrix("so3", x + dd)[:, :3, :3]
            rhs = np.matmul(Ex, L.exp_matrix("so3", Jd)[:, :3, :3])
            e = np.abs(lhs - rhs).max((-1, -2)).astype(np.float64)
            errs.append(e)
            ck.ratios("jr_fd", rg, e, 2 * hstep ** 2 + C_SQ * su * hstep, entry, "Exp(x+d)_is_not_Exp(x)Exp(Jr_d)_to_first_order", wit)
        ck.count("jr_fd", f"{kind}/{dn}", n=len(th), nontrivial=False)
        with np.errstate(all="ignore"):
            slope = np.log(errs[0] / errs[1]) / np.log(1e3)
        fin = slope[np.isfinite(slope) & (errs[1] > 1e-17)]
        if fin.size:      # informational: error of the first-order model vs step (2 = purely second order)
            ck.note("jr_fd_median_slope_" + dn, float(np.median(fin)))


# ====================================================================== drivers
def flat_pair(X, a):
    """Broadcast two tensors over their batch shapes and flatten to rows."""
    shp = torch.broadcast_shapes(X.shape[:-1], a.shape[:-1])
    Xf = X.expand(shp + X.shape[-1:]).reshape(-1, X.shape[-1])
    af = a.expand(shp + a.shape[-1:]).reshape(-1, a.shape[-1])
    return shp, np64(Xf), np64(af)


def run_adj(ck, G, dn, rng, n):
    dtype, alg = lie.DT[dn], L.GRP2ALG[G]
    u = lie.u_of(dtype)
    X = lie.lt(G, gen_group(G, rng, n, u), dtype)
    a = lie.lt(alg, gen_alg(alg, rng, n, u, sig_max=1e3), dtype)
    Xin, ain = np64(X.tensor()), np64(a.tensor())
    for transposed in (False, True):
        nm = "AdjT" if transposed else "Adj"
        fn = (lambda: X.AdjT(a)) if transposed else (lambda: X.Adj(a))
        okc, y = ck.call("adjT_lin" if transposed else "adj_lin", f"{G}/{dn}", f"{G}.{nm}", fn)
        if not okc:
            continue
        ck.check(y.ltype is lie.LT[alg] and y.dtype == dtype and tuple(y.shape) == tuple(a.shape),
                 "adjT_lin" if transposed else "adj_lin", f"{G}/{dn}", f"{G}.{nm}", "type_or_shape",
                 {"ltype": str(y.ltype), "shape": list(y.shape)})
        out = np64(y.tensor())
        judge_adj(ck, G, dn, Xin, ain, out, transposed, "adjT_lin" if transposed else "adj_lin")
        judge_adj_expm(ck, G, dn, Xin, ain, out, transposed, "adjT_expm" if transposed else "adj_expm")
    if len(ck.samples) < 4:
        ck.sample({"op": f"{G}.Adj", "dtype": dn, "X_hex": [float(v).hex() for v in Xin[0]], "a": ain[0].tolist()})


def run_retr(ck, G, dn, rng, n):
    dtype, alg = lie.DT[dn], L.GRP2ALG[G]
    u = lie.u_of(dtype)
    d, Dg = L.ALG[alg], L.GRP[G]
    X = lie.lt(G, gen_group(G, rng, n, u), dtype)
    a = lie.lt(alg, gen_alg(alg, rng, n, u), dtype)
    Xin, ain = np64(X.tensor()), np64(a.tensor())
    rg = f"{G}/{dn}"
    junk = torch.as_tensor(rng.standard_normal((n, 3)) * 10.0 ** rng.integers(-3, 6, (n, 1))).to(dtype)
    variants = [("Retr", f"{G}.Retr", lambda: X.Retr(a)),
                ("__add__", f"{G}.__add__", lambda: X + a),
                ("add", f"{G}.add", lambda: X.add(a)),
                ("pp.add", "pp.add", lambda: pp.add(X, a)),
                ("add_", f"{G}.add_", lambda: lie.lt(G, X.tensor().clone(), dtype).add_(a)),
                ("__add__tensor", f"{G}.__add__", lambda: X + a.tensor()),
                # trailing components beyond the manifold dimension are ignored (group-sized and larger updates)
                ("__add__trailing1", f"{G}.__add__", lambda: X + torch.cat([a.tensor(), junk[:, :Dg - d]], -1)),
                ("__add__trailing3", f"{G}.__add__", lambda: X + torch.cat([a.tensor(), junk], -1)),
                ("add_trailing1", f"{G}.add_", lambda: lie.lt(G, X.tensor().clone(), dtype).add_(torch.cat([a.tensor(), junk[:, :1]], -1)))]
    for name, entry, fn in variants:
        okc, Z = ck.call("retr", rg, entry, fn, witness={"variant": name})
        if not okc:
            continue
        ck.check(Z.ltype is lie.LT[G] and Z.dtype == dtype and tuple(Z.shape) == tuple(X.shape), "retr", rg, entry,
                 "type_or_shape", {"variant": name, "ltype": str(getattr(Z, "ltype", None)), "shape": list(Z.shape)})
        ck.mark(f"retr/{G}/{dn}/{name}", n)
        judge_retr(ck, G, dn, Xin, ain, np64(Z.tensor()), "retr", entry)
    # in-place add_ updates the object itself and returns it
    Xc = lie.lt(G, X.tensor().clone(), dtype)
    okc, Z = ck.call("retr", rg, f"{G}.add_", lambda: Xc.add_(a))
    if okc:
        ck.check(Z is Xc or Z.data_ptr() == Xc.data_ptr(), "retr", rg, f"{G}.add_", "add__did_not_update_in_place")
        judge_retr(ck, G, dn, Xin, ain, np64(Xc.tensor()), "retr", f"{G}.add_")
    # algebra: plain addition of the first d components, bitwise, type preserved
    x = lie.lt(alg, gen_alg(alg, rng, n, u), dtype)
    for name, other in (("same", a.tensor()), ("trailing1", torch.cat([a.tensor(), junk[:, :1]], -1)),
                        ("lietensor", a)):
        for vname, fn in (("__add__", lambda: x + other), ("add", lambda: x.add(other)),
                          ("add_", lambda: lie.lt(alg, x.tensor().clone(), dtype).add_(other))):
            okc, z = ck.call("alg_add", f"{alg}/{dn}", f"{alg}.{vname}", fn, witness={"other": name})
            if not okc:
                continue
            want = x.tensor() + (other.tensor() if isinstance(other, pp.LieTensor) else other)[..., :d]
            ck.count("alg_add", f"{alg}/{dn}/{vname}/{name}", n=n, rows=np.concatenate([np64(x.tensor()), ain], -1))
            ck.check(isinstance(z, pp.LieTensor) and z.ltype is lie.LT[alg] and tuple(z.shape) == tuple(x.shape)
                     and torch.equal(z.tensor(), want), "alg_add", f"{alg}/{dn}", f"{alg}.{vname}",
                     "algebra_add_is_not_plain_addition", {"other": name})


def run_jinvp(ck, G, dn, rng, n):
    dtype, alg = lie.DT[dn], L.GRP2ALG[G]
    u = lie.u_of(dtype)
    if G == "Sim3":
        Xr = gen_sim3_small(rng, n, u)
    else:
        Xr = gen_group(G, rng, n, u, t_big=False)
    X = lie.lt(G, Xr, dtype)
    p = lie.lt(alg, gen_alg(alg, rng, n, u, rot_max=1e3, sig_max=8.0), dtype)
    Xin, pin = np64(X.tensor()), np64(p.tensor())
    rg = f"{G}/{dn}"
    okc, y = ck.call("jinvp_ref", rg, f"{G}.Jinvp", lambda: X.Jinvp(p))
    if not okc:
        return
    ck.check(y.ltype is lie.LT[alg] and y.dtype == dtype and tuple(y.shape) == tuple(p.shape), "jinvp_ref", rg,
             f"{G}.Jinvp", "type_or_shape", {"ltype": str(y.ltype), "shape": list(y.shape)})
    out = np64(y.tensor())
    judge_jinvp(ck, G, dn, Xin, pin, out)
    judge_jinvp_fd(ck, G, dn, Xin, pin, out)
    if len(ck.samples) < 8:
        ck.sample({"op": f"{G}.Jinvp", "dtype": dn, "X_hex": [float(v).hex() for v in Xin[1]], "p": pin[1].tolist(),
                   "got": out[1].tolist()})


def run_jr(ck, dn, rng, n):
    dtype = lie.DT[dn]
    u = lie.u_of(dtype)
    su = np.sqrt(u)
    R = [0.0, 1e-30, u / 2, u, 2 * u, su / 2, su, 2 * su, 1e-12, 1e-6, 1e-4, 1e-3, 1e-2, 0.1, 0.5, 1.0, 2.0, 3.0, PI - 1e-3, PI,
         PI + 1e-3, 4.0, 2 * PI - 1e-3, 2 * PI, 2 * PI + 1e-3, 7.0, 9.0, 30.0]
    th = pick(rng, R, n, lambda k: 10.0 ** rng.uniform(-18, 1, k))
    xr = gen.unit_vectors(rng, n) * th[:, None]
    x = lie.lt("so3", xr, dtype)
    okc, J = ck.call("jr_ref", f"so3/{dn}", "so3.Jr", lambda: x.Jr())
    if okc:
        ck.check(tuple(J.shape) == (n, 3, 3) and J.dtype == dtype, "jr_ref", f"so3/{dn}", "so3.Jr", "type_or_shape",
                 {"shape": list(J.shape)})
        judge_jr(ck, "so3", dn, np64(x.tensor()), np64(J), "jr_ref", "so3.Jr")
    Xr = gen_group("SO3", rng, n, u)
    X = lie.lt("SO3", Xr, dtype)
    okc, J = ck.call("jr_ref", f"SO3/{dn}", "SO3.Jr", lambda: X.Jr())
    if okc:
        ck.check(tuple(J.shape) == (n, 3, 3) and J.dtype == dtype, "jr_ref", f"SO3/{dn}", "SO3.Jr", "type_or_shape",
                 {"shape": list(J.shape)})
        judge_jr(ck, "SO3", dn, np64(X.tensor()), np64(J), "jr_ref", "SO3.Jr", x_is_group=True)
    # exact zero / identity, single items and batch shapes
    for shp in ((), (1,), (2, 3)):
        z = lie.lt("so3", torch.zeros(shp + (3,)), dtype)
        okc, J = ck.call("jr_zero", f"so3/{dn}", "so3.Jr", lambda: pp.Jr(z))
        if okc:
            ck.count("jr_zero", f"so3/{dn}/shape{shp}", key=("z", dn, shp))
            ck.check(tuple(J.shape) == shp + (3, 3) and bool((J == torch.eye(3, dtype=dtype)).all()), "jr_zero", f"so3/{dn}",
                     "so3.Jr", "Jr_at_zero_is_not_identity", {"shape": list(shp)})
        for w in (1.0, -1.0):
            I = lie.lt("SO3", torch.tensor([0.0, 0.0, 0.0, w]).repeat(shp + (1,)), dtype)
            okc, J = ck.call("jr_zero", f"SO3/{dn}", "SO3.Jr", lambda: I.Jr())
            if okc:
                ck.count("jr_zero", f"SO3/{dn}/shape{shp}/w{w:+.0f}", key=("I", dn, shp, w))
                ck.check(tuple(J.shape) == shp + (3, 3) and bool((J == torch.eye(3, dtype=dtype)).all()), "jr_zero",
                         f"SO3/{dn}", "SO3.Jr", "Jr_at_zero_is_not_identity", {"shape": list(shp), "w": w})


PAIRS = [((), ()), ((1,), ()), ((), (3,)), ((3,), (3,)), ((3,), (1,)), ((1,), (4,)), ((2, 1), (1, 3)), ((2, 3), (3,)),
         ((3,), (2, 3)), ((2, 1, 3), (4, 1)), ((1, 1, 1), (2,)), ((0,), (1,)), ((2, 0, 3), (3,))]


def run_bcast(ck, G, dn, rng):
    """Broadcastable batch-shape pairs: result shape = broadcast shape, items judged by the same oracles."""
    dtype, alg = lie.DT[dn], L.GRP2ALG[G]
    u = lie.u_of(dtype)
    d, Dg = L.ALG[alg], L.GRP[G]
    for sx, sa in PAIRS:
        nx, na = int(np.prod(sx)) if sx else 1, int(np.prod(sa)) if sa else 1
        mk = gen_sim3_small if G == "Sim3" else (lambda r, k, uu: gen_group(G, r, k, uu, t_big=False, sig_max=2.0))
        X = lie.lt(G, torch.as_tensor(mk(rng, max(nx, 1), u)[:nx]).reshape(sx + (Dg,)), dtype)
        a = lie.lt(alg, torch.as_tensor(gen_alg(alg, rng, max(na, 1), u, rot_max=3.0, sig_max=2.0, tau_max=1.0)[:na]).reshape(sa + (d,)), dtype)
        shp = tuple(torch.broadcast_shapes(sx, sa))
        ops = [("Adj", lambda: pp.Adj(X, a), d), ("AdjT", lambda: pp.AdjT(X, a), d), ("Jinvp", lambda: pp.Jinvp(X, a), d),
               ("Retr", lambda: pp.Retr(X, a), Dg), ("__add__", lambda: X + a, Dg), ("add", lambda: pp.add(X, a.tensor()), Dg)]
        if shp == tuple(sx):
            ops.append(("add_", lambda: pp.add_(lie.lt(G, X.tensor().clone(), dtype), a), Dg))
        for name, fn, last in ops:
            entry = f"{G}.{name}"
            rg = f"{G}/{dn}/{sx}x{sa}"
            okc, y = ck.call("bcast", rg, entry, fn, witness={"lshape_X": list(sx), "lshape_a": list(sa)})
            if not okc:
                continue
            empty = 0 in shp
            ck.count("bcast", f"{G}/{dn}/{name}/rank{len(sx)}x{len(sa)}{'/empty' if empty else ''}", key=(G, dn, name, sx, sa),
                     nontrivial=not empty)
            ck.check(tuple(y.shape) == shp + (last,), "bcast", rg, entry, "broadcast_shape_wrong",
                     {"lshape_X": list(sx), "lshape_a": list(sa), "got": list(y.shape)})
            if empty or tuple(y.shape) != shp + (last,):
                continue
            _, Xf, af = flat_pair(X.tensor(), a.tensor())
            out = np64(y.tensor()).reshape(-1, last)
            if name in ("Adj", "AdjT"):
                judge_adj(ck, G, dn, Xf, af, out, name == "AdjT", "bcast_items")
            elif name == "Jinvp":
                judge_jinvp(ck, G, dn, Xf, af, out, monitor="bcast_items")
            else:
                judge_retr(ck, G, dn, Xf, af, out, "bcast_items", entry)


def run(ck):
    rng = ck.rng("c05")
    thorough = ck.tier == "thorough"
    selftest(ck, ck.rng("selftest"), 4 if thorough else 1)
    if ck.shard == 0:
        # call-history independence of every operation (shared monitor, added by the framework owner)
        from .. import history
        history.run(ck, "C05", reps=4 if thorough else 2)
    n_adj = 24000 if thorough else 3000
    n_retr = 12000 if thorough else 1500
    n_jinvp = 12000 if thorough else 1500
    n_jr = 40000 if thorough else 5000
    for dn in ("f64", "f32"):
        for G in lie.GRPS:
            run_adj(ck, G, dn, rng, n_adj)
            run_retr(ck, G, dn, rng, n_retr)
            run_jinvp(ck, G, dn, rng, n_jinvp)
            run_bcast(ck, G, dn, rng)
            for mon in ("adj_lin", "adjT_lin", "retr", "jinvp_ref"):
                ck.require(f"{mon}/{G}/{dn}/a=0", f"{mon}/{G}/{dn}/a-large", f"{mon}/{G}/{dn}/X:th=0",
                           f"{mon}/{G}/{dn}/X:th<=u", f"{mon}/{G}/{dn}/X:th-in-(u,sqrt(u)]")
                if not (mon == "jinvp_ref" and G == "Sim3"):
                    ck.require(f"{mon}/{G}/{dn}/X:th>3")
            for v in ("Retr", "__add__", "add", "add_", "__add__trailing1", "__add__trailing3"):
                ck.require(f"retr/{G}/{dn}/{v}")
        run_jr(ck, dn, rng, n_jr)
        for k in ("so3", "SO3"):
            ck.require(f"jr_ref/{k}/{dn}/th=0", f"jr_ref/{k}/{dn}/th<=u", f"jr_ref/{k}/{dn}/th-in-(u,sqrt(u)]", f"jr_ref/{k}/{dn}/th>3")
    for mon, fl in (("adj_lin", 2000), ("adjT_lin", 2000), ("adj_expm", 1000), ("adjT_expm", 1000), ("retr", 2000),
                    ("alg_add", 1000), ("jinvp_ref", 2000), ("jinvp_fd", 1000), ("jr_ref", 2000), ("jr_fd", 1000),
                    ("jr_zero", 10), ("bcast", 200), ("bcast_items", 200)):
        ck.floor(mon, fl)
