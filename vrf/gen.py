"""Hostile generators shared by the checks: magnitude ladders, random axes, shapes."""
import numpy as np

PI = np.pi


def eps_of(dtype):
    import torch
    return float(torch.finfo(dtype).eps)


def small_ladder(u, dense=True):
    """Magnitudes: exact 0, 1e-30..1e-3 log-spaced, dense around u and sqrt(u)."""
    out = [0.0]
    out += [10.0 ** k for k in (-30, -25, -20, -18, -16, -14, -12, -10, -9, -8, -7, -6, -5, -4, -3)]
    mult = (0.25, 0.5, 0.99, 1.0, 1.01, 2.0, 4.0, 16.0, 256.0) if dense else (0.5, 1.0, 2.0)
    su = np.sqrt(u)
    out += [u * m for m in mult] + [su * m for m in mult]
    return sorted(set(out))


def angle_ladder(u, upto=3 * PI):
    out = list(small_ladder(u))
    out += [1e-2, 0.1, 0.5, 1.0, 1.5, 2.0, 2.5, 3.0]
    for c in (PI, 2 * PI, 3 * PI):
        for d in (0.0, 1e-12, 1e-9, 1e-6, 1e-3):
            out += [c - d, c + d]
    out += [4.0, 5.0, 7.0, 9.0]
    return sorted(set(v for v in out if 0 <= v <= upto + 1e-3))


def sigma_ladder(u):
    pos = list(small_ladder(u)) + [1e-2, 0.1, 0.5, 1.0, 2.0, 4.0, 8.0]
    return sorted(set([-v for v in pos] + pos))


def trans_ladder():
    return [0.0, 1e-30, 1e-12, 1e-6, 1e-3, 1.0, 37.5, 1e3, 1e6]


def unit_vectors(rng, n, aligned_frac=0.2):
    v = rng.standard_normal((n, 3))
    v /= np.linalg.norm(v, axis=-1, keepdims=True)
    k = int(n * aligned_frac)
    if k:
        idx = rng.integers(0, 3, k)
        sgn = rng.choice([-1.0, 1.0], k)
        a = np.zeros((k, 3))
        a[np.arange(k), idx] = sgn
        v[:k] = a
    return v


def cls_small(v, u):
    """Class of a non-negative magnitude relative to the library's switch-over points."""
    v = abs(float(v))
    if v == 0:
        return "0"
    if v <= u:
        return "<=u"
    if v <= np.sqrt(u):
        return "(u,sqrt(u)]"
    if v <= 1e-3:
        return "(sqrt(u),1e-3]"
    return ">1e-3"


def cls_angle(v, u):
    c = cls_small(v, u)
    if c != ">1e-3":
        return c
    v = abs(float(v))
    if v <= PI - 1e-2:
        return "(1e-3,pi)"
    if v <= PI + 1e-2:
        return "~pi"
    return ">pi"


def cls_trans(v):
    v = abs(float(v))
    if v == 0:
        return "0"
    if v < 1e-9:
        return "tiny"
    if v <= 1e3:
        return "mid"
    return "large"


def batch_shapes():
    return [(), (1,), (3,), (0,), (2, 3), (2, 1, 3), (1, 1, 1), (2, 0, 3)]


def lshape_pairs(extents=(0, 1, 2, 3), max_rank=3):
    """All pairs of shapes with rank <= max_rank and the given extents that broadcast."""
    import itertools
    shapes = [()]
    for r in range(1, max_rank + 1):
        shapes += list(itertools.product(extents, repeat=r))
    import torch
    out = []
    for a in shapes:
        for b in shapes:
            try:
                torch.broadcast_shapes(a, b)
            except RuntimeError:
                continue
            out.append((a, b))
    return shapes, out


def spd(rng, n, cond=10.0, scale=1.0):
    """Random SPD matrix with prescribed condition number."""
    q, _ = np.linalg.qr(rng.standard_normal((n, n)))
    s = np.exp(np.linspace(0, np.log(cond), n)) if n > 1 else np.ones(1)
    s = s / s.max() * scale
    return (q * s) @ q.T
