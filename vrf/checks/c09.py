"""C09 — kernels match their documented closed forms; FastTriggs/Triggs preserve the robust
gradient (both) and the robust Gauss-Newton Hessian (Triggs, where rho'' > 0).

Monitors
  kernel_value      kernel(x) against the documented closed form evaluated with mpmath (50 digits);
                    tolerance C_K*u*T, T = largest intermediate term of the documented expression
  kernel_zero       value at +0 / -0 (same tolerance, T at zero)
  kernel_finite     every output finite
  kernel_monotone   non-decreasing along the sorted ladder (same tolerance)
  huber_continuity  value jump between the floating-point neighbours of delta^2 and one-sided
                    finite-difference slopes left/right of delta^2
  kernel_negative   every kernel raises on an input containing a negative element
  kernel_shape      output has the shape / dtype of the input (rank 0..3, empty)
  corr_grad         J'^T R' = sum_i rho'(|R_i|^2) J_i^T R_i       (FastTriggs and Triggs)
  corr_hess         J'^T J' = sum_i rho' J_i^T J_i + [rho''>0, R_i!=0] 2 rho'' J_i^T R_i R_i^T J_i   (Triggs)
  corr_same         rows with rho''<=0 or R_i=0: Triggs row == FastTriggs row (within 8u)
  opt_grad/opt_loss the linear system handed to the solver by GN / LM (spy solver) carries
                    -sum rho' J^T R of the per-residual kernels; RobustModel.loss equals the sum of
                    the closed forms; autograd gradient of that loss = 2 J'^T R'
rho', rho'' come from closed-form derivatives written here (float64), themselves compared with
mpmath.diff of the documented closed form in every run (oracle self-test).
"""
import hashlib
import math

import mpmath as mp
import numpy as np
import torch
from torch import nn

import pypose as pp  # noqa: F401  (import order: the package under test first)
import pypose.optim as ppo
from pypose.optim import corrector as ppc
from pypose.optim import kernel as ppk

from .. import gen

PID = "C09"
LEVEL = "exploration"
SHARDS = {"quick": 4, "thorough": 16}
TIMEOUT = {"quick": 900, "thorough": 5400}
RULE = ("kernels: every built-in kernel x parameter ladder (delta 1e-3..1e3, Tolerant a/|b| up to 50, Scale "
        "delta in (0,1]) x both dtypes x a sorted input ladder (0, 1e-30..1e12, dense around eps and sqrt(eps), "
        "the floating-point neighbourhood of delta^2 / a, log-uniform random values); one case = one (kernel, "
        "parameters, dtype, input value), distinct = distinct bit patterns, trivial = input 0. correctors: "
        "(kernel incl. user kernels with rho''>0, =0, <0 and sign-changing) x {FastTriggs, Triggs} x dtype x "
        "residual shape (rank 0-2 batch, d=1..6) x P=1..7; each residual row is placed on a ladder of |R_i|^2 "
        "(0, 1e-20, ..., exactly the Huber threshold, ..., large) with random or axis-aligned direction; one "
        "case = one (kernel, corrector, R, J) call, distinct = distinct R bit patterns, trivial = all rows zero. "
        "optimizer: GN/LM steps on a two-residual linear model with single/list kernels and correctors and a "
        "spy solver.")
ASSUME = ["closed forms are the ones in the kernels' docstrings, evaluated with mpmath at 50 digits on the "
          "dtype-rounded input and the python-float parameters",
          "kernel tolerance C_K*u*T with T the largest intermediate term of the documented expression "
          "(cancellation of the documented form for x << eps is not flagged)",
          "reference rho', rho'', rho''' are closed-form derivatives in float64, checked against mpmath.diff each run",
          "corrector tolerance c*u*sum_i (|rho'| + |rho''| c_i [+ |rho'''| c_i^2]) |J_i| (|R_i| resp. |J_i|): "
          "round-off of c_i = |R_i|^2 moves rho'(c_i)",
          "J is passed as the optimizer passes it: shape (numel(R), P), contiguous; correctors are called with "
          "keyword arguments R=, J= (mostly under torch.no_grad as in GN/LM.step)",
          "rows whose rho'' is within round-off of a sign change are not generated (sign-changing user kernel is "
          "sampled away from its root); rows whose true rho'' <= 0 is smaller than 16*u*(magnitude of the terms autograd "
          "assembles it from) may be treated as rho''>0 by Triggs and are allowed the resulting relative deviation "
          "32*u*a2*c/rho' from FastTriggs (only Tolerant with (x-a)/b >> 1 has such rows)",
          "CPU only"]

mp.mp.dps = 50
LD = np.longdouble
DT = {"f64": torch.float64, "f32": torch.float32}
C_K = 16.0         # kernel closed form
C_G = 32.0         # gradient identity
C_H = 64.0         # Hessian identity
C_SAME = 8.0       # Triggs == FastTriggs elsewhere
C_LOSS = 32.0


def u_of(dn):
    return float(torch.finfo(DT[dn]).eps)


def tiny_of(dn):
    return float(torch.finfo(DT[dn]).tiny)


def digest(*arrs):
    h = hashlib.blake2b(digest_size=8)
    for a in arrs:
        h.update(np.ascontiguousarray(a).tobytes())
    return h.hexdigest()


# ---------------------------------------------------------------------------------------
# kernel specifications: documented closed form (mp), magnitude T, reference derivatives
# ---------------------------------------------------------------------------------------
class Spec:
    """name, params, make() -> torch module, mpf(x mp) -> mp value, T(x f64) -> magnitude,
    der(x f64) -> (rho', rho'', rho''', a1, a2, s1) with a1/a2 >= |rho'|/|rho''| the magnitude of the
    terms the derivative is assembled from (absolute round-off of the computed derivative ~ u*a),
    s1 = |d rho'| caused by a relative perturbation of x and of the intermediate terms (in units of u); curv in {neg, zero, pos, mixed}; s0 natural input scale;
    cmax largest |R_i|^2 used; builtin flag."""

    def __init__(self, name, params, make, mpf, T, der, curv, s0, cmax, builtin=True, avoid=None):
        self.name, self.params, self.make, self.mpf, self.T, self.der = name, params, make, mpf, T, der
        self.curv, self.s0, self.cmax, self.builtin, self.avoid = curv, float(s0), float(cmax), builtin, avoid

    @property
    def tag(self):
        return f"{self.name}{list(self.params)}"


def _f(x):
    return np.asarray(x, dtype=np.float64)


def spec_huber(d):
    d = float(d)
    d2 = d * d

    def mpf(x):
        dd = mp.mpf(d)
        return x if mp.sqrt(x) < dd else 2 * dd * mp.sqrt(x) - dd * dd

    def T(x):
        x = _f(x)
        return np.where(np.sqrt(x) < d, x, 2 * d * np.sqrt(x) + d2)

    def der(x):
        x = _f(x)
        inner = np.sqrt(x) < d
        with np.errstate(all="ignore"):
            sx = np.sqrt(x)
            r1 = np.where(inner, 1.0, d / sx)
            r2 = np.where(inner, 0.0, -d / (2 * x * sx))
            r3 = np.where(inner, 0.0, 3 * d / (4 * x * x * sx))
        return r1, r2, r3, np.abs(r1), np.abs(r2), np.abs(r2) * x

    return Spec("Huber", (d,), lambda: ppk.Huber(d), mpf, T, der, "neg", d2, 1e8 * d2)


def spec_pseudohuber(d):
    d = float(d)
    d2 = d * d

    def mpf(x):
        dd = mp.mpf(d) ** 2
        return 2 * dd * (mp.sqrt(1 + x / dd) - 1)

    def T(x):
        return 2 * d2 * np.sqrt(1 + _f(x) / d2)

    def der(x):
        w = 1 + _f(x) / d2
        r1 = w ** -0.5
        r2 = -0.5 / d2 * w ** -1.5
        r3 = 0.75 / d2 ** 2 * w ** -2.5
        return r1, r2, r3, np.abs(r1), np.abs(r2), np.abs(r2) * _f(x)

    return Spec("PseudoHuber", (d,), lambda: ppk.PseudoHuber(d), mpf, T, der, "neg", d2, 1e8 * d2)


def spec_cauchy(d):
    d = float(d)
    d2 = d * d

    def mpf(x):
        dd = mp.mpf(d) ** 2
        return dd * mp.log(1 + x / dd)

    def T(x):
        return d2 * np.maximum(1.0, np.log1p(_f(x) / d2))

    def der(x):
        w = 1 + _f(x) / d2
        r1 = 1 / w
        r2 = -1 / (d2 * w * w)
        r3 = 2 / (d2 * d2 * w ** 3)
        return r1, r2, r3, np.abs(r1), np.abs(r2), np.abs(r2) * _f(x)

    return Spec("Cauchy", (d,), lambda: ppk.Cauchy(d), mpf, T, der, "neg", d2, 1e8 * d2)


def spec_softlone(d):
    d = float(d)
    d2 = d * d

    def mpf(x):
        dd = mp.mpf(d)
        return 2 * (dd * mp.sqrt(1 / (dd * dd) + x) - 1)

    def T(x):
        return 2 * d * np.sqrt(1 / d2 + _f(x))

    def der(x):
        w = 1 / d2 + _f(x)
        r1 = d * w ** -0.5
        r2 = -0.5 * d * w ** -1.5
        r3 = 0.75 * d * w ** -2.5
        return r1, r2, r3, np.abs(r1), np.abs(r2), np.abs(r2) * _f(x)

    return Spec("SoftLOne", (d,), lambda: ppk.SoftLOne(d), mpf, T, der, "neg", 1 / d2, 1e8 / d2)


def spec_arctan(d):
    d = float(d)
    d2 = d * d

    def mpf(x):
        dd = mp.mpf(d) ** 2
        return dd * mp.atan(x / dd)

    def T(x):
        return d2 * np.arctan(_f(x) / d2)

    def der(x):
        z = _f(x) / d2
        w = 1 + z * z
        r1 = 1 / w
        r2 = -2 * z / d2 / (w * w)
        r3 = (6 * z * z - 2) / (d2 * d2) / w ** 3
        return r1, r2, r3, np.abs(r1), np.abs(r2), np.abs(r2) * _f(x)

    return Spec("Arctan", (d,), lambda: ppk.Arctan(d), mpf, T, der, "neg", d2, 1e6 * d2)


def spec_tolerant(a, b):
    a, b = float(a), float(b)

    def mpf(x):
        aa, bb = mp.mpf(a), mp.mpf(b)
        return bb * mp.log(1 + mp.exp((x - aa) / bb)) - bb * mp.log(1 + mp.exp(-aa / bb))

    def T(x):
        return np.full(_f(x).shape, abs(b) * (np.log1p(np.exp(a / abs(b))) + 1.0) + a)

    def der(x):
        t = (_f(x) - a) / b
        with np.errstate(all="ignore"):
            sg = np.where(t > 0, 1 / (1 + np.exp(-t)), np.exp(t) / (1 + np.exp(t)))
            sm = np.where(t > 0, np.exp(-t) / (1 + np.exp(-t)), 1 / (1 + np.exp(t)))      # 1 - sigma, no cancellation
        r1 = sg
        r2 = sg * sm / b
        r3 = sg * sm * (sm - sg) / (b * b)
        # autograd assembles rho'' from sigma/b and sigma^2/b (they cancel for t >> 1); rho' = sigma(t) moves by
        # |rho''| (x + |x-a|) u when t = (x-a)/b is rounded
        return r1, r2, r3, np.abs(r1), sg * (1 + sg) / abs(b), np.abs(r2) * (_f(x) + np.abs(_f(x) - a))

    return Spec("Tolerant", (a, b), lambda: ppk.Tolerant(a, b), mpf, T, der, "neg", a, 1e6 * a)


def spec_scale(d):
    d = float(d)

    def der(x):
        x = _f(x)
        z = np.zeros(x.shape)
        return np.full(x.shape, d), z, z, np.full(x.shape, d), z, z

    return Spec("Scale", (d,), lambda: ppk.Scale(d), lambda x: mp.mpf(d) * x, lambda x: d * _f(x), der,
                "zero", 1.0, 1e8)


# ------------------------------------------------------------------ user kernels
class QuadK(nn.Module):           # rho = x + x^2/2, rho'' = 1
    def forward(self, x):
        return x + 0.5 * x * x


class ExpK(nn.Module):            # rho = s (exp(x/s) - 1), rho'' = exp(x/s)/s
    def __init__(self, s):
        super().__init__()
        self.s = s

    def forward(self, x):
        return self.s * (torch.exp(x / self.s) - 1)


class CubK(nn.Module):            # rho = x + x^3, rho'' = 6x
    def forward(self, x):
        return x + x * x * x


class MixK(nn.Module):            # rho = x + x^3/30 - x^2/4, rho'' = x/5 - 1/2 changes sign at 2.5
    def forward(self, x):
        return x + x * x * x / 30 - x * x / 4


class LinK(nn.Module):            # rho = c x
    def __init__(self, c):
        super().__init__()
        self.c = c

    def forward(self, x):
        return self.c * x


class LogK(nn.Module):            # rho = log(1+x), user kernel with negative curvature
    def forward(self, x):
        return torch.log1p(x)


# user kernels written as subclasses of the library's own kernel classes that override forward(): the kernel is what forward() computes
def _subclass_kernels():
    K = pp.optim.kernel

    class QuadOnScale(K.Scale):          # rho = x + x^2/2 on top of Scale(delta=0.3)
        def __init__(self):
            super().__init__(0.3)

        def forward(self, x):
            return x + 0.5 * x * x

    class LogOnHuber(K.Huber):           # rho = log(1+x) on top of Huber(delta=0.5)
        def __init__(self):
            super().__init__(0.5)

        def forward(self, x):
            return torch.log1p(x)

    class CubicOnCauchy(K.Cauchy):       # rho = x + x^3 on top of Cauchy(delta=2)
        def __init__(self):
            super().__init__(2.0)

        def forward(self, x):
            return x + x * x * x
    return QuadOnScale, LogOnHuber, CubicOnCauchy


def user_specs():
    out = []
    QuadOnScale, LogOnHuber, CubicOnCauchy = _subclass_kernels()
    out.append(Spec("UserQuadOnScale", (), QuadOnScale, lambda x: x + x * x / 2, lambda x: _f(x) + 0.5 * _f(x) ** 2,
                    lambda x: (1 + _f(x), np.ones(_f(x).shape), np.zeros(_f(x).shape), 1 + _f(x), np.ones(_f(x).shape), _f(x)),
                    "pos", 1.0, 1e3, builtin=False))
    out.append(Spec("UserLogOnHuber", (), LogOnHuber, lambda x: mp.log(1 + x), lambda x: np.maximum(1.0, np.log1p(_f(x))),
                    lambda x: (1 / (1 + _f(x)), -1 / (1 + _f(x)) ** 2, 2 / (1 + _f(x)) ** 3, 1 / (1 + _f(x)),
                               1 / (1 + _f(x)) ** 2, _f(x) / (1 + _f(x)) ** 2), "neg", 1.0, 1e6, builtin=False))
    out.append(Spec("UserCubicOnCauchy", (), CubicOnCauchy, lambda x: x + x ** 3, lambda x: _f(x) + _f(x) ** 3,
                    lambda x: (1 + 3 * _f(x) ** 2, 6 * _f(x), np.full(_f(x).shape, 6.0), 1 + 3 * _f(x) ** 2, 6 * _f(x),
                               6 * _f(x) ** 2),
                    "pos", 1.0, 1e2, builtin=False))
    out.append(Spec("UserQuad", (), QuadK, lambda x: x + x * x / 2, lambda x: _f(x) + 0.5 * _f(x) ** 2,
                    lambda x: (1 + _f(x), np.ones(_f(x).shape), np.zeros(_f(x).shape), 1 + _f(x), np.ones(_f(x).shape), _f(x)),
                    "pos", 1.0, 1e3, builtin=False))
    for s in (1.0, 4.0):
        def der(x, s=s):
            e = np.exp(_f(x) / s)
            return e, e / s, e / (s * s), e, e / s, e * _f(x) / s
        out.append(Spec("UserExp", (s,), (lambda s=s: ExpK(s)), (lambda x, s=s: mp.mpf(s) * (mp.exp(x / mp.mpf(s)) - 1)),
                        (lambda x, s=s: s * np.exp(_f(x) / s)), der, "pos", s, 8 * s, builtin=False))
    out.append(Spec("UserCubic", (), CubK, lambda x: x + x ** 3, lambda x: _f(x) + _f(x) ** 3,
                    lambda x: (1 + 3 * _f(x) ** 2, 6 * _f(x), np.full(_f(x).shape, 6.0), 1 + 3 * _f(x) ** 2, 6 * _f(x),
                               6 * _f(x) ** 2),
                    "pos", 1.0, 1e2, builtin=False))
    out.append(Spec("UserMixed", (), MixK, lambda x: x + x ** 3 / 30 - x * x / 4,
                    lambda x: _f(x) + _f(x) ** 3 / 30 + _f(x) ** 2 / 4,
                    lambda x: (1 + _f(x) ** 2 / 10 - _f(x) / 2, _f(x) / 5 - 0.5, np.full(_f(x).shape, 0.2),
                               1 + _f(x) ** 2 / 10 + _f(x) / 2, _f(x) / 5 + 0.5, (_f(x) / 5 + 0.5) * _f(x)),
                    "mixed", 1.0, 20.0, builtin=False, avoid=(2.2, 2.8)))
    for c in (1.0, 0.25):
        def der(x, c=c):
            x = _f(x)
            z = np.zeros(x.shape)
            return np.full(x.shape, c), z, z, np.full(x.shape, c), z, z
        out.append(Spec("UserLinear", (c,), (lambda c=c: LinK(c)), (lambda x, c=c: mp.mpf(c) * x),
                        (lambda x, c=c: c * _f(x)), der, "zero", 1.0, 1e6, builtin=False))
    out.append(Spec("UserLog", (), LogK, lambda x: mp.log(1 + x), lambda x: np.maximum(1.0, np.log1p(_f(x))),
                    lambda x: (1 / (1 + _f(x)), -1 / (1 + _f(x)) ** 2, 2 / (1 + _f(x)) ** 3, 1 / (1 + _f(x)),
                               1 / (1 + _f(x)) ** 2, _f(x) / (1 + _f(x)) ** 2), "neg", 1.0, 1e6, builtin=False))
    return out


DELTAS = (1e-3, 0.05, 0.5, 1.0, 2.5, 10.0, 1e3)
TOLER = ((1.0, -1.0), (0.5, -3.0), (5.0, -0.1), (10.0, -0.2), (1e-2, -1.0), (3.0, -0.5), (40.0, -1.0))
SCALES = (1e-3, 0.3, 1.0)


def builtin_specs():
    out = []
    for d in DELTAS:
        out += [spec_huber(d), spec_pseudohuber(d), spec_cauchy(d), spec_softlone(d), spec_arctan(d)]
    out += [spec_arctan(-2.0)]                 # Arctan documents no sign restriction on delta
    out += [spec_tolerant(a, b) for a, b in TOLER]
    out += [spec_scale(d) for d in SCALES]
    return out


def corrector_specs():
    out = []
    for d in (0.5, 1.0, 2.0, 0.1):
        out.append(spec_huber(d))
    out.append(spec_huber(5.0))
    for d in (1.0, 0.3):
        out += [spec_pseudohuber(d), spec_cauchy(d), spec_softlone(d), spec_arctan(d)]
    out += [spec_tolerant(1.0, -1.0), spec_tolerant(0.5, -3.0), spec_tolerant(5.0, -0.1)]
    out += [spec_scale(1.0), spec_scale(0.3)]
    out += user_specs()
    return out


# ---------------------------------------------------------------------------------------
# oracle self-test: reference derivatives against mpmath differentiation of the closed form
# ---------------------------------------------------------------------------------------
def selftest(ck, specs, rng):
    worst = 0.0
    for sp in specs:
        xs = sp.s0 * np.array([0.013, 0.4, 0.9, 1.7, 6.0, 40.0])
        xs = xs[xs <= sp.cmax]
        if sp.avoid:
            xs = xs[(xs < sp.avoid[0]) | (xs > sp.avoid[1])]
        r1, r2, r3, a1, a2, _ = sp.der(xs)
        for i, x in enumerate(xs):
            if sp.name == "Huber" and abs(math.sqrt(x) / sp.params[0] - 1) < 0.05:
                continue
            xm = mp.mpf(float(x))
            with mp.workdps(120):
                m1, m2, m3 = (mp.diff(sp.mpf, xm, n) for n in (1, 2, 3))
            for got, ref, mag in ((r1[i], m1, a1[i]), (r2[i], m2, a2[i]), (r3[i], m3, None)):
                if abs(ref) < mp.mpf(10) ** -80 and abs(float(got)) < 1e-80:
                    continue                     # below the resolution of the numerical differentiation
                # float64 evaluation of a cancelling expression is exact only relative to its terms
                den = max(abs(float(ref)), 1e-4 * float(mag) if mag is not None else 0.0, 1e-300)
                e = abs(float(got) - float(ref)) / den
                worst = max(worst, e)
                if e > 1e-9:
                    ck.inconclusive_because(f"reference derivative of {sp.tag} disagrees with mpmath.diff at x={x}: "
                                            f"{got} vs {float(ref)}")
    ck.note_max("max_refderiv_vs_mpdiff_rel", worst)


# ---------------------------------------------------------------------------------------
# kernels
# ---------------------------------------------------------------------------------------
def x_class(x, s0, u):
    if x == 0:
        return "x==0"
    z = x / s0
    if z < u:
        return "x<u*s0"
    if z < 0.5:
        return "x<s0"
    if z <= 2:
        return "x~s0"
    if z < 1e6:
        return "x>s0"
    return "x>=1e6*s0"


def kernel_ladder(sp, dn, rng, nrand):
    u = u_of(dn)
    dtype = DT[dn]
    xs = [0.0] + [10.0 ** k for k in range(-30, 13)] + list(gen.small_ladder(u))
    s0 = sp.s0
    xs += [s0 * m for m in (0.25, 0.5, 0.999, 1.0, 1.001, 2.0, 4.0, 1e3, 1e6)]
    xs += [s0 * (1 + k * u) for k in (-4, -2, -1, 1, 2, 4)] + [s0 * u * m for m in (0.25, 1.0, 4.0)]
    xs += list(s0 * 10.0 ** rng.uniform(-12, 8, nrand)) + list(10.0 ** rng.uniform(-30, 12, nrand // 2))
    t = torch.tensor(np.array(xs, dtype=np.float64)).to(dtype)
    c = torch.tensor([s0], dtype=torch.float64).to(dtype)
    nb = [c, torch.nextafter(c, torch.zeros_like(c)), torch.nextafter(c, torch.full_like(c, float("inf")))]
    t = torch.cat([t] + nb)
    t = t[torch.isfinite(t) & (t <= 1e12)]
    return torch.unique(t)          # sorted ascending


def monitor_kernel(ck, sp, dn, x):
    u, tiny = u_of(dn), tiny_of(dn)
    name = sp.name
    entry = f"kernel.{name}"
    kern = sp.make()
    xin = x.double().numpy()
    base = f"{name}/{dn}"
    okc, y = ck.call("kernel_value", base, entry, lambda: kern(x.clone()),
                     witness={"params": list(sp.params), "n": int(x.numel())})
    if not okc:
        return
    if not ck.check(isinstance(y, torch.Tensor) and tuple(y.shape) == tuple(x.shape) and y.dtype == x.dtype,
                    "kernel_shape", base, entry, "type_or_shape", {"in": list(x.shape), "out": str(getattr(y, "shape", None))}):
        return
    yv = y.detach().double().numpy()
    fin = np.isfinite(yv)
    ck.count("kernel_finite", base, n=len(xin), nontrivial=False)
    ck.check(bool(fin.all()), "kernel_finite", base, entry, "non_finite_value",
             lambda: {"params": list(sp.params), "x": xin[~fin][:5].tolist(), "y": [repr(v) for v in yv[~fin][:5]]})
    T = sp.T(xin)
    tol = C_K * u * T + 8 * tiny
    ref = [sp.mpf(mp.mpf(float(v))) for v in xin]
    err = np.array([float(abs(mp.mpf(float(g)) - r)) if np.isfinite(g) else np.inf for g, r in zip(yv, ref)])

    def wit(i):
        return {"kernel": name, "params": list(sp.params), "dtype": dn, "x": float(xin[i]), "x_hex": float(xin[i]).hex(),
                "got": float(yv[i]), "expected": float(ref[i]), "T": float(T[i])}

    cls = np.array([x_class(v, sp.s0, u) for v in xin])
    for c, n in zip(*np.unique(cls, return_counts=True)):
        ck.count("kernel_value", f"{base}/{c}", n=int(n), nontrivial=False)
        ck.mark(f"in/{name}/{dn}/{c}", int(n))
    from ..core import row_digests, key_digest
    nz = xin > 0
    ck.digests.update(int(d) ^ key_digest(("kernel", sp.tag, dn)) for d in row_digests(xin[nz]))
    ck.ratios("kernel_value", base, err, tol, entry, "closed_form_mismatch", wit)
    with np.errstate(all="ignore"):
        rr = np.where(tol > 0, err / tol, 0.0)
    ck.note_max(f"max_r_kernel_value/{name}/{dn}", float(rr[np.isfinite(rr)].max()) if np.isfinite(rr).any() else 0.0)
    z = xin == 0
    if z.any():
        ck.count("kernel_zero", base, n=int(z.sum()), key=(sp.tag, dn))
        ck.ratios("kernel_zero", base, np.abs(yv[z]), tol[z], entry, "nonzero_at_zero",
                  lambda i: {"kernel": name, "params": list(sp.params), "dtype": dn, "got": float(yv[z][i])})
    # monotone on the sorted ladder
    if len(xin) > 1:
        drop = np.maximum(0.0, yv[:-1] - yv[1:])
        mt = C_K * u * np.maximum(T[:-1], T[1:]) + 8 * tiny
        ck.count("kernel_monotone", base, n=len(drop), nontrivial=False)
        ck.ratios("kernel_monotone", base, drop, mt, entry, "decreasing",
                  lambda i: {"kernel": name, "params": list(sp.params), "dtype": dn, "x0": float(xin[i]),
                             "x1": float(xin[i + 1]), "y0": float(yv[i]), "y1": float(yv[i + 1])})
    if len(ck.samples) < 4:
        j = len(xin) // 2
        ck.sample({"kernel": name, "params": list(sp.params), "dtype": dn, "x_hex": float(xin[j]).hex(),
                   "y": float(yv[j]), "closed_form": float(ref[j]), "err_over_uT": float(err[j] / (u * T[j])) if T[j] > 0 else 0.0})


def monitor_huber_continuity(ck, d, dn):
    dtype, u = DT[dn], u_of(dn)
    kern = ppk.Huber(d)
    c = torch.tensor([d * d], dtype=torch.float64).to(dtype)
    lo = torch.nextafter(c, torch.zeros_like(c))
    hi = torch.nextafter(c, torch.full_like(c, float("inf")))
    h = math.sqrt(u)
    xl = (c.double() * (1 - h)).to(dtype)
    xr = (c.double() * (1 + h)).to(dtype)
    x = torch.cat([xl, lo, c, hi, xr])
    regime = f"Huber/{dn}"
    okc, y = ck.call("huber_continuity", regime, "kernel.Huber", lambda: kern(x), witness={"delta": d})
    if not okc:
        return
    xv, yv = x.double().numpy(), y.double().numpy()
    d2 = d * d
    ck.count("huber_continuity", regime, n=2, key=(d, dn))
    ck.mark(f"in/Huber/{dn}/threshold-neighbours")
    jump = max(abs(yv[2] - yv[1]), abs(yv[3] - yv[2]))
    ck.ratio("huber_continuity", regime, jump, (2 + 6 * C_K) * u * d2, "kernel.Huber", "value_jump_at_threshold",
             {"delta": d, "dtype": dn, "x": xv[1:4].tolist(), "y": yv[1:4].tolist()})
    sl = (yv[2] - yv[0]) / (xv[2] - xv[0])
    sr = (yv[4] - yv[2]) / (xv[4] - xv[2])
    ck.ratio("huber_continuity", regime, abs(sl - sr), (0.5 + 6 * C_K) * h, "kernel.Huber", "slope_jump_at_threshold",
             {"delta": d, "dtype": dn, "slope_left": float(sl), "slope_right": float(sr), "h": h})


def monitor_negative(ck, sp, dn):
    dtype = DT[dn]
    den = float(torch.finfo(dtype).smallest_normal) * float(torch.finfo(dtype).eps)   # smallest subnormal
    cases = {"single": torch.tensor([-1.0]), "middle": torch.tensor([0.5, -1e-30, 2.0]),
             "subnormal": torch.tensor([1.0, -den]), "rank0": torch.tensor(-3.0),
             "last-of-2d": torch.tensor([[0.0, 1.0], [2.0, -0.25]]), "large": torch.tensor([-1e12, 1.0])}
    entry = f"kernel.{sp.name}"
    for cname, t in cases.items():
        x = t.double().to(dtype)
        if not bool((x < 0).any()):
            continue
        kern = sp.make()
        regime = f"{sp.name}/{dn}/{cname}"
        ck.count("kernel_negative", regime, key=(sp.tag, dn, cname))
        ck.mark(f"neg/{sp.name}")
        try:
            y = kern(x)
        except Exception:
            continue
        ck.violation("kernel_negative", regime, entry, "negative_input_accepted",
                     {"kernel": sp.name, "params": list(sp.params), "dtype": dn, "x": x.double().tolist(),
                      "returned": y.double().tolist() if isinstance(y, torch.Tensor) else repr(y)})
    # -0.0 is not negative: must be accepted and map to zero
    x = torch.tensor([-0.0, 0.0], dtype=dtype)
    okc, y = ck.call("kernel_zero", f"{sp.name}/{dn}/-0", entry, lambda: sp.make()(x), witness={"x": "-0.0"})
    if okc:
        ck.count("kernel_zero", f"{sp.name}/{dn}/-0", key=(sp.tag, dn, "-0"), nontrivial=False)
        tol = C_K * u_of(dn) * sp.T(np.zeros(2)) + 8 * tiny_of(dn)
        ck.ratios("kernel_zero", f"{sp.name}/{dn}/-0", np.abs(y.double().numpy()), tol, entry, "nonzero_at_zero",
                  lambda i: {"kernel": sp.name, "params": list(sp.params), "got": y.double().tolist()})


def monitor_kernel_shapes(ck, sp, dn, rng):
    dtype = DT[dn]
    for shp in gen.batch_shapes() + [(2, 3, 4)]:
        x = torch.tensor(sp.s0 * 10.0 ** rng.uniform(-3, 3, shp)).to(dtype) if 0 not in shp else torch.zeros(shp, dtype=dtype)
        regime = f"{sp.name}/{dn}/rank{len(shp)}{'/empty' if 0 in shp else ''}"
        okc, y = ck.call("kernel_shape", regime, f"kernel.{sp.name}", lambda: sp.make()(x), witness={"shape": list(shp)})
        if not okc:
            continue
        ck.count("kernel_shape", regime, key=(sp.tag, dn, shp), nontrivial=0 not in shp)
        ok = ck.check(tuple(y.shape) == shp and y.dtype == dtype, "kernel_shape", regime, f"kernel.{sp.name}",
                      "type_or_shape", {"in": list(shp), "out": list(y.shape), "dtype": str(y.dtype)})
        if ok and 0 not in shp and len(shp) >= 1:
            # elementwise: the shaped call equals the call on the flattened input
            okf, yf = ck.call("kernel_shape", regime, f"kernel.{sp.name}", lambda: sp.make()(x.reshape(-1)))
            if okf:
                ck.check(torch.equal(yf.reshape(shp), y), "kernel_shape", regime, f"kernel.{sp.name}",
                         "not_elementwise", {"shape": list(shp)})


# ---------------------------------------------------------------------------------------
# correctors
# ---------------------------------------------------------------------------------------
def c_ladder(sp):
    s0 = sp.s0
    base = [0.0, 1e-20 * s0, 1e-8 * s0, 1e-3 * s0, 0.3 * s0, 0.999 * s0, s0, 1.001 * s0, 3 * s0, 30 * s0, 1e3 * s0,
            1e5 * s0, sp.cmax]
    out = sorted(set(v for v in base if v <= sp.cmax))
    if sp.avoid:
        out = [v for v in out if not (sp.avoid[0] < v < sp.avoid[1])] + [sp.avoid[0] * 0.9, sp.avoid[1] * 1.1]
    return out


def build_R(sp, dn, shape, d, rng, mode):
    """R (shape + (d,)) in the dtype; returns tensor, flags dict."""
    dtype = DT[dn]
    n = int(np.prod(shape)) if len(shape) else 1
    lad = np.array(c_ladder(sp))
    flags = {"threshold": False}
    if mode == "allzero":
        c = np.zeros(n)
    elif mode == "ladder":
        c = rng.choice(lad, n)
        if n >= 2:
            c[rng.integers(n)] = 0.0
    else:
        lo = max(sp.s0 * 1e-6, 1e-12)
        c = 10.0 ** rng.uniform(np.log10(lo), np.log10(min(sp.cmax, sp.s0 * 1e4)), n)
        if sp.avoid:
            bad = (c > sp.avoid[0]) & (c < sp.avoid[1])
            c[bad] = sp.avoid[1] * 1.3
    v = rng.standard_normal((n, d))
    ax = rng.random(n) < 0.3
    if ax.any():
        a = np.zeros((int(ax.sum()), d))
        a[np.arange(int(ax.sum())), rng.integers(0, d, int(ax.sum()))] = rng.choice([-1.0, 1.0], int(ax.sum()))
        v[ax] = a
    v /= np.linalg.norm(v, axis=-1, keepdims=True)
    R = v * np.sqrt(c)[:, None]
    if sp.name == "Huber" and mode == "ladder":
        # rows exactly at the threshold: delta * e_k (and the 3-4-5 triple for delta = 5)
        k = rng.integers(n)
        row = np.zeros(d)
        dl = sp.params[0]
        if dl == 5.0 and d >= 2:
            row[:2] = rng.permutation([3.0, 4.0]) * rng.choice([-1.0, 1.0], 2)
        else:
            row[rng.integers(d)] = dl * rng.choice([-1.0, 1.0])
        R[k] = row
        flags["threshold"] = True
    Rt = torch.tensor(R.reshape(shape + (d,))).to(dtype)
    return Rt, flags


def reference(sp, Rn, Jn, u):
    """Rn (n,d), Jn (n,d,P): exact values as float64. Everything accumulated in longdouble."""
    R, J = Rn.astype(LD), Jn.astype(LD)
    c = (R * R).sum(-1)
    r1, r2, r3, a1, a2, s1 = (np.asarray(v, dtype=np.float64) for v in sp.der(np.asarray(c, dtype=np.float64)))
    JtR = np.einsum("idp,id->ip", J, R)
    g = (r1.astype(LD)[:, None] * JtR).sum(0)
    nJ2 = (J * J).sum((1, 2))
    nJ, nR = np.sqrt(nJ2), np.sqrt(c)
    cf = np.asarray(c, dtype=np.float64)
    pos = (r2 > 0) & (cf > 0)
    w1 = a1 + s1
    gscale = float((w1 * nJ * nR).sum())
    H = np.einsum("i,idp,idq->pq", r1.astype(LD), J, J)
    if pos.any():
        H = H + np.einsum("i,ip,iq->pq", (2 * r2[pos]).astype(LD), JtR[pos], JtR[pos])
    w2 = a1 + s1 + 4 * a2 * cf + 2 * np.abs(r3) * cf * cf
    hscale = float((w2 * nJ2).sum())
    # rows whose rho'' is below the round-off of its own evaluation: the computed sign is noise, Triggs may take
    # its rho''>0 branch there with alpha ~ c * (u a2) / rho'  (relative deviation from FastTriggs)
    with np.errstate(all="ignore"):
        noise = np.where((np.abs(r2) <= 16 * u * a2) & (a2 > 0) & (r1 > 0), 32 * u * a2 * cf / r1, 0.0)
    noise = np.where(np.isfinite(noise), noise, 0.0)
    return {"c": cf, "r1": r1, "r2": r2, "pos": pos, "g": g, "H": H, "gscale": gscale, "hscale": hscale,
            "noise": noise, "nJ": np.asarray(nJ, dtype=np.float64)}


def input_class(sp, dn):
    """Suffix of the entry point naming a *class of inputs* on which a defect was found (so that a known
    finding can be keyed on it without hiding anything else)."""
    if sp.curv == "zero":
        return ":linear_kernel"                       # rho'' == 0 identically: g1 does not depend on x
    if sp.name == "Tolerant" and dn == "f32" and sp.params[0] / abs(sp.params[1]) > 43.5:
        return ":Tolerant_f32_a_over_b_gt_43"         # 1/(1+e^t)^2 is subnormal in float32 for t > 43.7
    return ""


def call_corrector(ck, monitor, regime, entry, cor, R, J, nograd, witness):
    def go():
        if nograd:
            with torch.no_grad():
                return cor(R=R, J=J)
        return cor(R=R, J=J)
    okc, out = ck.call(monitor, regime, entry, go, witness=witness)
    if not okc:
        return None
    ok = (isinstance(out, tuple) and len(out) == 2 and tuple(out[0].shape) == tuple(R.shape)
          and tuple(out[1].shape) == tuple(J.shape) and out[0].dtype == R.dtype and out[1].dtype == J.dtype)
    if not ck.check(ok, monitor, regime, entry, "type_or_shape",
                    lambda: {"R": list(R.shape), "J": list(J.shape), "out": [str(getattr(o, "shape", None)) for o in out]}):
        return None
    return out


def monitor_corrector(ck, sp, dn, shape, d, P, rng, mode, nograd=True):
    dtype, u, tiny = DT[dn], u_of(dn), tiny_of(dn)
    R, flags = build_R(sp, dn, shape, d, rng, mode)
    n = R.numel() // d
    jscale = float(rng.choice([1e-3, 1.0, 1.0, 1e3]))
    J = torch.tensor(rng.standard_normal((n * d, P)) * jscale).to(dtype)
    if rng.random() < 0.2 and n * d > 1:
        J[rng.integers(n * d)] = 0.0
    Rn = R.double().numpy().reshape(n, d)
    Jn = J.double().numpy().reshape(n, d, P)
    ref = reference(sp, Rn, Jn, u)
    # memory layout of the residual (the model's output as the optimiser hands it on): same values, different strides
    layout = "contiguous"
    if R.dim() >= 2 and rng.random() < 0.45:
        if R.dim() >= 3 and rng.random() < 0.6:
            perm = [1, 0] + list(range(2, R.dim()))
            R = R.permute(perm).contiguous().permute(perm)            # batch axes swapped in memory
            layout = "permuted"
        elif R.shape[0] > 1 or rng.random() < 0.5:
            big = torch.zeros((2 * R.shape[0],) + tuple(R.shape[1:]), dtype=dtype)
            big[::2] = R
            R = big[::2]
            layout = "strided"
        else:
            R = R.transpose(0, -1).contiguous().transpose(0, -1)       # component axis first in memory
            layout = "transposed"
    ck.mark("layout/R:" + layout)
    zero_rows = ref["c"] == 0
    trivial = bool(zero_rows.all())
    outs = {}
    for cname in ("FastTriggs", "Triggs"):
        entry = f"corrector.{cname}" + (input_class(sp, dn) if cname == "Triggs" else "")
        regime = f"{cname}/{sp.name}/{dn}/d{d}"

        def wit():
            return {"kernel": sp.name, "params": list(sp.params), "corrector": cname, "dtype": dn, "R_shape": list(R.shape),
                    "J_shape": list(J.shape), "R": Rn.tolist(), "J": Jn.reshape(n * d, P).tolist() if n * d * P <= 120 else "large",
                    "c": ref["c"].tolist(), "rho1": ref["r1"].tolist(), "rho2": ref["r2"].tolist(), "no_grad": nograd,
                    "R_layout": layout, "R_strides": list(R.stride())}

        cor = getattr(ppc, cname)(sp.make())
        R0, J0 = R.clone(), J.clone()
        out = call_corrector(ck, "corr_grad", regime, entry, cor, R, J, nograd, wit)
        # input classes seen (also when the call failed: the class was exercised)
        cls = sp.curv
        ck.mark(f"rows/{cname}/{cls}/" + ("zero-row" if zero_rows.any() else "no-zero-row"))
        if (~zero_rows).any():
            ck.mark(f"rows/{cname}/{cls}/nonzero-row")
        if flags["threshold"]:
            ck.mark(f"rows/{cname}/huber-threshold-row")
        if ref["pos"].any() and (~ref["pos"]).any():
            ck.mark(f"rows/{cname}/pos-and-nonpos-rows-in-one-call")
        ck.mark(f"shape/{cname}/d{d}")
        ck.mark(f"shape/{cname}/rank{len(shape)}")
        ck.mark(f"dtype/{cname}/{dn}")
        if out is None:
            continue
        Rp, Jp = out[0].detach().double().numpy().reshape(n, d), out[1].detach().double().numpy().reshape(n * d, P)
        outs[cname] = (Rp, Jp)
        key = (sp.tag, cname, dn, digest(Rn, Jn))
        ck.count("corr_grad", regime, key=key, nontrivial=not trivial)
        if not ck.check(bool(np.isfinite(Rp).all() and np.isfinite(Jp).all()), "corr_grad", regime, entry,
                        "non_finite_output", wit):
            continue
        g = Jp.astype(LD).T @ Rp.astype(LD).reshape(-1)
        eg = float(np.sqrt(((g - ref["g"]) ** 2).sum()))

        def witg():
            w = wit()
            w.update({"JtR_got": np.asarray(g, dtype=np.float64).tolist(),
                      "JtR_expected": np.asarray(ref["g"], dtype=np.float64).tolist()})
            return w

        ck.ratio("corr_grad", regime, eg, C_G * u * ref["gscale"] + 64 * tiny, entry, "gradient_identity", witg)
        if cname == "Triggs":
            Hh = Jp.astype(LD).T @ Jp.astype(LD)
            eh = float(np.sqrt(((Hh - ref["H"]) ** 2).sum()))
            hreg = regime + ("/pos-rows" if ref["pos"].any() else "/no-pos-rows")
            mh = "corr_hess" + input_class(sp, dn)
            ck.count(mh, hreg, key=key, nontrivial=not trivial)

            def with_():
                w = wit()
                w.update({"JtJ_got": np.asarray(Hh, dtype=np.float64).tolist(),
                          "JtJ_expected": np.asarray(ref["H"], dtype=np.float64).tolist()})
                return w

            ck.ratio(mh, hreg, eh, C_H * u * ref["hscale"] + 64 * tiny, entry,
                     "hessian_identity" if ref["pos"].any() else "hessian_identity_nonpos_rows", with_)
    if "FastTriggs" in outs and "Triggs" in outs:
        else_rows = ~ref["pos"]
        if else_rows.any():
            Rf, Jf = outs["FastTriggs"]
            Rt, Jt = outs["Triggs"]
            Jf3, Jt3 = Jf.reshape(n, d, P), Jt.reshape(n, d, P)
            regime = f"{sp.name}/{dn}/d{d}"
            entry = "corrector.Triggs" + input_class(sp, dn)
            ms = "corr_same" + input_class(sp, dn)
            ck.count(ms, regime, n=int(else_rows.sum()), key=(sp.tag, dn, digest(Rn, Jn)), nontrivial=not trivial)
            eR = np.abs(Rt - Rf)[else_rows].reshape(-1)
            eJ = np.abs(Jt3 - Jf3)[else_rows].reshape(-1)
            nz_ = ref["noise"][else_rows]
            se = np.sqrt(ref["r1"][else_rows])
            tR = ((C_SAME * u + nz_[:, None]) * np.abs(Rf)[else_rows] + 8 * tiny).reshape(-1)
            tJ = (C_SAME * u * np.abs(Jf3)[else_rows] + (nz_ * se * ref["nJ"][else_rows])[:, None, None]
                  + 8 * tiny).reshape(-1)
            ck.ratios(ms, regime, eR, tR, entry, "differs_from_fasttriggs_where_rho2_nonpositive",
                      lambda i: {"kernel": sp.name, "params": list(sp.params), "R": Rn.tolist(), "R_triggs": Rt.tolist(),
                                 "R_fast": Rf.tolist()})
            ck.ratios(ms, regime, eJ, tJ, entry, "differs_from_fasttriggs_where_rho2_nonpositive",
                      lambda i: {"kernel": sp.name, "params": list(sp.params), "R": Rn.tolist(), "what": "J rows"})
    if len(ck.samples) < 8 and "Triggs" in outs and not trivial:
        ck.sample({"kernel": sp.tag, "dtype": dn, "R_hex": [[float(v).hex() for v in r] for r in Rn[:3]],
                   "rho1": ref["r1"][:3].tolist(), "rho2": ref["r2"][:3].tolist(),
                   "JtR_expected": np.asarray(ref["g"], dtype=np.float64).tolist()})


# ---------------------------------------------------------------------------------------
# optimizer integration: which kernel / corrector meets which residual, and the reported loss
# ---------------------------------------------------------------------------------------
class LinModel(nn.Module):
    def __init__(self, Xs, shapes, th1, th2):
        super().__init__()
        self.th1 = nn.Parameter(th1)
        self.th2 = nn.Parameter(th2)
        self.Xs, self.shapes = Xs, shapes

    def forward(self, inp):
        th = torch.cat([self.th1.reshape(-1), self.th2.reshape(-1)])
        outs = tuple((X @ th).view(s) + 0 * inp for X, s in zip(self.Xs, self.shapes))
        return outs if len(outs) > 1 else outs[0]


class SpySolver(nn.Module):
    def __init__(self):
        super().__init__()
        self.calls = []

    def forward(self, A, b):
        self.calls.append((A.detach().clone(), b.detach().clone()))
        return torch.linalg.lstsq(A, b).solution


def mp_loss(specs, Rs):
    tot, T = mp.mpf(0), 0.0
    for sp, Rn in zip(specs, Rs):
        c = (Rn.astype(LD) ** 2).sum(-1)
        for v in np.asarray(c, dtype=np.float64):
            tot += sp.mpf(mp.mpf(float(v))) if sp is not None else mp.mpf(float(v))
        cf = np.asarray(c, dtype=np.float64)
        # magnitude of the documented expression plus the movement of rho under the round-off of c = |R_i|^2
        T += float(np.sum(sp.T(cf) + np.abs(sp.der(cf)[0]) * cf)) if sp is not None else float(2 * c.sum())
    return tot, T


def monitor_optimizer(ck, rng, dn, optname, config, specs2, nres):
    """config: 'single-auto' | 'single-triggs' | 'list-auto' | 'list-list' (a list may hold a None entry)."""
    dtype, u, tiny = DT[dn], u_of(dn), tiny_of(dn)
    P1, P2 = int(rng.integers(1, 4)), int(rng.integers(1, 3))
    P = P1 + P2
    shapes = [(int(rng.integers(1, 5)), int(rng.integers(1, 4))) for _ in range(nres)]
    if rng.random() < 0.3:
        shapes[0] = (2, int(rng.integers(1, 3)), shapes[0][1])
    Xs = [torch.tensor(rng.standard_normal((int(np.prod(s)), P))).to(dtype) for s in shapes]
    th1 = torch.tensor(rng.standard_normal(P1)).to(dtype)
    th2 = torch.tensor(rng.standard_normal((P2, 1))).to(dtype)
    scale = [min(math.sqrt(sp.s0) * 2, 2.0) if sp is not None else 1.0 for sp in
             ([specs2[0]] * nres if config.startswith("single") else specs2)]
    targets = [torch.tensor(rng.standard_normal(s) * sc).to(dtype) for s, sc in zip(shapes, scale)]
    # keep |R_i|^2 inside the range the kernel is exercised on (exp-type user kernels overflow otherwise)
    th = torch.cat([th1.reshape(-1), th2.reshape(-1)])
    acting = [specs2[0]] * nres if config.startswith("single") else list(specs2)   # kernel that meets residual i
    for i, sp in enumerate(acting):
        if sp is None:
            continue
        cmax_i = float(((Xs[i] @ th).view(shapes[i]) - targets[i]).double().square().sum(-1).max())
        f = min(1.0, math.sqrt(0.5 * sp.cmax / max(cmax_i, 1e-300)))
        if f < 1.0:
            Xs[i], targets[i] = (Xs[i].double() * f).to(dtype), (targets[i].double() * f).to(dtype)
    model = LinModel(Xs, shapes, th1, th2)
    inp = torch.zeros((), dtype=dtype)
    kmods = [sp.make() if sp is not None else None for sp in specs2]
    if config == "single-auto":
        kw = {"kernel": kmods[0]}
        eff = [specs2[0]] * nres
    elif config == "single-triggs":
        kw = {"kernel": kmods[0], "corrector": ppc.Triggs(kmods[0])}
        eff = [specs2[0]] * nres
    elif config == "list-auto":
        kw = {"kernel": kmods}
        eff = list(specs2)
    elif config == "list-list":
        flip = int(rng.integers(2))
        cors = [None if k is None else
                (ppc.Triggs if ((i + flip) % 2 == 0 and sp.curv != "zero") else ppc.FastTriggs)(k)
                for i, (k, sp) in enumerate(zip(kmods, specs2))]
        kw = {"kernel": kmods, "corrector": cors}
        eff = list(specs2)
    else:
        raise ValueError(config)
    if config == "single-triggs" and eff[0].curv == "zero":
        # Triggs on a kernel with rho'' == 0 is decided by the direct monitor; keep this driver on the others
        return
    spy = SpySolver()
    Opt = ppo.GN if optname == "GN" else ppo.LM
    regime = f"{optname}/{config}/{dn}/nres{nres}"
    entry = f"optim.{optname}.step"
    tg = tuple(targets) if nres > 1 else targets[0]
    okc, opt = ck.call("opt_grad", regime, entry, lambda: Opt(model, solver=spy, **kw))
    if not okc:
        return

    def residuals():
        with torch.no_grad():
            o = model(inp)
            o = o if isinstance(o, tuple) else (o,)
            return [(a - t).double().numpy().reshape(-1, s[-1]) for a, t, s in zip(o, targets, shapes)]

    Rs0 = residuals()
    names = [sp.tag if sp is not None else "None" for sp in eff]

    def wit():
        return {"optimizer": optname, "config": config, "kernels": names, "dtype": dn, "shapes": [list(s) for s in shapes],
                "R": [r.tolist() for r in Rs0]}

    # reported loss before the step (RobustModel.loss)
    okl, l0 = ck.call("opt_loss", regime, "optim.RobustModel.loss", lambda: opt.model.loss(inp, tg), witness=wit)
    if okl:
        ref0, T0 = mp_loss(eff, Rs0)
        ck.count("opt_loss", regime, key=(digest(*Rs0), tuple(names)))
        ck.ratio("opt_loss", regime, float(abs(mp.mpf(float(l0)) - ref0)), C_LOSS * u * T0 + 64 * tiny,
                 "optim.RobustModel.loss", "loss_is_not_sum_of_kernel_closed_forms",
                 lambda: dict(wit(), got=float(l0), expected=float(ref0)))
        # autograd gradient of the reported loss
        with torch.enable_grad():
            lg = opt.model.loss(inp, tg)
            ga = torch.autograd.grad(lg, [model.th1, model.th2], allow_unused=True)
        ga = torch.cat([(g if g is not None else torch.zeros_like(p)).reshape(-1) for g, p in zip(ga, (model.th1, model.th2))])
        ga = ga.double().numpy()
    # reference gradient
    gref, gscale = np.zeros(P, dtype=LD), 0.0
    for sp, Rn, X, s in zip(eff, Rs0, Xs, shapes):
        Jn = X.double().numpy().reshape(Rn.shape[0], s[-1], P)
        if sp is None:
            sp = IDENT
        rf = reference(sp, Rn, Jn, u)
        gref = gref + rf["g"]
        gscale += rf["gscale"]
    okc, loss = ck.call("opt_grad", regime, entry, lambda: opt.step(inp, tg), witness=wit)
    if not okc:
        return
    ck.mark(f"opt/{optname}/{config}")
    if not ck.check(len(spy.calls) >= 1, "opt_grad", regime, entry, "solver_not_called", wit):
        return
    A, b = spy.calls[0]
    A, b = A.double().numpy().astype(LD), b.double().numpy().astype(LD).reshape(-1)
    got = -(A.T @ b) if optname == "GN" else -b
    ck.count("opt_grad", regime, key=(digest(*Rs0), tuple(names), optname, config))
    ck.ratio("opt_grad", regime, float(np.sqrt(((got - gref) ** 2).sum())), C_G * u * gscale + 64 * tiny, entry,
             "solver_rhs_is_not_robust_gradient",
             lambda: dict(wit(), got=np.asarray(got, dtype=np.float64).tolist(),
                          expected=np.asarray(gref, dtype=np.float64).tolist()))
    if okl:
        ck.count("opt_grad", regime + "/autograd", key=(digest(*Rs0), tuple(names), optname, config, "ag"))
        ck.ratio("opt_grad", regime + "/autograd", float(np.sqrt(((2 * got - ga.astype(LD)) ** 2).sum())),
                 2 * C_G * u * gscale + 64 * tiny, entry, "descent_direction_is_not_gradient_of_reported_loss",
                 lambda: dict(wit(), two_JtR=np.asarray(2 * got, dtype=np.float64).tolist(), autograd=ga.tolist()))
    Rs1 = residuals()
    inside = all(sp is None or float((r.astype(LD) ** 2).sum(-1).max()) <= sp.cmax for sp, r in zip(eff, Rs1))
    if optname == "GN" and inside:
        ref1, T1 = mp_loss(eff, Rs1)
        ck.count("opt_loss", regime + "/returned", key=(digest(*Rs1), tuple(names)))
        ck.ratio("opt_loss", regime + "/returned", float(abs(mp.mpf(float(loss)) - ref1)), C_LOSS * u * T1 + 64 * tiny,
                 entry, "returned_loss_is_not_sum_of_kernel_closed_forms",
                 lambda: dict(wit(), got=float(loss), expected=float(ref1)))


IDENT = Spec("Identity", (), None, lambda x: x, lambda x: _f(x),
             lambda x: (np.ones(_f(x).shape), np.zeros(_f(x).shape), np.zeros(_f(x).shape), np.ones(_f(x).shape),
                        np.zeros(_f(x).shape), np.zeros(_f(x).shape)), "zero", 1.0, 1e6, builtin=False)


# ---------------------------------------------------------------------------------------
def run(ck):
    if ck.shard == 0:
        # repeat-call monitor (shared, added by the framework owner): history / reused-object / memory-layout independence
        from .. import repeat
        repeat.run(ck, PID, repeat.table(PID, ck.rng("repeat")))
    thorough = ck.tier == "thorough"
    rng = ck.rng("c09")
    bspecs = builtin_specs()
    cspecs = corrector_specs()
    if ck.shard == 0:
        selftest(ck, bspecs[:5] + bspecs[10:15] + bspecs[-11:] + user_specs(), rng)

    # ---------------- kernels
    cell = 0
    for sp in bspecs:
        for dn in ("f64", "f32"):
            cell += 1
            if not ck.mine(cell):
                continue
            x = kernel_ladder(sp, dn, rng, 800 if thorough else 16)
            monitor_kernel(ck, sp, dn, x)
            monitor_negative(ck, sp, dn)
            if sp.params[0] in (1.0, 0.5, 2.5, 0.3) or thorough:
                monitor_kernel_shapes(ck, sp, dn, rng)
            if sp.name == "Huber":
                monitor_huber_continuity(ck, sp.params[0], dn)
    for sp in bspecs:
        for dn in ("f64", "f32"):
            for c in ("x==0", "x<u*s0", "x<s0", "x~s0", "x>s0"):
                ck.require(f"in/{sp.name}/{dn}/{c}")
        ck.require(f"neg/{sp.name}")
    for dn in ("f64", "f32"):
        ck.require(f"in/Huber/{dn}/threshold-neighbours")

    # ---------------- correctors
    reps = 24 if thorough else 1
    shapes = [(), (1,), (3,), (7,), (2, 3), (1, 4), (12,)]
    cell = 0
    for sp in cspecs:
        for dn in ("f64", "f32"):
            for d in range(1, 7):
                cell += 1
                if not ck.mine(cell):
                    continue
                for rep in range(reps):
                    for mode in ("ladder", "random"):
                        shape = shapes[int(rng.integers(len(shapes)))]
                        if mode == "ladder" and shape in ((), (1,)) and rng.random() < 0.5:
                            shape = (5,)
                        P = int(rng.integers(1, 8))
                        monitor_corrector(ck, sp, dn, shape, d, P, rng, mode, nograd=bool(rng.random() < 0.8))
                if d in (1, 3) or thorough:
                    monitor_corrector(ck, sp, dn, (2,), d, 2, rng, "allzero")
                    monitor_corrector(ck, sp, dn, (), d, 3, rng, "ladder")
    for cname in ("FastTriggs", "Triggs"):
        for cls in ("neg", "zero", "pos", "mixed"):
            ck.require(f"rows/{cname}/{cls}/zero-row", f"rows/{cname}/{cls}/nonzero-row")
        ck.require(f"rows/{cname}/huber-threshold-row", f"rows/{cname}/pos-and-nonpos-rows-in-one-call")
        for d in range(1, 7):
            ck.require(f"shape/{cname}/d{d}")
        for r in (0, 1, 2):
            ck.require(f"shape/{cname}/rank{r}")
        ck.require("layout/R:permuted", "layout/R:strided", "layout/R:contiguous")
        for dn in ("f64", "f32"):
            ck.require(f"dtype/{cname}/{dn}")

    # ---------------- optimizer integration
    pool = [s for s in cspecs if s.cmax >= 8]
    nrun = 160 if thorough else 8
    cell = 0
    for optname in ("GN", "LM"):
        for config in ("single-auto", "single-triggs", "list-auto", "list-list"):
            cell += 1
            ck.require(f"opt/{optname}/{config}")
            if not ck.mine(cell):
                continue
            for rep in range(nrun):
                dn = "f64" if rep % 3 else "f32"
                nres = 1 if (config.startswith("single") and rep % 2) else 2
                pick = [pool[int(rng.integers(len(pool)))] for _ in range(nres)]
                if config.startswith("list") and rep % 4 == 3:
                    pick[int(rng.integers(nres))] = None        # None entry => no kernel for that residual
                if config.startswith("single") and pick[0] is None:
                    continue
                monitor_optimizer(ck, rng, dn, optname, config, pick, nres)

    ck.floor("kernel_value", 2000)
    ck.floor("kernel_negative", 100)
    ck.floor("corr_grad", 300)
    ck.floor("corr_hess", 150)
    ck.floor("corr_same", 100)
    ck.floor("opt_grad", 30)
    ck.floor("opt_loss", 30)
