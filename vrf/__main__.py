"""CLI:  python -m vrf check C07 [--tier quick|thorough] [--seed N] [--replay PATH]"""
import argparse
import os
import sys

from . import core


def main(argv=None):
    ap = argparse.ArgumentParser(prog="vrf")
    sub = ap.add_subparsers(dest="cmd", required=True)
    c = sub.add_parser("check")
    c.add_argument("pid")
    c.add_argument("--tier", default=os.environ.get("VERIF_TIER", "quick"))
    c.add_argument("--seed", type=int, default=int(os.environ.get("VERIF_SEED", "0")))
    c.add_argument("--replay", default=None)
    w = sub.add_parser("worker")
    w.add_argument("pid")
    w.add_argument("--tier", default="quick")
    w.add_argument("--seed", type=int, default=0)
    w.add_argument("--shard", default="0/1")
    w.add_argument("--out", required=True)
    a = ap.parse_args(argv)
    if a.cmd == "worker":
        s, n = a.shard.split("/")
        core.worker_main(a.pid, a.tier, a.seed, int(s), int(n), a.out)
        return 0
    if a.replay:
        return core.replay_main(a.pid, a.replay)
    return core.run_check(a.pid, a.tier, a.seed)


if __name__ == "__main__":
    sys.exit(main())
