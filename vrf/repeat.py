"""Repeat-call monitor shared by the checks of the stateless / function-style APIs (C09-C12, C17-C19).

What a function returns depends on the values of its arguments only: not on what was called before (module-level
caches, constants modified in place, thresholds remembered from another dtype), not on the object it is called on
having been used before (buffers / attributes overwritten by an earlier call), and not on the memory layout of the
arguments.  For a table of calls with fixed arguments of several dtypes and shapes:

  round 1: every call, in order                      -> r1
  round 2: every call again, in reverse order        -> must equal r1           (history independence)
  round 3: every call on non-contiguous copies of its tensor arguments -> must equal r1 (layout independence;
           a call that raises on a non-contiguous argument is recorded, not judged)
  objects: calls made on ONE shared instance of a class (solver, ICP, EPnP, loss module) are compared with the same
           call on a fresh instance.

Each call is reported under the entry point and property of the function concerned.
"""
import numpy as np
import torch
import pypose as pp

from . import lie
from .oracles import lie_ref as L

F64, F32 = torch.float64, torch.float32


def _flat(out):
    if isinstance(out, pp.LieTensor):
        return [out.tensor().detach()]
    if isinstance(out, torch.Tensor):
        return [out.detach()]
    if isinstance(out, dict):
        return [t for k in sorted(out) for t in _flat(out[k])]
    if isinstance(out, (list, tuple)):
        return [t for o in out for t in _flat(o)]
    if isinstance(out, (int, float)):
        return [torch.tensor(float(out))]
    return []


def _same(a, b):
    fa, fb = _flat(a), _flat(b)
    if len(fa) != len(fb):
        return float("inf")
    worst = 0.0
    for x, y in zip(fa, fb):
        if x.shape != y.shape or x.dtype != y.dtype:
            return float("inf")
        if x.numel() == 0:
            continue
        if x.is_floating_point():
            u = float(torch.finfo(x.dtype).eps)
            xn, yn = torch.nan_to_num(x.double(), nan=1.234e5), torch.nan_to_num(y.double(), nan=1.234e5)
            worst = max(worst, float(((xn - yn).abs() / (64 * u * (1 + yn.abs()))).max()))
        elif not torch.equal(x, y):
            return float("inf")
    return worst


def _noncontig(t):
    """Same values, different memory layout."""
    lt_ = t.ltype if isinstance(t, pp.LieTensor) else None
    raw = t.tensor() if lt_ is not None else t
    if not isinstance(raw, torch.Tensor) or raw.dim() == 0 or raw.numel() == 0 or raw.is_sparse or raw.layout != torch.strided:
        return t
    big = torch.zeros((raw.shape[0] * 2,) + tuple(raw.shape[1:]), dtype=raw.dtype)
    big[::2] = raw
    v = big[::2]
    if raw.dim() >= 2 and raw.shape[-1] > 1 and lt_ is None:
        wide = torch.zeros(tuple(v.shape[:-1]) + (v.shape[-1] * 2,), dtype=raw.dtype)
        wide[..., ::2] = v
        v = wide[..., ::2]
    return pp.LieTensor(v, ltype=lt_) if lt_ is not None else v


def _permuted(t):
    """Same values and shape, strides of a different dimension order (first and last dimension swapped in memory);
    vectors become a column of a two-column matrix."""
    lt_ = t.ltype if isinstance(t, pp.LieTensor) else None
    raw = t.tensor() if lt_ is not None else t
    if not isinstance(raw, torch.Tensor) or raw.dim() == 0 or raw.numel() == 0 or raw.is_sparse or raw.layout != torch.strided:
        return t
    if raw.dim() == 1:
        v = torch.stack([raw, raw.flip(0)], dim=-1)[..., 0]
    else:
        v = raw.transpose(0, -1).contiguous().transpose(0, -1)
    return pp.LieTensor(v, ltype=lt_) if lt_ is not None else v


def _map_args(args, kwargs, f):
    def m(a):
        if isinstance(a, (torch.Tensor, pp.LieTensor)):
            return f(a)
        if isinstance(a, (list, tuple)) and a and all(isinstance(x, (torch.Tensor, pp.LieTensor)) for x in a):
            return type(a)(f(x) for x in a)
        return a
    return tuple(m(a) for a in args), {k: m(v) for k, v in kwargs.items()}


def _req_grad(t):
    """Same values, taking part in autograd as a leaf that requires grad."""
    lt_ = t.ltype if isinstance(t, pp.LieTensor) else None
    raw = t.tensor() if lt_ is not None else t
    if not isinstance(raw, torch.Tensor) or not raw.is_floating_point() or raw.is_sparse or raw.layout != torch.strided:
        return t
    v = raw.detach().clone().requires_grad_(True)
    return pp.LieTensor(v, ltype=lt_) if lt_ is not None else v


def run(ck, prop, calls, monitor="repeat"):
    """calls: list of dicts {label, entry, fn, args, kwargs, fresh (optional: () -> fn on a new instance), random (bool)}."""
    r1, r1_copy = [], []
    for c in calls:
        ok, out = ck.call(monitor, c["label"], c["entry"], c["fn"], *c["args"], witness={"call": c["label"]}, **c.get("kwargs", {}))
        r1.append(out if ok else None)
        r1_copy.append([t.clone() for t in _flat(out)] if ok else None)
    # round 2, reverse order
    for c, ref in reversed(list(zip(calls, r1))):
        if ref is None or c.get("random"):
            continue
        ok, out = ck.call(monitor, c["label"], c["entry"], c["fn"], *c["args"], witness={"call": c["label"]}, **c.get("kwargs", {}))
        ck.count(monitor, c["label"] + "/again", key=(prop, c["label"], "again"))
        if ok:
            ck.ratio(monitor, c["label"] + "/again", _same(out, ref), 1.0, c["entry"], "result_changes_when_the_same_call_is_repeated_after_other_calls",
                     {"call": c["label"]})
            ck.mark(f"{monitor}/again")
    # fresh instance
    for c, ref in zip(calls, r1):
        if ref is None or c.get("random") or "fresh" not in c:
            continue
        try:
            out = c["fresh"]()(*c["args"], **c.get("kwargs", {}))
        except Exception:
            continue
        ck.count(monitor, c["label"] + "/fresh", key=(prop, c["label"], "fresh"))
        ck.ratio(monitor, c["label"] + "/fresh", _same(ref, out), 1.0, c["entry"], "result_on_a_reused_object_differs_from_a_fresh_object",
                 {"call": c["label"]})
        ck.mark(f"{monitor}/fresh-object")
    # round 3, non-contiguous arguments (strided slices of a larger buffer, then permuted strides)
    for c, ref in zip(calls, r1):
        if ref is None or c.get("random") or c.get("no_layout"):
            continue
        for lname, lay in (("layout", _noncontig), ("layout-permuted", _permuted)):
            a2, k2 = _map_args(c["args"], c.get("kwargs", {}), lay)
            before = [x.clone() for x in _flat(list(a2) + list(k2.values()))]
            try:
                out = c["fn"](*a2, **k2)
            except Exception as e:  # noqa
                # the same call with contiguous arguments succeeded in round 1
                ck.note_add("repeat_noncontiguous_argument_raised/" + c["label"].split("[")[0], 1)
                ck.count(monitor, c["label"] + "/" + lname, key=(prop, c["label"], lname))
                ck.check(False, monitor, c["label"] + "/" + lname, c["entry"], "call_raises_only_for_a_different_memory_layout_of_the_arguments",
                         {"call": c["label"], "layout": lname, "error": repr(e)[:200]})
                continue
            ck.count(monitor, c["label"] + "/" + lname, key=(prop, c["label"], lname))
            ck.ratio(monitor, c["label"] + "/" + lname, _same(out, ref), 1.0, c["entry"], "result_depends_on_memory_layout_of_the_arguments",
                     {"call": c["label"], "layout": lname})
            after = _flat(list(a2) + list(k2.values()))
            ck.check(all(torch.equal(torch.nan_to_num(x), torch.nan_to_num(y)) for x, y in zip(before, after)), monitor, c["label"] + "/" + lname, c["entry"],
                     "argument_modified", {"call": c["label"]})
            ck.mark(f"{monitor}/layout")
    # round 4: the floating-point tensor arguments require grad (grad mode on) / the call runs under no_grad: same values
    for c, ref in zip(calls, r1):
        if ref is None or c.get("random") or c.get("no_autograd"):
            continue
        for mode in ("requires_grad", "no_grad"):
            a2, k2 = _map_args(c["args"], c.get("kwargs", {}), _req_grad)
            try:
                if mode == "no_grad":
                    with torch.no_grad():
                        out = c["fn"](*a2, **k2)
                else:
                    out = c["fn"](*a2, **k2)
            except Exception as e:  # noqa
                ck.note_add("repeat_requires_grad_argument_raised/" + c["label"].split("[")[0], 1)
                continue
            ck.count(monitor, c["label"] + "/" + mode, key=(prop, c["label"], mode))
            ck.ratio(monitor, c["label"] + "/" + mode, _same(out, ref), 1.0, c["entry"],
                     "result_depends_on_how_the_arguments_take_part_in_autograd", {"call": c["label"], "mode": mode})
            ck.mark(f"{monitor}/autograd")
    # the results handed out in round 1 are the caller's: nothing called since may have changed them
    for c, ref, kept in zip(calls, r1, r1_copy):
        if ref is None:
            continue
        now = _flat(ref)
        same = len(now) == len(kept) and all(a.shape == b.shape and torch.equal(torch.nan_to_num(a), torch.nan_to_num(b)) for a, b in zip(now, kept))
        ck.count(monitor, c["label"] + "/kept", key=(prop, c["label"], "kept"))
        ck.check(same, monitor, c["label"] + "/kept", c["entry"], "earlier_result_changed_by_a_later_call", {"call": c["label"]})
    ck.require(f"{monitor}/again", f"{monitor}/layout", f"{monitor}/autograd")
    ck.floor(monitor, 6)


# ------------------------------------------------------------------------------------ call tables
def _g(rng, *shape, dtype=F64, scale=1.0):
    return torch.as_tensor(rng.standard_normal(shape) * scale).to(dtype)


def _G(kind, rng, shape, dtype):
    n = int(np.prod(shape)) if shape else 1
    return pp.LieTensor(lie.random_group(kind, rng, n, dtype, max_angle=2.0, sigma_max=0.3).tensor().reshape(tuple(shape) + (L.GRP[kind],)),
                        ltype=lie.LT[kind])


def _spd(rng, n, dtype):
    M = rng.standard_normal((n, n))
    return torch.as_tensor(M @ M.T + n * np.eye(n)).to(dtype)


def table(prop, rng):
    C = []

    def add(label, entry, fn, *args, **extra):
        kw = extra.pop("kwargs", {})
        C.append(dict(label=label, entry=entry, fn=fn, args=args, kwargs=kw, **extra))
    if prop == "C09":
        K = pp.optim.kernel
        for name in ("Huber", "PseudoHuber", "Cauchy", "SoftLOne", "Arctan", "Tolerant", "Scale"):
            obj = getattr(K, name)()
            for dt in (F64, F32, F64):
                x = _g(rng, 6, dtype=dt).abs() * float(rng.choice([0.1, 1.0, 30.0]))
                add(f"{name}[{str(dt)[6:]}/{len(C)}]", f"kernel.{name}", obj, x, fresh=lambda name=name: getattr(K, name)())
        for cn, kern in (("FastTriggs", K.Huber(0.5)), ("Triggs", K.Huber(0.5)), ("Triggs", _Convex()), ("FastTriggs", K.Cauchy(0.7))):
            obj = getattr(pp.optim.corrector, cn)(kern)
            for dt, (n, d, p_) in ((F64, (4, 3, 5)), (F32, (2, 2, 3)), (F64, (5, 1, 2))):
                add(f"{cn}({type(kern).__name__})[{str(dt)[6:]}/{n}x{d}]", f"corrector.{cn}", obj, no_layout=True,
                    kwargs={"R": _g(rng, n, d, dtype=dt), "J": _g(rng, n * d, p_, dtype=dt)},
                    fresh=lambda cn=cn, kern=kern: getattr(pp.optim.corrector, cn)(kern))
    if prop == "C10":
        S = pp.optim.solver
        objs = {"PINV": S.PINV(), "LSTSQ": S.LSTSQ(), "Cholesky": S.Cholesky(), "CG": S.CG()}
        for n, dt in ((2, F64), (9, F64), (4, F32), (30, F64), (3, F64)):
            A, b = _spd(rng, n, dt), _g(rng, n, 1, dtype=dt)
            for name, o in objs.items():
                add(f"{name}[n={n}/{str(dt)[6:]}]", f"solver.{name}", o, A, b, fresh=lambda name=name: getattr(S, name)())
            Ar = _g(rng, n + 3, n, dtype=dt)
            add(f"PINV[tall {n + 3}x{n}/{str(dt)[6:]}]", "solver.PINV", objs["PINV"], Ar, _g(rng, n + 3, 1, dtype=dt), fresh=lambda: S.PINV())
            add(f"LSTSQ[tall {n + 3}x{n}/{str(dt)[6:]}]", "solver.LSTSQ", objs["LSTSQ"], Ar, _g(rng, n + 3, 1, dtype=dt), fresh=lambda: S.LSTSQ())
    if prop == "C11":
        for k in lie.GRPS:
            for dt, shp in ((F64, (3,)), (F32, (2, 2)), (F64, ())):
                M = _G(k, rng, shp, dt).matrix()
                add(f"mat2{k}[{str(dt)[6:]}/{shp}]", f"convert.mat2{k}", getattr(pp, f"mat2{k}"), M)
                add(f"from_matrix[{k}/{str(dt)[6:]}/{shp}]", "convert.from_matrix", pp.from_matrix, M, lie.LT[k])
        for dt in (F64, F32, F64):
            add(f"euler2SO3[{str(dt)[6:]}/{len(C)}]", "convert.euler2SO3", pp.euler2SO3, _g(rng, 4, 3, dtype=dt))
            add(f"euler[{str(dt)[6:]}/{len(C)}]", "LieTensor.euler", lambda X: X.euler(), _G("SO3", rng, (4,), dt))
    if prop == "C12":
        for k in lie.GRPS:
            for dt, Ln in ((F64, 7), (F32, 5), (F64, 12)):
                X = _G(k, rng, (Ln,), dt)
                add(f"cumprod[{k}/{str(dt)[6:]}/L{Ln}]", "basics.cumprod", pp.cumprod, X, kwargs={"dim": 0})
                add(f"cummul[{k}/{str(dt)[6:]}/L{Ln}/right]", "basics.cummul", pp.cummul, X, kwargs={"dim": 0, "left": False})
                add(f"cumops[{k}/{str(dt)[6:]}/L{Ln}]", "basics.cumops", pp.cumops, X, 0, lambda a, b: a @ b)
        for dt in (F64, F32):
            T = _g(rng, 6, 2, 2, dtype=dt)
            add(f"cumops[matrices/{str(dt)[6:]}]", "basics.cumops", pp.cumops, T, 0, lambda a, b: a @ b)
    if prop == "C17":
        icp = pp.module.ICP(stepper=pp.utils.ReduceToBason(steps=6))
        epnp = pp.module.EPnP()
        for dt, N in ((F64, 12), (F32, 8), (F64, 40)):
            src = _g(rng, N, 3, dtype=dt)
            T = _G("SE3", rng, (), dt)
            tgt = T.Act(src) + _g(rng, N, 3, dtype=dt, scale=0.01)
            add(f"svdtf[{str(dt)[6:]}/N{N}]", "geometry.svdtf", pp.svdtf, src, tgt)
            add(f"svdstf[{str(dt)[6:]}/N{N}]", "geometry.svdstf", pp.svdstf, src, tgt * 1.3)
            add(f"svdstf[no scale/{str(dt)[6:]}/N{N}]", "geometry.svdstf", pp.svdstf, src, tgt, kwargs={"with_scale": False})
            Ts = pp.LieTensor(pp.se3(_g(rng, 6, dtype=dt, scale=0.03)).Exp().tensor(), ltype=pp.SE3_type)
            add(f"ICP[{str(dt)[6:]}/N{N}]", "ICP", icp, src[None], Ts.Act(src)[None], fresh=lambda: pp.module.ICP(stepper=pp.utils.ReduceToBason(steps=6)))
        Kc = torch.tensor([[300.0, 0, 160], [0, 310, 120], [0, 0, 1]], dtype=F64)
        for N in (8, 20, 6):
            P = _g(rng, 1, N, 3) + torch.tensor([0.0, 0, 6.0], dtype=F64)
            px = pp.point2pixel(P, Kc[None])
            add(f"EPnP[N{N}]", "EPnP", epnp, P, px, Kc[None], fresh=lambda: pp.module.EPnP(), no_layout=True)
    if prop == "C18":
        Kc = torch.tensor([[300.0, 0, 160], [0, 310, 120], [0, 0, 1]])
        for dt, N in ((F64, 30), (F32, 40), (F64, 12)):
            P = _g(rng, N, 3, dtype=dt)
            add(f"knn[{str(dt)[6:]}/N{N}]", "geometry.knn", pp.knn, P[: N // 2], P, kwargs={"k": 3, "ord": 2})
            add(f"nbr_filter[{str(dt)[6:]}/N{N}]", "geometry.nbr_filter", pp.nbr_filter, P, 2, 1.3)
            add(f"voxel_filter[{str(dt)[6:]}/N{N}]", "geometry.voxel_filter", pp.voxel_filter, P, [0.7, 0.7, 0.7])
            add(f"knn_filter[{str(dt)[6:]}/N{N}]", "geometry.knn_filter", pp.knn_filter, P, 2)
            add(f"knn_filter[radius/{str(dt)[6:]}/N{N}]", "geometry.knn_filter", pp.knn_filter, P, 2, kwargs={"radius": 2.0})
            Q = P + torch.tensor([0.0, 0, 5.0], dtype=dt)
            px = pp.point2pixel(Q, Kc.to(dt))
            add(f"point2pixel[{str(dt)[6:]}/N{N}]", "geometry.point2pixel", pp.point2pixel, Q, Kc.to(dt))
            add(f"pixel2point[{str(dt)[6:]}/N{N}]", "geometry.pixel2point", pp.pixel2point, px, Q[..., 2].clone(), Kc.to(dt))
            add(f"reprojerr[{str(dt)[6:]}/N{N}]", "geometry.reprojerr", pp.reprojerr, Q, px + 0.5, Kc.to(dt))
            add(f"cart2homo[{str(dt)[6:]}/N{N}]", "geometry.cart2homo", pp.cart2homo, P)
            add(f"homo2cart[{str(dt)[6:]}/N{N}]", "geometry.homo2cart", pp.homo2cart, _g(rng, N, 4, dtype=dt) + 3)
    if prop == "C19":
        gl = pp.module.GeodesicLoss(reduction="mean")
        for dt, N in ((F64, 6), (F32, 5), (F64, 9)):
            add(f"chspline[{str(dt)[6:]}/N{N}]", "spline.chspline", pp.chspline, _g(rng, N, 3, dtype=dt), kwargs={"interval": 0.3})
            poses = _G("SE3", rng, (N,), dt)
            add(f"bspline[{str(dt)[6:]}/N{N}]", "spline.bspline", pp.bspline, poses, kwargs={"interval": 0.3})
            add(f"bspline[extrapolate/{str(dt)[6:]}/N{N}]", "spline.bspline", pp.bspline, poses, kwargs={"interval": 0.25, "extrapolate": True})
            A_, B_ = _G("SO3", rng, (N,), dt), _G("SO3", rng, (N,), dt)
            add(f"geodesic_loss[{str(dt)[6:]}/N{N}]", "loss.geodesic_loss", pp.geodesic_loss, A_, B_)
            add(f"GeodesicLoss[{str(dt)[6:]}/N{N}]", "loss.GeodesicLoss", gl, A_, B_, fresh=lambda: pp.module.GeodesicLoss(reduction="mean"))
            st = torch.arange(N + 4, dtype=F64) * 0.1 + float(rng.choice([0.0, 1.7e9]))
            tr1, tr2 = _G("SE3", rng, (N + 4,), dt), _G("SE3", rng, (N + 4,), dt)
            add(f"ape[{str(dt)[6:]}/N{N + 4}]", "metric.ape", pp.metric.ape, st, tr1, st + 0.001, tr2, no_layout=True)
            add(f"ape[align,scale/{str(dt)[6:]}/N{N + 4}]", "metric.ape", pp.metric.ape, st, tr1, st + 0.001, tr2, kwargs={"align": True, "scale": True}, no_layout=True)
            add(f"rpe[{str(dt)[6:]}/N{N + 4}]", "metric.rpe", pp.metric.rpe, st, tr1, st + 0.001, tr2, no_layout=True)
    return C


class _Convex(torch.nn.Module):
    def forward(self, x):
        return x + 0.5 * x * x
