"""C12 — cumulative products equal the sequential left/right fold for every length.

Three kinds of monitors, all attached to the real pypose functions:

1. *Token monitors* (exact, no tolerance).  The items are interval tokens of a free monoid:
   item i of row r is the one-letter word (r; i), encoded in one int64.  The operation is the
   concatenation of words restricted to contiguous monotone runs: `a o b` is defined only when
   both words belong to the same row, b starts exactly one step after (or before) the end of a
   and the direction of the run does not change; it yields (r; a.start, b.end).  Everything
   else yields the absorbing poison value.  Hence position i may hold only the word
   "1 2 ... i" = (r;1,i) (right fold) or "i ... 2 1" = (r;i,1) (left fold): any wrong partner,
   wrong order, duplicate, omission or mixing of rows poisons the output.  The index schedule
   of the scan depends only on L, so sweeping L = 1..4096 with these tokens is exhaustive for
   it.  cumops/cumops_ get the operation as `ops`; cummul(_)/cumprod(_) are driven through a
   torch.Tensor subclass whose `*` and `@` are the token operation, which exercises their own
   left/right lambdas exactly.
2. *Group monitors*: cumprod/cummul/cumops (+ in-place variants, + the LieTensor methods) on
   SO3, SE3, RxSO3, Sim3 against the sequential fold of the longdouble reference matrices.
3. *Matrix monitor*: cumprod(_) with `@` on stacks of plain square matrices (the use the IMU
   covariance propagation makes of it) against the longdouble fold.

Purity: every out-of-place call is followed by a bitwise comparison of the argument with a
copy taken before the call; every in-place call must leave the result in the argument and
return the argument.
"""
import itertools

import numpy as np
import torch
import pypose as pp

from .. import lie
from ..oracles import lie_ref as LR

PID = "C12"
LEVEL = "exploration"
SHARDS = {"quick": 4, "thorough": 16}
TIMEOUT = {"quick": 900, "thorough": 5400}
LMAX = 4096
RULE = ("Token sweeps: for EVERY L in 1..4096 (both tiers, split over the shards) pp.cumops and pp.cumops_ are "
        "run in both orders on int64 interval tokens of a free non-commutative monoid (shape (L,), (2,L) or (L,3) "
        "by L mod 3, rows carry distinct ids) -- this sweep is the one `exhaustive: true` refers to (index "
        "schedule depends only on L). cummul/cummul_/cumprod/cumprod_ (left, right and default order) are swept "
        "through a Tensor subclass whose * and @ are the token operation: thorough = every L in 1..4096, quick = "
        "every L <= 160, every L within 2 of a power of two, every 13th L and 64 random L per shard (see notes "
        "`sweep_*`). Dims: every dim of rank 1-4 tensors for L in {1,2,3,5,7,8,9,31,33,100} (thorough adds 13 more) "
        "in contiguous, permuted and strided-view layouts, all ten function/order variants. Groups: all four group "
        "types x float32/float64 x every L in 1..64 (quick) / 1..300 (thorough), lshape (L,), (2,L), (L,2), (2,L,2) "
        "cycling, well-conditioned random elements (angle <= pi, |log s| <= 0.02, |t| ~ 1), 24 call variants each "
        "(pp.* and LieTensor methods, out-of-place/in-place, left/right). Matrices: n x n (n=2..4) near-orthogonal "
        "stacks, cumprod/cumprod_ left/right. One case = (function, order, shape, dim, layout[, dtype, L]); "
        "trivial = L == 1.")
ASSUME = ["token operation (free-monoid fragment with absorbing poison) is self-tested every run: associativity on "
          "valid triples, poison on gaps, duplicates, direction changes and row mixing",
          "group/matrix reference = sequential fold of longdouble 4x4 matrices (lie_ref.group_matrix); tolerance "
          "C*u*i*S_i on the rotation-scale block and C*u*i*T_i on the translation (S_i product of scales, T_i sum "
          "of the magnitudes of the translation contributions), C = 8; matrices: 8*u*i*prod ||M_j||_2",
          "a torch.Tensor subclass overriding * and @ is an admissible operand of cummul/cumprod (duck typing: the "
          "functions only use clone/index_select/index_copy_ and the operator)",
          "plain tensors: every dim also as its negative equivalent; LieTensors: non-negative dims only (a negative dim of a LieTensor counts the component axis); CPU only"]

SH = 21
MASK = (1 << SH) - 1
POISON = -1
SENTINEL = -7
C_GROUP = 8.0
C_MAT = 8.0


# ---------------------------------------------------------------------------- token monoid
def tok_op(a, b):
    """Concatenation a.b of two contiguous monotone runs of the same row, else POISON."""
    a = a.as_subclass(torch.Tensor)
    b = b.as_subclass(torch.Tensor)
    ar, a0, a1 = a >> (2 * SH), (a >> SH) & MASK, a & MASK
    br, b0, b1 = b >> (2 * SH), (b >> SH) & MASK, b & MASK
    d = b0 - a1
    da, db = torch.sign(a1 - a0), torch.sign(b1 - b0)
    ok = ((a >= 0) & (b >= 0) & (ar == br) & (d.abs() == 1)
          & ((da == 0) | (da == d)) & ((db == 0) | (db == d)))
    out = (ar << (2 * SH)) | (a0 << SH) | b1
    return torch.where(ok, out, torch.full_like(out, POISON))


def tok_op_rev(a, b):
    return tok_op(b, a)


class Tok(torch.Tensor):
    """int64 tensor of tokens whose `*` and `@` are the token operation."""

    def __mul__(self, other):
        return tok_op(self, other).as_subclass(Tok)

    def __matmul__(self, other):
        return tok_op(self, other).as_subclass(Tok)


def enc(row, s, e):
    return (row << (2 * SH)) | (s << SH) | e


def decode(v):
    v = int(v)
    if v < 0:
        return "poison" if v == POISON else f"invalid({v})"
    return {"row": v >> (2 * SH), "start": (v >> SH) & MASK, "end": v & MASK}


def tokens(shape, dim):
    """Contiguous token tensor of `shape`; items along `dim` are (row; i, i), i = 1..L."""
    L = shape[dim]
    n = int(np.prod(shape))
    oshape = [s for i, s in enumerate(shape) if i != dim]
    rid = torch.arange(n // L, dtype=torch.int64).reshape(oshape).unsqueeze(dim)
    vshape = [1] * len(shape)
    vshape[dim] = L
    pos = torch.arange(1, L + 1, dtype=torch.int64).reshape(vshape)
    one = torch.ones_like(pos)
    x = enc(rid, pos, pos).contiguous()
    return x, enc(rid, one, pos).contiguous(), enc(rid, pos, one).contiguous()


def layout_of(x, dim, layout):
    """-> (view with the values of x in the requested memory layout, base tensor or None)."""
    if layout == "contig":
        return x.clone(), None
    if layout == "permuted":
        perm = list(range(x.dim()))[::-1]
        base = x.permute(perm).contiguous()
        return base.permute(perm), base
    if layout == "strided":
        big = list(x.shape)
        big[dim] *= 2
        base = torch.full(big, SENTINEL, dtype=x.dtype)
        idx = [slice(None)] * x.dim()
        idx[dim] = slice(0, None, 2)
        v = base[tuple(idx)]
        v.copy_(x)
        return v, base
    raise KeyError(layout)


def token_selftest(ck):
    t = lambda r, s, e: torch.tensor([enc(r, s, e)], dtype=torch.int64)
    P = torch.tensor([POISON])
    cases = [
        (t(0, 1, 2), t(0, 3, 3), t(0, 1, 3)), (t(0, 2, 2), t(0, 1, 1), t(0, 2, 1)),
        (t(0, 5, 3), t(0, 2, 1), t(0, 5, 1)), (t(3, 1, 1), t(3, 2, 4), t(3, 1, 4)),
        (t(0, 1, 2), t(0, 4, 4), P), (t(0, 1, 1), t(0, 1, 1), P), (t(0, 1, 2), t(0, 2, 3), P),
        (t(0, 2, 1), t(0, 2, 2), P), (t(0, 1, 2), t(0, 1, 1), P), (t(0, 1, 2), t(1, 3, 3), P),
        (P, t(0, 1, 1), P), (t(0, 1, 1), P, P), (t(0, 1, 2), t(0, 3, 2), P),
        (torch.tensor([SENTINEL]), t(0, 1, 1), P), (t(0, 4, 4), torch.tensor([SENTINEL]), P),
    ]
    ok = all(torch.equal(tok_op(a, b), c) for a, b, c in cases)
    # associativity on all valid ascending/descending triples in 1..6 and a sequential fold
    for s in range(1, 6):
        for m in range(s, 6):
            for m2 in range(m + 1, 7):
                for e in range(m2 + 1, 8):
                    a, b, c = t(2, s, m), t(2, m + 1, m2), t(2, m2 + 1, e)
                    ok &= torch.equal(tok_op(tok_op(a, b), c), tok_op(a, tok_op(b, c)))
                    ok &= torch.equal(tok_op(tok_op(a, b), c), t(2, s, e))
                    a, b, c = t(2, e, m2 + 1), t(2, m2, m + 1), t(2, m, s)
                    ok &= torch.equal(tok_op(tok_op(a, b), c), tok_op(a, tok_op(b, c)))
                    ok &= torch.equal(tok_op(tok_op(a, b), c), t(2, e, s))
    x, right, left = tokens((3, 9), 1)
    accr, accl = x[:, :1], x[:, :1]
    for i in range(1, 9):
        accr = tok_op(accr, x[:, i:i + 1])
        accl = tok_op(x[:, i:i + 1], accl)
    ok &= torch.equal(accr, right[:, -1:]) and torch.equal(accl, left[:, -1:])
    y = (Tok.__mul__(x.as_subclass(Tok)[:, :1], x.as_subclass(Tok)[:, 1:2]))
    ok &= isinstance(y, Tok) and torch.equal(y.as_subclass(torch.Tensor), right[:, 1:2])
    if not ok:
        ck.inconclusive_because("token-monoid oracle failed its self-test")
    return ok


# name -> (entry, inplace, via subclass, call(x, dim, order))
def _ops_of(order):
    return tok_op if order == "right" else tok_op_rev


def _kw(order):
    return {} if order == "default" else {"left": order == "left"}


TOKEN_FUNCS = {
    "cumops": ("cumops", False, False, lambda x, d, o: pp.cumops(x, d, _ops_of(o))),
    "cumops_": ("cumops_", True, False, lambda x, d, o: pp.cumops_(x, d, _ops_of(o))),
    "cummul": ("cummul", False, True, lambda x, d, o: pp.cummul(x, d, **_kw(o))),
    "cummul_": ("cummul_", True, True, lambda x, d, o: pp.cummul_(x, d, **_kw(o))),
    "cumprod": ("cumprod", False, True, lambda x, d, o: pp.cumprod(x, d, **_kw(o))),
    "cumprod_": ("cumprod_", True, True, lambda x, d, o: pp.cumprod_(x, d, **_kw(o))),
}
ORDERS_OPS = ("right", "left")
ORDERS_LR = ("right", "left", "default")       # documented default: left=True


def l_class(L):
    if L == 1:
        return "L=1"
    if L & (L - 1) == 0:
        return "pow2"
    if (L - 1) & (L - 2) == 0:
        return "pow2+1"
    if (L + 1) & L == 0:
        return "pow2-1"
    return "other"


def token_case(ck, monitor, fname, order, shape, dim, layout="contig", negative=False):
    """`negative`: the function is called with the equivalent negative dimension dim - rank."""
    entry, inplace, sub, fn = TOKEN_FUNCS[fname]
    call_dim = dim - len(shape) if negative else dim
    L = shape[dim]
    x0, right, left = tokens(shape, dim)
    expect = right if order == "right" else left
    x, base = layout_of(x0, dim, layout)
    arg = x.as_subclass(Tok) if sub else x
    regime = f"{fname}/{order}/{l_class(L)}" + ("/negdim" if negative else "")
    wit0 = {"fn": fname, "order": order, "shape": list(shape), "dim": call_dim, "layout": layout, "L": L}
    okc, res = ck.call(monitor, regime, entry, fn, arg, call_dim, order, witness=wit0)
    ck.count(monitor, regime, key=(fname, order, tuple(shape), call_dim, layout), nontrivial=L > 1)
    ck.mark(f"tok/{fname}/{order}")
    ck.mark(f"tok/L:{l_class(L)}")
    if not okc:
        return False
    plain_res = res.as_subclass(torch.Tensor) if isinstance(res, torch.Tensor) else None
    if plain_res is None or tuple(plain_res.shape) != tuple(shape) or plain_res.dtype != torch.int64:
        ck.check(False, monitor, regime, entry, "type_or_shape", dict(wit0, got=str(type(res))))
        return False
    good = True

    def wit(got):
        bad = (got != expect).nonzero()
        j = bad[0].tolist()
        return dict(wit0, n_wrong=int(bad.shape[0]), first_wrong_index=j, position_along_dim=j[dim] + 1,
                    got=decode(got[tuple(j)]), expected=decode(expect[tuple(j)]))

    if not torch.equal(plain_res, expect):
        good = ck.check(False, monitor, regime, entry, "wrong_fold_at_position", lambda: wit(plain_res))
    xin = x.as_subclass(torch.Tensor)
    if inplace:
        if not torch.equal(xin, expect):
            good = ck.check(False, monitor, regime, entry, "inplace_input_not_overwritten",
                            lambda: dict(wit(xin), input_unchanged=bool(torch.equal(xin, x0))))
        if res is not arg:
            good = ck.check(False, monitor, regime, entry, "inplace_return_not_input", wit0)
    else:
        if not torch.equal(xin, x0):
            good = ck.check(False, monitor, regime, entry, "input_modified_by_out_of_place", wit0)
        # an out-of-place result is a new tensor: it shares no memory with the input (every length, also L = 1 where the fold is the input's value)
        if plain_res.numel() and plain_res.untyped_storage().data_ptr() == xin.untyped_storage().data_ptr():
            good = ck.check(False, monitor, regime, entry, "out_of_place_result_shares_memory_with_the_input", wit0)
    if base is not None and layout == "strided":
        idx = [slice(None)] * len(shape)
        idx[dim] = slice(1, None, 2)
        if not bool((base[tuple(idx)] == SENTINEL).all()):
            good = ck.check(False, monitor, regime, entry, "wrote_outside_the_view", wit0)
    if isinstance(arg, Tok) and not isinstance(res, Tok):
        good = ck.check(False, monitor, regime, entry, "type_or_shape", dict(wit0, got=str(type(res))))
    return good


def sweep_shape(L):
    return [((L,), 0), ((2, L), 1), ((L, 3), 0)][L % 3]


def run_token_sweeps(ck):
    thorough = ck.tier == "thorough"
    rng = ck.rng("sweep")
    mine = [L for L in range(1, LMAX + 1) if ck.mine(L)]
    # --- the exhaustive sweep: cumops and cumops_, both orders, every L
    done = 0
    for L in mine:
        shape, dim = sweep_shape(L)
        for fname in ("cumops", "cumops_"):
            for order in ORDERS_OPS:
                token_case(ck, "tok_sweep", fname, order, shape, dim)
        done += 1
    ck.note_add("sweep_cumops_L_values", done)
    ck.exhaustive = done == len(mine)
    # --- cummul(_)/cumprod(_) through the subclass
    if thorough:
        sel = mine
    else:
        near = set()
        for k in range(0, 13):
            for d in (-2, -1, 0, 1, 2):
                if 1 <= 2 ** k + d <= LMAX:
                    near.add(2 ** k + d)
        sel = set(L for L in mine if L <= 160 or L in near or L % 13 == 0)
        sel |= set(int(v) for v in rng.choice(mine, size=min(64, len(mine)), replace=False))
        sel = sorted(sel)
    for L in sel:
        shape, dim = sweep_shape(L)
        for fname in ("cummul", "cummul_", "cumprod", "cumprod_"):
            for order in ORDERS_LR:
                token_case(ck, "tok_sweep_mulprod", fname, order, shape, dim)
    ck.note_add("sweep_mulprod_L_values", len(sel))
    ck.note("sweep_mulprod_complete", "every L in 1..4096" if thorough else "sampled L (see RULE)")


DIM_L_QUICK = (1, 2, 3, 5, 7, 8, 9, 31, 33, 100)
DIM_L_MORE = (4, 6, 15, 16, 17, 63, 64, 65, 127, 129, 255, 257, 1000)


def run_token_dims(ck):
    thorough = ck.tier == "thorough"
    rng = ck.rng("dims")
    Ls = DIM_L_QUICK + (DIM_L_MORE if thorough else ())
    cases = []
    for rank in (1, 2, 3, 4):
        for dim in range(rank):
            for L in Ls:
                for layout in ("contig", "permuted", "strided"):
                    if layout == "permuted" and rank == 1:
                        continue
                    cases.append((rank, dim, L, layout))
    for i, (rank, dim, L, layout) in enumerate(cases):
        if not ck.mine(i):
            continue
        reps = 2 if thorough else 1
        for _ in range(reps):
            shape = [int(v) for v in rng.integers(1, 4, rank)]
            if L >= 100 and rank == 4:
                shape = [int(v) for v in rng.integers(1, 3, rank)]
            shape[dim] = L
            shape = tuple(shape)
            for fname in TOKEN_FUNCS:
                for order in ORDERS_OPS:
                    token_case(ck, "tok_dims", fname, order, shape, dim, layout)
                    token_case(ck, "tok_dims", fname, order, shape, dim, layout, negative=True)
            ck.mark(f"dims/rank{rank}/dim{dim}")
            ck.mark(f"dims/layout:{layout}")


# ---------------------------------------------------------------------------- group-valued
def fold_ref(M, scale, tnorm):
    """Sequential folds of (rows, L, 4, 4) longdouble matrices.
    -> dict order -> (P, S, T): products, product of scales, translation magnitude bound."""
    rows, L = M.shape[:2]
    out = {}
    for order in ("right", "left"):
        P = np.empty_like(M)
        S = np.empty((rows, L), dtype=LR.LD)
        T = np.empty((rows, L), dtype=LR.LD)
        P[:, 0], S[:, 0], T[:, 0] = M[:, 0], scale[:, 0], tnorm[:, 0]
        for i in range(1, L):
            if order == "right":                     # x_1 ... x_i
                P[:, i] = np.matmul(P[:, i - 1], M[:, i])
                T[:, i] = T[:, i - 1] + S[:, i - 1] * tnorm[:, i]
            else:                                    # x_i ... x_1
                P[:, i] = np.matmul(M[:, i], P[:, i - 1])
                T[:, i] = scale[:, i] * T[:, i - 1] + tnorm[:, i]
            S[:, i] = S[:, i - 1] * scale[:, i]
        out[order] = (P, S, T)
    return out


def lie_variants():
    """(name, entry, inplace, call(X, dim, order)) for LieTensor inputs."""
    mm = lambda a, b: a @ b
    mm_rev = lambda a, b: b @ a
    mu = lambda a, b: a * b
    mu_rev = lambda a, b: b * a
    L = lambda o: o == "left"
    return [
        ("pp.cumprod", "cumprod", False, lambda X, d, o: pp.cumprod(X, d, left=L(o))),
        ("pp.cummul", "cummul", False, lambda X, d, o: pp.cummul(X, d, left=L(o))),
        ("pp.cumprod_", "cumprod_", True, lambda X, d, o: pp.cumprod_(X, d, left=L(o))),
        ("pp.cummul_", "cummul_", True, lambda X, d, o: pp.cummul_(X, d, left=L(o))),
        ("X.cumprod", "LieTensor.cumprod", False, lambda X, d, o: X.cumprod(d, left=L(o))),
        ("X.cummul", "LieTensor.cummul", False, lambda X, d, o: X.cummul(d, left=L(o))),
        ("X.cumprod_", "LieTensor.cumprod_", True, lambda X, d, o: X.cumprod_(d, left=L(o))),
        ("X.cummul_", "LieTensor.cummul_", True, lambda X, d, o: X.cummul_(d, left=L(o))),
        ("pp.cumops@", "cumops", False, lambda X, d, o: pp.cumops(X, d, mm_rev if L(o) else mm)),
        ("pp.cumops_*", "cumops_", True, lambda X, d, o: pp.cumops_(X, d, mu_rev if L(o) else mu)),
        ("X.cumops*", "LieTensor.cumops", False, lambda X, d, o: X.cumops(d, mu_rev if L(o) else mu)),
        ("X.cumops_@", "LieTensor.cumops_", True, lambda X, d, o: X.cumops_(d, mm_rev if L(o) else mm)),
    ]


LSHAPES = [lambda L: ((L,), 0), lambda L: ((2, L), 1), lambda L: ((L, 2), 0), lambda L: ((2, L, 2), 1)]


def group_case(ck, G, dn, L, shape_kind, rng, variants):
    dtype = lie.DT[dn]
    u = lie.u_of(dtype)
    d = LR.GRP[G]
    lshape, dim = LSHAPES[shape_kind](L)
    n = int(np.prod(lshape))
    X0 = lie.random_group(G, rng, n, dtype, max_angle=np.pi, sigma_max=0.02, t_scale=1.0)
    X0 = lie.lt(G, X0.tensor().reshape(lshape + (d,)), dtype)
    raw0 = X0.tensor().clone()
    Xn = np.moveaxis(raw0.double().numpy(), dim, -2).reshape(-1, L, d)
    M = LR.group_matrix(G, Xn)
    t, _, s = LR.split_grp(G, Xn)
    ref = fold_ref(M, s, np.sqrt((t * t).sum(-1)))
    idx = np.arange(1, L + 1, dtype=np.float64)[None, :]
    lc = l_class(L)
    for name, entry, inplace, fn in variants:
        for order in ("right", "left"):
            monitor = "group_fold"
            regime = f"{G}/{dn}/{name}/{order}/{lc}"
            X = lie.lt(G, raw0.clone(), dtype)
            wit0 = {"group": G, "dtype": dn, "fn": name, "order": order, "lshape": list(lshape), "dim": dim, "L": L}
            okc, Y = ck.call(monitor, regime, entry, fn, X, dim, order, witness=wit0)
            ck.count(monitor, regime, key=(G, dn, name, order, L, shape_kind, raw0.numpy().tobytes()[:64]),
                     nontrivial=L > 1)
            ck.mark(f"grp/{G}/{dn}/{order}")
            ck.mark(f"grp/L:{lc}")
            if not okc:
                continue
            if not (isinstance(Y, pp.LieTensor) and Y.ltype is lie.LT[G] and tuple(Y.shape) == tuple(raw0.shape)
                    and Y.dtype == dtype):
                ck.check(False, monitor, regime, entry, "type_or_shape",
                         dict(wit0, got=str(type(Y)), shape=list(getattr(Y, "shape", []))))
                continue
            if inplace:
                ck.check(Y is X, monitor, regime, entry, "inplace_return_not_input", wit0)
                ck.check(torch.equal(X.tensor(), Y.tensor()), monitor, regime, entry,
                         "inplace_input_not_overwritten",
                         lambda: dict(wit0, input_unchanged=bool(torch.equal(X.tensor(), raw0))))
            else:
                ck.check(torch.equal(X.tensor(), raw0), monitor, regime, entry, "input_modified_by_out_of_place", wit0)
                if isinstance(Y, pp.LieTensor) and Y.numel():
                    ck.check(Y.tensor().untyped_storage().data_ptr() != X.tensor().untyped_storage().data_ptr(), monitor, regime, entry,
                             "out_of_place_result_shares_memory_with_the_input", wit0)
            Yn = np.moveaxis(Y.tensor().detach().double().numpy(), dim, -2).reshape(-1, L, d)
            Mo = LR.group_matrix(G, Yn)
            P, S, T = ref[order]
            e_rot = np.abs(Mo[..., :3, :3] - P[..., :3, :3]).max((-1, -2)).astype(np.float64)
            e_t = np.sqrt(((Mo[..., :3, 3] - P[..., :3, 3]) ** 2).sum(-1)).astype(np.float64)
            tol_rot = np.broadcast_to(C_GROUP * u * idx * S.astype(np.float64), e_rot.shape).reshape(-1)
            tol_t = np.broadcast_to(C_GROUP * u * idx * T.astype(np.float64) + 1e3 * lie.tiny_of(dtype), e_t.shape).reshape(-1)

            def wit(i, _e=e_rot, _t=e_t):
                r, p = divmod(i, L)
                return dict(wit0, row=r, position=p + 1, rot_err=float(_e[r, p]), trans_err=float(_t[r, p]),
                            got=Yn[r, p].tolist(), expected_matrix=np.asarray(P[r, p], dtype=np.float64).tolist())

            ck.ratios(monitor, regime, e_rot, tol_rot, entry, "wrong_fold_at_position", wit)
            if G in ("SE3", "Sim3"):
                ck.ratios("group_fold.trans", regime, e_t, tol_t, entry, "wrong_fold_at_position", wit)
                ck.monitors["group_fold.trans"]["calls"] += 1
    if len(ck.samples) < 4:
        ck.sample({"group": G, "dtype": dn, "L": L, "lshape": list(lshape), "dim": dim,
                   "x_first_item_hex": [float(v).hex() for v in Xn[0, 0]]})


def run_groups(ck):
    thorough = ck.tier == "thorough"
    rng = ck.rng("groups")
    Lmax = 300 if thorough else 64
    variants = lie_variants()
    i = 0
    for dn in ("f64", "f32"):
        for G in lie.GRPS:
            for L in range(1, Lmax + 1):
                i += 1
                if not ck.mine(i):
                    continue
                group_case(ck, G, dn, L, (L + i // Lmax) % 4, rng, variants)
    ck.note_max("max_group_L", Lmax)


# ---------------------------------------------------------------------------- plain matrices
def run_matrices(ck):
    thorough = ck.tier == "thorough"
    rng = ck.rng("mats")
    Ls = list(range(1, 41)) + [63, 64, 65, 100, 127, 129, 200, 201] if thorough else \
        [1, 2, 3, 4, 5, 6, 7, 8, 9, 15, 16, 17, 31, 33, 64, 65, 100, 201]
    i = 0
    for dn in ("f64", "f32"):
        dtype = lie.DT[dn]
        u = lie.u_of(dtype)
        for L in Ls:
            i += 1
            if not ck.mine(i):
                continue
            n = int(rng.integers(2, 5))
            b = int(rng.integers(1, 4))
            q = np.linalg.qr(rng.standard_normal((b, L, n, n)))[0] * rng.uniform(0.99, 1.01, (b, L, 1, 1))
            batched = bool((L + n) % 2)
            A0 = torch.as_tensor(q if batched else q[0]).to(dtype)            # (b,L,n,n) dim 1 | (L,n,n) dim 0
            dim = 1 if batched else 0
            An = LR.ld(A0.double().numpy()).reshape(-1, L, n, n)
            nrm = np.linalg.norm(An.astype(np.float64), 2, axis=(-1, -2))
            pn = np.cumprod(nrm, axis=1)
            idx = np.arange(1, L + 1, dtype=np.float64)[None, :]
            for fname, inplace, fn in (("cumprod", False, pp.cumprod), ("cumprod_", True, pp.cumprod_)):
                for order in ("right", "left"):
                    P = np.empty_like(An)
                    P[:, 0] = An[:, 0]
                    for k in range(1, L):
                        P[:, k] = np.matmul(P[:, k - 1], An[:, k]) if order == "right" else np.matmul(An[:, k], P[:, k - 1])
                    A = A0.clone()
                    regime = f"matrix/{dn}/{fname}/{order}/{l_class(L)}"
                    wit0 = {"fn": fname, "order": order, "shape": list(A0.shape), "dim": dim, "dtype": dn}
                    okc, Y = ck.call("matrix_fold", regime, fname, fn, A, dim, left=(order == "left"), witness=wit0)
                    ck.count("matrix_fold", regime, key=(dn, fname, order, L, n, b, batched), nontrivial=L > 1)
                    if not okc:
                        continue
                    if not (isinstance(Y, torch.Tensor) and tuple(Y.shape) == tuple(A0.shape) and Y.dtype == dtype):
                        ck.check(False, "matrix_fold", regime, fname, "type_or_shape", wit0)
                        continue
                    if inplace:
                        ck.check(Y is A, "matrix_fold", regime, fname, "inplace_return_not_input", wit0)
                        ck.check(torch.equal(A, Y), "matrix_fold", regime, fname, "inplace_input_not_overwritten", wit0)
                    else:
                        ck.check(torch.equal(A, A0), "matrix_fold", regime, fname, "input_modified_by_out_of_place", wit0)
                        if isinstance(Y, torch.Tensor) and Y.numel():
                            ck.check(Y.untyped_storage().data_ptr() != A.untyped_storage().data_ptr(), "matrix_fold", regime, fname,
                                     "out_of_place_result_shares_memory_with_the_input", wit0)
                    Yn = Y.double().numpy().reshape(-1, L, n, n)
                    err = np.abs(Yn - P).max((-1, -2)).astype(np.float64)
                    ck.ratios("matrix_fold", regime, err, np.broadcast_to(C_MAT * u * idx * pn, err.shape).reshape(-1), fname, "wrong_fold_at_position",
                              lambda j: dict(wit0, row=j // L, position=j % L + 1))


def run_passthrough_ops(ck):
    """Associative operations that return one of their operands (keep-first: a o b = a, keep-last: a o b = b - both associative and
    non-commutative): the fold of keep-first is the first item everywhere, the fold of keep-last is the sequence itself."""
    rng = ck.rng("passthrough")
    for dt in (torch.int64, torch.float64):
        for shape, dim in (((1,), 0), ((2,), 0), ((3,), 0), ((7,), 0), ((33,), 0), ((4, 5), 1), ((6, 2), 0), ((2, 3, 4), 1), ((2, 3, 9), 2)):
            x0 = torch.as_tensor(rng.integers(-50, 50, shape)).to(dt)
            first = x0.narrow(dim, 0, 1).expand(shape)
            for opname, op, want in (("keep-first", lambda a, b: a, first), ("keep-last", lambda a, b: b, x0)):
                for fname, inplace in (("cumops", False), ("cumops_", True)):
                    x = x0.clone()
                    regime = f"{fname}/{opname}"
                    wit = {"fn": fname, "op": opname, "shape": list(shape), "dim": dim, "dtype": str(dt)}
                    okc, res = ck.call("tok_dims", regime, fname, (pp.cumops_ if inplace else pp.cumops), x, dim, op, witness=wit)
                    ck.count("tok_dims", regime, key=(fname, opname, shape, dim, str(dt)), nontrivial=shape[dim] > 1)
                    if not okc:
                        continue
                    ck.check(isinstance(res, torch.Tensor) and tuple(res.shape) == tuple(shape) and torch.equal(res, want), "tok_dims", regime, fname,
                             "wrong_fold_at_position", lambda: dict(wit, got=res.tolist() if res.numel() <= 40 else None))
                    if inplace:
                        ck.check(torch.equal(x, want), "tok_dims", regime, fname, "inplace_input_not_overwritten", wit)
                    else:
                        ck.check(torch.equal(x, x0), "tok_dims", regime, fname, "input_modified_by_out_of_place", wit)
                    ck.mark("tok/pass-through-op")


def run(ck):
    if ck.shard == 1 % ck.nshards:
        run_passthrough_ops(ck)
    ck.require("tok/pass-through-op")
    if ck.shard == 0:
        # repeat-call monitor (shared, added by the framework owner): history / reused-object / memory-layout independence
        from .. import repeat
        repeat.run(ck, PID, repeat.table(PID, ck.rng("repeat")))
    if not token_selftest(ck):
        return
    run_token_sweeps(ck)
    run_token_dims(ck)
    run_groups(ck)
    run_matrices(ck)
    # required regimes are defined on input classes
    for fname in TOKEN_FUNCS:
        for order in ORDERS_OPS:
            ck.require(f"tok/{fname}/{order}")
    for c in ("L=1", "pow2", "pow2+1", "pow2-1", "other"):
        ck.require(f"tok/L:{c}", f"grp/L:{c}")
    for rank in (1, 2, 3, 4):
        for dim in range(rank):
            ck.require(f"dims/rank{rank}/dim{dim}")
    for layout in ("contig", "permuted", "strided"):
        ck.require(f"dims/layout:{layout}")
    for G in lie.GRPS:
        for dn in ("f64", "f32"):
            for order in ("right", "left"):
                ck.require(f"grp/{G}/{dn}/{order}")
    ck.floor("tok_sweep", 4 * LMAX)
    ck.floor("tok_sweep_mulprod", 2000)
    ck.floor("tok_dims", 1000)
    ck.floor("group_fold", 5000)
    ck.floor("matrix_fold", 100)
