"""pytest plugin: run the repository's own tests with the monitors attached (`-p vrf.pytest_plugin`).

Attached while the tests run:
  * Exp / Log reference-model monitors of C01 / C02 on every call the tests make (globally attached observer);
  * purity monitor: every public `pypose.<function>` and LieTensor method without a trailing underscore is wrapped;
    the tensor arguments are compared bitwise before / after the call;
  * patch-leak sanitizer: after every test the three torch internals patched by retain_ltype must be the originals.
Results are written as a partial-result JSON (core.Check.to_partial) to $VRF_PLUGIN_OUT and absorbed by the check
that launched pytest.  A monitor that fires here is triaged like any other witness.
"""
import inspect
import json
import os

import torch

import vrf  # noqa: F401  (puts the repository under test first on sys.path)
from vrf import core, instrument, attach

CK = core.Check(os.environ.get("VRF_PLUGIN_PID", "C06"), "thorough", int(os.environ.get("VERIF_SEED", "0")))
STATE = {"ctx": None, "tests": 0, "wrapped": 0}
WANT = set(os.environ.get("VRF_PLUGIN_MONITORS", "exp,log,purity,patchleak").split(","))


def _wrap_pure(owner, name, label):
    fn = owner.__dict__.get(name) if inspect.isclass(owner) else getattr(owner, name)
    if isinstance(fn, (staticmethod, classmethod, property)) or not callable(fn):
        return

    def wrapper(*a, **kw):
        ts = instrument.tensors_in((a, kw))
        if not ts or len(ts) > 64:
            return fn(*a, **kw)
        try:
            snaps = instrument.snapshot(ts)
        except Exception:
            return fn(*a, **kw)
        out = fn(*a, **kw)
        try:
            bad = instrument.changed(ts, snaps)
            CK.count("suite.purity", label, key=label, nontrivial=True)
            if bad:
                CK.violation("suite.purity", label, label, "argument_tensor_modified",
                             {"function": label, "changed_argument_indices": bad, "during": os.environ.get("PYTEST_CURRENT_TEST", "")})
        except Exception:
            pass
        return out
    wrapper.__name__ = getattr(fn, "__name__", name)
    wrapper.__doc__ = getattr(fn, "__doc__", None)
    setattr(owner, name, wrapper)
    STATE["wrapped"] += 1


def pytest_configure(config):
    import pypose as pp
    from vrf.checks import c01, c02
    busy = [False]

    def on_exp(kind, x, X):
        dn = "f64" if x.dtype == torch.float64 else "f32" if x.dtype == torch.float32 else None
        if dn and torch.isfinite(x).all() and not busy[0]:
            c01.monitor_exp(CK, kind, dn, x.double().cpu().numpy(), monitor="suite.exp", observed=X.cpu())

    def on_log(G, X, x):
        dn = "f64" if X.dtype == torch.float64 else "f32" if X.dtype == torch.float32 else None
        if dn is None or busy[0] or not torch.isfinite(X).all():
            return
        # only valid elements (unit quaternion up to rounding): tests also feed raw random tensors
        q = X[..., :4] if G in ("SO3", "RxSO3") else X[..., 3:7]
        if ((q.norm(dim=-1) - 1).abs() > 64 * torch.finfo(X.dtype).eps).any():
            return
        busy[0] = True
        try:
            c02.monitor_log(CK, G, dn, X.double().cpu().numpy(), monitor="suite.log", clauses=False)
        finally:
            busy[0] = False
    STATE["ctx"] = attach.observe(on_exp=on_exp if "exp" in WANT else None, on_log=on_log if "log" in WANT else None)
    STATE["ctx"].__enter__()
    if "lm" in WANT:
        _wrap_lm()
    if "purity" in WANT:
        skip = {"get_version", "import_module", "lru_cache", "retain_ltype", "is_lietensor", "hasnan", "is_SE3"}
        for n in dir(pp):
            o = getattr(pp, n)
            if n.startswith("_") or n.endswith("_") or n in skip or not inspect.isfunction(o):
                continue
            _wrap_pure(pp, n, "pp." + n)
        for n, o in list(pp.LieTensor.__dict__.items()):
            if n.startswith("_") or n.endswith("_") or not inspect.isfunction(o) or n in ("new_empty",):
                continue
            _wrap_pure(pp.LieTensor, n, "LieTensor." + n)


def _wrap_lm():
    """Contract on LevenbergMarquardt.step / GaussNewton.step while the repository's tests drive them (C08):
    the returned value is optimizer.loss and the loss of the model at the parameters left behind; LM does not return a
    larger loss than it was given unless the rejections were exhausted; at most reject+1 trials."""
    import pypose as pp
    for cls, name in ((pp.optim.LM, "LM"), (pp.optim.GN, "GN")):
        orig = cls.step

        def step(self, input, target=None, weight=None, _orig=orig, _name=name):
            with torch.no_grad():
                before = self.loss.clone() if hasattr(self, "loss") else self.model.loss(input, target)
            solves = [0]
            inner = self.solver.forward

            def counting(*a, **kw):
                solves[0] += 1
                return inner(*a, **kw)
            self.solver.forward = counting
            try:
                ret = _orig(self, input, target=target, weight=weight)
            finally:
                del self.solver.forward
            try:
                with torch.no_grad():
                    now = self.model.loss(input, target)
                label = f"suite.{_name}.step"
                test = os.environ.get("PYTEST_CURRENT_TEST", "")
                CK.count("suite.lm", label, key=(test, STATE["tests"], solves[0]))
                if not (torch.isfinite(now).all() and torch.isfinite(torch.as_tensor(ret)).all()):
                    CK.note_add("suite_lm_nonfinite_loss_not_judged", 1)      # LM accepting a NaN loss: consequence of known finding F09
                    return ret
                CK.check(torch.equal(torch.as_tensor(ret), torch.as_tensor(self.loss)), "suite.lm", label, f"optim.{_name}.step",
                         "return_value_is_not_optimizer_loss", {"test": test})
                scale = float(now.abs()) + 1e-30
                CK.ratio("suite.lm", label, float((torch.as_tensor(ret) - now).abs()), 1e-4 * scale + 1e-12, f"optim.{_name}.step",
                         "returned_loss_is_not_the_loss_at_the_parameters_left_behind", {"test": test, "returned": float(ret), "recomputed": float(now)})
                if _name == "LM":
                    CK.check(solves[0] <= self.reject + 1, "suite.lm", label, "optim.LM.step", "more_than_reject_plus_one_trials",
                             {"test": test, "solves": solves[0], "reject": self.reject})
                    if self.reject_count < self.reject:
                        CK.check(float(ret) <= float(before) * (1 + 1e-6) + 1e-12, "suite.lm", label, "optim.LM.step",
                                 "returned_loss_larger_than_loss_at_entry", {"test": test, "returned": float(ret), "entry": float(before)})
            except Exception as e:  # the observer must never disturb the test
                CK.note_add("suite_lm_observer_errors", 1)
            return ret
        cls.step = step
        STATE["wrapped"] += 1


def pytest_runtest_teardown(item, nextitem):
    STATE["tests"] += 1
    if "patchleak" in WANT:
        leaks = instrument.patch_leaks()
        CK.count("suite.patchleak", "after_test", key=item.nodeid)
        if leaks:
            CK.violation("suite.patchleak", "after_test", "retain_ltype", "torch_internals_left_patched", {"test": item.nodeid, "left": leaks})
            instrument.restore_patches()


def pytest_sessionfinish(session, exitstatus):
    if STATE["ctx"] is not None:
        STATE["ctx"].__exit__(None, None, None)
    CK.note_add("suite_tests_run_under_monitors", STATE["tests"])
    CK.note_add("suite_functions_wrapped", STATE["wrapped"])
    out = os.environ.get("VRF_PLUGIN_OUT")
    if out:
        with open(out, "w") as f:
            json.dump(CK.to_partial(), f)
