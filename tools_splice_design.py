import re,sys
p='/verif/DESIGN.md'; s=open(p).read()
ab=open(sys.argv[1]).read()
parts=re.split(r'(?m)^@@(C\d\d)\n', ab)[1:]
for pid,txt in zip(parts[0::2], parts[1::2]):
    hdr=f'### {pid} '
    i=s.index(hdr)
    # remove an earlier As built paragraph of this section
    nxt=[j for j in (s.find('\n### ', i+5), s.find('\n-----', i)) if j>=0]
    j=min(nxt)
    sec=s[i:j]
    k=sec.find('* **As built.**')
    if k>=0: sec=sec[:k]
    sec=sec.rstrip('\n')+'\n'+txt.rstrip('\n')+'\n'
    s=s[:i]+sec+s[j:]
open(p,'w').write(s)
print('spliced', len(parts)//2)
