"""C06, monitor 4 (fault enumeration): the temporary patching of torch internals done by
retain_ltype / func.jacrev is undone on exit even when the wrapped function raises.

For every wrapped function a dry run counts the LINE events N that occur (in pypose code and
in the user function) while the user function is on the stack; then for k = 1..N a
sys.monitoring callback raises at the k-th event.  After every run the three torch attributes
must be *the* objects captured at import (identity).  Also: exceptions raised by the user
function itself, by a LieTensor op on bad shapes, by forward-mode AD on LieTensors,
BaseException-class faults, and nested contexts.
"""
import os

import torch
import pypose as pp
from torch.func import jacrev, vmap, jacfwd

from .. import instrument, REPO
from ..instrument import FaultInjector, InjectedFault, InjectedBaseFault

F64 = torch.float64
HERE = os.path.abspath(__file__)
PREFIXES = (os.path.join(os.path.realpath(REPO), "pypose"), os.path.join(REPO, "pypose"), HERE)


def scenarios():
    """name -> callable(arm) that runs one wrapped function; `arm(flag)` switches the failpoints."""
    def armed(arm, body):
        def user(*a):
            arm(True)
            try:
                return body(*a)
            finally:
                arm(False)
        return user

    def s_jacrev_ctx(arm):            # torch.func.jacrev inside an explicit retain_ltype context (vjp path)
        pose = pp.randn_SE3(2, dtype=F64)

        def body(p):
            q = p @ p
            return q.Log().tensor()
        with pp.retain_ltype():
            return jacrev(armed(arm, body))(pose)

    def s_pp_jacrev(arm):             # pp.func.jacrev (decorator form of the context manager)
        pose, pts = pp.randn_SE3(2, dtype=F64), torch.randn(2, 3, dtype=F64)

        def body(p, x):
            y = p.Act(x)
            return p.Inv() @ y
        return pp.func.jacrev(armed(arm, body), argnums=(0, 1))(pose, pts)

    def s_vmap(arm):                  # vmap path (_add_batch_dim)
        pose, pts = pp.randn_Sim3(4, dtype=F64), torch.randn(4, 3, dtype=F64)

        def body(p, x):
            return p.Inv().Act(x)
        with pp.retain_ltype():
            return vmap(armed(arm, body))(pose, pts)

    def s_nested(arm):                # nested contexts
        pose = pp.randn_SO3(3, dtype=F64)

        def body(p):
            return p.Inv().Log().tensor()
        with pp.retain_ltype():
            with pp.retain_ltype():
                r = jacrev(armed(arm, body))(pose)
            return r

    def s_jacrev_exp(arm):            # algebra input, Exp + Adj
        x = pp.randn_se3(2, dtype=F64)

        def body(v):
            X = v.Exp()
            return X.Adj(v).tensor()
        return pp.func.jacrev(armed(arm, body))(x)

    return {"jacrev_in_context": s_jacrev_ctx, "pp.func.jacrev": s_pp_jacrev, "vmap_in_context": s_vmap,
            "nested_contexts": s_nested, "pp.func.jacrev[exp,adj]": s_jacrev_exp}


def natural_faults():
    """Exceptions that arise without injection."""
    class UserError(Exception):
        pass

    def user_raises():
        def body(p):
            raise UserError("user function fails")
        return pp.func.jacrev(body)(pp.randn_SE3(1, dtype=F64))

    def bad_shapes():
        def body(p):
            return p.Act(torch.randn(5, 7, dtype=F64))      # invalid point dimension -> assertion inside pypose
        return pp.func.jacrev(body)(pp.randn_SE3(1, dtype=F64))

    def forward_mode():
        def body(p, x):
            return p @ x
        with pp.retain_ltype():
            return jacfwd(body)(pp.randn_SE3(1, dtype=F64), torch.randn(1, 3, dtype=F64))   # documented to raise

    def keyboard():
        def body(p):
            raise KeyboardInterrupt()
        with pp.retain_ltype():
            return jacrev(body)(pp.randn_SO3(1, dtype=F64))

    def generator_exit():
        def body(p):
            raise SystemExit(3)
        return pp.func.jacrev(body)(pp.randn_SO3(1, dtype=F64))

    return {"user_function_raises": user_raises, "lietensor_op_on_bad_shapes": bad_shapes, "forward_mode_unsupported": forward_mode,
            "KeyboardInterrupt": keyboard, "SystemExit": generator_exit}


def fault_monitor(ck, thorough):
    assert not instrument.patch_leaks(), "torch internals already patched before the monitor started"
    nf = max(1, ck.nshards - 2) if ck.nshards >= 3 else 1
    me = (ck.shard - 2) if ck.nshards >= 3 else 0
    # ---- no fault: the context itself must restore
    for name, sc in scenarios().items():
        ck.call("patchleak", f"{name}/no_fault", "retain_ltype", sc, lambda f: None, witness={"scenario": name})
        ck.count("patchleak", f"{name}/no_fault", key=(name, "clean"))
        leaks = instrument.patch_leaks()
        ck.check(not leaks, "patchleak", f"{name}/no_fault", "retain_ltype", "torch_internals_left_patched", {"scenario": name, "left": leaks})
        instrument.restore_patches()
    for name, fn in natural_faults().items():
        raised = None
        try:
            fn()
        except BaseException as e:  # noqa
            raised = type(e).__name__
        ck.count("patchleak", f"natural/{name}", key=name)
        ck.mark("patchleak/natural/" + name)
        ck.check(raised is not None, "patchleak", f"natural/{name}", "retain_ltype", "expected_exception_not_raised", {"scenario": name})
        leaks = instrument.patch_leaks()
        ck.check(not leaks, "patchleak", f"natural/{name}", "retain_ltype", "torch_internals_left_patched",
                 {"scenario": name, "exception": raised, "left": leaks})
        instrument.restore_patches()
    # ---- injected faults at every LINE event
    total_points, swept = 0, 0
    for si, (name, sc) in enumerate(scenarios().items()):
        with FaultInjector(PREFIXES, k=None) as fi:
            try:
                sc(lambda f, fi=fi: setattr(fi, "armed", f))
            except Exception as e:  # a fault-free run of a valid scenario must not raise (typically a consequence of an earlier leak)
                ck.violation("patchleak", f"{name}/dry_run", "retain_ltype", "scenario_raised_without_fault:" + type(e).__name__,
                             {"scenario": name, "error": repr(e)[:300], "left_patched": instrument.patch_leaks()})
                instrument.restore_patches()
                continue
            n = fi.count
        if me == 0:
            ck.note(f"failpoints/{name}", n)
        total_points += n
        if n == 0:
            ck.inconclusive_because(f"no LINE event observed inside scenario {name}")
            continue
        classes = (InjectedFault, InjectedBaseFault)
        for k in range(1, n + 1):
            if (k + si) % nf != me:
                continue
            for exc in (classes if (thorough or k % 7 == 0) else classes[:1]):
                with FaultInjector(PREFIXES, k=k, exc=exc) as fi:
                    raised = None
                    try:
                        sc(lambda f, fi=fi: setattr(fi, "armed", f))
                    except BaseException as e:  # noqa
                        raised = e
                    fired = fi.fired_at
                ck.count("patchleak", f"{name}/{exc.__name__}", key=(name, k, exc.__name__))
                swept += 1
                if fired is None:
                    ck.note_add("failpoints_not_reached", 1)
                    continue
                if not isinstance(raised, (InjectedFault, InjectedBaseFault)):
                    # the library (or torch) swallowed or replaced the injected exception: not a violation
                    ck.note_add("injected_exception_replaced", 1)
                leaks = instrument.patch_leaks()
                ck.check(not leaks, "patchleak", f"{name}/{exc.__name__}", "retain_ltype", "torch_internals_left_patched",
                         lambda: {"scenario": name, "k": k, "of": n, "at": list(fired), "exception_class": exc.__name__, "left": leaks})
                instrument.restore_patches()
    ck.note_add("failpoints_swept", swept)
    ck.mark("patchleak/injected", swept)
    ck.require("patchleak/injected", *["patchleak/natural/" + n for n in natural_faults()])
    ck.floor("patchleak", 20)
