#!/bin/bash
# verify_seed.sh <worktree> <k> <seed-id> <property> "<checks space separated>"
WT=$1; K=$2; ID=$3; PID=$4; CHECKS=${5:-$4}
D=/verif/seeded/$ID
mkdir -p $D
cp $WT/_out/$K/patch.diff $D/patch.diff; cp $WT/_out/$K/demo.py $D/demo.py; cp $WT/_out/$K/notes.md $D/notes.md 2>/dev/null
cd $WT && git checkout -q -- pypose
PYTHONPATH=$WT /venv/bin/python $D/demo.py > /tmp/fx/vs_${ID}_clean.log 2>&1; C0=$?
git apply $D/patch.diff || { echo "$ID APPLY-FAILED"; exit 1; }
PYTHONPATH=$WT /venv/bin/python $D/demo.py > /tmp/fx/vs_${ID}_mut.log 2>&1; C1=$?
PYTHONPATH=$WT /venv/bin/python -m pytest -q -p no:cacheprovider --timeout=900 --continue-on-collection-errors > /tmp/fx/vs_${ID}_suite.log 2>&1
SUITE=$(tail -1 /tmp/fx/vs_${ID}_suite.log)
NONNET=$(grep '^FAILED' /tmp/fx/vs_${ID}_suite.log | grep -v urllib | tr '\n' ' ')
git checkout -q -- pypose
cat > $D/meta.json <<EOJ
{"id": "$ID", "property": "$PID", "checks": [$(echo $CHECKS | sed 's/\([^ ]*\)/"\1"/g; s/ /, /g')],
 "source": "independent sub-agent given only the property text and a scratch worktree",
 "demo_exit_clean": $C0, "demo_exit_with_change": $C1, "suite_with_change": "$SUITE", "non_network_failures": "$NONNET",
 "needs": "see notes.md", "verified_by": "verify_seed.sh in the scratch worktree $WT (apply, demo, full suite, revert, demo)"}
EOJ
echo "$ID clean=$C0 mut=$C1 suite='$SUITE' nonnet='$NONNET'"
