"""C14 -- LQR returns the feasible global minimiser of the LQ problem; MPC agrees with it.

Oracle: the KKT conditions of the convex QP, evaluated on an independent roll-out model
(oracles/lqr_ref: the reference knows A_t, B_t, c1_t as plain arrays indexed by the horizon step
t = 0..T-1 and contains no Riccati recursion).

Monitors (per solve and per batch element)
  lqr_start          x_0 == x_init
  lqr_dynamics       x_{t+1} - (A_t x_t + B_t u_t + c1_t) at every step
  lqr_cost           reported cost == sum_t 1/2 tau_t^T Q_t tau_t + p_t^T tau_t recomputed along (x, u)
  lqr_gradient       dJ/du_t == 0 for EVERY input: autograd through the reference roll-out from u alone,
                     and (independently) the costate recursion at the returned (x, u)
  lqr_perturbation   no random perturbation of the inputs lowers the reference cost
  lqr_vs_dense       u == minimiser of the dense reduced QP (condition-aware tolerance)
  lqr_independence   solves of the same problem on the same system object agree whatever the nominal
                     u_traj, the number of earlier solves and the system time before the solve
  mpc_linear         MPC on a linear system: all of the above on MPC's (x, u, cost)
  mpc_nls_*          MPC on nonlinear systems (cart-pole, random smooth NLS): x_0 == x_init, the returned
                     (x, u) satisfies x_{t+1} = f(x_t, u_t, t) re-simulated with a separate copy of f, and
                     the returned cost is the cost of the returned trajectory
"""
import copy
import traceback

import numpy as np
import torch
import pypose as pp

from .. import gen
from ..oracles import dyn_ref as D
from ..oracles import lqr_ref as R

PID = "C14"
LEVEL = "exploration"
SHARDS = {"quick": 4, "thorough": 16}
TIMEOUT = {"quick": 900, "thorough": 5400}
RULE = ("One case = one solve of one LQ problem for one batch element. Problems: batch 1..3 (MPC: 1), horizon "
        "1..20 (1, 2 and 20 forced), n_state/n_ctrl 1..6 (n_state=1 and n_state=n_ctrl forced), A_t with spectral "
        "radius 0.5..1.5, dense PD Q_t (always with a cross block) with condition number 1..1e6 and scale 0.1..10 "
        "given per step or time-invariant, random p, c1 (none / constant / time-indexed), x_init, systems LTI "
        "(per-batch or shared unbatched matrices), LTV as index-by-systime subclasses (period >= or < horizon) "
        "and as function-of-systime subclasses, float64 and float32 (kappa <= 1e3). Each system object is solved "
        "1..5 times with nominal u_traj None / zeros / random (|u|~1, 10), same or new x_init, same or new LQR "
        "object, and its system time disturbed (reset(t), calls) before the first and between solves. MPC: the "
        "same linear problems through MPC (steppers of 1..10 steps, u_init None/random), cart-pole with random "
        "parameters and random mild smooth NLS (sympy expression trees, time dependent). distinct = distinct "
        "(problem, solve, batch element); trivial = none.")
ASSUME = ["reference roll-out, cost, gradient (torch autograd, float64) and dense optimum (numpy, one step of "
          "iterative refinement) never call the library",
          "the horizon cost uses steps t = 0..T-1 (x_T carries no cost), as LQR documents and computes",
          "gradient tolerance 2^18 * u * s_t, s_t = D_t + |B_t| sum_{k>t} |Phi(k,t+1)| D_k with D_k = | |Q_k||tau_k| + "
          "|p_k| | and Phi the true transition products (2-norms; products of |A| overestimate non-normal systems "
          "by up to 1e7): 5.8e-11 * s_t in float64, well inside the 1e-8 * scale of the design. The gradient through "
          "the exact open-loop roll-out of u is allowed, in addition, 64 x the library's own per-step roll-out "
          "round-off u(|A||x|+|B||u|+|c1|) propagated to later states and from there into dJ/du_t",
          "dense comparison |u - u*| <= 2048 u cond(H) |u*| is judged only when 2048 * u * cond(H) < 0.1",
          "LTV horizon step t uses the matrices of system time t (dt = 1); LQR is documented to solve from "
          "horizon time 0 whatever the object's current system time",
          "MPC on nonlinear systems: only feasibility and cost consistency are demanded (no optimality claim); the "
          "generated systems are globally Lipschitz (linear part + sin/cos of linear forms) so that iterative LQR "
          "without line search cannot blow up; a solve whose iteration costs diverge (> 1e6 x the first, or "
          "non-finite) is marked not-judged instead of being reported",
          "box constraints u_lower/u_upper/du are not exercised (not in the property)", "CPU only"]

DT = {"f64": torch.float64, "f32": torch.float32}
C_DYN, C_COST, C_GRAD, C_FWD, C_DENSE, C_PERT, C_NLS = 64.0, 256.0, 2.0 ** 18, 64.0, 2048.0, 64.0, 64.0
U64 = float(np.finfo(np.float64).eps)


def u_of(dtype):
    return float(torch.finfo(dtype).eps)


def tt(a, dtype):
    return torch.as_tensor(np.asarray(a, dtype=np.float64)).to(dtype)


def f64(t):
    return t.detach().double().numpy()


def ratios(ck, monitor, regime, err, tol, entry, mech, witness_of=None):
    err, tol = np.broadcast_arrays(np.asarray(err, dtype=np.float64), np.asarray(tol, dtype=np.float64))
    return ck.ratios(monitor, regime, err.reshape(-1), tol.reshape(-1), entry, mech, witness_of)


# ----------------------------------------------------------------------------- user-side systems
class IdxLTV(pp.module.LTV):
    """A, B (and optionally c1) stacked over time and indexed by the system time, as in
    tests/module/test_lqr.py::test_lqr_ltv (periodic, so every system time is a valid index)."""

    def __init__(self, A, B, C, D, c1, P, tv_c1, phase=0):
        super().__init__(A, B, C, D, c1, None)
        self.P, self.tv_c1, self.phase = P, tv_c1, phase      # phase: the schedule starts `phase` steps into its period

    @property
    def A(self):
        return self._A[..., (self._t + self.phase) % self.P, :, :]

    @property
    def B(self):
        return self._B[..., (self._t + self.phase) % self.P, :, :]

    @property
    def c1(self):
        if self._c1 is None or not self.tv_c1:
            return self._c1
        return self._c1[..., (self._t + self.phase) % self.P, :]


class FuncLTV(pp.module.LTV):
    """A, B generated from the time variable."""

    def __init__(self, A0, A1, B0, C, D, c1, w):
        super().__init__(A0, B0, C, D, c1, None)
        self.register_buffer("_A1", A1)
        self.w = w

    @property
    def A(self):
        return self._A + self._A1 * torch.cos(self.w * self._t.to(self._A.dtype))

    @property
    def B(self):
        return self._B * (1 + 0.25 * torch.sin(self.w * self._t.to(self._B.dtype)))


class CartPole(pp.module.NLS):
    """The model of tests/module/test_mpc.py (batch-of-one layout)."""

    def __init__(self, dt, length, cartmass, polemass, gravity):
        super().__init__()
        self.tau, self.length, self.cartmass, self.polemass, self.gravity = dt, length, cartmass, polemass, gravity
        self.poleml = self.polemass * self.length
        self.totalMass = self.cartmass + self.polemass

    def state_transition(self, state, input, t=None):
        x, xDot, theta, thetaDot = state.squeeze()
        force = input.squeeze()
        costheta, sintheta = torch.cos(theta), torch.sin(theta)
        temp = (force + self.poleml * thetaDot ** 2 * sintheta) / self.totalMass
        thetaAcc = (self.gravity * sintheta - costheta * temp) / \
            (self.length * (4 / 3 - self.polemass * costheta ** 2 / self.totalMass))
        xAcc = temp - self.poleml * thetaAcc * costheta / self.totalMass
        _dstate = torch.stack((xDot, xAcc, thetaDot, thetaAcc))
        return (state.squeeze() + torch.mul(_dstate, self.tau)).unsqueeze(0)

    def observation(self, state, input, t=None):
        return state


GenNLS = D.nls_subclass(pp.module.NLS)


# ----------------------------------------------------------------------------- problems
def scaled_to_radius(M, rho):
    r = np.abs(np.linalg.eigvals(M)).max()
    return M * (rho / r) if r > 1e-12 else M


class Problem:
    """One linear system + horizon cost, with float64 reference copies indexed [b, t]."""

    def __init__(self, rng, dn, force=None, mpc=False):
        force = force or {}
        self.dn, self.dtype = dn, DT[dn]
        self.B = 1 if mpc else force.get("B", int(rng.integers(1, 4)))
        self.T = force.get("T", int(rng.integers(1, 21)))
        self.ns = force.get("ns", int(rng.integers(1, 7)))
        self.nc = force.get("nc", int(rng.integers(1, 7)))
        self.family = force.get("family", str(rng.choice(["LTI", "LTI-shared", "LTV-idx", "LTV-idx", "LTV-func"])))
        self.q_tv = bool(rng.random() < 0.75)            # Q, p per step, or time-invariant (tiled by LQR)
        if not self.q_tv and self.B >= 2 and "T" not in force and rng.random() < 0.5:
            self.T = self.B                              # the (batch, n, n) form of Q with a horizon as long as the batch is wide
        B, T, ns, nc = self.B, self.T, self.ns, self.nc
        N = ns + nc
        f32 = dn == "f32"
        self.rho = float(rng.choice([0.5, 0.95, 1.0, 1.2] if f32 else [0.5, 0.95, 1.0, 1.2, 1.5]))
        self.kappa = float(10 ** rng.uniform(0, 3 if f32 else 6))
        if force.get("kappa"):
            self.kappa = force["kappa"]
        self.c1_kind = force.get("c1", str(rng.choice(["none", "const", "const", "tv"])))
        if not self.family.startswith("LTV-idx") and self.c1_kind == "tv":
            self.c1_kind = "const"
        d = self.dtype
        # ---- units of the signals: the linear cost term, the affine drift and the initial state scale together, so the
        # optimal inputs scale by the same factor (micro-units / large units; every tolerance below is relative)
        self.units = float(force.get("units", rng.choice([1.0, 1.0, 1.0, 1e-6, 1e5])))
        un = self.units
        # ---- cost
        # overall cost scale (the minimiser does not depend on it): costs in very small / large units
        self.cost_scale = float(force.get("cost_scale", rng.choice([1.0, 1.0, 1.0, 1e-8, 1e6])))
        qs = 10 ** rng.uniform(-1, 1) * self.cost_scale
        if self.q_tv:
            Q = np.stack([[gen.spd(rng, N, cond=self.kappa, scale=qs) for _ in range(T)] for _ in range(B)])
            p = rng.standard_normal((B, T, N)) * qs * un
        else:
            Q = np.stack([gen.spd(rng, N, cond=self.kappa, scale=qs) for _ in range(B)])
            p = rng.standard_normal((B, N)) * qs * un
        self.tQ, self.tp = tt(Q, d), tt(p, d)
        self.tQ = 0.5 * (self.tQ + self.tQ.mT)           # exactly symmetric after rounding to the dtype
        Qr, pr = f64(self.tQ), f64(self.tp)
        self.Qref = Qr if self.q_tv else np.repeat(Qr[:, None], T, axis=1)
        self.pref = pr if self.q_tv else np.repeat(pr[:, None], T, axis=1)
        # ---- system
        eye, zer = torch.eye(ns, dtype=d), torch.zeros(ns, nc, dtype=d)
        c1v = None
        if self.family in ("LTI", "LTI-shared"):
            bs = (B,) if self.family == "LTI" else ()
            A = np.stack([scaled_to_radius(rng.standard_normal((ns, ns)), self.rho) for _ in range(B)]) if bs else \
                scaled_to_radius(rng.standard_normal((ns, ns)), self.rho)
            Bm = rng.standard_normal(bs + (ns, nc))
            self.tA, self.tB = tt(A, d), tt(Bm, d)
            if self.c1_kind != "none":
                c1v = tt(rng.standard_normal((B, ns) if rng.random() < 0.7 or bs else (ns,)) * un, d)
            self.make = lambda: pp.module.LTI(self.tA, self.tB, eye, zer, c1v, None)
            Ar = np.broadcast_to(f64(self.tA), (B, ns, ns))
            Br = np.broadcast_to(f64(self.tB), (B, ns, nc))
            self.Aref = np.repeat(Ar[:, None], T, axis=1)
            self.Bref = np.repeat(Br[:, None], T, axis=1)
            self.c1ref = np.zeros((B, T, ns)) if c1v is None else \
                np.repeat(np.broadcast_to(f64(c1v), (B, ns))[:, None], T, axis=1)
        elif self.family == "LTV-idx":
            P = force.get("P", int(rng.choice([T, T, T + 3, max(1, T // 2), max(1, T - 1)])))
            self.P = P
            A = np.stack([[scaled_to_radius(rng.standard_normal((ns, ns)), self.rho) for _ in range(P)] for _ in range(B)])
            Bm = rng.standard_normal((B, P, ns, nc))
            self.tA, self.tB = tt(A, d), tt(Bm, d)
            tv = self.c1_kind == "tv"
            if self.c1_kind != "none":
                c1v = tt(rng.standard_normal((B, P, ns) if tv else (B, ns)) * un, d)
            self.phase = int(rng.choice([0, 0, 1, int(rng.integers(0, P))]))
            self.make = lambda: IdxLTV(self.tA, self.tB, eye, zer, c1v, P, tv, self.phase)
            idx = (np.arange(T) + self.phase) % P
            self.Aref, self.Bref = f64(self.tA)[:, idx], f64(self.tB)[:, idx]
            self.c1ref = np.zeros((B, T, ns)) if c1v is None else (f64(c1v)[:, idx] if tv else np.repeat(f64(c1v)[:, None], T, axis=1))
        else:  # LTV-func
            w = float(np.round(rng.uniform(0.1, 0.7), 2))
            A0 = np.stack([scaled_to_radius(rng.standard_normal((ns, ns)), self.rho) for _ in range(B)])
            A1 = 0.3 * rng.standard_normal((B, ns, ns)) * self.rho / max(1.0, np.sqrt(ns))
            Bm = rng.standard_normal((B, ns, nc))
            self.tA, self.tA1, self.tB = tt(A0, d), tt(A1, d), tt(Bm, d)
            if self.c1_kind != "none":
                c1v = tt(rng.standard_normal((B, ns)) * un, d)
            self.make = lambda: FuncLTV(self.tA, self.tA1, self.tB, eye, zer, c1v, w)
            ts = np.arange(T, dtype=np.float64)
            self.Aref = f64(self.tA)[:, None] + f64(self.tA1)[:, None] * np.cos(w * ts)[None, :, None, None]
            self.Bref = f64(self.tB)[:, None] * (1 + 0.25 * np.sin(w * ts))[None, :, None, None]
            self.c1ref = np.zeros((B, T, ns)) if c1v is None else np.repeat(f64(c1v)[:, None], T, axis=1)
        self.x_scale = float(rng.choice([0.1, 1.0, 3.0])) * un
        self._dense = {}

    def ltv(self):
        return self.family.startswith("LTV")

    def new_x_init(self, rng):
        return tt(rng.standard_normal((self.B, self.ns)) * self.x_scale, self.dtype)

    def dense(self, b, x0):
        k = (b, x0.tobytes())
        if k not in self._dense:
            self._dense[k] = R.dense_optimum(self.Aref[b], self.Bref[b], self.c1ref[b], self.Qref[b], self.pref[b], x0)
        return self._dense[k]

    def describe(self):
        return {"family": self.family, "dtype": self.dn, "B": self.B, "T": self.T, "n_state": self.ns, "n_ctrl": self.nc,
                "rho": self.rho, "kappa": self.kappa, "units": self.units, "cost_scale": self.cost_scale, "c1": self.c1_kind, "Q_per_step": self.q_tv, "P": getattr(self, "P", None)}


# ----------------------------------------------------------------------------- the KKT monitor
def check_solution(ck, rng, prob, b, x, u, cost, x0, regime, entry, key, pre, u_nom=None):
    """x (T+1,n), u (T,m), cost scalar: float64 copies of what the library returned for batch element b.
    u_nom (T,m): the nominal inputs the solve was started from (None = zeros)."""
    A, Bm, c1, Q, p = prob.Aref[b], prob.Bref[b], prob.c1ref[b], prob.Qref[b], prob.pref[b]
    ud = u_of(prob.dtype)
    T = prob.T
    base = lambda: dict(prob.describe(), b=b, regime=regime, x_init=x0.tolist(), u=u.tolist(), x=x.tolist(), cost=float(cost))
    if not (np.isfinite(x).all() and np.isfinite(u).all() and np.isfinite(cost)):
        ck.count(pre + "start", regime, key=key)
        ck.violation(pre + "start", regime, entry, "non_finite_solution", base())
        return None
    # ---- x_0 = x_init
    ck.count(pre + "start", regime, key=key)
    ck.ratio(pre + "start", regime, np.abs(x[0] - x0).max(), 0.0, entry, "trajectory_does_not_start_at_x_init", base)
    # ---- dynamics at every step
    res, mag = R.step_residual(A, Bm, c1, x, u)
    ck.count(pre + "dynamics", regime, n=T, key=key)
    ratios(ck, pre + "dynamics", regime, np.abs(res), C_DYN * ud * mag + 1e-300, entry, "transition_violated_at_some_step",
           lambda i: dict(base(), step=int(i // prob.ns), residual=res.tolist()))
    # ---- reported cost
    J, Jabs = R.cost_along(Q, p, x, u)
    ck.count(pre + "cost", regime, key=key)
    ck.ratio(pre + "cost", regime, abs(J - cost), C_COST * ud * Jabs, entry, "reported_cost_differs_from_cost_along_trajectory",
             lambda: dict(base(), recomputed=J))
    # ---- zero gradient w.r.t. every input
    g_ad, J_open = R.grad_autograd(A, Bm, c1, Q, p, x0, u)
    g_co, _ = R.grad_costate(A, Bm, Q, p, x, u)
    s, fwd = R.gradient_scales(A, Bm, c1, Q, p, x, u, ud)
    # the solver works with deviations from the nominal trajectory (its roll-out from x_init under the nominal inputs): every quantity
    # it forms has the magnitude of that trajectory, which for an unstable system can exceed the optimal one by orders of magnitude -
    # the round-off scale of the gradient is that of both trajectories
    un_ = np.zeros_like(u) if u_nom is None else u_nom
    xn_ = np.zeros_like(x)
    xn_[0] = x0
    for t_ in range(T):
        xn_[t_ + 1] = A[t_] @ xn_[t_] + Bm[t_] @ un_[t_] + c1[t_]
    if np.isfinite(xn_).all():
        s_nom, _ = R.gradient_scales(A, Bm, c1, Q, p, xn_, un_, ud)
        s = s + s_nom
    tol_co = C_GRAD * ud * s                 # stationarity at the returned (x, u)
    tol_g = tol_co + C_FWD * fwd             # exact open-loop roll-out of u: + propagated round-off of the returned x
    ck.count(pre + "gradient", regime, n=2 * T, key=key)
    ratios(ck, pre + "gradient", regime, np.abs(g_ad).max(-1), tol_g, entry, "gradient_wrt_some_input_not_zero",
           lambda i: dict(base(), step=int(i), grad=g_ad.tolist(), scale=s.tolist(), forward_term=fwd.tolist()))
    ratios(ck, pre + "gradient", regime, np.abs(g_co).max(-1), tol_co, entry, "lagrangian_not_stationary_at_some_input",
           lambda i: dict(base(), step=int(i), grad=g_co.tolist(), scale=s.tolist()))
    # ---- no perturbation lowers the cost
    umax = max(np.abs(u).max(), 1e-3)
    for s_rel in (1e-6, 1e-3, 1e-1, 1.0):
        dl = rng.standard_normal(u.shape) * s_rel * umax
        if rng.random() < 0.3:                                    # a single input of a single step
            mask = np.zeros(u.size)
            mask[int(rng.integers(u.size))] = 1
            dl = dl * mask.reshape(u.shape)
        xp = R.rollout(A, Bm, c1, x0, u + dl)
        Jp, Jpabs = R.cost_along(Q, p, xp, u + dl)
        tol = C_PERT * U64 * max(Jabs, Jpabs) + float((tol_g[:, None] * np.abs(dl)).sum())
        ck.count(pre + "perturbation", regime, key=key + (s_rel,))
        ck.ratio(pre + "perturbation", regime, max(0.0, J_open - Jp), tol, entry, "perturbed_inputs_have_lower_cost",
                 lambda: dict(base(), delta=dl.tolist(), J=J_open, J_perturbed=Jp))
    # ---- dense optimum
    us, cond, Js = prob.dense(b, x0)
    judged = us is not None and C_DENSE * ud * cond < 0.1
    if judged:
        ck.count(pre + "vs_dense", regime, key=key)
        ck.ratio(pre + "vs_dense", regime, np.abs(u - us).max(), C_DENSE * ud * cond * max(np.abs(us).max(), 1e-300), entry,
                 "inputs_differ_from_dense_minimiser", lambda: dict(base(), u_star=us.tolist(), cond_H=cond))
        ck.note_max("max_log10_cond_H_judged", np.log10(cond))
    else:
        ck.mark("dense/ill-conditioned-not-judged")
    return {"u": u, "us": us, "cond": cond, "judged": judged}


def lqr_regime(prob, uk, hist):
    return f"{prob.family}/{prob.dn}/c1:{prob.c1_kind}/u_traj:{uk}/{hist}"


def call_solver(ck, monitor, regime, entry, prob, fn, witness):
    try:
        return True, fn()
    except Exception as e:  # noqa  -- an exception on a valid LQ problem is a violation
        shape_error = type(e) is RuntimeError                    # not a LinAlgError etc.
        mech = "raised_n_state_1_horizon_ge_2" if (prob.ns == 1 and prob.T >= 2 and shape_error) else "raised:" + type(e).__name__
        w = dict(witness)
        w.update({"exception": repr(e)[:500], "traceback": traceback.format_exc(limit=-6)[-1500:]})
        ck.violation(monitor, regime, entry, mech, w)
        return False, None


def shapes_ok(ck, monitor, regime, entry, prob, out):
    ok = isinstance(out, tuple) and len(out) == 3 and all(isinstance(o, torch.Tensor) for o in out)
    ok = ok and tuple(out[0].shape) == (prob.B, prob.T + 1, prob.ns) and tuple(out[1].shape) == (prob.B, prob.T, prob.nc) \
        and out[2].numel() == prob.B and all(o.dtype == prob.dtype for o in out)
    return ck.check(ok, monitor, regime, entry, "result_shapes_or_dtype",
                    lambda: dict(prob.describe(), got=[list(o.shape) for o in out] if isinstance(out, tuple) else repr(type(out))))


def disturb_time(rng, sysobj, prob):
    """Leave the system object at an arbitrary non-zero time, through the public API."""
    k = int(rng.integers(3))
    if k == 0:
        sysobj.reset(int(rng.integers(1, 30)))
    elif k == 1:
        sysobj.systime = int(rng.integers(1, 30))
    else:
        for _ in range(int(rng.integers(1, 4))):
            sysobj(tt(rng.standard_normal((prob.B, prob.ns)), prob.dtype), tt(rng.standard_normal((prob.B, prob.nc)), prob.dtype))
    return int(sysobj.systime)


def nominal(rng, prob, kind):
    if kind == "none":
        return None
    if kind == "zeros":
        return torch.zeros(prob.B, prob.T, prob.nc, dtype=prob.dtype)
    mag = (1.0 if kind == "rand" else 10.0) * prob.units
    if kind == "hold":
        # hold-input nominal: one input per batch item expanded over the horizon (time steps share memory)
        return tt(rng.standard_normal((prob.B, 1, prob.nc)) * prob.units, prob.dtype).expand(prob.B, prob.T, prob.nc)
    return tt(rng.standard_normal((prob.B, prob.T, prob.nc)) * mag, prob.dtype)


def marks_for(ck, prob):
    ck.mark("family/" + prob.family)
    ck.mark("dtype/" + prob.dn)
    ck.mark(f"B={prob.B}")
    if prob.T in (1, 2, 20):
        ck.mark(f"T={prob.T}")
    if prob.ns == 1 and prob.T >= 2:
        ck.mark("n_state=1/T>=2/B>=2" if prob.B >= 2 else "n_state=1/T>=2/B=1")
        if prob.family == "LTI-shared":
            ck.mark("n_state=1/T>=2/unbatched-A")
    if prob.ns == prob.nc:
        ck.mark("n_state==n_ctrl")
    if prob.kappa >= 1e5:
        ck.mark("kappa>=1e5")
    if prob.rho > 1:
        ck.mark("rho>1")
    ck.mark("units/%g" % prob.units)
    ck.mark("cost-scale/%g" % prob.cost_scale)
    if not prob.q_tv and prob.B >= 2 and prob.T == prob.B:
        ck.mark("Q/time-invariant/T==B")
    ck.mark("c1/" + prob.c1_kind)
    ck.mark("Q/per-step" if prob.q_tv else "Q/time-invariant")
    if prob.family == "LTV-idx":
        ck.mark("LTV-idx/period<T" if prob.P < prob.T else "LTV-idx/period>=T")
        if prob.phase and prob.P >= prob.T:
            ck.mark("LTV-idx/period>=T/phase-offset")


def run_lqr_problem(ck, rng, prob, pid):
    marks_for(ck, prob)
    sysobj = prob.make()
    if rng.random() < 0.3:
        # object lifecycle: the system was used (its clock moved) and then deep-copied; the controller is built on the copy
        disturb_time(rng, sysobj, prob)
        sysobj = copy.deepcopy(sysobj)
        ck.mark("solve/on-a-deep-copied-system")
    okc, lqr = ck.call("lqr_start", f"{prob.family}/{prob.dn}/constructor", "LQR.__init__",
                       lambda: pp.module.LQR(sysobj, prob.tQ, prob.tp, prob.T), witness=prob.describe())
    if not okc:
        return          # a valid problem (positive-definite cost, any units) refused by the constructor: reported by ck.call
    handed_out = []          # (solve, output tuple, clones): results of earlier solves are the caller's
    n_solves = int(rng.integers(1, 6))
    x_init = prob.new_x_init(rng)
    seen = {}
    kept_ut = None
    last_U = None
    first_disturbed = rng.random() < 0.5
    for j in range(n_solves):
        hist = "first" if j == 0 else "repeat"
        if (j == 0 and first_disturbed) or (j > 0 and rng.random() < 0.5):
            t_now = disturb_time(rng, sysobj, prob)
            hist += "/systime!=0"
            if j == 0 and t_now != 0:
                ck.mark("solve/systime!=0-before-first")
        if j > 0:
            ck.mark("solve/second-on-same-object")
            if prob.ltv():
                ck.mark("solve/second-on-same-object/LTV")
            if rng.random() < 0.35:
                x_init = prob.new_x_init(rng)
            if rng.random() < 0.3:
                okc, lqr2 = ck.call("lqr_start", f"{prob.family}/{prob.dn}/constructor", "LQR.__init__",
                                    lambda: pp.module.LQR(sysobj, prob.tQ, prob.tp, prob.T), witness=prob.describe())      # new solver, same system object
                lqr = lqr2 if okc else lqr
        uk = str(rng.choice(["none", "zeros", "rand", "rand", "big", "hold"]))
        if uk in ("rand", "big", "hold"):
            ck.mark("solve/nonzero-u_traj")
        if uk == "hold":
            ck.mark("solve/expanded-u_traj")
        ut = nominal(rng, prob, uk)
        if j > 0 and last_U is not None and rng.random() < 0.3:
            # warm start: the previous solution (of this or of the previous initial state), perturbed in its last digits
            ut = (last_U * tt(1 + 1e-6 * rng.standard_normal(tuple(last_U.shape)), prob.dtype)).contiguous()
            uk = "warm-start-from-previous-solution"
            ck.mark("solve/warm-start")
        elif j > 0 and kept_ut is not None and kept_ut.is_contiguous() and rng.random() < 0.5:
            # receding-horizon style history: the SAME nominal tensor object as in the previous solve, updated in place
            # (shifted and refilled) in between - the solve must depend on its current contents only
            with torch.no_grad():
                kept_ut[:, :-1] = kept_ut[:, 1:].clone()
                kept_ut[:, -1] = tt(rng.standard_normal((prob.B, prob.nc)) * prob.units, prob.dtype)
            ut, uk = kept_ut, "same-tensor-updated-in-place"
            ck.mark("solve/same-u_traj-object-updated-in-place")
        kept_ut = ut if (ut is not None and ut.is_contiguous()) else kept_ut
        ut_before = None if ut is None else ut.clone()
        dt = 1 if prob.ltv() else rng.choice([1, 1, 2, 0.5])
        regime = lqr_regime(prob, uk, hist)
        wit = dict(prob.describe(), solve=j, u_traj=uk, history=hist, systime_before=int(sysobj.systime))
        okc, out = call_solver(ck, "lqr_start", regime, "LQR", prob, lambda: lqr(x_init, dt, ut), wit)
        if ut is not None:
            # the nominal trajectory is the caller's: it must come back unchanged (and the result must not alias it)
            ck.count("lqr_nominal_untouched", regime, key=(pid, j))
            ck.check(torch.equal(ut, ut_before), "lqr_nominal_untouched", regime, "LQR", "nominal_u_traj_modified_by_solve", wit)
        if not okc or not shapes_ok(ck, "lqr_start", regime, "LQR", prob, out):
            continue
        for (j0, o0, c0) in handed_out:
            ck.count("lqr_independence", regime + "/kept", key=(pid, j, j0))
            ck.check(all(torch.equal(a_, b_) for a_, b_ in zip(o0, c0)), "lqr_independence", regime, "LQR", "result_of_an_earlier_solve_changed_by_a_later_solve",
                     dict(wit, earlier_solve=j0, changed=[n_ for n_, a_, b_ in zip(("x", "u", "cost"), o0, c0) if not torch.equal(a_, b_)]))
        handed_out = (handed_out + [(j, tuple(out[:3]), tuple(t_.detach().clone() for t_ in out[:3]))])[-3:]
        X, Uo, Co = f64(out[0]), f64(out[1]), f64(out[2]).reshape(-1)
        last_U = out[1].detach().clone()
        x0 = f64(x_init)
        for b in range(prob.B):
            r = check_solution(ck, rng, prob, b, X[b], Uo[b], Co[b], x0[b], regime, "LQR", (pid, j, b), "lqr_",
                               u_nom=None if ut_before is None else f64(ut_before)[b])
            if r is None:
                continue
            k = (b, x0[b].tobytes())
            if k in seen and r["judged"]:
                ref = seen[k]
                ck.count("lqr_independence", regime, key=(pid, j, b))
                ck.ratio("lqr_independence", regime, np.abs(r["u"] - ref["u"]).max(),
                         2 * C_DENSE * u_of(prob.dtype) * r["cond"] * max(np.abs(r["us"]).max(), 1e-300), "LQR",
                         "solution_depends_on_nominal_trajectory_or_history",
                         lambda: dict(wit, b=b, u_now=r["u"].tolist(), u_earlier=ref["u"].tolist(), earlier=ref["how"]))
            elif r["judged"]:
                r["how"] = {"solve": j, "u_traj": uk, "history": hist}
                seen[k] = r
        if len(ck.samples) < 4 and j == 0:
            ck.sample({"problem": prob.describe(), "x_init": x0[0].tolist(), "u0": Uo[0, 0].tolist(), "cost": float(Co[0])})


# ----------------------------------------------------------------------------- MPC
def make_stepper(rng):
    k = int(rng.integers(4))
    if k == 0:
        return None, "default"
    steps = int(rng.choice([1, 2, 3, 10]))
    return pp.utils.ReduceToBason(steps=steps, verbose=False), f"steps={steps}"


def run_mpc_linear(ck, rng, prob, pid):
    marks_for(ck, prob)
    ck.mark("mpc/linear/" + ("LTV" if prob.ltv() else "LTI"))
    sysobj = prob.make()
    stepper, sk = make_stepper(rng)
    okc, mpc = call_solver(ck, "mpc_linear_start", "construct", "MPC", prob,
                           lambda: pp.module.MPC(sysobj, prob.tQ, prob.tp, prob.T, stepper=stepper), prob.describe())
    if not okc:
        return
    x_init = prob.new_x_init(rng)
    for j in range(int(rng.integers(1, 4))):
        hist = "first" if j == 0 else "repeat"
        if rng.random() < 0.5:
            disturb_time(rng, sysobj, prob)
            hist += "/systime!=0"
        uk = str(rng.choice(["none", "rand", "big"]))
        ut = nominal(rng, prob, uk)
        regime = f"mpc/{prob.family}/{prob.dn}/{sk}/u_init:{uk}/{hist}"
        wit = dict(prob.describe(), solve=j, u_init=uk, stepper=sk)
        okc, out = call_solver(ck, "mpc_linear_start", regime, "MPC", prob, lambda: mpc(1, x_init, u_init=ut), wit)
        if not okc or not shapes_ok(ck, "mpc_linear_start", regime, "MPC", prob, out):
            continue
        X, Uo, Co, x0 = f64(out[0]), f64(out[1]), f64(out[2]).reshape(-1), f64(x_init)
        check_solution(ck, rng, prob, 0, X[0], Uo[0], Co[0], x0[0], regime, "MPC", (pid, j, 0), "mpc_linear_")


def spy_on(mpc):
    """Record the cost MPC hands to its stepper after every iterative-LQR pass."""
    log, orig = [], mpc.stepper.step

    def step(loss):
        log.append(float(torch.as_tensor(loss).detach().double().reshape(-1)[0]))
        return orig(loss)
    mpc.stepper.step = step
    return log


def diverged(log):
    a = np.asarray(log, dtype=np.float64)
    return bool(a.size and (not np.isfinite(a).all() or np.abs(a).max() > 1e6 * (1 + abs(a[0]))))


def check_nls_traj(ck, step_ref, Q, p, x, u, cost, x0, dtype, regime, entry, key, wit):
    """step_ref(x_t, u_t, t) -> (next state, round-off magnitude) from a separate copy of the dynamics."""
    ud = u_of(dtype)
    T = u.shape[0]
    base = lambda: dict(wit, x=x.tolist(), u=u.tolist(), cost=float(cost))
    ck.count("mpc_nls_start", regime, key=key)
    if not (np.isfinite(x).all() and np.isfinite(u).all() and np.isfinite(cost)):
        ck.violation("mpc_nls_start", regime, entry, "non_finite_solution", base())
        return
    ck.ratio("mpc_nls_start", regime, np.abs(x[0] - x0).max(), 0.0, entry, "trajectory_does_not_start_at_x_init", base)
    res, mag = np.empty((T, x.shape[1])), np.empty((T, x.shape[1]))
    for t in range(T):
        nxt, m = step_ref(x[t], u[t], t)
        res[t], mag[t] = x[t + 1] - nxt, m
    ck.count("mpc_nls_dynamics", regime, n=T, key=key)
    ratios(ck, "mpc_nls_dynamics", regime, np.abs(res), C_NLS * ud * mag + 1e-300, entry, "nonlinear_dynamics_violated_at_some_step",
           lambda i: dict(base(), step=int(i // x.shape[1]), residual=res.tolist()))
    J, Jabs = R.cost_along(Q, p, x, u)
    ck.count("mpc_nls_cost", regime, key=key)
    ck.ratio("mpc_nls_cost", regime, abs(J - cost), C_COST * ud * Jabs, entry, "reported_cost_differs_from_cost_along_trajectory",
             lambda: dict(base(), recomputed=J))


def mpc_cost(rng, T, N, dtype, kappa_max):
    kappa = float(10 ** rng.uniform(0, kappa_max))
    if rng.random() < 0.3:
        Q = np.tile(np.eye(N), (1, T, 1, 1))
    else:
        Q = np.stack([[gen.spd(rng, N, cond=kappa, scale=10 ** rng.uniform(-0.5, 0.5)) for _ in range(T)]])
    tQ = tt(Q, dtype)
    tQ = 0.5 * (tQ + tQ.mT)
    tp = tt(rng.standard_normal((1, T, N)), dtype)
    return tQ, tp


def run_mpc_cartpole(ck, rng, dn, pid):
    dtype = DT[dn]
    dt = float(rng.choice([0.01, 0.02, 0.05]))
    length, mc, mp_, g = float(rng.uniform(0.5, 2.0)), float(rng.uniform(1, 30)), float(rng.uniform(0.5, 12)), 9.81
    T = int(rng.integers(1, 11))
    tQ, tp = mpc_cost(rng, T, 5, dtype, 2)
    th = float(rng.choice([np.pi, 0.0, rng.uniform(-3, 3)]))
    x_init = tt([[rng.normal() * 0.3, rng.normal() * 0.3, th, rng.normal() * 0.3]], dtype)
    uk = str(rng.choice(["none", "sin", "rand"]))
    ut = None if uk == "none" else tt(np.sin(np.arange(T) * dt)[None, :, None], dtype) if uk == "sin" else \
        tt(rng.standard_normal((1, T, 1)), dtype)
    stepper, sk = make_stepper(rng)
    sysobj = CartPole(dt, length, mc, mp_, g)
    mpc = pp.module.MPC(sysobj, tQ, tp, T, stepper=stepper)
    log = spy_on(mpc)
    wit = {"system": "cartpole", "dt": dt, "length": length, "cartmass": mc, "polemass": mp_, "T": T, "dtype": dn,
           "x_init": f64(x_init).tolist(), "u_init": uk, "stepper": sk}
    ck.mark("mpc/cartpole")
    Qr, pr = f64(tQ)[0], f64(tp)[0]
    step = lambda x, u, t: D.cartpole_ref(x, u, dt, length, mc, mp_, g)
    for j in range(int(rng.integers(1, 3))):
        regime = f"cartpole/{dn}/{sk}/u_init:{uk}/{'first' if j == 0 else 'repeat'}"
        try:
            out = mpc(dt, x_init, u_init=ut)
        except Exception as e:  # noqa
            if diverged(log):
                ck.mark("mpc/ilqr-diverged-not-judged")
                return
            ck.violation("mpc_nls_start", regime, "MPC", "raised:" + type(e).__name__,
                         dict(wit, exception=repr(e)[:500], iteration_costs=list(log), traceback=traceback.format_exc(limit=-6)[-1500:]))
            return
        if diverged(log):
            ck.mark("mpc/ilqr-diverged-not-judged")
            return
        del log[:]
        ok = isinstance(out, tuple) and len(out) == 3 and tuple(out[0].shape) == (1, T + 1, 4) and tuple(out[1].shape) == (1, T, 1)
        if not ck.check(ok, "mpc_nls_start", regime, "MPC", "result_shapes_or_dtype", wit):
            return
        check_nls_traj(ck, step, Qr, pr, f64(out[0])[0], f64(out[1])[0], float(f64(out[2]).reshape(-1)[0]), f64(x_init)[0],
                       dtype, regime, "MPC", (pid, j), wit)


def run_mpc_nls(ck, rng, dn, pid):
    dtype = DT[dn]
    n, m = int(rng.integers(1, 5)), int(rng.integers(1, 4))
    time_dep = bool(rng.random() < 0.7)
    S = D.SmoothSystem(rng, n, m, 1, kind="mild", depth=2, time_dep=time_dep)
    T = int(rng.integers(1, 13))
    tQ, tp = mpc_cost(rng, T, n + m, dtype, 2)
    x_init = tt(rng.uniform(-1, 1, (1, n)), dtype)
    uk = str(rng.choice(["none", "rand"]))
    ut = None if uk == "none" else tt(rng.uniform(-1, 1, (1, T, m)), dtype)
    stepper, sk = make_stepper(rng)
    sysobj = GenNLS(S)
    mpc = pp.module.MPC(sysobj, tQ, tp, T, stepper=stepper)
    log = spy_on(mpc)
    dt = 1 if time_dep else rng.choice([1, 0.1])
    wit = {"system": S.describe(), "T": T, "dtype": dn, "x_init": f64(x_init).tolist(), "u_init": uk, "stepper": sk, "dt": float(dt)}
    ck.mark("mpc/nls")
    if time_dep:
        ck.mark("mpc/nls/time-dependent")
    Qr, pr = f64(tQ)[0], f64(tp)[0]
    step = lambda x, u, t: (S.f_ref(x, u, t), S.f_mag(x, u, t))
    for j in range(int(rng.integers(1, 3))):
        if j:
            sysobj.reset(int(rng.integers(1, 9)))           # stale time before the repeated solve
        regime = f"nls/{dn}/{sk}/u_init:{uk}/{'first' if j == 0 else 'repeat'}" + ("/time-dep" if time_dep else "")
        try:
            out = mpc(dt, x_init, u_init=ut)
        except Exception as e:  # noqa
            if diverged(log):
                ck.mark("mpc/ilqr-diverged-not-judged")
                return
            ck.violation("mpc_nls_start", regime, "MPC", "raised:" + type(e).__name__,
                         dict(wit, exception=repr(e)[:500], iteration_costs=list(log), traceback=traceback.format_exc(limit=-6)[-1500:]))
            return
        if diverged(log):
            ck.mark("mpc/ilqr-diverged-not-judged")
            return
        del log[:]
        ok = isinstance(out, tuple) and len(out) == 3 and tuple(out[0].shape) == (1, T + 1, n) and tuple(out[1].shape) == (1, T, m)
        if not ck.check(ok, "mpc_nls_start", regime, "MPC", "result_shapes_or_dtype", wit):
            return
        check_nls_traj(ck, step, Qr, pr, f64(out[0])[0], f64(out[1])[0], float(f64(out[2]).reshape(-1)[0]), f64(x_init)[0],
                       dtype, regime, "MPC", (pid, j), wit)


# ----------------------------------------------------------------------------- driver
FORCED = [
    {"ns": 1, "T": 5, "B": 2, "family": "LTI"}, {"ns": 1, "T": 2, "B": 3, "family": "LTI-shared"},
    {"ns": 1, "T": 7, "B": 1, "family": "LTI-shared"}, {"ns": 1, "T": 6, "B": 2, "family": "LTV-idx"},
    {"ns": 1, "nc": 1, "T": 20, "B": 3, "family": "LTV-func"},
    {"T": 1}, {"T": 1, "family": "LTV-idx"}, {"T": 2}, {"T": 20}, {"T": 20, "family": "LTV-idx", "B": 3},
    {"ns": 3, "nc": 3, "family": "LTV-idx"}, {"ns": 2, "nc": 2, "family": "LTI"}, {"ns": 6, "nc": 6, "T": 12},
    {"kappa": 1e6, "family": "LTI"}, {"kappa": 1e6, "family": "LTV-idx"}, {"B": 1}, {"B": 2}, {"B": 3},
    {"family": "LTV-idx", "c1": "tv", "T": 6, "P": 3}, {"family": "LTV-idx", "c1": "tv", "T": 5, "P": 8},
    {"family": "LTI", "c1": "none"}, {"family": "LTV-func", "c1": "const", "T": 9},
]


def run(ck):
    rng = ck.rng("c14")
    thorough = ck.tier == "thorough"
    pid = 0
    # ---- forced corners (split over shards), then random problems
    for rep in range(3 if thorough else 1):
        for i, force in enumerate(FORCED):
            pid += 1
            if not ck.mine(pid):
                continue
            dn = "f64" if (i + rep) % 3 else "f32"
            force = dict(force)
            if dn == "f32" and force.get("kappa"):
                force["kappa"] = 1e3
            run_lqr_problem(ck, rng, Problem(rng, dn, force), (ck.shard, pid))
    n_rand = 500 if thorough else 14
    for i in range(n_rand):
        pid += 1
        dn = "f64" if i % 3 else "f32"
        run_lqr_problem(ck, rng, Problem(rng, dn), (ck.shard, pid))
    # ---- MPC on linear systems
    for i in range(150 if thorough else 6):
        pid += 1
        dn = "f64" if i % 3 else "f32"
        force = {"ns": 1, "T": 4, "family": "LTI-shared"} if i == 1 else {}
        run_mpc_linear(ck, rng, Problem(rng, dn, force, mpc=True), (ck.shard, pid))
    # ---- MPC on nonlinear systems
    for i in range(100 if thorough else 4):
        pid += 1
        run_mpc_cartpole(ck, rng, "f64" if i % 2 == 0 else "f32", (ck.shard, pid))
    for i in range(100 if thorough else 4):
        pid += 1
        run_mpc_nls(ck, rng, "f64" if i % 2 == 0 else "f32", (ck.shard, pid))

    ck.require("solve/second-on-same-object", "solve/second-on-same-object/LTV", "solve/systime!=0-before-first",
               "solve/nonzero-u_traj", "cost-scale/1e-08", "cost-scale/1e+06", "Q/time-invariant/T==B", "solve/on-a-deep-copied-system", "LTV-idx/period>=T/phase-offset", "solve/warm-start", "units/1", "units/1e-06", "units/100000", "solve/expanded-u_traj", "solve/same-u_traj-object-updated-in-place", "family/LTI", "family/LTI-shared", "family/LTV-idx", "family/LTV-func",
               "dtype/f64", "dtype/f32", "B=1", "B=2", "B=3", "T=1", "T=2", "T=20",
               "n_state=1/T>=2/B>=2", "n_state=1/T>=2/unbatched-A", "n_state==n_ctrl", "kappa>=1e5", "rho>1",
               "c1/none", "c1/const", "c1/tv", "Q/per-step", "Q/time-invariant", "LTV-idx/period<T", "LTV-idx/period>=T",
               "mpc/linear/LTI", "mpc/linear/LTV", "mpc/cartpole", "mpc/nls", "mpc/nls/time-dependent")
    ck.floor("lqr_gradient", 2000)
    ck.floor("lqr_dynamics", 1000)
    ck.floor("lqr_cost", 150)
    ck.floor("lqr_perturbation", 600)
    ck.floor("lqr_vs_dense", 100)
    ck.floor("lqr_independence", 30)
    ck.floor("mpc_linear_gradient", 200)
    ck.floor("mpc_nls_dynamics", 100)
    ck.floor("mpc_nls_cost", 20)
