"""Brute-force reference geometry (numpy float64 / longdouble; never imports pypose).

  kabsch / umeyama         optimal rigid / similarity alignment of corresponding 3-D point
                           sets (with the det(U)det(V) reflection correction), plus the
                           spectrum that tells how well the optimum is determined
  sse                      sum of squared residuals of a 4x4 (scaled) rigid matrix, longdouble
  closest_sq               squared distance to the closest point, O(n m)
  ref_icp                  the textbook closest-point iteration run to a fixed point
  pairwise / knn_rows      O(n m) distance matrix in norm 1 / 2 / inf, stable ordering, gaps
  radius_counts            number of OTHER points within a radius + margin of the decision
  voxel_keys               voxel membership floor((p - min) / size) + margin of the decision
  project / unproject      pinhole model  u = fx x/z + cx,  v = fy y/z + cy
"""
import numpy as np

from . import lie_ref as L

LD = np.longdouble
INF = float("inf")


# ----------------------------------------------------------------------------- rotations
def random_quat(rng, n, max_angle=np.pi):
    """Unit quaternions (xyzw, float64).  max_angle == pi: uniform over SO(3) (normalised
    Gaussian 4-vectors); otherwise random axis with the angle uniform in [0, max_angle]."""
    if max_angle >= np.pi:
        q = rng.standard_normal((n, 4))
        q /= np.linalg.norm(q, axis=-1, keepdims=True)
        return q
    axis = rng.standard_normal((n, 3))
    ang = rng.uniform(0, max_angle, n)
    return np.asarray(L.axis_angle_quat(axis, ang), dtype=np.float64)


def mat4(q, t, s=1.0):
    """4x4 longdouble matrix [s R(q), t; 0 1] (q is normalised inside quat_R)."""
    return L.group_matrix("Sim3", np.concatenate([np.asarray(t, dtype=np.float64).reshape(3),
                                                  np.asarray(q, dtype=np.float64).reshape(4),
                                                  np.array([s], dtype=np.float64)]))


def apply4(M, p):
    """Rows of p (n,3) mapped by the 4x4 matrix M, longdouble."""
    p = L.ld(p)
    return p @ M[:3, :3].T + M[:3, 3]


def small_rotation(rng, angle):
    axis = rng.standard_normal(3)
    return np.asarray(L.quat_R(L.axis_angle_quat(axis, angle)), dtype=LD)


# ----------------------------------------------------------------------------- alignment
def _center(src, tgt):
    src = np.asarray(src, dtype=np.float64)
    tgt = np.asarray(tgt, dtype=np.float64)
    cs, ct = src.mean(0), tgt.mean(0)
    return src - cs, tgt - ct, cs, ct


def kabsch(src, tgt):
    """argmin_{R in SO(3), t} sum |R src_i + t - tgt_i|^2.  Returns (R, t, info) with
    info = singular values d (descending), sign, and lam = (d1+d2, d1+sgn d3, d2+sgn d3):
    the curvatures of the cost along the three rotation directions (lam[2] ~ 0: the optimal
    rotation is not unique)."""
    S, Q, cs, ct = _center(src, tgt)
    H = Q.T @ S
    U, d, Vt = np.linalg.svd(H)
    sgn = 1.0 if np.linalg.det(U) * np.linalg.det(Vt) >= 0 else -1.0
    R = (U * np.array([1.0, 1.0, sgn])) @ Vt
    t = ct - R @ cs
    info = {"d": d, "sgn": sgn, "lam": np.array([d[0] + d[1], d[0] + sgn * d[2], d[1] + sgn * d[2]]),
            "nS": float(np.sqrt((S * S).sum())), "nQ": float(np.sqrt((Q * Q).sum())),
            "cs": float(np.linalg.norm(cs)), "ct": float(np.linalg.norm(ct))}
    return R, t, info


def umeyama(src, tgt):
    """argmin_{s>0, R, t} sum |s R src_i + t - tgt_i|^2 (Umeyama 1991, eq. 40-43)."""
    S, Q, cs, ct = _center(src, tgt)
    H = Q.T @ S
    U, d, Vt = np.linalg.svd(H)
    sgn = 1.0 if np.linalg.det(U) * np.linalg.det(Vt) >= 0 else -1.0
    R = (U * np.array([1.0, 1.0, sgn])) @ Vt
    vs = (S * S).sum()
    s = (d[0] + d[1] + sgn * d[2]) / vs
    t = ct - s * (R @ cs)
    info = {"d": d, "sgn": sgn, "lam": np.array([d[0] + d[1], d[0] + sgn * d[2], d[1] + sgn * d[2]]),
            "nS": float(np.sqrt(vs)), "nQ": float(np.sqrt((Q * Q).sum())),
            "cs": float(np.linalg.norm(cs)), "ct": float(np.linalg.norm(ct))}
    return s, R, t, info


def mat_from(R, t, s=1.0):
    M = np.zeros((4, 4), dtype=LD)
    M[:3, :3] = LD(s) * L.ld(R)
    M[:3, 3] = L.ld(t)
    M[3, 3] = 1
    return M


def residuals(M, src, tgt):
    """|M src_i - tgt_i| per point (longdouble)."""
    r = apply4(M, src) - L.ld(tgt)
    return np.sqrt((r * r).sum(-1))


def sse(M, src, tgt):
    r = apply4(M, src) - L.ld(tgt)
    return float((r * r).sum())


def perturb(M, rng, mag, what):
    """A (scaled) rigid matrix near M: rotation by angle ~mag about a random axis through the
    origin or the centroid-free frame, translation ~mag*tscale, log-scale ~mag."""
    P = np.array(M, dtype=LD)
    if "r" in what:
        dR = small_rotation(rng, mag)
        P[:3, :3] = dR @ P[:3, :3]
    if "t" in what:
        P[:3, 3] = P[:3, 3] + L.ld(rng.standard_normal(3) * mag)
    if "s" in what:
        P[:3, :3] = P[:3, :3] * LD(np.exp(rng.choice([-1.0, 1.0]) * mag))
    return P


def rot_err(Ra, Rb):
    """max |Ra - Rb| entrywise (both 3x3, any scale)."""
    return float(np.abs(L.ld(Ra) - L.ld(Rb)).max())


def pose_err(M, Mtrue):
    """(rotation angle between the rotation blocks, |t - t_true|) of two rigid 4x4 matrices."""
    dR = L.ld(M[:3, :3]) @ L.ld(Mtrue[:3, :3]).T
    return float(L.rotation_angle(dR)), float(np.sqrt(((L.ld(M[:3, 3]) - L.ld(Mtrue[:3, 3])) ** 2).sum()))


# ----------------------------------------------------------------------------- closest points
def closest_sq(A, B, chunk=256):
    """min_j |A_i - B_j|^2 for every row of A, and the arg min (float64, O(n m))."""
    A = np.asarray(A, dtype=np.float64)
    B = np.asarray(B, dtype=np.float64)
    out = np.empty(A.shape[0])
    arg = np.empty(A.shape[0], dtype=np.int64)
    for i in range(0, A.shape[0], chunk):
        d = ((A[i:i + chunk, None, :] - B[None, :, :]) ** 2).sum(-1)
        arg[i:i + chunk] = d.argmin(-1)
        out[i:i + chunk] = d.min(-1)
    return out, arg


def mean_closest_sq(M, src, tgt):
    """Mean over the source points of the squared distance of M src_i to the closest target."""
    moved = np.asarray(apply4(M, src), dtype=np.float64)
    return float(closest_sq(moved, tgt)[0].mean())


def ref_icp(src, tgt, M0=None, iters=300):
    """Textbook ICP (closest point, Kabsch, apply, repeat) until the matching stops changing
    or `iters` is reached.  Returns (4x4 float64 matrix source->target, converged flag)."""
    src = np.asarray(src, dtype=np.float64)
    tgt = np.asarray(tgt, dtype=np.float64)
    M = np.eye(4) if M0 is None else np.asarray(M0, dtype=np.float64)
    last = None
    for _ in range(iters):
        cur = src @ M[:3, :3].T + M[:3, 3]
        _, arg = closest_sq(cur, tgt)
        if last is not None and np.array_equal(arg, last):
            return M, True
        last = arg
        R, t, _ = kabsch(src, tgt[arg])
        M = np.eye(4)
        M[:3, :3], M[:3, 3] = R, t
    return M, False


# ----------------------------------------------------------------------------- neighbours
def pairwise(a, b, ord=2):
    """(n, m) matrix of ord-norm distances between the rows of a and b (float64)."""
    a = np.asarray(a, dtype=np.float64)
    b = np.asarray(b, dtype=np.float64)
    diff = np.abs(a[:, None, :] - b[None, :, :])
    if ord == 1:
        return diff.sum(-1)
    if ord == 2:
        return np.sqrt((diff * diff).sum(-1))
    if ord == INF:
        return diff.max(-1) if diff.shape[-1] else np.zeros(diff.shape[:2])
    raise ValueError(ord)


def knn_rows(D):
    """Row-wise ascending order of a distance matrix: (sorted values, stable order, gaps)
    where gaps[i, j] = sorted[i, j+1] - sorted[i, j] (n, m-1)."""
    order = np.argsort(D, axis=1, kind="stable")
    vals = np.take_along_axis(D, order, 1)
    gaps = np.diff(vals, axis=1)
    return vals, order, gaps


def radius_counts(D, radius):
    """For a square self-distance matrix: number of OTHER points with distance <= radius per
    row, and the smallest |distance - radius| over the off-diagonal entries (decision margin)."""
    n = D.shape[0]
    off = ~np.eye(n, dtype=bool)
    cnt = ((D <= radius) & off).sum(1)
    margin = float(np.abs(D[off] - radius).min()) if n > 1 else INF
    return cnt, margin


# ----------------------------------------------------------------------------- voxels
def voxel_keys(coords, voxel):
    """Voxel index floor((p - min p) / size) per point (the grid origin is the per-axis
    minimum of the cloud), and the decision margin: the smallest distance of any quotient
    from an integer >= 1 (quotients in [0, 1) are index 0 whatever the rounding, since
    p - min >= 0 exactly)."""
    c = L.ld(coords)
    v = L.ld(voxel)
    q = (c - c.min(0)) / v
    k = np.floor(q).astype(np.int64)
    near = np.rint(q)
    dist = np.abs(q - near)
    dist = np.where(near >= 1, dist, np.inf)
    return k, (float(dist.min()) if dist.size else INF), np.asarray(q, dtype=np.float64)


def groups(keys):
    """dict: voxel key tuple -> list of row indices."""
    out = {}
    for i, k in enumerate(map(tuple, keys.tolist())):
        out.setdefault(k, []).append(i)
    return out


def match_rows(expected, got):
    """Greedy bijection between the rows of two (m, d) arrays: for every expected row the
    closest unused row of `got` (max-norm).  Returns (assignment, per-row error); shapes must
    agree (checked by the caller)."""
    expected = np.asarray(expected, dtype=np.float64)
    got = np.asarray(got, dtype=np.float64)
    m = expected.shape[0]
    assign = np.full(m, -1, dtype=np.int64)
    err = np.full(m, np.inf)
    if m == 0:
        return assign, err
    if expected.shape[1] == 0:
        return np.arange(m), np.zeros(m)
    C = np.abs(expected[:, None, :] - got[None, :, :]).max(-1)
    C = np.where(np.isnan(C), np.inf, C)
    used = np.zeros(got.shape[0], dtype=bool)
    # most constrained first: rows whose best candidate is worst go last
    for i in np.argsort(C.min(1)):
        c = np.where(used, np.inf, C[i])
        j = int(c.argmin())
        assign[i], err[i] = j, c[j]
        used[j] = True
    return assign, err


def row_index(rows, cloud):
    """Index in `cloud` of every row of `rows` by exact (bitwise value) equality, -1 if the
    row is not a row of the cloud; ambiguous (duplicated cloud rows) -> first index."""
    rows = np.ascontiguousarray(np.asarray(rows, dtype=np.float64))
    cloud = np.ascontiguousarray(np.asarray(cloud, dtype=np.float64))
    table = {}
    for i, r in enumerate(cloud):
        table.setdefault(r.tobytes(), i)
    return np.array([table.get(r.tobytes(), -1) for r in rows], dtype=np.int64)


# ----------------------------------------------------------------------------- pinhole
def project(pc, fx, fy, cx, cy):
    """Camera-frame points (n,3) -> pixels (n,2), longdouble."""
    pc = L.ld(pc)
    z = pc[..., 2]
    return np.stack([LD(fx) * pc[..., 0] / z + LD(cx), LD(fy) * pc[..., 1] / z + LD(cy)], -1)


def unproject(px, depth, fx, fy, cx, cy):
    px, depth = L.ld(px), L.ld(depth)
    return np.stack([(px[..., 0] - LD(cx)) * depth / LD(fx), (px[..., 1] - LD(cy)) * depth / LD(fy), depth], -1)


def rigid(q, t, p):
    """R(q) p + t for rows of p (longdouble; q normalised)."""
    return L.ld(p) @ L.quat_R(q).T + L.ld(t)


def rigid_inv(q, t, p):
    return (L.ld(p) - L.ld(t)) @ L.quat_R(q)


# ----------------------------------------------------------------------------- PnP conditioning
def epnp_system(pw, px, fx, fy, cx, cy):
    """The 2N x 12 linear system M x = 0 of the EPnP formulation (Lepetit et al. 2009, eq. 5-7)
    for control points = centroid + principal axes scaled by the square roots of the eigenvalues
    of the scatter matrix, float64.  Used only to *measure* how well the input determines the
    null vector (singular values, descending); the pose itself is never computed from it."""
    pw = np.asarray(pw, dtype=np.float64)
    px = np.asarray(px, dtype=np.float64)
    c0 = pw.mean(0)
    X = pw - c0
    w, V = np.linalg.eigh(X.T @ X)
    ctrl = np.concatenate([c0[None], c0[None] + (np.sqrt(np.maximum(w, 0))[:, None] * V.T)], 0)   # (4,3)
    A = np.concatenate([ctrl, np.ones((4, 1))], 1)
    P = np.concatenate([pw, np.ones((len(pw), 1))], 1)
    try:
        alpha = P @ np.linalg.inv(A)                     # (N,4), rows sum to 1
    except np.linalg.LinAlgError:
        return None
    n = len(pw)
    M = np.zeros((2 * n, 12))
    for j in range(4):
        M[0::2, 3 * j] = alpha[:, j] * fx
        M[0::2, 3 * j + 2] = alpha[:, j] * (cx - px[:, 0])
        M[1::2, 3 * j + 1] = alpha[:, j] * fy
        M[1::2, 3 * j + 2] = alpha[:, j] * (cy - px[:, 1])
    return np.linalg.svd(M, compute_uv=False) if n >= 6 else np.linalg.svd(M.T @ M, compute_uv=False) ** 0.5


# ----------------------------------------------------------------------------- batched alignment
def align_batch(src, tgt, with_scale):
    """Kabsch / Umeyama for a stack (B, n, 3) of corresponding sets (float64, numpy stacked SVD).
    Returns the (B,4,4) longdouble reference optimum and the per-item spectrum / norms."""
    src = np.asarray(src, dtype=np.float64)
    tgt = np.asarray(tgt, dtype=np.float64)
    B, n = src.shape[:2]
    cs, ct = src.mean(1), tgt.mean(1)
    S, Q = src - cs[:, None], tgt - ct[:, None]
    H = np.einsum("bni,bnj->bij", Q, S)
    U, d, Vt = np.linalg.svd(H)
    sgn = np.where(np.linalg.det(U) * np.linalg.det(Vt) >= 0, 1.0, -1.0)
    Dg = np.ones((B, 3))
    Dg[:, 2] = sgn
    R = (U * Dg[:, None, :]) @ Vt
    vs = (S * S).sum((1, 2))
    s = (d * Dg).sum(1) / vs if with_scale else np.ones(B)
    t = ct - s[:, None] * np.einsum("bij,bj->bi", R, cs)
    M = np.zeros((B, 4, 4), dtype=LD)
    M[:, :3, :3] = L.ld(s)[:, None, None] * L.ld(R)
    M[:, :3, 3] = L.ld(t)
    M[:, 3, 3] = 1
    info = {"d": d, "sgn": sgn, "s": s, "nS": np.sqrt(vs), "nQ": np.sqrt((Q * Q).sum((1, 2))),
            "cs": np.linalg.norm(cs, axis=-1), "ct": np.linalg.norm(ct, axis=-1)}
    return M, info


def sse_batch(M, src, tgt):
    """Sum of squared residuals per item for stacks M (B,4,4), src/tgt (B,n,3); longdouble."""
    p, q = L.ld(src), L.ld(tgt)
    r = np.einsum("bij,bnj->bni", L.ld(M)[:, :3, :3], p) + L.ld(M)[:, None, :3, 3] - q
    return np.asarray((r * r).sum((1, 2)), dtype=np.float64)
