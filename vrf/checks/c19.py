"""C19 — splines interpolate and are equivariant; APE/RPE are alignment-invariant; the geodesic
loss is the rotation angle.

All oracles are relations or longdouble reference matrices (vrf/oracles/lie_ref.py); nothing is
computed with the function under test or a pypose function sharing its code:

  chspline   interpolation at the integer times, exactness on uniformly sampled straight lines
             (this is the clause that sees the tangents), sample count (N-1)k+1;
  bspline    constant-twist motions T0 Exp(t xi) reproduced at the documented sample times,
             left-equivariance, continuity across the knots, extrapolate=True end poses;
  ape / rpe  zero on identical trajectories, rpe invariant under left multiplication of either
             trajectory, ape(align[, scale]) invariant under a rigid (similarity) transform of the
             estimate, Max >= RMSE >= Mean >= Min >= 0, the returned statistics are statistics of
             one error vector, arguments untouched, second identical call identical, and (only on
             inputs where the documented error formulas leave no room: equal rotations,
             frame pairing) the documented pairs / translation errors themselves; ape on trajectories
             of different lengths (estimate longer / shorter) against the error of the estimate aligned
             by an own Umeyama fit (translation / angle error types);
  geodesic   rotation angle in [0, pi] of R_x R_y^T from reference matrices, symmetry, reductions.
"""
import math
from fractions import Fraction

import numpy as np
import torch
import pypose as pp

from .. import lie
from ..oracles import lie_ref as L

PID = "C19"
LEVEL = "exploration"
SHARDS = {"quick": 4, "thorough": 16}
TIMEOUT = {"quick": 1800, "thorough": 7200}
RULE = ("chspline: every point count 2..60 x a list of intervals (1/3, 0.1, 0.7, 0.5, just below/above 0.5, 1/7, 0.999, "
        "1e-3, random in (0,1)) x dims 1..6 x batch shapes x {f32,f64}, random points and random straight lines; "
        "bspline: pose counts 4..60 (2..60 with extrapolate), same interval list, batch shapes, both dtypes: "
        "constant-twist trajectories (rotation per step up to 3.0 rad), random walks for equivariance under a random "
        "fixed pose, interval 1e-3 for continuity; ape/rpe: random-walk trajectories of 3..200 poses (incl. 3, 4, 200), "
        "estimate = noisy / transformed / sub-sampled / denser copy in its own frame and scale, timestamps with jitter <= 0.4*diff and spacing >= 5*diff, "
        "offsets, all five error types, frame and distance pairing with/without all_pairs and rpair; geodesic_loss: all "
        "eight LieTensor types and mixed group types, relative angle on a ladder from 0 over eps, sqrt(eps) to pi-1e-12 and "
        "pi, random axes, batch shapes, both dtypes, the three reductions and the module. One case = one call with its "
        "inputs; distinct = distinct (regime, parameters, input digest); trivial = empty relation (nothing compared).")
ASSUME = ["longdouble reference matrices of lie_ref (validated against mpmath in C01)",
          "chspline sample count k = #{j : j*interval < 1} counted in double arithmetic; where the exact-rational count, the "
          "double count and ceil(1/interval) differ the interval is ambiguous: the count clause is not judged there, the "
          "other clauses use the k implied by the output length (which must be one of the candidate counts)",
          "bspline time parametrisation from the docstring: segment i uses poses i..i+3 and covers [t_{i+1}, t_{i+2}), "
          "sample l of a segment is at t_{i+1} + l*interval, one extra sample at the end of the last segment",
          "tolerances c*u*scale with u the eps of the input dtype: chspline 64 u max|p|; bspline 256 u (rotation) and "
          "256 u (1+max|t| + max_steps |dt|/max(theta, sqrt(u))) (translation; the last term is the conditioning of Exp/Log "
          "of a relative pose with small rotation theta, never looser than the sqrt(u)|dt| C01/C02 allow); "
          "metrics 512 u (1+max|t|), for ape with align/scale 2048 u (1+max|t|) times the alignment condition number s1/(s2+s3) times "
          "max(1, max|t| / RMS extent) (centring); geodesic 64 u / max(sin(angle), sqrt(u)) (an acos-based implementation would also pass)",
          "bspline continuity: jump at a knot <= 10 x the larger neighbouring step at interval 1e-3 (+ 256 u scale)",
          "ape/rpe: the statistics named STD / Median are accepted with either ddof (0/1) and any value between the two "
          "middle order statistics; STD is judged only for >= 2 errors",
          "relative rotations of bspline inputs stay <= 3.0 rad (Log is discontinuous at pi), alignment problems with "
          "s1/(s2+s3) > 1e4 are skipped and counted",
          "CPU only"]

LD = np.longdouble
C_CH, C_BS, C_MET, C_ALIGN, C_GEO = 64.0, 256.0, 512.0, 2048.0, 64.0
ETYPES = ("translation", "rotation", "pose", "radian", "degree")
STATS = ("Max", "Min", "Mean", "Median", "RMSE", "SSE", "STD")


def f64(x):
    return np.asarray(x, dtype=np.float64)


def npdt(dn):
    return np.float32 if dn == "f32" else np.float64


# ---------------------------------------------------------------------------------------------
# chspline
# ---------------------------------------------------------------------------------------------
def k_candidates(interval):
    """(double count, exact-rational count, ceil(1/interval) in double)."""
    kd = 0
    while float(kd) * interval < 1.0:
        kd += 1
    fr, kx = Fraction(interval), 0
    while kx * fr < 1:
        kx += 1
    return kd, kx, int(math.ceil(1.0 / interval))


def interval_list(rng, n_random):
    fixed = [1 / 3, 0.1, 0.7, 0.5, float(np.nextafter(0.5, 0)), float(np.nextafter(0.5, 1)), 0.2, 0.3, 0.25, 1 / 7, 1 / 6,
             1 / 9, 0.999, 0.9, 0.51, 0.05, 0.013, float(np.nextafter(1 / 3, 1)), float(np.nextafter(1.0, 0))]
    return fixed + [float(v) for v in rng.uniform(0.02, 0.999, n_random)]


def spline_shapes():
    return [(), (1,), (3,), (2, 3), (2, 1, 2)]


def sample_times(N, k, interval, dn):
    """Times of the (N-1)k+1 chspline samples, longdouble, from the documented grid t + j*interval."""
    idx = np.arange((N - 1) * k + 1)
    seg, j = idx // k, idx % k
    if dn == "f32":
        step = (np.arange(k, dtype=np.float64) * interval).astype(np.float32).astype(LD)   # grid as representable in f32
    else:
        step = np.arange(k, dtype=LD) * LD(interval)
    return seg.astype(LD) + step[j]


def check_chspline(ck, rng, N, interval, D, shape, dn, scale):
    dtype = lie.DT[dn]
    u = lie.u_of(dtype)
    entry = "chspline"
    kd, kx, kc = k_candidates(interval)
    unamb = kd == kx == kc
    reg = f"{dn}/{'unamb' if unamb else 'ambiguous-count'}/rank{len(shape)}"
    for kind in ("random", "line"):
        if kind == "random":
            P = rng.standard_normal(shape + (N, D)) * scale
        else:
            a = rng.standard_normal(shape + (1, D)) * scale * rng.choice([0.0, 1.0, 100.0])
            b = rng.standard_normal(shape + (1, D)) * scale
            P = f64(L.ld(a) + L.ld(b) * np.arange(N, dtype=LD)[:, None])
        pts = torch.as_tensor(P).to(dtype)
        wit = {"N": N, "interval": float(interval).hex(), "dim": D, "batch": list(shape), "dtype": dn, "kind": kind,
               "k_double": kd, "k_exact": kx, "k_ceil": kc}
        ok, out = ck.call("chspline.count", reg, entry, pp.chspline, pts, interval, witness=wit)
        if not ok:
            continue
        M = int(out.shape[-2]) if out.dim() >= 2 else -1
        wit["n_out"] = M
        good_shape = out.dim() == pts.dim() and tuple(out.shape[:-2]) == shape and out.shape[-1] == D and out.dtype == dtype
        ck.check(good_shape, "chspline.count", reg, entry, "output_shape_or_dtype", dict(wit, shape=list(out.shape)))
        if not good_shape:
            continue
        if unamb:
            k = kd
            ck.count("chspline.count", reg, key=(N, interval, D, shape, dn, kind))
            if not ck.check(M == (N - 1) * k + 1, "chspline.count", reg, entry, "sample_count_not_(N-1)k+1", wit):
                # the other clauses need the index <-> time map
                if (M - 1) % (N - 1) or (M - 1) // (N - 1) < 1:
                    continue
                k = (M - 1) // (N - 1)
        else:
            ck.note_add("chspline_ambiguous_count_intervals_seen")
            ck.mark("chspline/ambiguous-count-interval")
            if (M - 1) % (N - 1) or (M - 1) // (N - 1) not in (kd, kx, kc):
                ck.count("chspline.count", reg, key=(N, interval, D, shape, dn, kind))
                ck.check(False, "chspline.count", reg, entry, "sample_count_matches_no_reading", wit)
                continue
            k = (M - 1) // (N - 1)
        o = out.detach().double().numpy()
        pin = pts.detach().double().numpy()
        sc = float(np.abs(pin).max()) + 1e-300
        if kind == "random":
            # passes through every input point at the integer times
            at = o[..., np.arange(N) * k, :]
            err = np.abs(at - pin).max()
            ck.count("chspline.interp", reg, key=(N, interval, D, shape, dn))
            ck.ratio("chspline.interp", reg, err, C_CH * u * sc, entry, "misses_input_point_at_integer_time", wit)
            if N == 2:
                ck.mark("chspline/N=2")
        else:
            t = sample_times(N, k, interval, dn)
            rounded = L.ld(pin)
            a_r, b_r = rounded[..., :1, :], (rounded[..., -1:, :] - rounded[..., :1, :]) / LD(N - 1)
            exp_ = a_r + b_r * t[:, None]
            # the rounded input is a line only up to u*|p|: that perturbation is inside the tolerance
            err = float(np.abs(L.ld(o) - exp_).max())
            ck.count("chspline.line", reg, key=(N, interval, D, shape, dn))
            ck.ratio("chspline.line", reg, err, C_CH * u * sc, entry, "straight_line_not_reproduced", wit)
    ck.mark(f"chspline/{dn}")


def run_chspline(ck):
    rng = ck.rng("chspline")
    thorough = ck.tier == "thorough"
    ivs = interval_list(rng, 24 if thorough else 6)
    shapes = spline_shapes()
    case = 0
    for N in range(2, 61):
        reps = len(ivs) if thorough else 5
        pick = list(rng.choice(len(ivs), size=reps, replace=False)) if not thorough else list(range(len(ivs)))
        if N in (2, 3, 60) and not thorough:
            pick = sorted(set(pick) | {0, 1, 2})
        for ii in pick:
            case += 1
            if not ck.mine(case):
                continue
            iv = ivs[int(ii)]
            D = int(rng.integers(1, 7))
            shape = shapes[int(rng.integers(0, len(shapes)))]
            dn = "f64" if rng.random() < 0.6 else "f32"
            scale = float(rng.choice([1e-3, 1.0, 1e3]))
            check_chspline(ck, rng, N, iv, D, shape, dn, scale)
    # a fine grid once per shard (many samples per segment)
    check_chspline(ck, rng, int(rng.integers(2, 12)), 1e-3, 3, (), "f64", 1.0)
    ck.require("chspline/f32", "chspline/f64", "chspline/N=2")
    ck.floor("chspline.interp", 100)
    ck.floor("chspline.line", 100)
    ck.floor("chspline.count", 100)


# ---------------------------------------------------------------------------------------------
# SE3 helpers in the reference domain
# ---------------------------------------------------------------------------------------------
def mats_to_se3(Ms):
    """(..., 4, 4) longdouble rigid matrices -> (..., 7) float64 [t, q]."""
    q = L.R_to_quat(Ms[..., :3, :3])
    return f64(np.concatenate([Ms[..., :3, 3], q], -1))


def se3_mats(X):
    return L.group_matrix("SE3", X.tensor().detach().double().numpy() if hasattr(X, "tensor") else X)


def random_pose_mats(rng, n, t_scale=1.0, max_angle=np.pi):
    X = lie.random_group("SE3", rng, n, torch.float64, max_angle=max_angle, t_scale=t_scale)
    return se3_mats(X)


def random_twists(rng, n, amin, amax, tstep):
    xi = rng.standard_normal((n, 6))
    ang = rng.uniform(amin, amax, n)
    xi[:, 3:] *= (ang / np.linalg.norm(xi[:, 3:], axis=-1))[:, None]
    xi[:, :3] *= tstep
    return xi


def random_walk(rng, nb, N, amax, tstep, t_scale=3.0):
    """nb random walks of N poses: (nb, N, 4, 4) longdouble."""
    T = random_pose_mats(rng, nb, t_scale)
    out = [T]
    for _ in range(N - 1):
        T = np.matmul(T, L.exp_matrix("se3", random_twists(rng, nb, 0.0, amax, tstep)))
        out.append(T)
    return np.stack(out, 1)


def step_cond(Ms, u):
    """max over consecutive poses of |dt| / max(theta, sqrt(u)): Exp/Log of a relative pose with a small
    rotation theta lose accuracy u*|dt|/theta in the translation block (never worse than sqrt(u)*|dt|, the
    translation accuracy C01/C02 demand of Exp/Log); that conditioning is not bspline's."""
    if Ms.shape[1] < 2:
        return 0.0
    R = Ms[..., :3, :3]
    rel = np.matmul(np.swapaxes(R[:, :-1], -1, -2), R[:, 1:])
    th = f64(L.rotation_angle(rel))
    dt = f64(np.sqrt(((Ms[:, 1:, :3, 3] - Ms[:, :-1, :3, 3]) ** 2).sum(-1)))
    return float((dt / np.maximum(th, math.sqrt(u))).max())


def pose_tensor(Ms, shape, dn):
    """(nb, N, 4, 4) matrices -> SE3 LieTensor of shape  shape + (N, 7)."""
    X = mats_to_se3(Ms)
    return lie.lt("SE3", X.reshape(shape + X.shape[1:]), lie.DT[dn])


def mat_err(A, B):
    """rotation-block max abs error and translation 2-norm error between stacks of 4x4 matrices."""
    er = np.abs(A[..., :3, :3] - B[..., :3, :3]).max((-1, -2))
    et = np.sqrt(((A[..., :3, 3] - B[..., :3, 3]) ** 2).sum(-1))
    return f64(er), f64(et)


# ---------------------------------------------------------------------------------------------
# bspline
# ---------------------------------------------------------------------------------------------
def bspline_k(ck, M, nseg, interval, reg, entry, wit, monitor):
    kd, kx, kc = k_candidates(interval)
    if (M - 1) % nseg or (M - 1) // nseg not in (kd, kx, kc):
        ck.check(False, monitor, reg, entry, "sample_count_matches_no_reading", dict(wit, n_out=M, k=(kd, kx, kc)))
        return None
    return (M - 1) // nseg


def check_bspline_twist(ck, rng, N, interval, shape, dn):
    dtype, u = lie.DT[dn], lie.u_of(lie.DT[dn])
    entry, mon = "bspline", "bspline.twist"
    nb = int(np.prod(shape)) if shape else 1
    amax = float(rng.choice([0.05, 1.0, 3.0]))
    xi = random_twists(rng, nb, 0.01 * amax, amax, float(rng.choice([0.01, 1.0, 10.0])))
    T0 = random_pose_mats(rng, nb, float(rng.choice([0.0, 1.0, 100.0])))
    ts = np.arange(N, dtype=LD)
    Ms = np.matmul(T0[:, None], L.exp_matrix("se3", ts[None, :, None] * L.ld(xi)[:, None, :]))
    poses = pose_tensor(Ms, shape, dn)
    reg = f"{dn}/rank{len(shape)}/step-angle<={amax}"
    wit = {"N": N, "interval": float(interval).hex(), "batch": list(shape), "dtype": dn, "xi": xi[0].tolist(),
           "T0": f64(mats_to_se3(T0[:1])).tolist()}
    ok, out = ck.call(mon, reg, entry, pp.bspline, poses, interval, witness=wit)
    if not ok:
        return
    good = (pp.is_SE3(out) and tuple(out.shape[:-2]) == shape and out.shape[-1] == 7 and out.dtype == dtype)
    ck.check(good, mon, reg, entry, "output_shape_or_type", dict(wit, shape=list(out.shape)))
    if not good:
        return
    M = int(out.shape[-2])
    k = bspline_k(ck, M, N - 3, interval, reg, entry, wit, mon)
    if k is None:
        return
    idx = np.arange(M)
    seg = np.minimum(idx // k, N - 4)
    l = idx - seg * k
    if dn == "f32":
        frac = (np.arange(k, dtype=np.float64) * interval).astype(np.float32).astype(LD)[np.minimum(l, k - 1)]
    else:
        frac = np.minimum(l, k - 1).astype(LD) * LD(interval)
    t = (seg + 1).astype(LD) + np.where(idx == M - 1, LD(1), frac)
    # reference from the *rounded* input poses: T(t) = T_rounded[seg] Exp((t - seg) xi)
    Pin = se3_mats(poses).reshape(nb, N, 4, 4)
    ref = np.matmul(Pin[:, seg], L.exp_matrix("se3", (t - seg.astype(LD))[None, :, None] * L.ld(xi)[:, None, :]))
    O = se3_mats(out).reshape(nb, M, 4, 4)
    er, et = mat_err(O, ref)
    sc = 1.0 + float(np.abs(ref[..., :3, 3]).max()) + step_cond(Ms, u)
    ck.count(mon, reg, key=(N, interval, shape, dn, xi.tobytes()))
    ck.ratio(mon, reg, er.max(), C_BS * u, entry, "constant_twist_rotation_wrong_at_sample_time", wit)
    ck.ratio(mon, reg, et.max(), C_BS * u * sc, entry, "constant_twist_translation_wrong_at_sample_time", wit)
    if N == 4:
        ck.mark("bspline/N=4")
    ck.mark(f"bspline/{dn}")
    if len(ck.samples) < 3:
        ck.sample({"what": "bspline constant twist", **wit, "rot_err_over_u": float(er.max() / u)})


def check_bspline_equiv(ck, rng, N, interval, shape, dn, extrapolate):
    dtype, u = lie.DT[dn], lie.u_of(lie.DT[dn])
    entry, mon = "bspline", "bspline.equivariance"
    nb = int(np.prod(shape)) if shape else 1
    amax = float(rng.choice([0.3, 1.5, 2.8]))
    Ms = random_walk(rng, nb, N, amax, float(rng.choice([0.1, 1.0, 10.0])))
    G = random_pose_mats(rng, 1, float(rng.choice([1.0, 100.0])))[0]
    poses = pose_tensor(Ms, shape, dn)
    Gt = lie.lt("SE3", mats_to_se3(G[None])[0], dtype)
    reg = f"{dn}/rank{len(shape)}/extrapolate={extrapolate}"
    wit = {"N": N, "interval": float(interval).hex(), "batch": list(shape), "dtype": dn, "extrapolate": extrapolate,
           "G": Gt.tensor().tolist(), "poses_head": poses.tensor().reshape(-1, 7)[:4].tolist()}
    moved = Gt @ poses
    ok1, a = ck.call(mon, reg, entry, pp.bspline, moved, interval, extrapolate, witness=wit)
    ok2, b = ck.call(mon, reg, entry, pp.bspline, poses, interval, extrapolate, witness=wit)
    if not (ok1 and ok2):
        return
    if not ck.check(a.shape == b.shape, mon, reg, entry, "shapes_differ", dict(wit, a=list(a.shape), b=list(b.shape))):
        return
    # compare in reference matrices, using the actually moved (rounded) input poses' frame: G_eff = moved[0] poses[0]^-1
    A, B = se3_mats(a), se3_mats(b)
    Gm = se3_mats(Gt)
    er, et = mat_err(A, np.matmul(Gm, B))
    sc = 1.0 + float(np.abs(A[..., :3, 3]).max()) + float(np.abs(B[..., :3, 3]).max()) + step_cond(Ms, u)
    ck.count(mon, reg, key=(N, interval, shape, dn, extrapolate, Ms[0, 0].tobytes()))
    ck.ratio(mon, reg, er.max(), C_BS * u, entry, "not_left_equivariant_rotation", wit)
    ck.ratio(mon, reg, et.max(), C_BS * u * sc, entry, "not_left_equivariant_translation", wit)
    # extrapolate: first / last sample are the first / last pose
    if extrapolate:
        Pin = se3_mats(poses)
        e0r, e0t = mat_err(B[..., 0, :, :], Pin[..., 0, :, :])
        e1r, e1t = mat_err(B[..., -1, :, :], Pin[..., -1, :, :])
        sc2 = 1.0 + float(np.abs(Pin[..., :3, 3]).max()) + step_cond(Ms, u)
        ck.count("bspline.ends", reg, key=(N, interval, shape, dn, Ms[0, 0].tobytes()))
        ck.ratio("bspline.ends", reg, max(e0r.max(), e0t.max() / sc2), C_BS * u, entry, "extrapolate_does_not_start_at_first_pose", wit)
        ck.ratio("bspline.ends", reg, max(e1r.max(), e1t.max() / sc2), C_BS * u, entry, "extrapolate_does_not_end_at_last_pose", wit)
        if N < 4:
            ck.mark("bspline/extrapolate/N<4")


def check_bspline_continuity(ck, rng, N, shape, dn, extrapolate):
    dtype, u = lie.DT[dn], lie.u_of(lie.DT[dn])
    entry, mon = "bspline", "bspline.continuity"
    nb = int(np.prod(shape)) if shape else 1
    Ms = random_walk(rng, nb, N, float(rng.choice([0.3, 1.5, 2.8])), float(rng.choice([0.1, 1.0, 10.0])))
    poses = pose_tensor(Ms, shape, dn)
    reg = f"{dn}/rank{len(shape)}/extrapolate={extrapolate}"
    wit = {"N": N, "interval": 1e-3, "batch": list(shape), "dtype": dn, "extrapolate": extrapolate,
           "poses_head": poses.tensor().reshape(-1, 7)[:5].tolist()}
    ok, out = ck.call(mon, reg, entry, pp.bspline, poses, 1e-3, extrapolate, witness=wit)
    if not ok:
        return
    M = int(out.shape[-2])
    nseg = (N + 4 - 3) if extrapolate else (N - 3)
    k = bspline_k(ck, M, nseg, 1e-3, reg, entry, wit, mon)
    if k is None:
        return
    O = f64(se3_mats(out).reshape(nb, M, 4, 4)[..., :3, :])
    d = np.sqrt(((O[:, 1:] - O[:, :-1]) ** 2).sum((-1, -2)))           # (nb, M-1) step sizes
    sc = 1.0 + float(np.abs(O[..., 3]).max()) + step_cond(Ms, u)
    worst, wj = 0.0, None
    for j in range(1, nseg + 1):
        i = j * k                                                       # knot sample index
        nbr = d[:, i - 2]
        if i < M - 1:
            nbr = np.maximum(nbr, d[:, i])
        r = (d[:, i - 1] / (10.0 * nbr + C_BS * u * sc)).max()
        if r > worst:
            worst, wj = float(r), j
    ck.count(mon, reg, n=nseg, key=(N, shape, dn, extrapolate, Ms[0, 0].tobytes()))
    ck.ratio(mon, reg, worst, 1.0, entry, "jump_at_knot", dict(wit, knot=wj, k=k))


def run_bspline(ck):
    rng = ck.rng("bspline")
    thorough = ck.tier == "thorough"
    ivs = interval_list(rng, 12 if thorough else 4)
    shapes = spline_shapes()
    case = 0
    for N in range(2, 61):
        reps = 16 if thorough else 3
        for _ in range(reps):
            case += 1
            if not ck.mine(case):
                continue
            iv = ivs[int(rng.integers(0, len(ivs)))] if rng.random() < 0.8 else [1 / 3, 0.1, 0.7][int(rng.integers(0, 3))]
            shape = shapes[int(rng.integers(0, len(shapes)))]
            dn = "f64" if rng.random() < 0.6 else "f32"
            if N >= 4:
                check_bspline_twist(ck, rng, N, iv, shape, dn)
                check_bspline_equiv(ck, rng, N, iv, shape, dn, False)
            check_bspline_equiv(ck, rng, N, iv, shape, dn, True)
    ncont = 24 if thorough else 4
    for c in range(ncont):
        N = int(rng.choice([4, 5, 7, 12, 25, 60])) if c else 4
        shape = [(), (2,)][int(rng.integers(0, 2))] if N <= 12 else ()
        dn = "f64" if c % 3 != 2 else "f32"
        check_bspline_continuity(ck, rng, N, shape, dn, False)
        check_bspline_continuity(ck, rng, max(2, N - 2), shape, dn, True)
    ck.require("bspline/f32", "bspline/f64", "bspline/N=4", "bspline/extrapolate/N<4")
    ck.floor("bspline.twist", 40)
    ck.floor("bspline.equivariance", 80)
    ck.floor("bspline.ends", 40)
    ck.floor("bspline.continuity", 40)


# ---------------------------------------------------------------------------------------------
# ape / rpe
# ---------------------------------------------------------------------------------------------
def sim_apply(S, Ms):
    """Apply a similarity S = (s, R, t) (4x4 with sR block) to rigid matrices: t' = s R t + t0, R' = R R_x."""
    s = np.cbrt(np.linalg.det(f64(S[:3, :3])))
    R = S[:3, :3] / LD(s)
    out = Ms.copy()
    out[..., :3, :3] = np.matmul(R, Ms[..., :3, :3])
    out[..., :3, 3] = np.matmul(Ms[..., :3, 3], S[:3, :3].T) + S[:3, 3]
    return out


def perturbed(rng, Ms, rot, trans):
    n = Ms.shape[0]
    xi = rng.standard_normal((n, 6))
    xi[:, :3] *= trans
    xi[:, 3:] *= rot
    return np.matmul(Ms, L.exp_matrix("se3", xi))


def make_stamps(rng, N, diff):
    t0 = float(rng.choice([0.0, 17.25, 1311868163.87]))
    gaps = rng.uniform(5 * diff, 30 * diff, N)
    gaps[0] = 0
    return t0 + np.cumsum(gaps)


def as_stats(ck, res, monitor, regime, entry, wit):
    """dict of 0-dim tensors -> dict of floats (or None with a violation)."""
    if not isinstance(res, dict) or any(k not in res for k in STATS):
        ck.check(False, monitor, regime, entry, "result_is_not_the_documented_dict", dict(wit, got=repr(res)[:300]))
        return None
    try:
        return {k: float(res[k]) for k in STATS}
    except Exception:
        ck.check(False, monitor, regime, entry, "result_is_not_the_documented_dict", dict(wit, got=repr(res)[:300]))
        return None


class Traj:
    """A (stamps, poses) pair as passed to pp.metric; remembers bitwise copies of what was passed."""

    def __init__(self, stamps, Ms, dn="f64", stamp_dtype=torch.float64):
        self.M = Ms
        self.poses = lie.lt("SE3", mats_to_se3(Ms), lie.DT[dn])
        self.stamps = None if stamps is None else torch.as_tensor(np.asarray(stamps, dtype=np.float64)).to(stamp_dtype)
        self.snap()

    def snap(self):
        self._p = self.poses.tensor().clone()
        self._s = None if self.stamps is None else self.stamps.clone()

    def untouched(self):
        a = torch.equal(self._p, self.poses.tensor()) and self.poses.ltype is pp.SE3_type
        b = self.stamps is None or (torch.equal(self._s, self.stamps) and self.stamps.dtype == self._s.dtype)
        return a and b

    def tmax(self):
        return float(np.abs(f64(self.M[..., :3, 3])).max())


def call_metric(ck, which, ref, est, regime, n_expected=None, twice=False, **kw):
    """One monitored call of pp.metric.ape / rpe: success, purity, ordering, internal consistency."""
    fn = pp.metric.ape if which == "ape" else pp.metric.rpe
    entry = "metric." + which
    wit = {"which": which, "kwargs": {k: v for k, v in kw.items()}, "n_ref": int(ref.poses.shape[0]),
           "n_est": int(est.poses.shape[0]), "regime": regime}
    ref.snap()
    est.snap()
    ok, res = ck.call("metric.call", regime, entry, fn, ref.stamps, ref.poses, est.stamps, est.poses, witness=wit, **kw)
    if not ok:
        return None
    off = "offset!=0" if kw.get("offset", 0.0) != 0.0 else "offset=0"
    ck.count("metric.purity", f"{which}/{off}", key=(regime, repr(sorted(kw.items())), ref._p[:2].numpy().tobytes()))
    ck.check(ref.untouched() and est.untouched(), "metric.purity", f"{which}/{off}", entry, "argument_modified",
             lambda: dict(wit, ref_stamps_before=None if ref._s is None else ref._s[:4].tolist(),
                          ref_stamps_after=None if ref.stamps is None else ref.stamps[:4].tolist(),
                          est_stamps_before=None if est._s is None else est._s[:4].tolist(),
                          est_stamps_after=None if est.stamps is None else est.stamps[:4].tolist()))
    st = as_stats(ck, res, "metric.call", regime, entry, wit)
    if st is None:
        return None
    if twice:
        ok2, res2 = ck.call("metric.call", regime, entry, fn, ref.stamps, ref.poses, est.stamps, est.poses, witness=wit, **kw)
        if ok2:
            st2 = as_stats(ck, res2, "metric.call", regime, entry, wit)
            ck.count("metric.purity", f"{which}/{off}/second-call", key=(regime, repr(sorted(kw.items()))))
            same = st2 is not None and all((st[k] == st2[k]) or (st[k] != st[k] and st2[k] != st2[k]) for k in STATS)
            ck.check(same, "metric.purity", f"{which}/{off}/second-call", entry, "second_identical_call_differs",
                     dict(wit, first=st, second=st2))
            ck.mark(f"metric/{off}/second-call")
    # ---- ordering: Max >= RMSE >= Mean >= Min >= 0
    u = 2.0 ** -52
    mx = st["Max"]
    slack = 64 * u * abs(mx) + 1e-300
    etype = kw.get("etype", "translation")
    ck.count("metric.order", f"{which}/{etype}", key=(regime, repr(sorted(kw.items())), ref._p[:2].numpy().tobytes()))
    fin = all(np.isfinite(st[k]) for k in ("Max", "RMSE", "Mean", "Min"))
    ordered = fin and st["Max"] + slack >= st["RMSE"] and st["RMSE"] + slack >= st["Mean"] and \
        st["Mean"] + slack >= st["Min"] and st["Min"] >= 0.0
    ck.check(ordered, "metric.order", f"{which}/{etype}", entry, "Max>=RMSE>=Mean>=Min>=0_violated", dict(wit, stats=st))
    # ---- the statistics are statistics of one vector of n errors
    if fin and n_expected:
        n = n_expected
        ck.count("metric.consistency", f"{which}/{etype}", key=(regime, repr(sorted(kw.items())), ref._p[:2].numpy().tobytes()))
        tol2 = C_MET * u * n * mx * mx + 1e-300
        ck.ratio("metric.consistency", f"{which}/{etype}", abs(st["SSE"] - n * st["RMSE"] ** 2), tol2, entry,
                 "SSE_is_not_n_times_RMSE^2", dict(wit, stats=st, n=n))
        ck.check(st["Min"] - slack <= st["Median"] <= st["Max"] + slack, "metric.consistency", f"{which}/{etype}", entry,
                 "Median_outside_[Min,Max]", dict(wit, stats=st))
        if n >= 2 and np.isfinite(st["STD"]):
            gap = st["RMSE"] ** 2 - st["Mean"] ** 2
            e = min(abs(gap - st["STD"] ** 2 * (n - 1) / n), abs(gap - st["STD"] ** 2))
            ck.ratio("metric.consistency", f"{which}/{etype}", e, C_MET * u * mx * mx + 1e-300, entry,
                     "RMSE^2_is_not_Mean^2+STD^2", dict(wit, stats=st, n=n))
        elif n >= 2:
            ck.check(False, "metric.consistency", f"{which}/{etype}", entry, "STD_not_finite", dict(wit, stats=st, n=n))
    return st


def stat_diffs(a, b, n):
    """Largest discrepancy between two statistic dicts in units of 'per-error' deviation
    (SSE compared through sqrt(SSE/n); STD only if both finite)."""
    d = 0.0
    for k in ("Max", "Min", "Mean", "Median", "RMSE"):
        d = max(d, abs(a[k] - b[k]))
    d = max(d, abs(math.sqrt(max(a["SSE"], 0) / n) - math.sqrt(max(b["SSE"], 0) / n)))
    if n >= 2:
        if np.isfinite(a["STD"]) and np.isfinite(b["STD"]):
            d = max(d, abs(a["STD"] - b["STD"]))
        else:
            d = np.inf
    return d


def etype_scale(etype, tmax):
    if etype in ("translation", "pose"):
        return 1.0 + tmax
    if etype == "degree":
        return 180.0 / np.pi
    return 1.0


# pairing (documented semantics for frames; for distances only used to screen out ties / count pairs)
def pairs_frames(N, delta, all_pairs):
    if all_pairs:
        return [(i, i + delta) for i in range(N - delta)]
    ids = list(range(0, N, delta))
    return list(zip(ids[:-1], ids[1:]))


def pairs_distance(t, delta, rtol, all_pairs):
    """-> (list of index pairs, smallest decision margin) of the path-distance pairing (screening only)."""
    t = f64(t)
    seg = np.linalg.norm(t[1:] - t[:-1], axis=-1)
    if all_pairs:
        D = np.concatenate([[0.0], np.cumsum(seg)])
        pairs, margin = [], np.inf
        tol = delta * rtol
        for i in range(len(D) - 1):
            c = np.abs(D[i + 1:] - D[i] - delta)
            o = np.argsort(c, kind="stable")
            if len(o) > 1:
                margin = min(margin, c[o[1]] - c[o[0]])
            margin = min(margin, abs(c[o[0]] - tol))
            if c[o[0]] <= tol:
                pairs.append((i, i + 1 + int(o[0])))
        return pairs, margin
    path, sel, margin = 0.0, [], np.inf
    for i in range(len(t)):
        path += seg[i - 1] if i else 0.0
        margin = min(margin, abs(path - delta))
        if path >= delta:
            sel.append(i)
            path = 0.0
    return list(zip(sel[:-1], sel[1:])), margin


def passed_translations(traj):
    return traj.poses.tensor()[:, :3].double().numpy()


def pairing_options(ck, rng, N, ref, est, same, ref_m, est_m):
    """A list of (kwargs, n_pairs or None): frame pairings with >= 1 pair; distance pairings whose pair list is
    non-trivial, decided with a clear margin and identical for a trajectory and its left-multiplied copy
    as actually passed (after rounding to the dtype)."""
    out = []
    for all_pairs in (False, True):
        for delta in sorted({1, int(rng.integers(1, max(2, min(8, (N - 1) // 2 + 1))))}):
            n = len(pairs_frames(N, delta, all_pairs))
            if n >= 1:
                out.append((dict(associate="frame", delta=float(delta), all=all_pairs), n))
    for all_pairs in (False, True):
        for rpair in (False, True):
            t0 = passed_translations(ref if rpair else est)
            total = float(np.linalg.norm(t0[1:] - t0[:-1], axis=-1).sum())
            delta = total / float(rng.uniform(3.0, 8.0))
            rtol = float(rng.choice([0.1, 0.3]))
            group = (ref, ref_m) if rpair else (est, est_m)
            lists = [pairs_distance(passed_translations(x), delta, rtol, all_pairs) for x in group]
            other = pairs_distance(passed_translations(ref if rpair else same), delta, rtol, all_pairs)
            thr = 1e-9 * (1.0 + total)
            ok = all(len(pl) >= 2 and mg > thr for pl, mg in lists + [other]) and lists[0][0] == lists[1][0]
            if ok:
                out.append((dict(associate="distance", delta=delta, rtol=rtol, all=all_pairs, rpair=rpair), None))
            else:
                ck.note_add("rpe_distance_pairing_ambiguous_or_empty_skipped")
    return out


def align_condition(ref_t, est_t):
    """(s1 / (s2 + d*s3) of the cross-covariance of the Umeyama/Kabsch problem (d = sign of det),
    RMS extent of the smaller of the two centred point sets)."""
    r, e = f64(ref_t), f64(est_t)
    r = r - r.mean(0)
    e = e - e.mean(0)
    H = r.T @ e / len(r)
    U, S, Vt = np.linalg.svd(H)
    d = np.sign(np.linalg.det(U @ Vt))
    den = S[1] + d * S[2]
    spread = math.sqrt(min((e ** 2).sum(-1).mean(), (r ** 2).sum(-1).mean()))
    if den <= 0 or spread <= 0:
        return np.inf, 0.0
    return float(S[0] / den), spread


def align_scale(etype, tmax, cond, spread, s):
    """Condition-aware magnitude of an aligned APE statistic: the alignment rotation is known to
    u*cond*(tmax/spread) (centring loses tmax/spread digits), the aligned translations to that times tmax."""
    lever = max(1.0, tmax / spread)
    if etype in ("translation", "pose"):
        return (1.0 + tmax) * cond * lever * max(1.0, s, 1.0 / s)
    return cond * lever * max(1.0, s, 1.0 / s) * (180.0 / np.pi if etype == "degree" else 1.0)


def check_metrics(ck, rng, N, dn, force_epoch=False):
    u = lie.u_of(lie.DT[dn])
    amax = float(rng.choice([0.2, 1.0]))
    tstep = float(rng.choice([0.05, 1.0, 20.0]))
    refM = random_walk(rng, 1, N, amax, tstep, t_scale=float(rng.choice([1.0, 50.0])))[0]
    noise_r, noise_t = float(rng.choice([1e-3, 0.05, 0.6])), tstep * float(rng.choice([1e-3, 0.05, 0.5]))
    estM = perturbed(rng, refM, noise_r, noise_t)
    diff = float(rng.choice([0.01, 0.003]))
    base = make_stamps(rng, N, diff)
    offset = float(rng.choice([0.0, 0.0, 0.37, -1.5]))
    jit = rng.uniform(-0.4, 0.4, N) * diff
    use_none = rng.random() < 0.15
    if force_epoch:
        # added by the framework owner: float64 UNIX-epoch timestamps (1.7e9 s, ~20 Hz) with float32 poses - the stamps must
        # keep their own precision whatever the dtype of the poses
        g_ = rng.uniform(5 * diff, 30 * diff, N)
        g_[0] = 0
        base, use_none = 1.7e9 + np.cumsum(g_), False
        ck.mark(f"metric/epoch-stamps/poses:{dn}")
    if use_none:
        rst = est_st = None
        offset, diff_kw = 0.0, {}
    else:
        rst, est_st = base, base + jit - offset
        diff_kw = {"diff": diff, "offset": offset}
    sdt = torch.float64 if (rng.random() < 0.85 or force_epoch) else torch.float32
    if sdt == torch.float32 and not use_none:
        # float32 stamps: keep them exactly representable and well separated
        base32 = np.arange(N) * 0.5 + 3.0
        rst, est_st, diff_kw, offset = base32, base32.copy(), {"diff": 0.01}, 0.0
    ref = Traj(rst, refM, dn, sdt)
    est = Traj(est_st, estM, dn, sdt)
    same = Traj(est_st, refM, dn, sdt)                          # the identical trajectory (own stamps, jittered)
    stamp_tag = "none" if use_none else ("f32" if sdt == torch.float32 else ("offset" if offset else "jitter"))
    ck.mark(f"metric/stamps:{stamp_tag}")
    ck.mark(f"metric/poses:{dn}")
    if N in (3, 200):
        ck.mark(f"metric/N={N}")
    tmax_all = max(ref.tmax(), est.tmax())
    first = True

    # ------------------------------------------------------------------ ape
    for etype in ETYPES:
        base_reg = f"ape/{etype}/{dn}"
        kw = dict(etype=etype, **diff_kw)
        # zero on identical trajectories
        z = call_metric(ck, "ape", ref, same, base_reg + "/identical", n_expected=N, twice=first, **kw)
        first = False
        if z is not None:
            ck.count("metric.zero", base_reg, key=(N, refM[0].tobytes(), etype))
            worst = max(abs(z[k]) for k in ("Max", "Min", "Mean", "Median", "RMSE", "STD"))
            worst = max(worst, math.sqrt(abs(z["SSE"])))
            ck.ratio("metric.zero", base_reg, worst, C_MET * u * etype_scale(etype, tmax_all), "metric.ape",
                     "nonzero_statistics_for_identical_trajectories", {"N": N, "etype": etype, "stats": z, "dtype": dn})
        # plain call on the noisy estimate (ordering / consistency / purity)
        call_metric(ck, "ape", ref, est, base_reg + "/noisy", n_expected=N, twice=(offset != 0.0 and etype == "translation"), **kw)
        # alignment invariance
        for align, scale in ((True, False), (True, True)):       # (False, True) is not covered by the statement
            s = float(np.exp(rng.uniform(-1.2, 1.2))) if scale else 1.0
            G = random_pose_mats(rng, 1, float(rng.choice([1.0, 30.0])))[0]
            S = G.copy()
            S[:3, :3] = S[:3, :3] * LD(s)
            movedM = sim_apply(S, estM)
            moved = Traj(est_st, movedM, dn, sdt)
            reg = f"ape/{etype}/{dn}/align={align}/scale={scale}"
            c1, sp1 = align_condition(refM[:, :3, 3], estM[:, :3, 3])
            c2, sp2 = align_condition(refM[:, :3, 3], movedM[:, :3, 3])
            cond, spread = max(c1, c2), min(sp1, sp2)
            if not np.isfinite(cond) or cond > 1e4:
                ck.note_add("ape_alignment_ill_conditioned_skipped")
                continue
            kw2 = dict(kw, align=align, scale=scale)
            a = call_metric(ck, "ape", ref, est, reg, n_expected=N, **kw2)
            b = call_metric(ck, "ape", ref, moved, reg + "/moved", n_expected=N, **kw2)
            if a is None or b is None:
                continue
            sc = align_scale(etype, max(tmax_all, moved.tmax()), cond, spread, s)
            ck.count("ape.align_invariance", reg, key=(N, refM[0].tobytes(), etype, align, scale))
            ck.ratio("ape.align_invariance", reg, stat_diffs(a, b, N), C_ALIGN * u * sc, "metric.ape",
                     "changed_by_similarity_transform_of_estimate" if scale else "changed_by_rigid_transform_of_estimate",
                     {"N": N, "etype": etype, "align": align, "scale": scale, "s": s, "cond": cond, "dtype": dn,
                      "stats": a, "stats_moved": b, "G": mats_to_se3(G[None])[0].tolist()})
            # the transformed copy of the reference itself aligns to zero (identical + invariance)
            copyM = sim_apply(S, refM)
            cp = Traj(est_st, copyM, dn, sdt)
            c = call_metric(ck, "ape", ref, cp, reg + "/moved-copy-of-ref", n_expected=N, **kw2)
            condc, spreadc = align_condition(refM[:, :3, 3], copyM[:, :3, 3])
            if c is not None and np.isfinite(condc) and condc <= 1e4:
                worst = max(max(abs(c[k]) for k in ("Max", "Min", "Mean", "Median", "RMSE", "STD")), math.sqrt(abs(c["SSE"])))
                sc = align_scale(etype, max(tmax_all, cp.tmax()), condc, spreadc, s)
                ck.count("ape.align_invariance", reg + "/copy", key=(N, refM[0].tobytes(), etype, align, scale))
                ck.ratio("ape.align_invariance", reg + "/copy", worst, C_ALIGN * u * sc, "metric.ape",
                         "transformed_copy_of_reference_not_aligned_to_zero",
                         {"N": N, "etype": etype, "align": align, "scale": scale, "s": s, "cond": condc, "stats": c})

    # ------------------------------------------------------------------ rpe
    G1 = random_pose_mats(rng, 1, float(rng.choice([1.0, 30.0])))[0]
    G2 = random_pose_mats(rng, 1, float(rng.choice([1.0, 30.0])))[0]
    ref_m = Traj(rst, np.matmul(G1, refM), dn, sdt)
    est_m = Traj(est_st, np.matmul(G2, estM), dn, sdt)
    opts = pairing_options(ck, rng, N, ref, est, same, ref_m, est_m)
    tm = max(tmax_all, ref_m.tmax(), est_m.tmax())
    for pk, npairs in opts:
        ptag = f"{pk['associate']}/all={pk['all']}" + ("/rpair" if pk.get("rpair") else "")
        ck.mark("rpe/pairing:" + ptag)
        for etype in ETYPES:
            kw = dict(etype=etype, **diff_kw, **pk)
            reg = f"rpe/{etype}/{dn}/{ptag}"
            z = call_metric(ck, "rpe", ref, same, reg + "/identical", n_expected=npairs, **kw)
            if z is not None:
                keys = ("Max", "Min", "Mean", "Median", "RMSE") + (("STD",) if (npairs or 2) >= 2 and np.isfinite(z["STD"]) else ())
                worst = max(max(abs(z[k]) for k in keys), math.sqrt(abs(z["SSE"])))
                ck.count("metric.zero", reg, key=(N, refM[0].tobytes(), etype, ptag))
                ck.ratio("metric.zero", reg, worst, C_MET * u * etype_scale(etype, tmax_all), "metric.rpe",
                         "nonzero_statistics_for_identical_trajectories", {"N": N, "etype": etype, "pairing": pk, "stats": z})
            a = call_metric(ck, "rpe", ref, est, reg, n_expected=npairs, twice=(offset != 0.0 and etype == "pose"), **kw)
            if a is None:
                continue
            n_eff = npairs or max(2, int(round(a["SSE"] / a["RMSE"] ** 2)) if a["RMSE"] > 0 else 2)
            for tag, r2, e2 in (("left-mult-ref", ref_m, est), ("left-mult-est", ref, est_m), ("left-mult-both", ref_m, est_m)):
                b = call_metric(ck, "rpe", r2, e2, reg + "/" + tag, n_expected=npairs, **kw)
                if b is None:
                    continue
                ck.count("rpe.left_invariance", f"{reg}/{tag}", key=(N, refM[0].tobytes(), etype, ptag, tag))
                ck.ratio("rpe.left_invariance", f"{reg}/{tag}", stat_diffs(a, b, n_eff), C_MET * u * etype_scale(etype, tm),
                         "metric.rpe", "changed_by_left_multiplication_of_a_trajectory",
                         {"N": N, "etype": etype, "pairing": pk, "which": tag, "stats": a, "stats_moved": b, "dtype": dn,
                          "G1": mats_to_se3(G1[None])[0].tolist(), "G2": mats_to_se3(G2[None])[0].tolist()})
    if len(ck.samples) < 8:
        ck.sample({"what": "metric trajectory", "N": N, "dtype": dn, "stamps": stamp_tag, "offset": offset,
                   "first_pose": ref.poses.tensor()[0].tolist()})


def check_planted(ck, rng, N):
    """Equal rotations, translations of the estimate displaced by known vectors: the documented
    translation errors (|d_i| for ape, |d_j - d_i| for the frame pairs (i,j) of rpe) are known."""
    u = 2.0 ** -52
    refM = random_walk(rng, 1, N, 1.0, float(rng.choice([0.1, 1.0, 10.0])))[0]
    sparse = rng.random() < 0.5
    d = rng.standard_normal((N, 3)) * float(rng.choice([0.01, 1.0]))
    if sparse:
        keep = np.zeros(N, bool)
        keep[rng.integers(0, N, size=max(1, N // 10))] = True
        d[~keep] = 0.0
    estM = refM.copy()
    estM[:, :3, 3] = refM[:, :3, 3] + L.ld(d)
    ref, est = Traj(None, refM), Traj(None, estM)
    tr = L.ld(ref.poses.tensor()[:, :3].numpy())
    te = L.ld(est.poses.tensor()[:, :3].numpy())
    dd = te - tr                                                       # displacement of the values actually passed
    tmax = max(ref.tmax(), est.tmax())
    tol = C_MET * u * (1.0 + tmax)

    def judge(which, st, errs, kw, reg):
        e = np.sort(f64(errs))
        n = len(e)
        exp_ = {"Max": e[-1], "Min": e[0], "Mean": e.mean(), "RMSE": math.sqrt((e ** 2).mean()), "SSE": (e ** 2).sum()}
        worst = max(abs(st[k] - exp_[k]) for k in ("Max", "Min", "Mean", "RMSE"))
        worst = max(worst, abs(math.sqrt(st["SSE"] / n) - math.sqrt(exp_["SSE"] / n)))
        lo, hi = e[(n - 1) // 2], e[n // 2]
        worst = max(worst, max(lo - st["Median"], st["Median"] - hi, 0.0))
        if n >= 2:
            worst = max(worst, min(abs(st["STD"] - e.std(ddof=1)), abs(st["STD"] - e.std(ddof=0))))
        ck.count("metric.planted", reg, key=(N, refM[0].tobytes(), repr(sorted(kw.items()))))
        ck.ratio("metric.planted", reg, worst, tol, "metric." + which, "statistics_are_not_those_of_the_documented_errors",
                 {"N": N, "kwargs": kw, "got": st, "expected": {k: float(v) for k, v in exp_.items()}, "n_errors": n,
                  "sparse_displacement": bool(sparse)})

    st = call_metric(ck, "ape", ref, est, "planted/ape", n_expected=N, etype="translation")
    if st is not None:
        judge("ape", st, np.sqrt((dd ** 2).sum(-1)), {"etype": "translation"}, "ape/translation")
    for all_pairs in (False, True):
        for delta in sorted({1, 2, int(rng.integers(1, max(2, (N - 1) // 2 + 1)))}):
            pr = pairs_frames(N, delta, all_pairs)
            if len(pr) < 1:
                continue
            kw = dict(etype="translation", associate="frame", delta=float(delta), all=all_pairs)
            st = call_metric(ck, "rpe", ref, est, f"planted/rpe/all={all_pairs}", n_expected=len(pr), **kw)
            if st is None:
                continue
            i, j = np.array(pr).T
            errs = np.sqrt(((dd[j] - dd[i]) ** 2).sum(-1))
            judge("rpe", st, errs, kw, f"rpe/translation/frame/all={all_pairs}/delta={'1' if delta == 1 else '>1'}")


def umeyama(src, dst, with_scale):
    """Least-squares similarity (s, R, t) with dst ~ s R src + t (Umeyama 1991), numpy float64 SVD,
    refined products in longdouble.  Independent of pypose."""
    src, dst = L.ld(src), L.ld(dst)
    n = src.shape[0]
    ms, md = src.mean(0), dst.mean(0)
    S, D = src - ms, dst - md
    H = f64(np.matmul(D.T, S) / n)
    U, sig, Vt = np.linalg.svd(H)
    d = np.sign(np.linalg.det(U) * np.linalg.det(Vt))
    M = np.diag([1.0, 1.0, d])
    R = L.ld(U @ M @ Vt)
    var = float((S * S).sum() / n)
    s = LD(float((sig * np.diag(M)).sum()) / var) if with_scale else LD(1)
    t = md - s * np.matmul(R, ms)
    return s, R, t


def stats_vs_errors(st, errs):
    """Largest deviation of the returned statistics from those of the error vector `errs`
    (Median: anywhere between the middle order statistics; STD: either ddof)."""
    e = np.sort(f64(errs))
    n = len(e)
    worst = max(abs(st["Max"] - e[-1]), abs(st["Min"] - e[0]), abs(st["Mean"] - e.mean()),
                abs(st["RMSE"] - math.sqrt((e ** 2).mean())),
                abs(math.sqrt(max(st["SSE"], 0.0) / n) - math.sqrt((e ** 2).sum() / n)))
    lo, hi = e[(n - 1) // 2], e[n // 2]
    worst = max(worst, lo - st["Median"], st["Median"] - hi)
    if n >= 2:
        worst = max(worst, min(abs(st["STD"] - e.std(ddof=1)), abs(st["STD"] - e.std(ddof=0))))
    if not all(np.isfinite(st[k]) for k in ("Max", "Min", "Mean", "Median", "RMSE", "SSE")):
        worst = np.inf
    return float(worst)


def check_unequal(ck, rng, N, mode):
    """Trajectories of different lengths (estimate shorter / longer than the reference / equal): ape with
    align and scale against (a) invariance under a rigid / similarity transform of the estimate and (b) the
    error of the estimate aligned by an own Umeyama fit, for the error types whose documented formula is
    unambiguous (translation, radian, degree)."""
    u = 2.0 ** -52
    refM = random_walk(rng, 1, N, float(rng.choice([0.2, 1.0])), float(rng.choice([0.05, 1.0, 20.0])),
                       t_scale=float(rng.choice([1.0, 50.0])))[0]
    tstep = float(np.linalg.norm(f64(refM[1:, :3, 3] - refM[:-1, :3, 3]), axis=-1).mean())
    estM = perturbed(rng, refM, float(rng.choice([1e-3, 0.05, 0.6])), tstep * float(rng.choice([1e-3, 0.05, 0.5])))
    # the estimate lives in its own frame and scale
    s0 = float(np.exp(rng.uniform(-1.0, 1.0)))
    S0 = random_pose_mats(rng, 1, float(rng.choice([1.0, 30.0])))[0]
    S0[:3, :3] = S0[:3, :3] * LD(s0)
    estM = sim_apply(S0, estM)
    diff = 0.01
    base = make_stamps(rng, N, diff)
    offset = float(rng.choice([0.0, 0.37, -1.5]))
    keep = np.arange(N)
    if mode != "equal":
        keep = np.sort(rng.choice(N, size=max(3, int(N * rng.uniform(0.35, 0.8))), replace=False))
    jit = rng.uniform(-0.4, 0.4, N) * diff
    if mode == "est-longer":
        ref = Traj(base[keep], refM[keep])
        est_full = (base + jit - offset, estM)
    elif mode == "est-shorter":
        ref = Traj(base, refM)
        est_full = ((base + jit - offset)[keep], estM[keep])
    else:
        ref = Traj(base, refM)
        est_full = (base + jit - offset, estM)
    est = Traj(est_full[0], est_full[1])
    nm = len(keep)
    ck.mark(f"ape/lengths:{mode}")
    # the matched poses as actually passed (rounded)
    rA = se3_mats(lie.lt("SE3", mats_to_se3(refM[keep])))
    eA = se3_mats(lie.lt("SE3", mats_to_se3(estM[keep])))
    kw0 = dict(diff=diff, offset=offset)
    for align, scale in ((False, False), (True, False), (True, True)):
        sT, RT, tT = umeyama(eA[:, :3, 3], rA[:, :3, 3], scale) if align else (LD(1), np.eye(3, dtype=LD), np.zeros(3, dtype=LD))
        cond, spread = align_condition(rA[:, :3, 3], eA[:, :3, 3]) if align else (1.0, 1.0)
        if align and (not np.isfinite(cond) or cond > 1e4):
            ck.note_add("ape_alignment_ill_conditioned_skipped")
            continue
        t_al = float(sT) * np.matmul(eA[:, :3, 3], RT.T) + tT
        R_al = np.matmul(RT, eA[:, :3, :3])
        err_t = np.sqrt(((t_al - rA[:, :3, 3]) ** 2).sum(-1))
        err_a = L.rotation_angle(np.matmul(np.swapaxes(R_al, -1, -2), rA[:, :3, :3]))
        tmax = max(float(np.abs(f64(rA[:, :3, 3])).max()), float(np.abs(f64(eA[:, :3, 3])).max()), float(np.abs(f64(t_al)).max()))
        # a similarity (rigid when scale is off) applied to the estimate
        s1 = float(np.exp(rng.uniform(-1.2, 1.2))) if scale else 1.0
        S1 = random_pose_mats(rng, 1, float(rng.choice([1.0, 30.0])))[0]
        S1[:3, :3] = S1[:3, :3] * LD(s1)
        moved = Traj(est_full[0], sim_apply(S1, est_full[1]))
        c2, sp2 = align_condition(rA[:, :3, 3], sim_apply(S1, estM[keep])[:, :3, 3]) if align else (1.0, 1.0)
        for etype in ETYPES:
            reg = f"ape/{etype}/{mode}/align={align}/scale={scale}"
            kw = dict(kw0, etype=etype, align=align, scale=scale)
            a = call_metric(ck, "ape", ref, est, reg, n_expected=nm, **kw)
            if a is None:
                continue
            sc = align_scale(etype, tmax, cond, spread, max(float(sT), 1e-300)) if align else etype_scale(etype, tmax)
            if etype in ("translation", "radian", "degree"):
                errs = err_t if etype == "translation" else (err_a if etype == "radian" else err_a * (180 / np.pi))
                ck.count("ape.aligned_reference", reg, key=(N, mode, align, scale, etype, refM[0].tobytes()))
                ck.ratio("ape.aligned_reference", reg, stats_vs_errors(a, errs), (C_ALIGN if align else C_MET) * u * sc, "metric.ape",
                         "differs_from_error_of_independently_aligned_estimate" if align else "differs_from_documented_error",
                         {"N": N, "n_ref": int(ref.poses.shape[0]), "n_est": int(est.poses.shape[0]), "matched": nm, "etype": etype,
                          "align": align, "scale": scale, "own_scale": float(sT), "cond": cond, "stats": a,
                          "expected_rmse": float(np.sqrt((f64(errs) ** 2).mean()))})
            if align and np.isfinite(c2) and c2 <= 1e4:
                b = call_metric(ck, "ape", ref, moved, reg + "/moved", n_expected=nm, **kw)
                if b is None:
                    continue
                sc2 = align_scale(etype, max(tmax, moved.tmax()), max(cond, c2), min(spread, sp2), s1)
                ck.count("ape.align_invariance", reg, key=(N, mode, align, scale, etype, refM[0].tobytes()))
                ck.ratio("ape.align_invariance", reg, stat_diffs(a, b, nm), C_ALIGN * u * sc2, "metric.ape",
                         "changed_by_similarity_transform_of_estimate" if scale else "changed_by_rigid_transform_of_estimate",
                         {"N": N, "n_ref": int(ref.poses.shape[0]), "n_est": int(est.poses.shape[0]), "matched": nm, "etype": etype,
                          "align": align, "scale": scale, "s": s1, "cond": max(cond, c2), "stats": a, "stats_moved": b})


def run_metrics(ck):
    rng = ck.rng("metrics")
    thorough = ck.tier == "thorough"
    Ns = [3, 4, 5, 200, 199, 64] + [int(v) for v in rng.integers(3, 201, 90 if thorough else 10)]
    for i, N in enumerate(Ns):
        if not ck.mine(i):
            continue
        check_metrics(ck, rng, N, "f64" if i % 4 != 3 else "f32")
    for dn_ in ("f32", "f64"):
        check_metrics(ck, rng, int(rng.integers(5, 60)), dn_, force_epoch=True)
    # offset != 0 with float64 stamps on every shard (the F04 regime), and a None-stamp case
    for _ in range(6 if thorough else 1):
        N = int(rng.integers(3, 40))
        refM = random_walk(rng, 1, N, 0.5, 1.0)[0]
        estM = perturbed(rng, refM, 0.05, 0.05)
        for off in (0.37, -2.5):
            base = make_stamps(rng, N, 0.01)
            for which, kw in (("ape", {}), ("rpe", {}), ("rpe", {"all": True})):
                # estimate longer / shorter than the reference: both association directions
                for drop_ref in (False, True):
                    keep = np.sort(rng.choice(N, size=max(3, N - 2), replace=False)) if N > 4 else np.arange(N)
                    rM, rs = (refM[keep], base[keep]) if drop_ref else (refM, base)
                    eM, es = (estM, base - off) if drop_ref else (estM[keep], base[keep] - off)
                    ref, est = Traj(rs, rM), Traj(es, eM)
                    npairs = len(keep) if which == "ape" else len(pairs_frames(len(keep), 1, kw.get("all", False)))
                    call_metric(ck, which, ref, est, f"offset/{which}/{'ref' if drop_ref else 'est'}-shorter",
                                n_expected=npairs, twice=True, offset=off, **kw)
    modes = ["est-longer", "est-shorter", "equal"]
    for i in range(18 if thorough else 3):
        mode = modes[(i + ck.shard) % 3]
        check_unequal(ck, rng, int(rng.choice([5, 8, 20, 60, 120, 200])), mode)
    npl = 40 if thorough else 8
    for i in range(npl):
        check_planted(ck, rng, int(rng.choice([3, 4, 7, 20, 60, 200])) if i else 3)
    ck.require("metric/epoch-stamps/poses:f32", "metric/epoch-stamps/poses:f64", "metric/stamps:jitter", "metric/poses:f64", "metric/offset!=0/second-call", "metric/N=3", "metric/N=200",
               "rpe/pairing:frame/all=False", "rpe/pairing:frame/all=True", "rpe/pairing:distance/all=False",
               "rpe/pairing:distance/all=True")
    ck.floor("metric.zero", 40)
    ck.floor("ape.align_invariance", 40)
    ck.floor("rpe.left_invariance", 100)
    ck.floor("metric.order", 300)
    ck.floor("metric.consistency", 200)
    ck.floor("metric.purity", 300)
    ck.floor("metric.planted", 20)
    ck.floor("ape.aligned_reference", 60)
    ck.require("ape/lengths:est-longer", "ape/lengths:est-shorter", "ape/lengths:equal")


# ---------------------------------------------------------------------------------------------
# geodesic loss
# ---------------------------------------------------------------------------------------------
def angle_ladder(u):
    su = math.sqrt(u)
    lad = [0.0, u / 4, u, 4 * u, su / 4, su, 4 * su, 1e-3, 0.1, 1.0, 2.0, 3.0]
    lad += [np.pi - x for x in (1e-1, 1e-3, 4 * su, su, su / 4, 1e-9, 1e-12, 0.0)]
    return lad


def rotation_of(kind, data):
    """Reference rotation matrix (longdouble) of the rotation part of a LieTensor's raw data."""
    if kind in L.GRP:
        return L.quat_R(L.split_grp(kind, data)[1])
    _, phi, _ = L.split_alg(kind, data)
    return L.exp_matrix("so3", phi)[..., :3, :3]


def make_rot_pair(rng, kx, ky, n, angles, dtype):
    """Two LieTensors of kinds kx, ky (n items) whose rotation parts differ by the given angles."""
    axis = rng.standard_normal((n, 3))
    Ry = L.quat_R(L.axis_angle_quat(rng.standard_normal((n, 3)), rng.uniform(0, np.pi, n)))
    Rd = L.quat_R(L.axis_angle_quat(axis, angles))
    Rx = np.matmul(Rd, Ry)

    def build(kind, R):
        q = L.R_to_quat(R) * rng.choice([-1.0, 1.0], (n, 1))
        t = rng.standard_normal((n, 3)) * 3
        s = np.exp(rng.uniform(-1, 1, n))
        if kind in L.GRP:
            return lie.lt(kind, f64(L.join_grp(kind, L.ld(t), q, L.ld(s))), dtype)
        # algebra: phi = axis*angle of R (angle in [0, pi]), from the quaternion
        w = np.clip(f64(np.abs(q[:, 3])), 0, 1)
        v = q[:, :3] * np.sign(q[:, 3:4] + (q[:, 3:4] == 0))
        nv = np.sqrt((v * v).sum(-1))
        ang = 2 * np.arctan2(nv, L.ld(w))
        phi = np.where(nv[:, None] > 0, v / np.where(nv > 0, nv, 1)[:, None] * ang[:, None], 0 * v)
        return lie.lt(kind, f64(L.join_alg(kind, L.ld(t), phi, np.log(s))), dtype)

    return build(kx, Rx), build(ky, Ry)


GEO_MODES = ("plain", "x-requires-grad", "both-require-grad", "parameter", "no_grad")


def check_geodesic(ck, rng, kx, ky, dn, shape, mode="plain"):
    """`mode`: how the arguments take part in autograd when the loss is evaluated - the value is the same angle."""
    if mode == "no_grad":
        with torch.no_grad():
            return check_geodesic(ck, rng, kx, ky, dn, shape, "no_grad-inner")
    dtype, u = lie.DT[dn], lie.u_of(lie.DT[dn])
    entry = "geodesic_loss"
    lad = np.array(angle_ladder(u))
    n = int(np.prod(shape))
    if n == len(lad):
        ang = lad
    else:
        ang = np.where(rng.random(n) < 0.5, rng.choice(lad, n), rng.uniform(0, np.pi, n))
    x, y = make_rot_pair(rng, kx, ky, n, ang, dtype)
    xd, yd = x.tensor().double().numpy(), y.tensor().double().numpy()
    Rx, Ry = rotation_of(kx, xd), rotation_of(ky, yd)
    ref = f64(L.rotation_angle(np.matmul(Rx, np.swapaxes(Ry, -1, -2))))
    tol = C_GEO * u / np.maximum(np.sin(ref), math.sqrt(u))
    xs = pp.LieTensor(x.tensor().reshape(shape + (x.shape[-1],)), ltype=x.ltype)
    ys = pp.LieTensor(y.tensor().reshape(shape + (y.shape[-1],)), ltype=y.ltype)
    reg = f"{kx}-{ky}/{dn}/rank{len(shape)}"
    wit0 = {"kinds": [kx, ky], "dtype": dn, "batch": list(shape), "autograd_mode": mode}
    if mode in ("x-requires-grad", "both-require-grad"):
        xs.requires_grad_(True)
        if mode == "both-require-grad":
            ys.requires_grad_(True)
    elif mode == "parameter":
        xs = pp.Parameter(xs)
    ck.mark("geodesic/mode:" + mode)

    def wit(i):
        return dict(wit0, x=xd[i].tolist(), y=yd[i].tolist(), ref_angle=float(ref[i]), ref_angle_hex=float(ref[i]).hex())

    ok, th = ck.call("geodesic.angle", reg, entry, pp.geodesic_loss, xs, ys, "none", witness=wit0)
    ok2, th2 = ck.call("geodesic.symmetry", reg, entry, pp.geodesic_loss, ys, xs, "none", witness=wit0)
    if not ok:
        return
    if not ck.check(isinstance(th, torch.Tensor) and tuple(th.shape) == shape and th.dtype == dtype, "geodesic.angle", reg, entry,
                    "output_shape_or_dtype", dict(wit0, shape=list(getattr(th, "shape", [])))):
        return
    got = th.detach().double().numpy().reshape(-1)
    for cls, m in (("0", ref == 0), ("(0,sqrt(u)]", (ref > 0) & (ref <= math.sqrt(u))), ("mid", (ref > math.sqrt(u)) & (ref < np.pi - math.sqrt(u))),
                   ("[pi-sqrt(u),pi]", ref >= np.pi - math.sqrt(u))):
        if m.any():
            ck.count("geodesic.angle", f"{reg}/angle:{cls}", n=int(m.sum()), rows=lie.rows(xd[m], yd[m]))
            ck.mark(f"geodesic/angle:{cls}")
    ck.ratios("geodesic.angle", reg, np.abs(got - ref), tol, entry, "not_the_rotation_angle", wit)
    nan_ident = np.isnan(got) & (ref <= math.sqrt(u))
    if nan_ident.any():
        ck.check(False, "geodesic.angle", reg, entry, "nan_for_(nearly)_identical_rotations", wit(int(np.nonzero(nan_ident)[0][0])))
    inrange = (got >= 0) & (got <= np.pi + tol)
    ck.check(bool(np.all(inrange | np.isnan(got))), "geodesic.angle", reg, entry, "outside_[0,pi]",
             lambda: wit(int(np.nonzero(~inrange)[0][0])))
    if ok2 and tuple(th2.shape) == shape:
        g2 = th2.detach().double().numpy().reshape(-1)
        ck.count("geodesic.symmetry", reg, n=n, rows=lie.rows(xd, yd))
        ck.ratios("geodesic.symmetry", reg, np.abs(got - g2), tol, entry, "not_symmetric", wit)
    # reductions (function and module); the default reduction is 'mean'
    for red, fn in (("mean", np.mean), ("sum", np.sum)):
        for how in ("function", "module"):
            call = (lambda: pp.geodesic_loss(xs, ys, red)) if how == "function" else (lambda: pp.module.GeodesicLoss(reduction=red)(xs, ys))
            okr, r = ck.call("geodesic.reduction", f"{reg}/{red}", entry if how == "function" else "module.GeodesicLoss", call, witness=wit0)
            if not okr:
                continue
            ck.count("geodesic.reduction", f"{reg}/{red}/{how}", key=(kx, ky, dn, shape, red, how, xd.tobytes()))
            good = isinstance(r, torch.Tensor) and r.dim() == 0
            if ck.check(good, "geodesic.reduction", f"{reg}/{red}", entry, "reduction_is_not_a_scalar", dict(wit0, got=repr(r)[:200])):
                ck.ratio("geodesic.reduction", f"{reg}/{red}", abs(float(r) - float(fn(ref))), float(fn(tol)) + 4 * u * float(fn(ref)) * n,
                         entry if how == "function" else "module.GeodesicLoss", f"reduction_{red}_wrong",
                         dict(wit0, got=float(r), expected=float(fn(ref)), how=how))
    okn, rn = ck.call("geodesic.reduction", f"{reg}/none-module", "module.GeodesicLoss", lambda: pp.module.GeodesicLoss(reduction="none")(xs, ys), witness=wit0)
    if okn:
        ck.check(isinstance(rn, torch.Tensor) and tuple(rn.shape) == shape and torch.equal(rn.detach(), th.detach()), "geodesic.reduction", f"{reg}/none-module",
                 "module.GeodesicLoss", "module_none_differs_from_function", wit0)
    okd, rd = ck.call("geodesic.reduction", f"{reg}/default", entry, lambda: pp.geodesic_loss(xs, ys), witness=wit0)
    if okd:
        ck.ratio("geodesic.reduction", f"{reg}/default", abs(float(rd) - float(ref.mean())), float(tol.mean()) + 4 * u * float(ref.mean()) * n,
                 entry, "default_reduction_is_not_mean", dict(wit0, got=float(rd), expected=float(ref.mean())))
    if len(ck.samples) < 10:
        i = n // 2
        ck.sample({"what": "geodesic", **wit(i), "got_hex": float(got[i]).hex()})


def check_geodesic_broadcast(ck, rng, kx, ky, dn, sx, sy):
    """Arguments of different batch shapes (one rotation against many, (3,1) against (1,4)): the loss is the angle of every broadcast
    pair, 'mean' / 'sum' reduce over all of them, and it is symmetric in its arguments."""
    dtype, u = lie.DT[dn], lie.u_of(lie.DT[dn])
    nx, ny = int(np.prod(sx)) if sx else 1, int(np.prod(sy)) if sy else 1
    x, _ = make_rot_pair(rng, kx, kx, nx, rng.uniform(0.2, 2.5, nx), dtype)
    y, _ = make_rot_pair(rng, ky, ky, ny, rng.uniform(0.2, 2.5, ny), dtype)
    xs = pp.LieTensor(x.tensor().reshape(tuple(sx) + (x.shape[-1],)), ltype=x.ltype)
    ys = pp.LieTensor(y.tensor().reshape(tuple(sy) + (y.shape[-1],)), ltype=y.ltype)
    Rx = rotation_of(kx, x.tensor().double().numpy()).reshape(tuple(sx) + (3, 3))
    Ry = rotation_of(ky, y.tensor().double().numpy()).reshape(tuple(sy) + (3, 3))
    bs = np.broadcast_shapes(tuple(sx), tuple(sy))
    Rxb, Ryb = np.broadcast_to(Rx, bs + (3, 3)), np.broadcast_to(Ry, bs + (3, 3))
    ref = f64(L.rotation_angle(np.matmul(Rxb, np.swapaxes(Ryb, -1, -2))))
    tol = C_GEO * u / np.maximum(np.sin(ref), math.sqrt(u))
    reg = f"{kx}-{ky}/{dn}/broadcast"
    wit = {"kinds": [kx, ky], "dtype": dn, "shape_x": list(sx), "shape_y": list(sy)}
    for order, (a, b) in (("xy", (xs, ys)), ("yx", (ys, xs))):
        for red, want in (("none", ref), ("mean", ref.mean()), ("sum", ref.sum())):
            ok, r = ck.call("geodesic.reduction", f"{reg}/{red}", "geodesic_loss", pp.geodesic_loss, a, b, red, witness=dict(wit, order=order))
            ck.count("geodesic.reduction", f"{reg}/{red}", key=(kx, ky, dn, tuple(sx), tuple(sy), red, order))
            if not ok:
                continue
            got = r.detach().double().numpy()
            if not ck.check(tuple(got.shape) == (tuple(bs) if red == "none" else ()), "geodesic.reduction", f"{reg}/{red}", "geodesic_loss",
                            "output_shape_or_dtype", dict(wit, order=order, got_shape=list(got.shape))):
                continue
            n_ = ref.size
            t_ = tol if red == "none" else (float(tol.mean()) if red == "mean" else float(tol.sum())) + 4 * u * abs(float(np.sum(want))) * n_
            ck.ratio("geodesic.reduction", f"{reg}/{red}", float(np.abs(got - want).max() / np.min(t_)) if red == "none" else abs(float(got) - float(want)) / t_,
                     1.0, "geodesic_loss", f"reduction_{red}_wrong_for_broadcast_arguments" if red != "none" else "not_the_rotation_angle",
                     dict(wit, order=order, got=got.tolist() if got.size <= 12 else None, expected=np.asarray(want).tolist() if np.size(want) <= 12 else None))
    ck.mark("geodesic/broadcast")


def run_geodesic(ck):
    rng = ck.rng("geodesic")
    thorough = ck.tier == "thorough"
    nl = len(angle_ladder(1.0))
    pairs = [(k, k) for k in lie.GRPS + lie.ALGS] + [("SO3", "SE3"), ("SE3", "SO3"), ("Sim3", "SO3"), ("RxSO3", "SE3"), ("SE3", "Sim3")]
    shapes = [(nl,), (1,), (3,), (2, 3), (2, 1, 3), (1, 1, 1)] + ([(257,), (4, 5, 3)] if thorough else [])
    case = 0
    for kx, ky in pairs:
        for dn in ("f64", "f32"):
            for si, shape in enumerate(shapes):
                case += 1
                if not ck.mine(case):
                    continue
                reps = (6 if thorough else 2) if si == 0 else 1
                for r_ in range(reps):
                    check_geodesic(ck, rng, kx, ky, dn, shape, GEO_MODES[(case + r_) % len(GEO_MODES)])
    if ck.shard == 0:
        for (kx, ky) in (("SO3", "SO3"), ("SE3", "SE3"), ("SE3", "SO3"), ("so3", "so3"), ("Sim3", "RxSO3")):
            for dn in ("f64", "f32"):
                for (sx, sy) in (((), (4,)), ((1,), (5,)), ((3, 1), (1, 4)), ((2, 3), (3,)), ((4,), ())):
                    check_geodesic_broadcast(ck, rng, kx, ky, dn, sx, sy)
    ck.require("geodesic/broadcast")
    ck.require(*["geodesic/mode:" + m_ for m_ in GEO_MODES[:4]], "geodesic/mode:no_grad-inner")
    ck.require("geodesic/angle:0", "geodesic/angle:(0,sqrt(u)]", "geodesic/angle:mid", "geodesic/angle:[pi-sqrt(u),pi]")
    ck.floor("geodesic.angle", 1000)
    ck.floor("geodesic.symmetry", 1000)
    ck.floor("geodesic.reduction", 100)


def oracle_selftest(ck):
    """rotation_angle against exactly known angles (rotations about an axis built in longdouble)."""
    ang = np.array([0.0, 1e-18, 1e-9, 1.0, np.pi - 1e-9, np.pi])
    R = L.quat_R(L.axis_angle_quat(np.tile([[0.3, -0.5, 0.8]], (len(ang), 1)), ang))
    got = f64(L.rotation_angle(R))
    if not np.all(np.abs(got - ang) <= 1e-15 + 1e-15 * ang):
        ck.inconclusive_because("lie_ref.rotation_angle fails its self-test: %r" % (got - ang).tolist())
    kd, kx, kc = k_candidates(1 / 3)
    if (kd, kx, kc) != (3, 4, 3) or k_candidates(0.1) != (10, 10, 10) or k_candidates(0.7) != (2, 2, 2):
        ck.inconclusive_because("sample-count oracle self-test failed")
    if pairs_frames(7, 2, False) != [(0, 2), (2, 4), (4, 6)] or pairs_frames(5, 2, True) != [(0, 2), (1, 3), (2, 4)]:
        ck.inconclusive_because("frame pairing oracle self-test failed")


def run(ck):
    if ck.shard == 0:
        # repeat-call monitor (shared, added by the framework owner): history / reused-object / memory-layout independence
        from .. import repeat
        repeat.run(ck, PID, repeat.table(PID, ck.rng("repeat")))
    oracle_selftest(ck)
    run_chspline(ck)
    run_bspline(ck)
    run_geodesic(ck)
    run_metrics(ck)
