"""Independent reference model of the finite-horizon LQ problem (numpy / torch float64 only).

    minimise   J(u) = sum_{t=0}^{T-1}  1/2 tau_t^T Q_t tau_t + p_t^T tau_t ,   tau_t = [x_t, u_t]
    subject to x_0 = x_init ,  x_{t+1} = A_t x_t + B_t u_t + c1_t          (t = 0..T-1)

The reference knows A_t, B_t, c1_t as plain arrays indexed by the horizon step t.  Nothing here
uses a Riccati recursion: optimality is judged by the first-order (KKT) conditions of the convex
QP -- the gradient of J with respect to every input through the reference roll-out (torch
autograd on this file's own roll-out, and, independently, the adjoint/costate recursion in
numpy) -- and the optimum itself is obtained by a dense least-squares-free solve of the reduced
normal equations  H u = -g0  (H = M^T Qbig M).

All functions take ONE problem (no batch axis):
    A (T,n,n)  B (T,n,m)  c1 (T,n)  Q (T,n+m,n+m)  p (T,n+m)  x0 (n,)  u (T,m)
"""
import numpy as np
import torch

F64 = torch.float64


def _t(a):
    return torch.as_tensor(np.asarray(a, dtype=np.float64), dtype=F64)


def rollout_t(A, B, c1, x0, u):
    """Differentiable reference roll-out (torch float64): returns x of shape (T+1, n)."""
    xs = [x0]
    for t in range(u.shape[0]):
        xs.append(A[t] @ xs[-1] + B[t] @ u[t] + c1[t])
    return torch.stack(xs)


def cost_t(Q, p, x, u):
    """Total cost along (x, u): steps 0..T-1 only (x_T carries no cost)."""
    T = u.shape[0]
    tau = torch.cat((x[:T], u), dim=-1)
    return (0.5 * torch.einsum("ti,tij,tj->t", tau, Q, tau) + (p * tau).sum(-1)).sum()


def total_cost(A, B, c1, Q, p, x0, u):
    A, B, c1, Q, p, x0, u = map(_t, (A, B, c1, Q, p, x0, u))
    return float(cost_t(Q, p, rollout_t(A, B, c1, x0, u), u))


def grad_autograd(A, B, c1, Q, p, x0, u):
    """dJ/du (T,m) by reverse-mode autograd through the reference roll-out, and J(u)."""
    A, B, c1, Q, p, x0 = map(_t, (A, B, c1, Q, p, x0))
    u = _t(u).clone().requires_grad_(True)
    J = cost_t(Q, p, rollout_t(A, B, c1, x0, u), u)
    (g,) = torch.autograd.grad(J, u)
    return g.numpy(), float(J)


def rollout(A, B, c1, x0, u):
    T = u.shape[0]
    x = np.empty((T + 1, x0.shape[0]))
    x[0] = x0
    for t in range(T):
        x[t + 1] = A[t] @ x[t] + B[t] @ u[t] + c1[t]
    return x


def step_residual(A, B, c1, x, u):
    """Per-step dynamics residual of a *given* (x, u) pair and its round-off scale
    |A||x| + |B||u| + |c1| (component-wise), both (T, n)."""
    T = u.shape[0]
    res = np.empty((T, x.shape[1]))
    mag = np.empty((T, x.shape[1]))
    for t in range(T):
        res[t] = x[t + 1] - (A[t] @ x[t] + B[t] @ u[t] + c1[t])
        mag[t] = np.abs(A[t]) @ np.abs(x[t]) + np.abs(B[t]) @ np.abs(u[t]) + np.abs(c1[t])
    return res, mag


def cost_along(Q, p, x, u):
    """(J, Jabs): cost recomputed along a given trajectory and the sum of the absolute values
    of every product entering it (the round-off scale of any summation order)."""
    T = u.shape[0]
    tau = np.concatenate((x[:T], u), axis=-1)
    J = 0.5 * np.einsum("ti,tij,tj->", tau, Q, tau) + (p * tau).sum()
    Jabs = 0.5 * np.einsum("ti,tij,tj->", np.abs(tau), np.abs(Q), np.abs(tau)) + (np.abs(p) * np.abs(tau)).sum()
    return float(J), float(Jabs)


def grad_costate(A, B, Q, p, x, u):
    """Stationarity of the Lagrangian at a given (x, u): g_t = (Q tau + p)_u + B_t^T lam_{t+1},
    lam_t = (Q tau + p)_x + A_t^T lam_{t+1}, lam_T = 0.  Also returns the condition-aware
    magnitude s_t of the same recursion carried out on absolute values (T,)."""
    T, m = u.shape
    n = x.shape[1]
    tau = np.concatenate((x[:T], u), axis=-1)
    lam = np.zeros(n)
    lam_abs = np.zeros(n)
    g = np.empty((T, m))
    s = np.empty(T)
    for t in range(T - 1, -1, -1):
        d = Q[t] @ tau[t] + p[t]
        d_abs = np.abs(Q[t]) @ np.abs(tau[t]) + np.abs(p[t])
        g[t] = d[n:] + B[t].T @ lam
        s[t] = np.max(d_abs[n:] + np.abs(B[t]).T @ lam_abs)
        lam = d[:n] + A[t].T @ lam
        lam_abs = d_abs[:n] + np.abs(A[t]).T @ lam_abs
    return g, s


def gradient_scales(A, B, c1, Q, p, x, u, u_round):
    """Condition-aware magnitudes for the two gradient monitors, built from the norms of the true
    transition products Phi(k, j) = A_{k-1} ... A_j (not from products of absolute values, which
    overestimate non-normal systems by many orders of magnitude).

    s[t]   round-off scale of dJ/du_t:  D_t + |B_t| sum_{k>t} |Phi(k,t+1)| D_k,
           D_k = | |Q_k||tau_k| + |p_k| |_2
    f[t]   how much dJ/du_t may legitimately differ between the returned states and the exact
           open-loop roll-out of the returned inputs: the per-step round-off of the library's own
           roll-out, u_round * (|A||x|+|B||u|+|c1|), propagated forward to every later state
           (e_k) and from there into the gradient: |Q_t| e_t + |B_t| sum_{k>t} |Phi(k,t+1)| |Q_k| e_k.
    """
    T, m = u.shape
    n = x.shape[1]
    nrm = lambda M: np.linalg.norm(M, 2)
    tau = np.concatenate((x[:T], u), axis=-1)
    D = np.array([np.linalg.norm(np.abs(Q[k]) @ np.abs(tau[k]) + np.abs(p[k])) for k in range(T)])
    mag = np.array([np.linalg.norm(np.abs(A[k]) @ np.abs(x[k]) + np.abs(B[k]) @ np.abs(u[k]) + np.abs(c1[k])) for k in range(T)])
    # phi[k][j] = |Phi(k, j)|_2 for j <= k <= T
    phi = np.zeros((T + 1, T + 1))
    for j in range(T + 1):
        P = np.eye(n)
        phi[j, j] = 1.0
        for k in range(j + 1, T + 1):
            P = A[k - 1] @ P
            phi[k, j] = nrm(P)
    e = np.array([u_round * sum(phi[k, j + 1] * mag[j] for j in range(k)) for k in range(T)])
    qn = np.array([nrm(Q[k]) for k in range(T)])
    bn = np.array([nrm(B[k]) for k in range(T)])
    s = np.array([D[t] + bn[t] * sum(phi[k, t + 1] * D[k] for k in range(t + 1, T)) for t in range(T)])
    f = np.array([qn[t] * e[t] + bn[t] * sum(phi[k, t + 1] * qn[k] * e[k] for k in range(t + 1, T)) for t in range(T)])
    return s, f


def dense_optimum(A, B, c1, Q, p, x0):
    """Global minimiser by one dense solve.  z = stacked tau (T*(n+m)) = M u + z0 is affine in the
    stacked input; J = 1/2 z^T Qb z + pb^T z, so H = M^T Qb M, g0 = M^T (Qb z0 + pb).
    Returns u* (T,m), cond_2(H), J*."""
    T, n, m = B.shape
    N = n + m
    # x_t = Phi_t x0 + sum_{k<t} Psi_{t,k} u_k + d_t
    M = np.zeros((T * N, T * m))
    z0 = np.zeros(T * N)
    Sx = np.zeros((T + 1, n, T * m))      # dx_t/du
    d = np.zeros((T + 1, n))
    d[0] = x0
    for t in range(T):
        M[t * N:t * N + n, :] = Sx[t]
        M[t * N + n:(t + 1) * N, t * m:(t + 1) * m] = np.eye(m)
        z0[t * N:t * N + n] = d[t]
        Sx[t + 1] = A[t] @ Sx[t]
        Sx[t + 1][:, t * m:(t + 1) * m] += B[t]
        d[t + 1] = A[t] @ d[t] + c1[t]
    Qb = np.zeros((T * N, T * N))
    for t in range(T):
        Qb[t * N:(t + 1) * N, t * N:(t + 1) * N] = 0.5 * (Q[t] + Q[t].T)
    pb = p.reshape(-1)
    H = M.T @ Qb @ M
    g0 = M.T @ (Qb @ z0 + pb)
    H = 0.5 * (H + H.T)
    w = np.linalg.eigvalsh(H)
    cond = float(w[-1] / w[0]) if w[0] > 0 else np.inf
    try:
        L = np.linalg.cholesky(H)
        us = -np.linalg.solve(L.T, np.linalg.solve(L, g0))
        # one step of iterative refinement (residual in longdouble)
        r = -(H.astype(np.longdouble) @ us.astype(np.longdouble) + g0.astype(np.longdouble)).astype(np.float64)
        us = us + np.linalg.solve(L.T, np.linalg.solve(L, r))
    except np.linalg.LinAlgError:
        return None, np.inf, None
    us = us.reshape(T, m)
    return us, cond, total_cost(A, B, c1, Q, p, x0, us)
