"""Independent reference models for the filters (numpy only, never imports pypose / torch).

* `kf_step`        exact Kalman predict-then-update of a linear system observed after the
                   transition, evaluated in longdouble (x86 80-bit: u = 5.4e-20), so the oracle's
                   own rounding is three orders below the float64 rounding it is compared with;
* `ekf_step`       the same recursion on a linearisation (A = df/dx, C = dg/dx at the *prior*
                   mean, innovation at the predicted state);
* `ekf_err`, `ukf_err`   first-order rounding-error models (in units of the unit round-off u) of
                   a float64 implementation of the two filters: the condition-aware `scale` of the
                   tolerances `c * u * scale`;
* `lipschitz`      first-order sensitivity of one Kalman step to its prior (growth of the
                   tolerance along self-fed runs);
* `ukf_step`       the documented unscented recursion (used for magnitudes only);
* `SmoothSystem`   random smooth nonlinear system with analytic Jacobians;
* `pf_linear`, `pf_grid`  exact posterior mean, asymptotic covariance and O(1/N) bias of the
                   particle model "x_i ~ N(x, n P); (x'_i, yhat_i) = system(x_i, u);
                   w_i ~ N(y; yhat_i, R); multinomial resampling; mean of the resampled x'".
"""
import numpy as np

LD = np.longdouble
U64 = 2.0 ** -53
C_SVD = 16.0      # pinv() inverts through an SVD: measured forward error of the inverse ~ 10 u cond (inv: 0.2 u cond)


def ld(a):
    return np.asarray(a, dtype=LD)


def f64(a):
    return np.asarray(a, dtype=np.float64)


def nrm(a):
    """Spectral norm of a matrix / Euclidean norm of a vector (float64 is enough for a scale)."""
    a = f64(a)
    if a.size == 0:
        return 0.0
    if a.ndim <= 1:
        return float(np.sqrt((a * a).sum()))
    return float(np.linalg.norm(a, 2))


def ld_solve(M, B):
    """Solve M X = B by Gaussian elimination with partial pivoting in longdouble."""
    M = ld(M).copy()
    B = ld(B).copy()
    vec = B.ndim == 1
    if vec:
        B = B[:, None]
    n = M.shape[0]
    for k in range(n):
        p = k + int(np.argmax(np.abs(M[k:, k])))
        if M[p, k] == 0:
            raise ZeroDivisionError("singular matrix in ld_solve")
        if p != k:
            M[[k, p]] = M[[p, k]]
            B[[k, p]] = B[[p, k]]
        for i in range(k + 1, n):
            f = M[i, k] / M[k, k]
            if f != 0:
                M[i, k:] -= f * M[k, k:]
                B[i] -= f * B[k]
    X = np.zeros_like(B)
    for k in range(n - 1, -1, -1):
        X[k] = (B[k] - M[k, k + 1:] @ X[k + 1:]) / M[k, k]
    return X[:, 0] if vec else X


def ld_inv(M):
    return ld_solve(M, np.eye(M.shape[0], dtype=LD))


def ld_cholesky(M):
    """Lower Cholesky factor in longdouble (raises ValueError if not positive definite)."""
    M = ld(M)
    n = M.shape[0]
    L = np.zeros((n, n), dtype=LD)
    for j in range(n):
        d = M[j, j] - (L[j, :j] * L[j, :j]).sum()
        if not d > 0:
            raise ValueError("not positive definite")
        L[j, j] = np.sqrt(d)
        for i in range(j + 1, n):
            L[i, j] = (M[i, j] - (L[i, :j] * L[j, :j]).sum()) / L[j, j]
    return L


def sym(M):
    return (M + M.T) / 2


def cond_spd(M):
    w = np.linalg.eigvalsh(sym(f64(M)))
    if w[0] <= 0:
        return np.inf
    return float(w[-1] / w[0])


# ------------------------------------------------------------------------------------ Kalman
def gain_update(xm, Pm, C, R, e):
    """Update half of the recursion: S, K, posterior (longdouble)."""
    xm, Pm, C, R, e = ld(xm), ld(Pm), ld(C), ld(R), ld(e)
    S = C @ Pm @ C.T + R
    Si = ld_inv(S)
    Si = sym(Si)
    K = Pm @ C.T @ Si
    xp = xm + K @ e
    IKC = np.eye(len(xm), dtype=LD) - K @ C
    Pp = sym(IKC @ Pm @ IKC.T + K @ R @ K.T)          # Joseph form: exact, symmetric, no cancellation
    return {"S": S, "Si": Si, "K": K, "xp": xp, "Pp": Pp, "IKC": IKC}


def kf_step(A, B, C, D, c1, c2, Q, R, x, P, y, u):
    """x' = A x + B u + c1 ; y = C x' + D u + c2 : exact predict-then-update posterior."""
    A, B, C, D, c1, c2, Q, R, x, P, y, u = map(ld, (A, B, C, D, c1, c2, Q, R, x, P, y, u))
    xm = A @ x + B @ u + c1
    Pm = sym(A @ P @ A.T + Q)
    yhat = C @ xm + D @ u + c2
    e = y - yhat
    out = gain_update(xm, Pm, C, R, e)
    out.update({"xm": xm, "Pm": Pm, "e": e, "yhat": yhat, "A": A, "C": C})
    # magnitudes of the terms a float64 evaluation rounds (for the error models)
    out["X"] = nrm(A) * nrm(x) + nrm(B) * nrm(u) + nrm(c1)
    out["Y"] = nrm(C) * out["X"] + nrm(D) * nrm(u) + nrm(c2)
    return out


def ekf_step(sys, x, P, Q, R, y, u, t=None):
    """EKF as documented: A = df/dx and C = dg/dx at the prior mean (x, u), x^- = f(x, u),
    innovation y - g(x^-, u)."""
    x, P, Q, R, y, u = map(ld, (x, P, Q, R, y, u))
    A = sys.jf(x, u, t)
    C = sys.jg(x, u, t)
    xm = sys.f(x, u, t)
    Pm = sym(A @ P @ A.T + Q)
    yhat = sys.g(xm, u, t)
    e = y - yhat
    out = gain_update(xm, Pm, C, R, e)
    out.update({"xm": xm, "Pm": Pm, "e": e, "yhat": yhat, "A": A, "C": C})
    out["X"] = sys.fmag(x, u)
    out["Y"] = sys.gmag(xm, u)
    return out


def ekf_err(r, sysm, x, u, P, Q, R, y):
    """First-order rounding-error model of  xm=f(x); Pm=A P A'+Q; K=Pm C' pinv(C Pm C'+R);
    xp = xm+K(y-g(xm)); Pp=(I-KC)Pm  in units of u.  Returns (dx, dP) (2-norm bounds, u = 1).
    Every term is a product of norms of quantities that are actually rounded; cond(S) enters
    once, through |K| |S| |S^-1|."""
    nA, nC, nK = max(nrm(r["A"]), sysm.lipA()), max(nrm(r["C"]), sysm.lipC()), nrm(r["K"])
    nPm, nSi, nS = nrm(r["Pm"]), nrm(r["Si"]), nrm(r["S"])
    dA, dC = sysm.jac_err(x, u)                               # rounding of the Jacobians themselves
    dxm = r["X"]
    dPm = nA * nA * nrm(P) + 2 * nA * dA * nrm(P) + nrm(Q)
    SS = nC * nC * (dPm + nPm) + 2 * nC * dC * nPm + nrm(R)   # rounding of S (PSD sums: no cancellation)
    dK = (dPm + nPm) * nC * nSi + nPm * dC * nSi + nK * SS * nSi + C_SVD * nK * nS * nSi
    ne = nrm(r["e"])
    de = nrm(y) + r["Y"] + nC * dxm
    dx = dxm + dK * ne + nK * de + nK * ne
    dP = dK * nC * nPm + nK * dC * nPm + (1 + nK * nC) * (dPm + nPm)
    return dx, dP


def ukf_weights(n, k):
    s = n + k
    w0, wi = k / s, 1.0 / (2 * s)
    return w0, wi, (abs(k) + n) / s


def ukf_err(r, sysm, k, x, u, P, Q, R, y):
    """Rounding-error model (units of u) of the documented unscented recursion whose exact result
    is r: sigma points x +- columns of chol((n+k)P) are formed by addition (absolute error u|x|
    in a deviation of size sqrt((n+k)|P|)), means are weighted sums with sum|w| = (|k|+n)/(n+k),
    the second sigma set is drawn from (xe, Pm).  Returns (dx, dP, dPm)."""
    n = len(f64(x))
    s = n + k
    _, _, W = ukf_weights(n, k)
    nA, nC, nK = sysm.lipA(), sysm.lipC(), nrm(r["K"])
    nPm, nSi, nS = nrm(r["Pm"]), nrm(r["Si"]), nrm(r["S"])
    L1 = np.sqrt(s * nrm(P))
    X1 = sysm.fmag(x, u) + nA * L1
    E1 = nA * L1
    e1 = (W + 1) * X1
    dxe = W * X1
    dPm = W * E1 * (2 * e1 + E1) + nrm(Q) + nPm
    L2 = np.sqrt(s * nPm)
    nxe = nrm(r["xm"])
    e2x = nxe + L2 + dxe
    Y1 = sysm.gmag(r["xm"], u) + nC * L2
    E2y = nC * L2
    e2y = (W + 1) * Y1 + nC * e2x
    dPy = W * E2y * (2 * e2y + E2y) + nrm(R) + nS + nC * nC * dPm
    dPxy = W * (L2 * e2y + E2y * e2x + L2 * E2y) + nC * dPm
    dK = dPxy * nSi + nK * dPy * nSi + C_SVD * nK * nS * nSi
    ne = nrm(r["e"])
    dx = dxe + dK * ne + nK * (nrm(y) + W * Y1 + nC * dxe) + nK * ne
    dP = dPm + 2 * nK * nS * dK + nK * nK * dPy + nPm + nK * nK * nS
    return dx, dP, dPm


def lipschitz(r):
    """First-order sensitivity of one Kalman step to its prior:  dP+ = F dP F',
    dx+ = F dx + (I-KC) A dP A' C' S^-1 e,  F = (I-KC) A.  Returns F (float64) and
    gam >= |(I-KC) A . A' C' S^-1 e| (so |dx+| <= |F dx| + gam |dP|)."""
    IKC = r["IKC"]
    F = f64(IKC @ r["A"])
    gam = nrm(F) * nrm(r["A"]) * nrm(r["C"]) * nrm(r["Si"]) * nrm(r["e"])
    return F, gam


def ukf_step(sys, x, P, Q, R, y, u, k, t=None):
    """The unscented recursion as documented (columns of the lower Cholesky factor as offsets)."""
    x, P, Q, R, y, u = map(ld, (x, P, Q, R, y, u))
    n = len(x)
    w0, wi, W = ukf_weights(n, k)
    w = np.concatenate([[w0], np.full(2 * n, wi)]).astype(LD)

    def pts(m, Pc):
        L = ld_cholesky((n + k) * Pc)
        return np.concatenate([m[None], m[None] + L.T, m[None] - L.T], 0)

    xs = np.stack([sys.f(p, u, t) for p in pts(x, P)])
    xe = (w[:, None] * xs).sum(0)
    ex = xe[None] - xs
    Pm = sym(Q + np.einsum("i,ij,ik->jk", w, ex, ex))
    xs2 = pts(xe, Pm)
    ex2 = xe[None] - xs2
    ys = np.stack([sys.g(p, u, t) for p in xs2])
    ye = (w[:, None] * ys).sum(0)
    ey = ye[None] - ys
    Py = sym(R + np.einsum("i,ij,ik->jk", w, ey, ey))
    Pxy = np.einsum("i,ij,ik->jk", w, ex2, ey)
    Pyi = sym(ld_inv(Py))
    K = Pxy @ Pyi
    return {"xm": xe, "Pm": Pm, "S": Py, "Si": Pyi, "K": K, "xp": xe + K @ (y - ye),
            "Pp": sym(Pm - K @ Py @ K.T), "e": y - ye,
            "mx": max(nrm(p) for p in xs), "my": max(nrm(p) for p in ys), "W": W}


# ------------------------------------------------------------------------------------ systems
class LinearSystem:
    """x' = A(t) x + B u + c1 ; y = C x + D u + c2, with A(t) = A (1 + tv cos t)."""

    def __init__(self, A, B, C, D, c1, c2, tv=0.0):
        self.A, self.B, self.C, self.D, self.c1, self.c2 = map(ld, (A, B, C, D, c1, c2))
        self.tv = float(tv)

    def At(self, t):
        if self.tv == 0.0 or t is None:
            return self.A
        return self.A * LD(1.0 + self.tv * np.cos(float(t)))

    def f(self, x, u, t=None):
        return self.At(t) @ ld(x) + self.B @ ld(u) + self.c1

    def g(self, x, u, t=None):
        return self.C @ ld(x) + self.D @ ld(u) + self.c2

    def jf(self, x, u, t=None):
        return self.At(t)

    def jg(self, x, u, t=None):
        return self.C

    def lipA(self):
        return nrm(self.A) * (1 + abs(self.tv))

    def lipC(self):
        return nrm(self.C)

    def jac_err(self, x, u):
        return self.lipA(), self.lipC()

    def fmag(self, x, u):
        return nrm(self.A) * (1 + abs(self.tv)) * nrm(x) + nrm(self.B) * nrm(u) + nrm(self.c1)

    def gmag(self, x, u):
        return nrm(self.C) * nrm(x) + nrm(self.D) * nrm(u) + nrm(self.c2)


class SmoothSystem(LinearSystem):
    """f(x,u) = A x + B u + c1 + Wf tanh(Vx x + Vu u + bf)
       g(x,u) = C x + D u + c2 + Wg sin (Ux x + Uu u + bg)        (analytic Jacobians)."""

    def __init__(self, A, B, C, D, c1, c2, Wf, Vx, Vu, bf, Wg, Ux, Uu, bg):
        super().__init__(A, B, C, D, c1, c2)
        self.Wf, self.Vx, self.Vu, self.bf = map(ld, (Wf, Vx, Vu, bf))
        self.Wg, self.Ux, self.Uu, self.bg = map(ld, (Wg, Ux, Uu, bg))

    def f(self, x, u, t=None):
        x, u = ld(x), ld(u)
        return self.A @ x + self.B @ u + self.c1 + self.Wf @ np.tanh(self.Vx @ x + self.Vu @ u + self.bf)

    def g(self, x, u, t=None):
        x, u = ld(x), ld(u)
        return self.C @ x + self.D @ u + self.c2 + self.Wg @ np.sin(self.Ux @ x + self.Uu @ u + self.bg)

    def jf(self, x, u, t=None):
        z = self.Vx @ ld(x) + self.Vu @ ld(u) + self.bf
        th = np.tanh(z)
        return self.A + (self.Wf * (1 - th * th)[None, :]) @ self.Vx

    def jg(self, x, u, t=None):
        z = self.Ux @ ld(x) + self.Uu @ ld(u) + self.bg
        return self.C + (self.Wg * np.cos(z)[None, :]) @ self.Ux

    def lipA(self):
        return nrm(self.A) + nrm(self.Wf) * nrm(self.Vx)

    def lipC(self):
        return nrm(self.C) + nrm(self.Wg) * nrm(self.Ux)

    def jac_err(self, x, u):
        # d/dz sech^2 and d/dz cos are bounded by 1; the arguments z carry an absolute error u|z|
        zf = nrm(self.Vx) * nrm(x) + nrm(self.Vu) * nrm(u) + nrm(self.bf)
        zg = nrm(self.Ux) * nrm(x) + nrm(self.Uu) * nrm(u) + nrm(self.bg)
        return (self.lipA() + nrm(self.Wf) * nrm(self.Vx) * (1 + zf),
                self.lipC() + nrm(self.Wg) * nrm(self.Ux) * (1 + zg))

    def fmag(self, x, u):
        # the arguments of tanh/sin are rounded too: error u |z| |W| max|act'| <= u |z| |W|
        z = nrm(self.Vx) * nrm(x) + nrm(self.Vu) * nrm(u) + nrm(self.bf)
        return super().fmag(x, u) + nrm(self.Wf) * (1 + z)

    def gmag(self, x, u):
        z = nrm(self.Ux) * nrm(x) + nrm(self.Uu) * nrm(u) + nrm(self.bg)
        return super().gmag(x, u) + nrm(self.Wg) * (1 + z)

    # vectorised float64 versions for the grid oracle (rows = points)
    def f_rows(self, X, u):
        X = f64(X)
        z = X @ f64(self.Vx).T + f64(self.Vu @ ld(u) + self.bf)
        return X @ f64(self.A).T + f64(self.B @ ld(u) + self.c1) + np.tanh(z) @ f64(self.Wf).T

    def g_rows(self, X, u):
        X = f64(X)
        z = X @ f64(self.Ux).T + f64(self.Uu @ ld(u) + self.bg)
        return X @ f64(self.C).T + f64(self.D @ ld(u) + self.c2) + np.sin(z) @ f64(self.Wg).T


# ------------------------------------------------------------------------------------ particle model
def pf_linear(A, B, C, D, c1, c2, R, x, P, y, u, nscale):
    """Exact large-N behaviour of the particle model on a linear system.

    x_i ~ N(x, S0), S0 = nscale*P;  yhat_i = C x_i + D u + c2;  x'_i = A x_i + B u + c1;
    w_i ~ N(y; yhat_i, R); estimate = mean of N multinomial draws from the weighted x'_i.

    Returns target (posterior mean of x'), V (N * covariance of the estimate, delta method),
    bias (N * first-order bias of the self-normalised estimator), rho = E_prior[w~^2] = N / ESS,
    cov_post (posterior covariance of x').
      N Cov = A [ rho (L2^-1 + d d') + Sig ] A',  N bias = -rho A d,
      L2 = 2 Sig^-1 - S0^-1 (precision of post^2/prior), d = mean(post^2/prior) - mu.
    """
    A, B, C, D, c1, c2, R, x, P, y, u = map(ld, (A, B, C, D, c1, c2, R, x, P, y, u))
    n = len(x)
    S0 = sym(nscale * P)
    S = C @ S0 @ C.T + R
    Si = sym(ld_inv(S))
    K = S0 @ C.T @ Si
    inn = y - (C @ x + D @ u + c2)
    dl = K @ inn                                   # mu - x
    IKC = np.eye(n, dtype=LD) - K @ C
    Sig = sym(IKC @ S0 @ IKC.T + K @ R @ K.T)
    S0i = sym(ld_inv(S0))
    Ri = sym(ld_inv(R))
    Sigi = sym(S0i + C.T @ Ri @ C)                 # information form (exact, PD)
    L2 = sym(S0i + 2 * (C.T @ Ri @ C))             # = 2 Sig^-1 - S0^-1
    L2i = sym(ld_inv(L2))
    m2 = L2i @ (2 * (Sigi @ dl))                   # coordinates centred at the prior mean
    d = m2 - dl
    # rho = |S0|^(1/2) / (|Sig| |L2|^(1/2)) exp(-1/2 [2 dl' Sig^-1 dl - m2' L2 m2])
    ld_S0 = 2 * np.log(np.diag(ld_cholesky(S0))).sum()
    ld_Sigi = 2 * np.log(np.diag(ld_cholesky(Sigi))).sum()
    ld_L2 = 2 * np.log(np.diag(ld_cholesky(L2))).sum()
    expo = -(2 * (dl @ Sigi @ dl) - m2 @ L2 @ m2) / 2
    log_rho = ld_S0 / 2 + ld_Sigi - ld_L2 / 2 + expo
    rho = float(np.exp(min(log_rho, LD(700.0))))
    target = A @ (x + dl) + B @ u + c1
    V = sym(A @ (rho * (L2i + np.outer(d, d)) + Sig) @ A.T)
    bias = -rho * (A @ d)
    return {"target": target, "V": V, "bias": bias, "rho": rho, "cov_post": sym(A @ Sig @ A.T),
            "mu": x + dl, "Sig": Sig, "log_rho": float(log_rho)}


def pf_grid(sysm, R, x, P, y, u, nscale, h, zmax=8.5):
    """Same quantities for a smooth nonlinear system with 1 or 2 states by the trapezoidal rule
    on a uniform grid in the whitened prior coordinate z (x = x0 + L z), spacing h, |z_i| <= zmax
    (spectrally accurate for analytic, rapidly decaying integrands once h resolves the
    likelihood; the caller compares two spacings).  All sums in log-sum-exp form."""
    x0 = f64(x)
    n = len(x0)
    L = f64(ld_cholesky(nscale * ld(P)))
    g1 = np.arange(-zmax, zmax + h / 2, h)
    if n == 1:
        Z = g1[:, None]
    else:
        a, b = np.meshgrid(g1, g1, indexing="ij")
        Z = np.stack([a.reshape(-1), b.reshape(-1)], 1)
    logp = -(Z * Z).sum(1) / 2                       # prior density in z (unnormalised)
    X = x0[None] + Z @ L.T
    yh = sysm.g_rows(X, u)                           # observation of the particle the system returns
    Xn = sysm.f_rows(X, u)                           # propagated particle
    Rc = f64(ld_cholesky(ld(R)))
    rs = np.linalg.solve(Rc, (f64(y)[None] - yh).T).T
    logl = -(rs * rs).sum(1) / 2
    la, lb = logp + logl, logp + 2 * logl            # prior*L and prior*L^2
    ma, mb, mp = la.max(), lb.max(), logp.max()
    a, b, pz = np.exp(la - ma), np.exp(lb - mb), np.exp(logp - mp)
    sa, sb, sp = a.sum(), b.sum(), pz.sum()
    log_rho = (mb + np.log(sb)) + (mp + np.log(sp)) - 2 * (ma + np.log(sa))
    rho = float(np.exp(min(log_rho, 700.0)))
    hbar = (a[:, None] * Xn).sum(0) / sa
    dh = Xn - hbar[None]
    V_post = np.einsum("i,ij,ik->jk", a, dh, dh) / sa
    V_is = rho * np.einsum("i,ij,ik->jk", b, dh, dh) / sb
    bias = -rho * np.einsum("i,ij->j", b, dh) / sb
    return {"target": hbar, "V": sym(V_is + V_post), "bias": bias, "rho": rho,
            "cov_post": sym(V_post), "log_rho": float(log_rho)}
