#!/venv/bin/python
"""Regenerates known_findings.json (commit hashes are looked up by subject in /repo's history).
Run by hand after a fix commit; never at check time."""
import json, subprocess
log = subprocess.run(['git', '-C', '/repo', 'log', '--format=%h %s'], capture_output=True, text=True).stdout.splitlines()
def H(prefix):
    for l in log:
        h, msg = l.split(' ', 1)
        if msg.startswith(prefix):
            return h
    raise KeyError(prefix)
FIXED = [
 ("F01","C01","sim3.Exp / Sim3.Log","fix: rxso3_Ws","translation relative error up to 33% for eps<|sigma|<~sqrt(eps) (C=(e^s-1)/s cancels) and up to 14% when theta and |sigma| both in (eps, sqrt(eps)) (condition4 numerators cancel)"),
 ("F01b","C02","Sim3.Log","fix: rxso3_Ws","same W(phi,sigma) cancellation seen through Sim3.Log (tau = W^-1 t)"),
 ("F02","C04","SE3.AdjT / Sim3.AdjT backward","fix: backward of SE3","O(1) error in d/dX and d/da: backward used Adj(X) g instead of Adj(X^-1)^T g"),
 ("F03","C06","quat2unit","fix: quat2unit","normalised the caller's tensor in place (aten.copy_ into input)"),
 ("F04","C06","metric.ape / rpe (offset != 0)","fix: matching_time_indices","caller's timestamp tensor shifted by offset in place (also listed for C19)"),
 ("F05","C06","solver.CG(A,b,x)","fix: CG no longer","initial guess x overwritten with the solution"),
 ("F06","C06","LieTensor.add / __add__","fix: LieTensor.add","raised when the added tensor's batch shape is larger than the LieTensor's (no broadcasting)"),
 ("F07","C09","corrector.Triggs (rho''>0)","fix: Triggs corrector dropped","corrected residual rows were se/(1-alpha) without R; J'^T R' off by O(|R|)"),
 ("F08","C09","kernel.Scale","fix: Scale kernel","negative input accepted silently"),
 ("F10","C12","cumops_/cumprod/cummul","fix: cumops_","raised for every length that is not a power of two (also breaks C16 IMU integration for such frame counts)"),
 ("F11","C13","EKF.forward","fix: EKF","innovation taken at the prior state: mean != Kalman mean on linear systems, covariance exact"),
 ("F12","C13","UKF.forward","fix: UKF","rows of the Cholesky factor used as sigma offsets and mismatched deviations in the cross covariance: mean/cov != Kalman"),
 ("F13","C14","LQR.forward on LTV, 2nd solve / systime != 0","fix: LQR roll-outs","roll-outs started at the stale system time: returned trajectory not optimal (gradient 53 instead of 1e-14)"),
 ("F14","C15","LTV.set_refpoint() with t=None","fix: LTV.set_refpoint","raised although the doc says the most recent timestamp is taken"),
 ("F15","C17","svdtf","fix: svdtf reflection","reflection case returned -R: wrong rotation on 114/200 exact 3-point sets"),
 ("F16","C18","knn_filter(radius=...)","fix: knn_filter","outlier not last => IndexError or wrong averages (filtered rows index unfiltered columns)"),
 ("F18","C18","voxel_filter(random=True)","fix: voxel_filter","single occupied voxel => shape (D,) instead of (1,D); single-point cloud => IndexError"),
 ("F17","C20","ReduceToBason.reset()","fix: _Stepper.reset","patience_count survived reset: a reset stepper could stop one step earlier than a fresh one"),
 ("F19","C04","SE3.Log / se3.Exp backward, SE3.Jinvp (calcQ)","fix: calcQ","closed-form Q-block coefficients cancel for eps < theta < ~1e-6 (abs. error ~eps/theta^2, O(1) just above eps): wrong gradients / Jinvp for tiny rotations with non-zero translation (also C05)"),
 ("F20","C18","pixel2point(batched intrinsics)","fix: pixel2point","intrinsics (B,3,3) with pixels (B,N,2): shape error, or silently wrong points when N == B"),
 ("F21","C09","corrector.Triggs with constant-slope kernel (Scale)","fix: Triggs corrector with a kernel","raised RuntimeError (second autograd.grad on a graph-less g1) instead of coinciding with FastTriggs"),
 ("F22","C09","corrector.Triggs(kernel.Tolerant) float32, a/|b| > ~44","fix: Tolerant kernel","autograd rho'' underflowed to round-off garbage of either sign; rows took the positive-curvature branch (up to 3% deviation from FastTriggs)"),
 ("F23","C17","svdstf / mat2Sim3 / mat2RxSO3, batch rank >= 2","fix: mat2Sim3","raised for batch shapes like (2,3): scale (*,1) compared with zeros (*) (also C11)"),
 ("F24","C14","LQR with n_state == 1, horizon >= 2","fix: LQR with a one-dimensional","squeeze(-2) removed the state axis of A,B: RuntimeError in the backward pass"),
 ("F25","C06","randn_like",  "fix: randn_like","returned the global default dtype/device instead of those of its input (its documentation states dtype=x.dtype, device=x.device)"),
 ("F26","C17","svdtf (float32)","fix: svdtf detects","|det+1|<1e-6 reflection test is dtype-blind: ~0.1% of float32 reflection cases left uncorrected -> non-unit quaternion, residual 454 vs 1.7e-13"),
 ("F27","C07","GN/LM.step with a frozen parameter","fix: GN/LM with frozen","model with a requires_grad=False parameter made step() raise (Jacobian columns vs split sizes); update_parameter paired steps with the unfiltered parameter list"),
 ("F28","C04","RxSO3.AdjT backward under vmap (modjac vectorize=True)","fix: RxSO3 AdjT","in-place fill of a fresh matrix with a batched tensor: modjac(vectorize=True) / default GN, LM raised for models with RxSO3 AdjT (also C07)"),
 ("F29","C15","NLS.set_refpoint() (t=None)","fix: NLS.set_refpoint","reference time aliased the live system-time buffer: A,B,C,D silently moved to later times while the reference state/input/f/g stayed"),
 ("F31","C20","optim.scheduler.StopOnPlateau.state_dict / load_state_dict","fix: scheduler state_dict","state_dict() carried the continual wrapper bound to the saved scheduler: a scheduler restored with load_state_dict reported the saved scheduler's state (stopped without any documented condition, or never stopped)"),
 ("F30","C20","utils.ReduceToBason.step (loss tensor reused in place)","fix: ReduceToBason keeps","the caller's loss tensor was stored by reference: with one loss buffer overwritten in place every iteration each loss was compared with itself, the patience counter ran up and the loop stopped after patience+1 steps although the loss kept decreasing"),
]
KNOWN = [
 {"id":"F09","status":"known","property":"C10","entry":"solver.Cholesky","mech":"returned_vector_for_non_pd",
  "what":"solver.Cholesky returns a vector instead of raising when A is symmetric but not positive definite (e.g. [[1,2],[2,1]] -> residual 1.33): cholesky_ex reports failure through `info`, which is ignored; only NaN in the factor is tested",
  "why_not_fixed":"checking `info` is the obvious repair, but LevenbergMarquardt (default solver Cholesky) then aborts steps on numerically semi-definite normal equations that it used to survive through its reject/retry loop: tests/optim test_optim_anybatch became flaky (3/60 failures vs 0/60). Not a safe one-line fix; needs a maintainer decision on LM's solver-failure handling."},
]
out = {"comment": "Genuine defects of pypose found by the monitors. 'fixed' entries suppress nothing (the checks report the violation again if it returns). 'known' entries are matched by (property, entry glob, mech glob) against the entry point and mechanism tag of a violation; anything else of the same property is still a VIOLATION. Never written at run time.",
       "findings": [{"id":i,"status":"fixed","property":p,"entry":e,"commit":H(c),"what":w,"line":f"fixed: property={p} {H(c)} {w}"} for i,p,e,c,w in FIXED] + KNOWN}
json.dump(out, open('/verif/known_findings.json','w'), indent=1)
print(len(FIXED), 'fixed,', len(KNOWN), 'known')
