"""C13 — EKF/UKF equal the Kalman filter on linear-Gaussian systems; covariances valid; PF
converges to the posterior mean of its particle model.

Monitors (all observe the return value (x, P) of EKF/UKF/PF.__call__):

* ekf_lin / ukf_lin   one step on a random linear system (an NLS subclass, as the filters document)
                      against the exact longdouble Kalman predict-then-update posterior;
* run_step / run_par  self-fed runs of up to 50 steps: every step against the exact one-step
                      posterior of the filter's own previous output (run_step) and against the
                      reference recursion run in parallel from the initial prior, with a bound that
                      grows by the first-order sensitivity of each Kalman step (run_par);
* ekf_nl              smooth nonlinear systems: the documented recursion on the analytic
                      linearisation at the prior mean, innovation at the predicted state;
* cov_valid.*         symmetry and positive semidefiniteness of every covariance returned by EKF,
                      PF, and UKF with k >= 0 (linear and nonlinear systems);
* pf_lin / pf_nl      PF estimate inside a 6-sigma Monte-Carlo band (plus the O(1/N) bias of
                      self-normalised importance sampling) around the exact posterior mean of the
                      particle model: closed form on linear systems, trapezoidal quadrature on
                      nonlinear systems with 1-2 states.
"""
import copy
import hashlib

import numpy as np
import torch
import pypose as pp

from ..oracles import kalman_ref as KR

PID = "C13"
LEVEL = "exploration"
SHARDS = {"quick": 4, "thorough": 16}
TIMEOUT = {"quick": 900, "thorough": 5400}
RULE = ("One case = (system, prior (x,P), Q, R, input u, measurement y[, k | particle count]). Systems are "
        "pypose NLS subclasses built from random numpy matrices: all 216 (state,input,observation) dimension "
        "triples in 1..6; A stable / unstable / marginal / singular / identity; C full, rank-deficient or zero; "
        "B, D, c1, c2 random or zero; Q, R, P with scales 1e-3..1e3 drawn independently (corners forced), inner "
        "condition 1..1e3, P dense (random eigenbasis), strongly correlated or diagonal; x up to 1e3 prior "
        "standard deviations from 0; y drawn from the model or an arbitrary outlier; UKF k in {None, 0, ints, "
        "reals down to -n+0.1, 10, 100}; linear time-varying A(t) with explicit t; self-fed runs of 50 steps; "
        "nonlinear tanh/sin systems with analytic Jacobians; PF with 1e3..1e5 (thorough 1e6) particles, "
        "measurements drawn from the particle model, signal-to-noise 1e-2..1e2. distinct = distinct bit "
        "patterns of the case arrays; trivial = zero Kalman gain (C == 0).")
ASSUME = ["oracle: closed-form Kalman recursion in x86 longdouble (Joseph form, Gaussian elimination), validated "
          "each run against a float64 information-form posterior; particle-model closed form validated each run "
          "against trapezoidal quadrature (and once, offline, against 4e4 brute-force replications: std of z = 1.000)",
          "float64 only; tolerances 8*u*L*scale with u = 2^-53, L = n+m+p (+2n+1 for UKF) the length of the inner "
          "products and scale the first-order rounding-error model of the documented recursion (cond(S) enters once "
          "via 16|K||S||S^-1|, 16 = measured constant of the SVD-based pinv; UKF additionally sum|w| = (|k|+n)/(n+k) "
          "and |x|/sqrt|P|); cases whose tolerance exceeds 1e-9|P+| are judged but tallied separately (reltol>1e-9)",
          "self-fed runs: a prior that is the filter's own (slightly asymmetric) output widens the one-step tolerance "
          "by the first-order image of |P-P'|; the parallel-recursion bound is sum_j |F_k..F_j+1|^2 tol_j and is used "
          "only while it stays below 1e-6 relative",
          "UKF cases whose predicted covariance cannot be Cholesky-factorised reliably in float64 (error model of "
          "P^- above 1% of lambda_min(P^-)) are discarded and counted, not judged",
          "PF oracle stated through the system's own one-step call (x', yhat) = system(x_i, u) (DESIGN section 2): "
          "the observation is that of the particle before propagation",
          "PF band: 6 sigma (delta-method variance of self-normalised importance sampling + multinomial resampling, "
          "inflated by 1+4/sqrt(ESS)) + 2x the first-order bias + round-off; runs with exact ESS < 200 are "
          "discarded and counted; the band is statistical, so r= of pf_* is a z-score/6, not a round-off ratio",
          "filters are monitored unbatched (NLS linearisation is per reference point; batching of the filters is "
          "not demanded by the property)", "CPU only"]

U = 2.0 ** -53
C_TOL = 8.0            # tolerance = C_TOL * u * (length of the inner products) * error-model
C_VALID = 8.0          # PF covariance: symmetric / PSD within C_VALID * u * n * (|P| + |Q|)
PF_SIGMA = 6.0
ESS_MIN = 200.0
COND_MAX = 1e12        # beyond this the float64 recursion is not judged (counted)

# the process default dtype stays float32 (as in every user program): all float64 tensors of this check are created explicitly


def T(a):
    """A fresh tensor that does not share memory with the numpy array the oracle reads."""
    return torch.tensor(np.array(a, dtype=np.float64))


def share_QR(c):
    """One pair of Q / R tensor objects per case or run, passed to every call as the documented
    usage does (`ukf(x, y, u, P, Q, R)` in a loop): a filter that writes into them shows up as a
    wrong posterior at the next call, because the oracle keeps reading the numpy originals."""
    c["_Qt"], c["_Rt"] = T(c["Q"]), T(c["R"])
    return c


def N64(t):
    return t.detach().cpu().double().numpy()


# ======================================================================================== models
class LinNLS(pp.module.NLS):
    """x' = A(t) x + B u + c1, y = C x + D u + c2 as an NLS subclass (the filters document NLS)."""

    def __init__(self, s):
        super().__init__()
        for k in ("A", "B", "C", "D", "c1", "c2"):
            self.register_buffer("m_" + k, T(getattr(s, k)))
        self.tv = float(s.tv)

    def state_transition(self, state, input, t=None):
        A = self.m_A
        if self.tv != 0.0 and t is not None:
            A = A * (1.0 + self.tv * torch.cos(torch.as_tensor(t).to(A.dtype)))
        d = state.dtype      # the model follows the dtype of the data (float64 everywhere except in single-precision warm-up calls)
        return state @ A.to(d).mT + input @ self.m_B.to(d).mT + self.m_c1.to(d)

    def observation(self, state, input, t=None):
        d = state.dtype
        return state @ self.m_C.to(d).mT + input @ self.m_D.to(d).mT + self.m_c2.to(d)


class SmoothNLS(pp.module.NLS):
    def __init__(self, s):
        super().__init__()
        for k in ("A", "B", "C", "D", "c1", "c2", "Wf", "Vx", "Vu", "bf", "Wg", "Ux", "Uu", "bg"):
            self.register_buffer("m_" + k, T(getattr(s, k)))

    def state_transition(self, state, input, t=None):
        z = state @ self.m_Vx.mT + input @ self.m_Vu.mT + self.m_bf
        return state @ self.m_A.mT + input @ self.m_B.mT + self.m_c1 + torch.tanh(z) @ self.m_Wf.mT

    def observation(self, state, input, t=None):
        z = state @ self.m_Ux.mT + input @ self.m_Uu.mT + self.m_bg
        return state @ self.m_C.mT + input @ self.m_D.mT + self.m_c2 + torch.sin(z) @ self.m_Wg.mT


# ======================================================================================== generators
def lscale(rng, lo, hi):
    return float(10.0 ** rng.uniform(lo, hi))


def spd(rng, n, scale, cond, kind):
    """SPD matrix, largest eigenvalue ~ scale, condition ~ cond; kind dense|diag|corr."""
    if n == 1:
        return np.array([[scale]])
    ev = scale * np.exp(-rng.uniform(0, 1, n) * np.log(cond))
    ev[0], ev[-1] = scale, scale / cond
    if kind == "diag":
        M = np.diag(rng.permutation(ev))
    elif kind == "corr":
        rho = 1 - 1.0 / cond
        sd = np.sqrt(scale * np.exp(-rng.uniform(0, 1, n) * np.log(min(cond, 1e2))))
        sg = rng.choice([-1.0, 1.0], n)
        Cr = rho * np.outer(sg, sg) + (1 - rho) * np.eye(n)
        M = Cr * np.outer(sd, sd)
    else:
        q, _ = np.linalg.qr(rng.standard_normal((n, n)))
        M = (q * ev) @ q.T
    return (M + M.T) / 2


A_KINDS = ("stable", "unstable", "marginal", "singular", "identity")


def gen_A(rng, n, kind):
    if kind == "identity":
        return np.eye(n)
    M = rng.standard_normal((n, n))
    if kind == "marginal":
        q, _ = np.linalg.qr(M)
        return q
    rad = max(abs(np.linalg.eigvals(M)))
    if kind == "stable":
        return M / rad * rng.uniform(0.2, 0.98)
    if kind == "unstable":
        return M / rad * rng.uniform(1.02, 1.5)
    # singular: rank n-1 (zero for n == 1)
    if n == 1:
        return np.zeros((1, 1))
    uu, s, vt = np.linalg.svd(M)
    s[-1] = 0.0
    return (uu * s) @ vt / s[0] * rng.uniform(0.5, 1.3)


def gen_C(rng, n, p, kind):
    Cm = rng.standard_normal((p, n)) * lscale(rng, -1, 1)
    if kind == "zero":
        return np.zeros((p, n))
    if kind == "rankdef" and min(p, n) > 1:
        uu, s, vt = np.linalg.svd(Cm, full_matrices=False)
        s[-1] = 0.0
        return (uu * s) @ vt
    if kind == "rankdef":
        Cm[-1] = 0.0 if p > 1 else Cm[-1]
    return Cm


def maybe_zero(rng, a, prob):
    return np.zeros_like(a) if rng.random() < prob else a


def gen_case(rng, n, m, p, a_kind=None, c_kind=None, p_kind=None, scales=None, outlier=None, tv=0.0, xfar=None):
    """A linear system with a prior, noise covariances, an input and a measurement."""
    a_kind = a_kind or A_KINDS[rng.integers(len(A_KINDS))]
    c_kind = c_kind or ("full", "full", "full", "rankdef", "zero")[rng.integers(5)]
    p_kind = p_kind or ("dense", "dense", "corr", "diag")[rng.integers(4)]
    sP, sQ, sR = scales if scales is not None else (lscale(rng, -3, 3), lscale(rng, -3, 3), lscale(rng, -3, 3))
    A = gen_A(rng, n, a_kind)
    B = maybe_zero(rng, rng.standard_normal((n, m)) * lscale(rng, -1, 1), 0.1)
    Cm = gen_C(rng, n, p, c_kind)
    D = maybe_zero(rng, rng.standard_normal((p, m)) * lscale(rng, -1, 1), 0.2)
    sx = np.sqrt(sP)
    c1 = maybe_zero(rng, rng.standard_normal(n) * sx * lscale(rng, -1, 1), 0.2)
    c2 = maybe_zero(rng, rng.standard_normal(p) * sx * lscale(rng, -1, 1), 0.2)
    P = spd(rng, n, sP, lscale(rng, 0, 3), p_kind)
    Q = spd(rng, n, sQ, lscale(rng, 0, 3), ("dense", "diag")[rng.integers(2)])
    R = spd(rng, p, sR, lscale(rng, 0, 3), ("dense", "diag")[rng.integers(2)])
    far = xfar if xfar is not None else (1e3 if rng.random() < 0.1 else lscale(rng, -1, 1))
    x = rng.standard_normal(n) * sx * far
    u = maybe_zero(rng, rng.standard_normal(m) * sx * lscale(rng, -1, 1), 0.1)
    s = KR.LinearSystem(A, B, Cm, D, c1, c2, tv=tv)
    c = {"sys": s, "n": n, "m": m, "p": p, "x": x, "P": P, "Q": Q, "R": R, "u": u,
         "a_kind": a_kind, "c_kind": c_kind, "p_kind": p_kind if n > 1 else "scalar", "scales": (sP, sQ, sR),
         "far": far}
    c["y"], c["y_kind"] = draw_y(rng, c, outlier)
    return c


def draw_y(rng, c, outlier=None, t=None):
    """Measurement drawn from the model (truth ~ prior, process and measurement noise) or an outlier."""
    s, n, p = c["sys"], c["n"], c["p"]
    xt = c["x"] + np.linalg.cholesky(c["P"]) @ rng.standard_normal(n)
    xn = KR.f64(s.f(xt, c["u"], t)) + np.linalg.cholesky(c["Q"]) @ rng.standard_normal(n)
    y = KR.f64(s.g(xn, c["u"], t)) + np.linalg.cholesky(c["R"]) @ rng.standard_normal(p)
    outlier = (rng.random() < 0.25) if outlier is None else outlier
    if outlier:
        y = y + rng.standard_normal(p) * (abs(y).max() + np.sqrt(c["scales"][2])) * lscale(rng, 0, 3)
        return y, "outlier"
    return y, "model"


def gen_smooth(rng, n, m, p, nl):
    """Smooth nonlinear system around a random linear one; nl = relative size of the nonlinearity."""
    c = gen_case(rng, n, m, p, a_kind=("stable", "unstable", "marginal")[rng.integers(3)], c_kind="full",
                 xfar=lscale(rng, -1, 0.5))
    s = c["sys"]
    sx = np.sqrt(c["scales"][0])
    xs = sx * max(1.0, c["far"])                     # length scale over which the nonlinearity varies
    h = n + 1
    Vx = rng.standard_normal((h, n)) / xs / np.sqrt(n)
    Vu = rng.standard_normal((h, m)) / (KR.nrm(c["u"]) + sx) / np.sqrt(m)
    bf = rng.uniform(-1, 1, h)
    Wf = rng.standard_normal((n, h)) / np.sqrt(h) * nl * xs * max(KR.nrm(KR.f64(s.A)), 0.3)
    h2 = p + 1
    Ux = rng.standard_normal((h2, n)) / xs / np.sqrt(n)
    Uu = rng.standard_normal((h2, m)) / (KR.nrm(c["u"]) + sx) / np.sqrt(m)
    bg = rng.uniform(-np.pi, np.pi, h2)
    Wg = rng.standard_normal((p, h2)) / np.sqrt(h2) * nl * xs * max(KR.nrm(KR.f64(s.C)), 0.3)
    c["sys"] = KR.SmoothSystem(KR.f64(s.A), KR.f64(s.B), KR.f64(s.C), KR.f64(s.D), KR.f64(s.c1), KR.f64(s.c2),
                               Wf, Vx, Vu, bf, Wg, Ux, Uu, bg)
    c["nl"] = nl
    c["y"], c["y_kind"] = draw_y(rng, c)
    return c


def case_key(c, *extra):
    hsh = hashlib.blake2b(digest_size=8)
    for k in ("x", "P", "Q", "R", "u", "y"):
        hsh.update(np.ascontiguousarray(c[k], dtype=np.float64).tobytes())
    s = c["sys"]
    for k in ("A", "B", "C", "D", "c1", "c2"):
        hsh.update(np.ascontiguousarray(KR.f64(getattr(s, k))).tobytes())
    hsh.update(repr(extra).encode())
    return hsh.hexdigest()


def cls_scale(v):
    return "lo" if v < 1e-1 else ("hi" if v > 1e1 else "mid")


def cls_k(n, k):
    if k is None:
        return "None"
    if k < 0:
        return "neg-near--n" if n + k < 0.6 else "neg"
    if k == 0:
        return "0"
    return "pos-large" if k >= 10 else "pos"


def witness(c, **kw):
    s = c["sys"]
    w = {"n": c["n"], "m": c["m"], "p": c["p"]}
    for k in ("A", "B", "C", "D", "c1", "c2"):
        w[k] = KR.f64(getattr(s, k)).tolist()
    if isinstance(s, KR.SmoothSystem):
        for k in ("Wf", "Vx", "Vu", "bf", "Wg", "Ux", "Uu", "bg"):
            w[k] = KR.f64(getattr(s, k)).tolist()
    if getattr(s, "tv", 0.0):
        w["tv"] = s.tv
    for k in ("x", "P", "Q", "R", "u", "y"):
        w[k] = np.asarray(c[k]).tolist()
    w.update(kw)
    return w


def marks(ck, who, c, extra=()):
    n, m, p = c["n"], c["m"], c["p"]
    for tag in (f"n={n}", f"m={m}", f"p={p}", "A/" + c["a_kind"], "C/" + c["c_kind"], "P/" + c["p_kind"],
                "Pscale/" + cls_scale(c["scales"][0]), "Qscale/" + cls_scale(c["scales"][1]),
                "Rscale/" + cls_scale(c["scales"][2]), "y/" + c["y_kind"],
                "p>n" if p > n else ("p<n" if p < n else "p==n"), "x/far" if c["far"] >= 100 else "x/near") + tuple(extra):
        ck.mark(f"{who}/{tag}")


# ======================================================================================== monitors
def well_posed(ck, who, r):
    cS, cP = KR.cond_spd(r["S"]), KR.cond_spd(r["Pm"])
    ck.note_max("max_cond_S_judged", min(cS, 1e300))
    if not (cS <= COND_MAX and cP <= COND_MAX * 1e2):
        ck.note_add(f"discarded_{who}_cond_above_limit")
        return False
    return True


def shape_ok(ck, monitor, regime, entry, xo, Po, n, wit):
    return ck.check(isinstance(xo, torch.Tensor) and isinstance(Po, torch.Tensor) and tuple(xo.shape) == (n,)
                    and tuple(Po.shape) == (n, n) and xo.dtype == torch.float64 and Po.dtype == torch.float64
                    and bool(torch.isfinite(xo).all()) and bool(torch.isfinite(Po).all()),
                    monitor, regime, entry, "shape_dtype_or_nonfinite",
                    lambda: dict(wit(), got_x=repr(xo)[:200], got_P=repr(Po)[:300]))


def dimfac(c, ukf=False):
    """Length of the inner products / weighted sums the recursion evaluates (u*length each)."""
    return c["n"] + c["m"] + c["p"] + ((2 * c["n"] + 1) if ukf else 0)


def tol_of(c, d, ukf=False):
    return C_TOL * U * dimfac(c, ukf) * d


def judge_post(ck, monitor, regime, entry, xo, Po, r, tx, tP, wit, alt=None):
    """Mean and covariance against the reference posterior r within the absolute bounds tx, tP."""
    xg, Pg = N64(xo), N64(Po)
    ex = KR.nrm(KR.f64(KR.ld(xg) - r["xp"]))
    eP = KR.nrm(KR.f64(KR.ld(Pg) - r["Pp"]))
    mech = "mean_differs_from_kalman"
    if alt is not None and ex > tx and KR.nrm(KR.f64(KR.ld(xg) - alt)) <= tx:
        mech = "mean_is_kalman_with_innovation_at_prior_state"
    okx = ck.ratio(monitor + ".mean", regime, ex, tx, entry, mech,
                   lambda: dict(wit(), got_x=xg.tolist(), ref_x=KR.f64(r["xp"]).tolist()))
    okP = ck.ratio(monitor + ".cov", regime, eP, tP, entry, "cov_differs_from_kalman",
                   lambda: dict(wit(), got_P=Pg.tolist(), ref_P=KR.f64(r["Pp"]).tolist()))
    return okx and okP


def judge_valid(ck, who, regime, entry, Po, tol, wit):
    """Symmetric positive semidefinite up to tol (the rounding-error bound of this covariance)."""
    Pg = N64(Po)
    asym = float(np.abs(Pg - Pg.T).max())
    lam = float(np.linalg.eigvalsh((Pg + Pg.T) / 2)[0])
    ck.count("cov_valid.sym", f"{who}/{regime}", nontrivial=False)
    ck.count("cov_valid.psd", f"{who}/{regime}", nontrivial=False)
    ck.ratio("cov_valid.sym", f"{who}/{regime}", asym, tol, entry, "cov_not_symmetric",
             lambda: dict(wit(), got_P=Pg.tolist(), asym=asym))
    ck.ratio("cov_valid.psd", f"{who}/{regime}", max(0.0, -lam), tol, entry, "cov_not_psd",
             lambda: dict(wit(), got_P=Pg.tolist(), lambda_min=lam))


def call_filter(ck, monitor, regime, entry, flt, c, wit, t=None, ctor=False, **kw):
    """One filter step; ctor=True: Q and R were given to the constructor and are not passed again."""
    args = (T(c["x"]), T(c["y"]), T(c["u"]), T(c["P"]))
    if not ctor:
        args += (c["_Qt"] if "_Qt" in c else T(c["Q"]), c["_Rt"] if "_Rt" in c else T(c["R"]))
    if t is not None:
        kw["t"] = torch.tensor(float(t), dtype=torch.float64)
    return ck.call(monitor, regime, entry, lambda: flt(*args, **kw), witness=wit)


def warm_up_f32(ck, flt, c, who, t=None, **kw):
    """History: the same filter object is first used once on single-precision data (a trial run), then judged on double-precision
    data.  Nothing the first call leaves on the object (memoised weights, buffers, workspaces) may reach the second; the result of
    the warm-up itself is not judged (a warm-up that raises is noted)."""
    f = lambda a: T(a).float()
    args = (f(c["x"]), f(c["y"]), f(c["u"]), f(c["P"]), f(c["Q"]), f(c["R"]))
    if t is not None:
        kw = dict(kw, t=torch.tensor(float(t), dtype=torch.float64))
    try:
        flt(*args, **kw)
        ck.mark(f"{who}/judged-after-float32-warm-up")
    except Exception:  # noqa
        ck.note_add(f"{who}_float32_warm_up_raised")


def key_digest_of(key):
    import zlib
    return zlib.crc32(repr(key).encode())


def ukf_usable(c, r, dPm):
    """Sigma points of the predicted covariance need its Cholesky factor: judge only where the
    rounding of P^- is far below its smallest eigenvalue."""
    lam = np.linalg.eigvalsh(KR.f64(r["Pm"]))[0]
    return tol_of(c, dPm, True) < 1e-2 * lam


def inherit_asym(r, P, tx, tP):
    """A self-fed prior is the filter's previous output and symmetric only up to that step's
    rounding.  The recursion is not defined for an asymmetric P (P, P', their mean and the lower
    triangle the Cholesky factorisation reads are all legitimate readings, differing by at most
    |P-P'|), so the one-step tolerances grow by the first-order image of that ambiguity."""
    asym = KR.nrm(np.asarray(P) - np.asarray(P).T)
    if asym == 0.0:
        return tx, tP
    F, gam = KR.lipschitz(r)
    return tx + C_TOL * gam * asym, tP + C_TOL * KR.nrm(F) ** 2 * asym


def sharp(ck, who, tP, r):
    """Class of the covariance tolerance relative to the posterior covariance itself (a case whose
    conditioning leaves a tolerance above 1e-9 |P+| is still judged, but is not evidence of
    agreement to the property's ~1e-9)."""
    rel = tP / max(KR.nrm(r["Pp"]), 1e-300)
    ck.note_max("max_reltol_cov_" + who, rel)
    return "reltol<=1e-9" if rel <= 1e-9 else "reltol>1e-9"


K_CHOICES = ("None", "0", "int+", "int-", "real+", "real-", "near-n", "10", "100")


def pick_k(rng, n, name):
    if name == "None":
        return None
    if name == "0":
        return 0
    if name == "int+":
        return int(rng.integers(1, 4))
    if name == "int-":
        return -int(rng.integers(1, n)) if n > 1 else None
    if name == "real+":
        return float(rng.uniform(0.05, 3.0))
    if name == "real-":
        return -float(rng.uniform(0.05, n - 0.5)) if n > 0.55 else None
    if name == "near-n":
        return -n + float(rng.choice([0.1, 0.25, 0.5]))
    return float(name)


def regime_of(c):
    """Case split named in the evidence (dimensions, C kind, measurement kind, x offset: tallied as marks)."""
    return (f"A:{c['a_kind']}/P:{c['p_kind']}/"
            f"PQR:{cls_scale(c['scales'][0])}-{cls_scale(c['scales'][1])}-{cls_scale(c['scales'][2])}")


def one_step_linear(ck, rng, c, ks, t=None, who_suffix=""):
    """EKF once and UKF for each k in ks on a linear case."""
    s = c["sys"]
    n = c["n"]
    model = LinNLS(s)
    share_QR(c)
    r = KR.ekf_step(s, c["x"], c["P"], c["Q"], c["R"], c["y"], c["u"], t) if (s.tv and t is not None) else \
        KR.kf_step(s.A, s.B, s.C, s.D, s.c1, s.c2, c["Q"], c["R"], c["x"], c["P"], c["y"], c["u"])
    r.setdefault("X", s.fmag(c["x"], c["u"]))
    if not well_posed(ck, "lin", r):
        return
    reg = regime_of(c) + who_suffix
    key = case_key(c, t)
    trivial = not np.any(KR.f64(s.C))
    wit = lambda **kw: witness(c, t=t, **kw)
    # ---- EKF
    dx, dP = KR.ekf_err(r, s, c["x"], c["u"], c["P"], c["Q"], c["R"], c["y"])
    warm = (int(key_digest_of(key)) % 3 == 0)
    ekf = pp.module.EKF(model)
    if warm:
        warm_up_f32(ck, ekf, c, "ekf", t=t)
    ok, out = call_filter(ck, "ekf_lin.mean", reg, "EKF.forward", ekf, c, wit, t=t)
    if ok and shape_ok(ck, "ekf_lin.mean", reg, "EKF.forward", out[0], out[1], n, wit):
        alt = r["xm"] + r["K"] @ (KR.ld(c["y"]) - s.g(c["x"], c["u"], t))
        ck.count("ekf_lin.mean", reg, key=key, nontrivial=not trivial)
        ck.count("ekf_lin.cov", reg, key=key)
        tx, tP = inherit_asym(r, c["P"], tol_of(c, dx), tol_of(c, dP))
        judge_post(ck, "ekf_lin", reg, "EKF.forward", out[0], out[1], r, tx, tP, wit, alt=alt)
        judge_valid(ck, "ekf", "lin", "EKF.forward", out[1], tP, wit)
        marks(ck, "ekf", c, ("tv" if (s.tv and t is not None) else "ti", sharp(ck, "ekf", tP, r)))
        if len(ck.samples) < 3 and not trivial and c["n"] > 1:
            ck.sample({"filter": "EKF", "case": witness(c), "got_x": N64(out[0]).tolist(),
                       "kalman_x": KR.f64(r["xp"]).tolist(), "got_P": N64(out[1]).tolist(),
                       "kalman_P": KR.f64(r["Pp"]).tolist()})
    # ---- UKF
    ukf = pp.module.UKF(model)
    for kname in ks:
        k = kname[1] if isinstance(kname, tuple) else pick_k(rng, n, kname)      # ("=", value): replay
        kv = 3 - n if k is None else k
        if not n + kv > 0.05:                     # k = None with n >= 3 gives k = 3-n <= -n+3: fine; guard anyway
            continue
        dxu, dPu, dPm = KR.ukf_err(r, s, kv, c["x"], c["u"], c["P"], c["Q"], c["R"], c["y"])
        if not ukf_usable(c, r, dPm):
            ck.note_add("discarded_ukf_predicted_cov_not_factorisable_in_f64")
            continue
        kc = cls_k(n, k)
        regk = f"A:{c['a_kind']}/C:{c['c_kind']}/P:{c['p_kind']}{who_suffix}/k:{kc}"
        witk = lambda **kw: witness(c, t=t, k=k, **kw)
        kw = {} if k is None else {"k": k}
        if warm:
            warm_up_f32(ck, ukf, c, "ukf", t=t, **kw)
        ok, out = call_filter(ck, "ukf_lin.mean", regk, "UKF.forward", ukf, c, witk, t=t, **kw)
        if not (ok and shape_ok(ck, "ukf_lin.mean", regk, "UKF.forward", out[0], out[1], n, witk)):
            continue
        ck.count("ukf_lin.mean", regk, key=(key, k), nontrivial=not trivial)
        ck.count("ukf_lin.cov", regk, key=(key, k))
        tx, tP = inherit_asym(r, c["P"], tol_of(c, dxu, True), tol_of(c, dPu, True))
        judge_post(ck, "ukf_lin", regk, "UKF.forward", out[0], out[1], r, tx, tP, witk)
        if kv >= 0:
            judge_valid(ck, "ukf", f"lin/k:{kc}", "UKF.forward", out[1], tP, witk)
        marks(ck, "ukf", c, (f"k/{kc}", "centre-weight>=0" if kv >= 0 else "centre-weight<0",
                             "tv" if (s.tv and t is not None) else "ti", sharp(ck, "ukf", tP, r)))
        if len(ck.samples) < 5 and kname == "real-" and not trivial:
            ck.sample({"filter": "UKF", "k": k, "case": witness(c), "got_x": N64(out[0]).tolist(),
                       "kalman_x": KR.f64(r["xp"]).tolist()})


# ---------------------------------------------------------------------------------------- runs
def run_linear(ck, rng, c, steps, which, k=None, tv_t0=None):
    """Self-fed run: the filter's output is its next prior.  Each step is judged (i) against the
    exact posterior of the filter's own previous output and (ii) against the reference recursion
    started from the same initial prior.  To first order a deviation (dx, dP) of the prior maps to
    dP+ = F dP F', dx+ = F dx + (I-KC) A dP A' C' S^-1 e with F = (I-KC) A, so the bound at step k is
    bP_k = 1.05 sum_j |F_k..F_{j+1}|^2 tolP_j,  bx_k = 1.05 sum_j |F_k..F_{j+1}| (tolx_j + gam_j bP_{j-1})
    with the local rounding tolerances tol_j (1.05 for the neglected second-order terms; the run
    stops being judged by (ii) once the bound exceeds 1e-6 relative)."""
    s, n = c["sys"], c["n"]
    model = LinNLS(s)
    c = share_QR(dict(c))
    qr_mode = int(rng.integers(3))                   # 0: every call, 1: constructor, 2: constructor defaults + per-call overrides on some steps
    ctor = qr_mode == 1
    cls = pp.module.EKF if which == "ekf" else pp.module.UKF
    Qc, Rc = c["Q"], c["R"]
    if qr_mode == 2:
        # the constructor's covariances differ from the per-call ones: a step without override must use the constructor's,
        # whatever earlier calls were given
        Qc, Rc = c["Q"] * float(rng.uniform(1.5, 4.0)), c["R"] * float(rng.uniform(0.3, 0.7))
        flt = cls(model, Q=T(Qc), R=T(Rc))
        ck.mark(f"run/{which}/QR:constructor+override")
    else:
        flt = cls(model, Q=c["_Qt"], R=c["_Rt"]) if ctor else cls(model)
        ck.mark(f"run/{which}/QR:{'constructor' if ctor else 'per-call'}")
    if qr_mode in (1, 2) and rng.random() < 0.5:
        # object lifecycle: the configured covariances travel with a checkpoint / a deep copy of the filter
        life = ["state_dict", "deepcopy"][int(rng.integers(2))]
        if life == "deepcopy":
            flt = copy.deepcopy(flt)
        else:
            n_, p_ = c["Q"].shape[-1], c["R"].shape[-1]
            fresh = cls(LinNLS(s), Q=T(np.eye(n_) * 7.0), R=T(np.eye(p_) * 7.0))        # placeholder covariances
            fresh.load_state_dict(flt.state_dict())
            flt = fresh
        ck.mark(f"run/QR-through-{life}")
    Qtrue, Rtrue = c["Q"], c["R"]
    entry = "EKF.forward" if which == "ekf" else "UKF.forward"
    kv = None if which == "ekf" else (3 - n if k is None else k)
    xf, Pf = c["x"].copy(), c["P"].copy()            # filter's own
    xr, Pr = KR.ld(c["x"]), KR.ld(c["P"])            # reference recursion
    bx = bP = 0.0
    par = True
    Ms, srcP, srcx = [], [], []                      # products F_k..F_{j+1}, local sources
    uk = which == "ukf"
    xt = c["x"] + np.linalg.cholesky(c["P"]) @ rng.standard_normal(n)   # hidden truth
    reg0 = f"{which}/A:{c['a_kind']}/P:{c['p_kind']}" + ("" if kv is None else f"/k:{cls_k(n, k)}") + \
           ("/tv" if s.tv else "")
    done = 0
    for i in range(steps):
        t = None if tv_t0 is None else tv_t0 + i
        u = rng.standard_normal(c["m"]) * KR.nrm(c["u"]) / np.sqrt(c["m"]) if KR.nrm(c["u"]) else c["u"]
        xt = KR.f64(s.f(xt, u, t)) + np.linalg.cholesky(c["Q"]) @ rng.standard_normal(n)
        y = KR.f64(s.g(xt, u, t)) + np.linalg.cholesky(c["R"]) @ rng.standard_normal(c["p"])
        if rng.random() < 0.1:
            y = y + rng.standard_normal(c["p"]) * (abs(y).max() + 1) * 10
        override = qr_mode != 2 or (i > 0 and rng.random() < 0.4)
        c = dict(c, Q=Qtrue if override else Qc, R=Rtrue if override else Rc)     # the covariances this step must use
        ctor = (qr_mode == 1) or (qr_mode == 2 and not override)
        if qr_mode == 2:
            ck.mark(f"run/{which}/step-with-override" if override else f"run/{which}/default-step-after-override" if i > 1 else f"run/{which}/default-step")
        ci = dict(c, x=xf, P=Pf, u=u, y=y)
        r1 = KR.ekf_step(s, xf, Pf, c["Q"], c["R"], y, u, t)     # from the filter's own previous output
        rp = KR.ekf_step(s, xr, Pr, c["Q"], c["R"], y, u, t)     # parallel recursion
        if not (KR.cond_spd(r1["S"]) <= COND_MAX and KR.cond_spd(r1["Pm"]) <= COND_MAX * 1e2):
            ck.note_add("runs_stopped_conditioning")
            break
        if which == "ekf":
            dx, dP = KR.ekf_err(r1, s, xf, u, Pf, c["Q"], c["R"], y)
        else:
            dx, dP, dPm = KR.ukf_err(r1, s, kv, xf, u, Pf, c["Q"], c["R"], y)
            lamP = np.linalg.eigvalsh((Pf + Pf.T) / 2)[0]
            if not (ukf_usable(c, r1, dPm) and lamP > 0 and KR.cond_spd(Pf) < 1e13):
                ck.note_add("runs_stopped_ukf_cov_not_factorisable_in_f64")
                break
        wit = lambda **kw: witness(ci, step=i, t=t, k=k, filter=which, x0=c["x"].tolist(), P0=c["P"].tolist(), **kw)
        kw = {} if (which == "ekf" or k is None) else {"k": k}
        ok, out = call_filter(ck, "run_step.mean", reg0, entry, flt, ci, wit, t=t, ctor=ctor, **kw)
        if not (ok and shape_ok(ck, "run_step.mean", reg0, entry, out[0], out[1], n, wit)):
            break
        regs = reg0 + f"/step:{'1' if i == 0 else ('2-10' if i < 10 else '11-50')}"
        key = case_key(ci, i, which, k)
        ck.count("run_step.mean", regs, key=key)
        ck.count("run_step.cov", regs, key=key)
        tx, tP = tol_of(c, dx, uk), tol_of(c, dP, uk)
        txs, tPs = inherit_asym(r1, Pf, tx, tP)
        good = judge_post(ck, "run_step", regs, entry, out[0], out[1], r1, txs, tPs, wit)
        if which == "ekf" or kv >= 0:
            judge_valid(ck, which, "run", entry, out[1], tPs, wit)
        ck.mark(f"run/{which}/" + sharp(ck, "run_" + which, tPs, r1))
        # parallel recursion with propagated bound
        if par:
            F, gam = KR.lipschitz(rp)
            Ms = [F @ M for M in Ms] + [np.eye(n)]
            srcP.append(tP)
            srcx.append(tx + gam * bP)
            bP = 1.05 * sum(KR.nrm(M) ** 2 * v for M, v in zip(Ms, srcP))
            bx = 1.05 * sum(KR.nrm(M) * v for M, v in zip(Ms, srcx))
            if bP > 1e-6 * KR.nrm(rp["Pp"]) or bx > 1e-6 * (KR.nrm(rp["xp"]) + np.sqrt(KR.nrm(rp["Pp"]))):
                par = False
                ck.note_add("runs_parallel_bound_exhausted")
                ck.note_max("max_steps_parallel_before_exhausted", i)
            else:
                ck.count("run_par.mean", regs, key=key)
                ck.count("run_par.cov", regs, key=key)
                judge_post(ck, "run_par", regs, entry, out[0], out[1], rp, bx, bP, wit)
                ck.note_max("max_parallel_bound_rel_P", bP / max(KR.nrm(rp["Pp"]), 1e-300))
                if i == 49:
                    ck.mark(f"run_par/{which}/judged-at-step-50")
        xr, Pr = rp["xp"], rp["Pp"]
        xf, Pf = N64(out[0]), N64(out[1])
        done += 1
        if not good:
            break
    ck.note_max("max_run_length_reached", done)
    if done >= 50:
        ck.mark(f"run/{which}/len>=50")
    ck.mark(f"run/{which}/A:{c['a_kind']}", 1)
    return done


def run_nonlinear(ck, rng, c, steps):
    s, n = c["sys"], c["n"]
    c = share_QR(dict(c))
    model = SmoothNLS(s)
    ekf = pp.module.EKF(model)
    ukf = pp.module.UKF(model)
    xf, Pf = c["x"].copy(), c["P"].copy()
    xt = c["x"] + np.linalg.cholesky(c["P"]) @ rng.standard_normal(n)
    for i in range(steps):
        u = rng.standard_normal(c["m"]) * KR.nrm(c["u"]) / np.sqrt(c["m"]) if KR.nrm(c["u"]) else c["u"]
        xt = KR.f64(s.f(xt, u)) + np.linalg.cholesky(c["Q"]) @ rng.standard_normal(n)
        y = KR.f64(s.g(xt, u)) + np.linalg.cholesky(c["R"]) @ rng.standard_normal(c["p"])
        ci = dict(c, x=xf, P=Pf, u=u, y=y)
        out = step_nonlinear(ck, rng, ci, ekf, ukf, f"run/step:{'1' if i == 0 else ('2-10' if i < 10 else '11-50')}", i)
        if out is None:
            break
        xf, Pf = out
    return


def step_nonlinear(ck, rng, c, ekf, ukf, tag, step=0):
    """EKF on a smooth nonlinear system against the documented recursion on the analytic
    linearisation; UKF (k >= 0) only for the validity of its covariance."""
    s, n = c["sys"], c["n"]
    if "_Qt" not in c:
        share_QR(c)
    r = KR.ekf_step(s, c["x"], c["P"], c["Q"], c["R"], c["y"], c["u"])
    if not well_posed(ck, "nl", r):
        return None
    dx, dP = KR.ekf_err(r, s, c["x"], c["u"], c["P"], c["Q"], c["R"], c["y"])
    reg = f"nl:{c['nl']}/n{n}/{tag}"
    wit = lambda **kw: witness(c, step=step, **kw)
    ok, out = call_filter(ck, "ekf_nl.mean", reg, "EKF.forward", ekf, c, wit)
    if not (ok and shape_ok(ck, "ekf_nl.mean", reg, "EKF.forward", out[0], out[1], n, wit)):
        return None
    key = case_key(c, step, "nl")
    ck.count("ekf_nl.mean", reg, key=key)
    ck.count("ekf_nl.cov", reg, key=key)
    alt = r["xm"] + r["K"] @ (KR.ld(c["y"]) - s.g(c["x"], c["u"]))
    tx, tP = inherit_asym(r, c["P"], tol_of(c, dx), tol_of(c, dP))
    good = judge_post(ck, "ekf_nl", reg, "EKF.forward", out[0], out[1], r, tx, tP, wit, alt=alt)
    judge_valid(ck, "ekf", "nl", "EKF.forward", out[1], tP, wit)
    ck.mark("ekf_nl/" + sharp(ck, "ekf_nl", tP, r))
    # how nonlinear was this case really: relative change of C between the prior mean and x^-
    Cx, Cm = s.jg(c["x"], c["u"]), s.jg(r["xm"], c["u"])
    dC = KR.nrm(KR.f64(Cx - Cm)) / max(KR.nrm(KR.f64(Cx)), 1e-300)
    ck.mark("ekf_nl/C(prior)!=C(pred)" if dC > 1e-3 else "ekf_nl/C(prior)~C(pred)")
    ck.mark(f"ekf_nl/n={n}")
    # UKF validity (k >= 0), scale from the numpy unscented recursion
    for kname in ("0", "real+", "int+") + (("None",) if n <= 3 else ()):
        k = pick_k(rng, n, kname)
        kv = 3 - n if k is None else k
        try:
            ru = KR.ukf_step(s, c["x"], c["P"], c["Q"], c["R"], c["y"], c["u"], kv)
        except ValueError:
            continue
        ru["A"], ru["C"] = r["A"], r["C"]
        _, dPu, dPm = KR.ukf_err(ru, s, kv, c["x"], c["u"], c["P"], c["Q"], c["R"], c["y"])
        if not (ukf_usable(c, ru, dPm) and KR.cond_spd(ru["S"]) <= COND_MAX):
            ck.note_add("discarded_ukf_predicted_cov_not_factorisable_in_f64")
            continue
        witk = lambda **kw: witness(c, step=step, k=k, **kw)
        okk, outk = call_filter(ck, "cov_valid.psd", f"ukf/nl/k:{cls_k(n, k)}", "UKF.forward", ukf, c, witk,
                                **({} if k is None else {"k": k}))
        if okk and shape_ok(ck, "cov_valid.psd", "ukf/nl", "UKF.forward", outk[0], outk[1], n, witk):
            judge_valid(ck, "ukf", f"nl/k:{cls_k(n, k)}", "UKF.forward", outk[1], tol_of(c, dPu, True), witk)
            ck.mark("ukf_nl/valid")
    return (N64(out[0]), N64(out[1])) if good else None


# ---------------------------------------------------------------------------------------- PF
def gen_pf_case(rng, n, m, p, nonlinear=False, N=1e4, a_kind=None):
    """Prior, system and a measurement drawn from the particle model; R scaled against C (nP) C'
    so that the exact effective sample size is not degenerate."""
    sP = lscale(rng, -3, 3)
    c = gen_case(rng, n, m, p, a_kind=a_kind, c_kind="full", scales=(sP, lscale(rng, -3, 3), 1.0), outlier=False,
                 xfar=lscale(rng, -1, 1.5))
    s = c["sys"]
    if nonlinear:
        c = gen_smooth_from(rng, c, nl=float(rng.choice([0.3, 1.0, 2.0])))
        s = c["sys"]
    Cm = KR.f64(s.jg(c["x"], c["u"]))
    sig = Cm @ (n * c["P"]) @ Cm.T
    base = max(np.trace(sig) / p, 1e-300)
    # more particles afford a sharper likelihood before the exact ESS degenerates
    snr = lscale(rng, -1, 0.7) if nonlinear else lscale(rng, -2, np.log10(N) / 2 - 1)
    c["R"] = spd(rng, p, base / snr, lscale(rng, 0, 1 if nonlinear else 2), ("dense", "diag")[rng.integers(2)])
    c["scales"] = (sP, c["scales"][1], base / snr)
    c["snr"] = snr
    xi = c["x"] + np.linalg.cholesky(n * c["P"]) @ rng.standard_normal(n)
    c["y"] = KR.f64(s.g(xi, c["u"])) + np.linalg.cholesky(c["R"]) @ rng.standard_normal(p) * \
        (1.0 if rng.random() < 0.8 else 2.0)
    c["y_kind"] = "model"
    return c


def gen_smooth_from(rng, c, nl):
    s = c["sys"]
    n, m, p = c["n"], c["m"], c["p"]
    sx = np.sqrt(n * c["scales"][0])
    h = n + 1
    Vx = rng.standard_normal((h, n)) / sx / np.sqrt(n) * 0.7
    Vu = rng.standard_normal((h, m)) / (KR.nrm(c["u"]) + sx)
    bf = rng.uniform(-1, 1, h)
    Wf = rng.standard_normal((n, h)) / np.sqrt(h) * nl * sx * max(KR.nrm(KR.f64(s.A)), 0.3)
    h2 = p + 1
    Ux = rng.standard_normal((h2, n)) / sx / np.sqrt(n) * 0.7
    Uu = rng.standard_normal((h2, m)) / (KR.nrm(c["u"]) + sx)
    bg = rng.uniform(-np.pi, np.pi, h2)
    Wg = rng.standard_normal((p, h2)) / np.sqrt(h2) * nl * sx * max(KR.nrm(KR.f64(s.C)), 0.3) * 0.5
    c = dict(c)
    c["sys"] = KR.SmoothSystem(KR.f64(s.A), KR.f64(s.B), KR.f64(s.C), KR.f64(s.D), KR.f64(s.c1), KR.f64(s.c2),
                               Wf, Vx, Vu, bf, Wg, Ux, Uu, bg)
    c["nl"] = nl
    return c


def judge_pf(ck, monitor, regime, c, N, o, xo, wit):
    """|estimate - target| along the coordinate axes and along the principal axes of the asymptotic
    covariance V/N, each within PF_SIGMA sigma (inflated by 1+4/sqrt(ESS)) + 2 |bias|/N + round-off."""
    n = c["n"]
    est = N64(xo)
    ess = N / o["rho"]
    infl = 1.0 + 4.0 / np.sqrt(ess)
    d = est - KR.f64(o["target"])
    V = KR.f64(o["V"])
    b = KR.f64(o["bias"])
    s = c["sys"]
    ro = 1e3 * U * (KR.nrm(KR.f64(o["target"])) + s.fmag(c["x"], c["u"]) + s.lipA() * np.sqrt(n * KR.nrm(c["P"])))
    lam, E = np.linalg.eigh(V)
    dirs = np.concatenate([np.eye(n), E.T], 0)
    # eigenvalues of V below the accuracy of V itself (degenerate directions: singular A, saturated
    # nonlinearity) are not known to better than ~1e-12 lambda_max: floor them
    var = np.concatenate([np.diag(V), np.maximum(lam, 0.0) + 1e-10 * max(lam[-1], 0.0)])
    sd = np.sqrt(var / N)
    err = np.abs(dirs @ d)
    tol = PF_SIGMA * sd * infl + 2 * np.abs(dirs @ b) / N + ro
    z = err / np.maximum(sd, 1e-300)
    zfin = z[sd > 1e3 * ro]
    if zfin.size:
        ck.note_max("max_pf_z", float(zfin.max()))
        ck.note_add("pf_z_tests", int(zfin.size))
        for thr in (3, 4, 5):
            ck.note_add(f"pf_z_gt{thr}", int((zfin > thr).sum()))
    return ck.ratios(monitor, regime, err, tol, "PF.forward", "pf_mean_outside_mc_band",
                     lambda i: dict(wit(), particles=N, estimate=est.tolist(), target=KR.f64(o["target"]).tolist(),
                                    direction=dirs[i].tolist(), sigma=float(sd[i]), z=float(z[i]), ess=float(ess),
                                    bias_over_N=float(abs(dirs[i] @ b) / N)))


def judge_pf_cov(ck, regime, c, Po, wit):
    Pg = N64(Po)
    judge_valid(ck, "pf", regime, "PF.forward", Po, C_VALID * U * c["n"] * (KR.nrm(Pg) + KR.nrm(c["Q"])), wit)


def pf_call(ck, monitor, regime, c, model, N, seed, wit):
    pf = pp.module.PF(model, particles=int(N))
    torch.manual_seed(int(seed))
    ok, out = call_filter(ck, monitor, regime, "PF.forward", pf, c, wit)
    if not (ok and shape_ok(ck, monitor, regime, "PF.forward", out[0], out[1], c["n"], wit)):
        return None
    return out


def cls_N(N):
    return f"1e{int(round(np.log10(N)))}"


def pf_linear_case(ck, rng, c, N, tag, idx, seed=None):
    s, n = c["sys"], c["n"]
    seed = ck.subseed(f"pf/{tag}/{idx}") if seed is None else seed
    o = KR.pf_linear(s.A, s.B, s.C, s.D, s.c1, s.c2, c["R"], c["x"], c["P"], c["y"], c["u"], n)
    ess = N / o["rho"]
    reg = f"{tag}/N:{cls_N(N)}/n{n}/ess:{'<1e3' if ess < 1e3 else ('<1e4' if ess < 1e4 else '>=1e4')}"
    wit = lambda **kw: witness(c, particles=int(N), torch_seed=seed, **kw)
    out = pf_call(ck, "pf_lin", reg, c, LinNLS(s), N, seed, wit)
    if out is None:
        return None
    judge_pf_cov(ck, f"lin/N:{cls_N(N)}", c, out[1], wit)
    if ess < ESS_MIN:
        ck.note_add("pf_discarded_ess_below_200")
        return out
    ck.count("pf_lin", reg, key=case_key(c, N, tag, idx))
    judge_pf(ck, "pf_lin", reg, c, N, o, out[0], wit)
    for mk in (f"pf/N={cls_N(N)}", f"pf/n={n}", "pf/P:" + c["p_kind"], "pf/A:" + c["a_kind"],
               "pf/informative" if o["rho"] > 3 else "pf/weakly-informative", "pf/Pscale:" + cls_scale(c["scales"][0])):
        ck.mark(mk)
    if len(ck.samples) < 8 and o["rho"] > 3:
        ck.sample({"filter": "PF", "particles": int(N), "case": witness(c), "estimate": N64(out[0]).tolist(),
                   "posterior_mean_of_particle_model": KR.f64(o["target"]).tolist(), "ess_exact": ess})
    return out


def pf_nonlinear_case(ck, rng, c, N, idx, seed=None):
    s, n = c["sys"], c["n"]
    seed = ck.subseed(f"pfnl/{idx}") if seed is None else seed
    # resolution: the likelihood in whitened prior coordinates is at least sqrt(lambda_min(R))/(lip(g) |L|) wide
    Lz = np.sqrt(KR.nrm(n * c["P"]))
    width = np.sqrt(np.linalg.eigvalsh(c["R"])[0]) / (s.lipC() * Lz)
    h = float(min(0.05, width / 8))
    if n == 2 and h < 0.012 or h < 2e-4:
        ck.note_add("pf_nl_discarded_grid_too_fine")
        return
    o = KR.pf_grid(s, c["R"], c["x"], c["P"], c["y"], c["u"], n, h)
    o2 = KR.pf_grid(s, c["R"], c["x"], c["P"], c["y"], c["u"], n, h * 1.37)
    ess = N / o["rho"]
    sd = np.sqrt(np.maximum(np.diag(o["V"]), 1e-300) / N)
    gap = max(np.abs(o["target"] - o2["target"]).max() / sd.min(),
              np.abs(np.diag(o["V"]) / np.diag(o2["V"]) - 1).max() * 100,
              abs(o["rho"] / o2["rho"] - 1) * 100)
    ck.note_max("max_grid_oracle_disagreement_in_sigma", float(gap))
    if gap > 0.05:
        ck.note_add("pf_nl_discarded_quadrature_not_converged")
        return
    reg = f"nl:{c['nl']}/N:{cls_N(N)}/n{n}"
    wit = lambda **kw: witness(c, particles=int(N), torch_seed=seed, **kw)
    out = pf_call(ck, "pf_nl", reg, c, SmoothNLS(s), N, seed, wit)
    if out is None:
        return
    judge_pf_cov(ck, f"nl/N:{cls_N(N)}", c, out[1], wit)
    if ess < ESS_MIN:
        ck.note_add("pf_discarded_ess_below_200")
        return
    # how far is f(posterior mean of x_i) from the posterior mean of f(x_i): the nonlinearity that matters
    ck.count("pf_nl", reg, key=case_key(c, N, "nl", idx))
    judge_pf(ck, "pf_nl", reg, c, N, o, out[0], wit)
    ck.mark(f"pf_nl/n={n}")
    ck.mark(f"pf_nl/N={cls_N(N)}")


def pf_run(ck, rng, c, N, steps, idx):
    """Self-fed PF run: every step is judged against the exact posterior mean of the particle
    model whose prior is the PF's own previous output."""
    s, n = c["sys"], c["n"]
    c = share_QR(dict(c))
    xf, Pf = c["x"].copy(), c["P"].copy()
    for i in range(steps):
        ci = dict(c, x=xf, P=Pf)
        xi = xf + np.linalg.cholesky(n * Pf) @ rng.standard_normal(n)
        ci["y"] = KR.f64(s.g(xi, c["u"])) + np.linalg.cholesky(c["R"]) @ rng.standard_normal(c["p"])
        out = pf_linear_case(ck, rng, ci, N, "run", f"{idx}/{i}")
        if out is None:
            return
        xf, Pf = N64(out[0]), N64(out[1])
        Pf = (Pf + Pf.T) / 2
        if not (np.linalg.eigvalsh(Pf)[0] > 0 and KR.cond_spd(Pf) < 1e10 and np.all(np.isfinite(xf))
                and KR.nrm(xf) < 1e150):
            ck.note_add("pf_runs_stopped_conditioning")
            return
        ck.note_max("max_pf_run_length", i + 1)
    ck.mark("pf/run-len>=50" if steps >= 50 else "pf/run-short")


# ======================================================================================== oracle self-test
def oracle_selftest(ck, rng):
    """The longdouble recursion against an independently derived float64 information form,
    and the closed-form particle-model posterior against brute-force quadrature."""
    worst = 0.0
    for _ in range(20):
        n, m, p = (int(v) for v in rng.integers(1, 7, 3))
        c = gen_case(rng, n, m, p, c_kind="full", scales=(lscale(rng, -1, 1),) * 3)
        s = c["sys"]
        r = KR.kf_step(s.A, s.B, s.C, s.D, s.c1, s.c2, c["Q"], c["R"], c["x"], c["P"], c["y"], c["u"])
        A, Cm = KR.f64(s.A), KR.f64(s.C)
        Pm = A @ c["P"] @ A.T + c["Q"]
        info = np.linalg.inv(Pm) + Cm.T @ np.linalg.inv(c["R"]) @ Cm
        Pp = np.linalg.inv(info)
        xm = A @ c["x"] + KR.f64(s.B) @ c["u"] + KR.f64(s.c1)
        xp = Pp @ (np.linalg.inv(Pm) @ xm + Cm.T @ np.linalg.inv(c["R"]) @ (c["y"] - KR.f64(s.D) @ c["u"] - KR.f64(s.c2)))
        cnd = np.linalg.cond(Pm) * np.linalg.cond(c["R"]) * np.linalg.cond(info)
        g1 = KR.nrm(Pp - KR.f64(r["Pp"])) / (KR.nrm(Pp) * cnd * U * 64)
        g2 = KR.nrm(xp - KR.f64(r["xp"])) / ((KR.nrm(xp) + KR.nrm(xm) + KR.nrm(c["y"])) * cnd * U * 64)
        worst = max(worst, g1, g2)
    ck.note_max("max_oracle_selftest_kf_vs_information_form", worst)
    if worst > 1:
        ck.inconclusive_because(f"Kalman oracle disagrees with the information form ({worst:.2e} x 64 u cond)")
    wg = 0.0
    for n in (1, 2):
        c = gen_pf_case(rng, n, 2, 2)
        s = c["sys"]
        z = np.zeros
        s0 = KR.SmoothSystem(KR.f64(s.A), KR.f64(s.B), KR.f64(s.C), KR.f64(s.D), KR.f64(s.c1), KR.f64(s.c2),
                             z((n, 1)), z((1, n)), z((1, 2)), z(1), z((2, 1)), z((1, n)), z((1, 2)), z(1))
        Lz = np.sqrt(KR.nrm(n * c["P"]))
        h = min(0.05, np.sqrt(np.linalg.eigvalsh(c["R"])[0]) / (s.lipC() * Lz) / 8)
        if n == 2 and h < 0.012:
            continue
        a = KR.pf_linear(s.A, s.B, s.C, s.D, s.c1, s.c2, c["R"], c["x"], c["P"], c["y"], c["u"], n)
        g = KR.pf_grid(s0, c["R"], c["x"], c["P"], c["y"], c["u"], n, h)
        sd = np.sqrt(np.diag(KR.f64(a["cov_post"])).max())
        wg = max(wg, np.abs(KR.f64(a["target"]) - g["target"]).max() / max(sd, 1e-300),
                 abs(a["rho"] / g["rho"] - 1), np.abs(KR.f64(a["V"]) - g["V"]).max() / np.abs(KR.f64(a["V"])).max(),
                 np.abs(KR.f64(a["bias"]) - g["bias"]).max() / max(np.abs(KR.f64(a["bias"])).max(), 1e-300) * 1e-3)
    ck.note_max("max_oracle_selftest_pf_closed_form_vs_quadrature", wg)
    if wg > 1e-6:
        ck.inconclusive_because(f"particle-model closed form disagrees with quadrature ({wg:.2e})")


# ======================================================================================== replay
def replay(ck, v):
    """Re-run the monitor of a recorded witness (one filter step from the recorded prior)."""
    w = v["witness"]
    g = lambda k: np.asarray(w[k], dtype=np.float64)
    lin = [g(k) for k in ("A", "B", "C", "D", "c1", "c2")]
    nonlinear = "Wf" in w
    s = KR.SmoothSystem(*lin, *[g(k) for k in ("Wf", "Vx", "Vu", "bf", "Wg", "Ux", "Uu", "bg")]) if nonlinear \
        else KR.LinearSystem(*lin, tv=float(w.get("tv", 0.0)))
    c = {"sys": s, "n": int(w["n"]), "m": int(w["m"]), "p": int(w["p"]), "a_kind": "replay", "c_kind": "replay",
         "p_kind": "replay", "y_kind": "replay", "far": 1.0, "nl": "replay",
         "scales": (KR.nrm(g("P")), KR.nrm(g("Q")), KR.nrm(g("R")))}
    for k in ("x", "P", "Q", "R", "u", "y"):
        c[k] = g(k)
    rng = ck.rng("replay")
    if v["entry"] == "PF.forward":
        fn = pf_nonlinear_case if nonlinear else pf_linear_case
        args = (ck, rng, c, int(w["particles"]), "replay") if nonlinear else (ck, rng, c, int(w["particles"]), "replay", 0)
        fn(*args, seed=int(w["torch_seed"]))
    elif nonlinear:
        model = SmoothNLS(s)
        step_nonlinear(ck, rng, c, pp.module.EKF(model), pp.module.UKF(model), "replay", int(w.get("step", 0)))
    else:
        ks = (("=", w.get("k")),) if v["entry"] == "UKF.forward" else ()
        one_step_linear(ck, rng, c, ks, t=w.get("t"))


# ======================================================================================== driver
def items(ck, section, total):
    """Global work list of a section split over the shards: (index, private generator)."""
    for j in range(total):
        if ck.mine(j):
            yield j, ck.rng(f"{section}/{j}")


def run(ck):
    th = ck.tier == "thorough"
    if ck.shard == 0:
        oracle_selftest(ck, ck.rng("selftest"))

    # ---- (1) one step, every dimension triple, forced corners of the (P,Q,R) scale cube
    triples = [(n, m, p) for n in range(1, 7) for m in range(1, 7) for p in range(1, 7)]
    corners = [(a, b, c) for a in (1e-3, 1e3) for b in (1e-3, 1e3) for c in (1e-3, 1e3)]
    reps = 60 if th else 1
    for j, rng in items(ck, "one-step", reps * len(triples)):
        n, m, p = triples[j % len(triples)]
        for v in range(3):
            scales = corners[(j + j // len(triples)) % 8] if v == 0 else None
            pk = ("dense", "corr", "diag")[v] if n > 1 else None
            c = gen_case(rng, n, m, p, p_kind=pk, scales=scales)
            ks = ("None", "near-n", "0") if v == 0 else (("real-", "int+", "100") if v == 1 else ("int-", "real+", "10"))
            one_step_linear(ck, rng, c, ks)
    # time-varying linear systems with explicit t
    for j, rng in items(ck, "tv", 960 if th else 48):
        n, m, p = (int(v) for v in rng.integers(1, 7, 3))
        c = gen_case(rng, n, m, p, tv=float(rng.uniform(0.1, 0.9)), p_kind="dense" if n > 1 else None)
        t = float(rng.integers(0, 40))
        c["y"], c["y_kind"] = draw_y(rng, c, t=t)
        one_step_linear(ck, rng, c, ("None", "real-", "real+"), t=t, who_suffix="/tv")

    # ---- (2) self-fed runs of 50 steps
    kinds = ("stable", "unstable", "marginal", "singular")
    for j, rng in items(ck, "run", 4 * (160 if th else 12)):
        a_kind, g = kinds[j % 4], j // 4
        n, m, p = (int(v) for v in rng.integers(1, 7, 3))
        if g % 3 == 0:
            n = max(n, 2)
        c = gen_case(rng, n, m, p, a_kind=a_kind, c_kind=("full", "rankdef")[int(rng.random() < 0.3)],
                     p_kind=("dense", "corr")[g % 2] if n > 1 else None,
                     scales=(lscale(rng, -3, 3), lscale(rng, -2, 2), lscale(rng, -2, 2)), xfar=lscale(rng, -1, 1),
                     tv=0.3 if (g % 3 == 2 and a_kind == "stable") else 0.0)
        t0 = 0 if c["sys"].tv else None
        run_linear(ck, ck.rng(f"run/{j}/ekf"), c, 50, "ekf", tv_t0=t0)
        for kname in (("None", "real+") if g % 2 == 0 else ("0", "real-")):
            run_linear(ck, ck.rng(f"run/{j}/ukf/{kname}"), c, 50, "ukf", k=pick_k(rng, n, kname), tv_t0=t0)

    # ---- (3) nonlinear EKF (and UKF covariance validity)
    for j, rng in items(ck, "nl", 4000 if th else 180):
        n, m, p = (int(v) for v in rng.integers(1, 7, 3))
        c = gen_smooth(rng, n, m, p, float((0.01, 0.3, 1.0, 3.0)[(j // 4) % 4]))
        model = SmoothNLS(c["sys"])
        step_nonlinear(ck, rng, c, pp.module.EKF(model), pp.module.UKF(model), "single")
    for j, rng in items(ck, "nl-run", 64 if th else 8):
        n, m, p = (int(v) for v in rng.integers(1, 7, 3))
        c = gen_smooth(rng, n, m, p, float((0.3, 1.0)[(j // 4) % 2]))
        run_nonlinear(ck, rng, c, 50)

    # ---- (4) particle filter
    plan = [(1e3, 6000), (1e4, 5000), (1e5, 1600), (1e6, 96)] if th else [(1e3, 600), (1e4, 400), (1e5, 80)]
    for N, cnt in plan:
        for j, rng in items(ck, f"pf/{int(N)}", cnt):
            n = 1 + (j // 4) % 6
            m, p = (int(v) for v in rng.integers(1, 7, 2))
            c = gen_pf_case(rng, n, m, p, N=N)
            pf_linear_case(ck, rng, c, int(N), "single", f"{int(N)}/{j}")
    # sharp sensor / vague prior (R six orders of magnitude below the spread of the particles, measurement possibly far out): every
    # particle's likelihood underflows in linear scale; the filter still returns a finite estimate with a valid covariance
    # (the effective sample size is far too small for the Monte-Carlo band: only validity is judged)
    for j, rng in items(ck, "pf/sharp", 24 if th else 6):
        n = 1 + j % 3
        p = n
        c = gen_case(rng, n, 1, p, c_kind="full", scales=(1.0, 1.0, 1e-6), outlier=None)
        if j % 2:
            c = dict(c, y=c["y"] + 30.0)
        N = int((2e3, 2e4)[j % 2])
        wit = lambda **kw: witness(c, particles=N, **kw)
        out = pf_call(ck, "pf_lin", f"sharp-sensor/N:{cls_N(N)}/n{n}", c, LinNLS(c["sys"]), N, ck.subseed(f"pf/sharp/{j}"), wit)
        ck.count("pf_lin", f"sharp-sensor/N:{cls_N(N)}/n{n}", key=("sharp", j, n, N))
        if out is not None:
            fin = bool(torch.isfinite(out[0]).all() and torch.isfinite(out[1]).all())
            ck.check(fin, "pf_lin", f"sharp-sensor/N:{cls_N(N)}/n{n}", "PF.forward", "non_finite_estimate_with_a_sharp_sensor", wit)
            if fin:
                judge_pf_cov(ck, f"sharp/N:{cls_N(N)}", c, out[1], wit)
            ck.mark("pf/sharp-sensor")
    ck.require("pf/sharp-sensor")
    plan = [(1e3, 600), (1e4, 400), (1e5, 160), (1e6, 16)] if th else [(1e3, 40), (1e4, 32), (1e5, 12)]
    for N, cnt in plan:
        for j, rng in items(ck, f"pfnl/{int(N)}", cnt):
            n = 1 + (j // 4) % 2
            m, p = (int(v) for v in rng.integers(1, 4, 2))
            c = gen_pf_case(rng, n, m, p, nonlinear=True, N=N)
            pf_nonlinear_case(ck, rng, c, int(N), f"{int(N)}/{j}")
    for j, rng in items(ck, "pf-run", 32 if th else 4):
        n, m, p = (int(v) for v in rng.integers(1, 7, 3))
        g = j // 4
        N = int(1e5 if (th and g == 7) else (1e4 if g % 2 else 1e3))
        c = gen_pf_case(rng, n, m, p, N=1e3, a_kind="stable" if j % 2 == 0 else None)
        c["Q"] = spd(rng, n, c["scales"][0] * lscale(rng, -2, 0), lscale(rng, 0, 2), "dense")
        pf_run(ck, rng, c, N, 50, j)

    # ---- required regimes (input classes) and floors
    for who in ("ekf", "ukf"):
        ck.require(*[f"{who}/n={d}" for d in range(1, 7)], *[f"{who}/m={d}" for d in range(1, 7)],
                   *[f"{who}/p={d}" for d in range(1, 7)])
        ck.require(f"{who}/P/dense", f"{who}/P/corr", f"{who}/P/diag", f"{who}/A/stable", f"{who}/A/unstable",
                   f"{who}/A/singular", f"{who}/C/full", f"{who}/C/rankdef", f"{who}/C/zero", f"{who}/p>n", f"{who}/p<n",
                   f"{who}/y/model", f"{who}/y/outlier", f"{who}/x/far", f"{who}/tv", f"{who}/reltol<=1e-9",
                   f"run/{who}/len>=50", f"run/{who}/A:unstable", f"run/{who}/reltol<=1e-9",
                   f"run_par/{who}/judged-at-step-50", f"run/{who}/QR:constructor", f"run/{who}/QR:per-call", f"run/{who}/QR:constructor+override", f"run/{who}/default-step-after-override",
                   *[f"{who}/{q}scale/{s}" for q in "PQR" for s in ("lo", "mid", "hi")])
    ck.require("run/QR-through-state_dict", "run/QR-through-deepcopy", "ekf/judged-after-float32-warm-up", "ukf/judged-after-float32-warm-up")
    ck.require("ukf/k/None", "ukf/k/0", "ukf/k/neg", "ukf/k/neg-near--n", "ukf/k/pos", "ukf/k/pos-large",
               "ukf/centre-weight<0", "ukf/centre-weight>=0", "ukf_nl/valid",
               "ekf_nl/C(prior)!=C(pred)", "ekf_nl/reltol<=1e-9", *[f"ekf_nl/n={d}" for d in range(1, 7)],
               "pf/N=1e3", "pf/N=1e4", "pf/N=1e5", "pf/informative", "pf/P:dense", "pf/A:unstable",
               "pf_nl/n=1", "pf_nl/n=2", "pf/run-len>=50", *[f"pf/n={d}" for d in range(1, 7)])
    if th:
        ck.require("pf/N=1e6", "pf_nl/N=1e6")
    ck.floor("ekf_lin.mean", 600)
    ck.floor("ukf_lin.mean", 1500)
    ck.floor("run_step.mean", 3000)
    ck.floor("run_par.mean", 1000)
    ck.floor("ekf_nl.mean", 300)
    ck.floor("cov_valid.psd", 5000)
    ck.floor("pf_lin", 500)
    ck.floor("pf_nl", 30)
