"""Random well-typed LieTensor programs (expression trees) and their finite-difference oracle.

A program is a tree over {Exp, Log, Inv, Mul, Act3, Act4, Adj, AdjT, Retr, add, matrix, Jinvp,
algebra +, scalar *} with typed leaves: group elements, algebra elements, 3- and 4-vectors.
`evaluate(tree, leaves)` runs it through the *public* pypose API.  The oracle differentiates
the scalar  L = <g, program(leaves)>  numerically (central differences + one Richardson step,
float64) in the tangent coordinates the property names: ordinary perturbation for algebra /
Euclidean leaves, left perturbation  Exp(tau) @ X  for group leaves.
"""
import math

import numpy as np
import torch
import pypose as pp

from . import lie
from .oracles import lie_ref as L

GROUPS = ("SO3", "SE3", "RxSO3", "Sim3")


class Leaf:
    def __init__(self, idx, typ):
        self.idx, self.typ = idx, typ

    def show(self):
        return f"x{self.idx}"


class Node:
    def __init__(self, op, args, typ, const=None):
        self.op, self.args, self.typ, self.const = op, args, typ, const

    def show(self):
        if self.op == "scale":
            return f"({self.const:.3g}*{self.args[0].show()})"
        return f"{self.op}(" + ", ".join(a.show() for a in self.args) + ")"


def T_G(k):
    return ("G", k)


def T_A(k):
    return ("A", k)


def gen_tree(rng, typ, depth, leaves, ops_allowed=None, p_leaf=0.25, reuse=0.3):
    """Random tree of the requested type; `leaves` (list of types) is extended in place."""
    def leaf():
        same = [i for i, t in enumerate(leaves) if t == typ]
        if same and rng.random() < reuse:
            return Leaf(int(rng.choice(same)), typ)
        leaves.append(typ)
        return Leaf(len(leaves) - 1, typ)

    if depth <= 0 or rng.random() < p_leaf or (len(leaves) >= 4 and rng.random() < 0.5):
        return leaf()
    sub = lambda t: gen_tree(rng, t, depth - 1, leaves, ops_allowed, p_leaf, reuse)
    if typ[0] == "G":
        k = typ[1]
        a = L.GRP2ALG[k]
        prods = ["Exp", "Inv", "Mul", "Mul", "Retr", "add"]
    elif typ[0] == "A":
        k = L.ALG2GRP[typ[1]]
        prods = ["Log", "Log", "Adj", "AdjT", "Jinvp", "aadd", "scale", "neg"]
    elif typ == "P3":
        prods = ["Act3"]
    elif typ == "P4":
        prods = ["Act4"]
    elif typ == "M":
        prods = ["matrix"]
    if ops_allowed is not None:
        prods = [p for p in prods if p in ops_allowed] or prods
    op = prods[int(rng.integers(len(prods)))]
    if op == "Exp":
        return Node("Exp", [sub(T_A(a))], typ)
    if op == "Inv":
        return Node("Inv", [sub(typ)], typ)
    if op == "Mul":
        return Node("Mul", [sub(typ), sub(typ)], typ)
    if op in ("Retr", "add"):
        return Node(op, [sub(typ), sub(T_A(a))], typ)
    if op == "Log":
        return Node("Log", [sub(T_G(k))], typ)
    if op in ("Adj", "AdjT", "Jinvp"):
        return Node(op, [sub(T_G(k)), sub(typ)], typ)
    if op == "aadd":
        return Node("aadd", [sub(typ), sub(typ)], typ)
    if op == "scale":
        return Node("scale", [sub(typ)], typ, const=float(rng.choice([-1.5, 0.5, 2.0, 0.25])))
    if op == "neg":
        return Node("neg", [sub(typ)], typ)
    gk = GROUPS[int(rng.integers(4))]
    if op == "Act3":
        return Node("Act3", [sub(T_G(gk)), sub("P3")], typ)
    if op == "Act4":
        return Node("Act4", [sub(T_G(gk)), sub("P4")], typ)
    if op == "matrix":
        return Node("matrix", [sub(T_G(gk))], typ)
    raise KeyError(op)


class Trace:
    """What the evaluation passed through (for guards and regime evidence)."""

    def __init__(self):
        self.log_angles, self.jinvp_angles, self.sim3_ad = [], [], []
        self.ops = set()


def _angle_of(X):
    k = lie.kind_of(X)
    t = X.tensor().detach()
    q = t[..., :4] if k in ("SO3", "RxSO3") else t[..., 3:7]
    v, w = q[..., :3].norm(dim=-1), q[..., 3].abs()
    return (2 * torch.atan2(v, w)).max().item() if q.numel() else 0.0, \
           (2 * torch.atan2(v, w)).min().item() if q.numel() else 0.0


def _sim3_ad_norm(x):
    t = x.tensor().detach()
    if t.numel() == 0:
        return 0.0
    G = L.generator("sim3", t.reshape(-1, 7).double().numpy())
    # |ad(xi)| <= 2 |hat(xi)|
    return float(2 * np.abs(G.astype(np.float64)).sum(-1).max())


def evaluate(tree, leaves, trace=None):
    if isinstance(tree, Leaf):
        return leaves[tree.idx]
    a = [evaluate(t, leaves, trace) for t in tree.args]
    op = tree.op
    if trace is not None:
        trace.ops.add(op + ":" + (lie.kind_of(a[0]) if isinstance(a[0], pp.LieTensor) else "t"))
    if op == "Exp":
        if trace is not None and lie.kind_of(a[0]) == "sim3":
            trace.sim3_ad.append(_sim3_ad_norm(a[0]))
        return a[0].Exp()
    if op == "Log":
        out = a[0].Log()
        if trace is not None:
            trace.log_angles.append(_angle_of(a[0])[0])
            if lie.kind_of(a[0]) == "Sim3":
                trace.sim3_ad.append(_sim3_ad_norm(out))
        return out
    if op == "Inv":
        return a[0].Inv()
    if op == "Mul":
        return a[0] @ a[1]
    if op in ("Retr", "add"):
        if trace is not None and lie.kind_of(a[0]) == "Sim3":     # Exp(a) @ X: sim3 Exp inside
            trace.sim3_ad.append(_sim3_ad_norm(pp.LieTensor(a[1].tensor()[..., :7], ltype=pp.sim3_type)))
        return a[0].Retr(a[1]) if op == "Retr" else a[0] + a[1]
    if op == "Adj":
        return a[0].Adj(a[1])
    if op == "AdjT":
        return a[0].AdjT(a[1])
    if op == "Jinvp":
        if trace is not None:
            hi, lo = _angle_of(a[0])
            trace.log_angles.append(hi)
            trace.jinvp_angles.append(lo)
            if lie.kind_of(a[0]) == "Sim3":
                trace.sim3_ad.append(_sim3_ad_norm(a[0].Log()))
        return a[0].Jinvp(a[1])
    if op == "aadd":
        return a[0] + a[1]
    if op == "scale":
        return a[0] * tree.const
    if op == "neg":
        return a[0].Inv()
    if op in ("Act3", "Act4"):
        return a[0].Act(a[1])
    if op == "matrix":
        return a[0].matrix()
    raise KeyError(op)


def raw(out):
    return out.tensor() if isinstance(out, pp.LieTensor) else out


THIN = (1e-15, 1e-14, 1e-13, 1e-12, 1e-11, 1e-10, 1e-9, 1e-8, 1e-7, 1e-6, 1e-5)


def make_leaf(rng, typ, lshape, dtype, mode):
    """mode: 'generic' | 'identity' | 'tiny' | 'large' | 'thin' (rotation angle between eps and
    1e-5 with every other block O(1): the band where closed forms cancel)."""
    n = int(np.prod(lshape)) if len(lshape) else 1
    if mode == "mixed":
        # one batch whose items sit in different branches: exact identity / zero, zero rotation with a translation, thin band, tiny,
        # generic, large - the masked-assignment paths see all of them in one call
        if typ[0] not in ("G", "A") or n < 2:
            return make_leaf(rng, typ, lshape, dtype, "generic")
        cyc = ("identity", "generic", "zero-rotation", "large", "thin", "tiny")
        rows = []
        for i in range(n):
            m = cyc[i % len(cyc)]
            if m == "zero-rotation":
                if typ[1] in ("SO3", "so3", "RxSO3", "rxso3"):
                    r = make_leaf(rng, typ, (), dtype, "identity").tensor().clone()
                else:
                    r = make_leaf(rng, typ, (), dtype, "generic").tensor().clone()
                    r[3:6] = 0.0
                    if typ[0] == "G":
                        r[6] = 1.0
                rows.append(r)
            else:
                rows.append(make_leaf(rng, typ, (), dtype, m).tensor().clone())
        return pp.LieTensor(torch.stack(rows).reshape(tuple(lshape) + (rows[0].shape[-1],)), ltype=lie.LT[typ[1]])
    if mode == "thin" and typ[0] in ("G", "A"):
        u = lie.u_of(dtype)
        ang = np.array([rng.choice(THIN + (1.5 * u, 3 * u)) for _ in range(n)])
        axis = rng.standard_normal((n, 3))
        axis /= np.linalg.norm(axis, axis=-1, keepdims=True)
        t = rng.standard_normal((n, 3))
        sg = rng.uniform(-0.4, 0.4, n)
        if typ[0] == "G":
            k = typ[1]
            X = L.join_grp(k, L.ld(t), L.axis_angle_quat(axis, ang) * rng.choice([-1.0, 1.0], (n, 1)), np.exp(L.ld(sg)))
            return pp.LieTensor(torch.as_tensor(np.asarray(X, dtype=np.float64)).to(dtype).reshape(lshape + (L.GRP[k],)).clone(),
                                ltype=lie.LT[k])
        k = typ[1]
        x = L.join_alg(k, L.ld(t), L.ld(axis * ang[:, None]), L.ld(sg))
        return pp.LieTensor(torch.as_tensor(np.asarray(x, dtype=np.float64)).to(dtype).reshape(lshape + (L.ALG[k],)).clone(),
                            ltype=lie.LT[k])
    if mode == "thin":
        mode = "generic"
    if typ[0] == "G":
        k = typ[1]
        if mode == "identity":
            X = lie.LT[k].identity(*lshape, dtype=dtype) if lshape else lie.LT[k].identity(dtype=dtype)
            return pp.LieTensor(X.tensor().clone(), ltype=lie.LT[k])
        ang = {"generic": 1.2, "tiny": 1e-9, "large": np.pi - 0.45}[mode]
        X = lie.random_group(k, rng, n, dtype, max_angle=ang, sigma_max=0.4, t_scale=1.0)
        if mode == "large":
            axis = rng.standard_normal((n, 3))
            q = L.axis_angle_quat(axis, np.full(n, np.pi - 0.45) - rng.uniform(0, 0.3, n))
            t, _, s = L.split_grp(k, X.tensor().double().numpy())
            X = lie.lt(k, np.asarray(L.join_grp(k, t, q, s), dtype=np.float64), dtype)
        return pp.LieTensor(X.tensor().reshape(lshape + (L.GRP[k],)).clone(), ltype=lie.LT[k])
    if typ[0] == "A":
        k = typ[1]
        d = L.ALG[k]
        if mode == "identity":
            x = np.zeros((n, d))
        else:
            sc = {"generic": 0.5, "tiny": 1e-9, "large": 1.0}[mode]
            x = rng.standard_normal((n, d)) * sc
            if k in ("rxso3", "sim3"):
                x[:, -1] = np.clip(x[:, -1], -0.4, 0.4)
            if mode == "tiny" and rng.random() < 0.5:
                u = lie.u_of(dtype)
                x *= rng.choice([u / 2, u, 2 * u, 1e-8, 1e-4]) / 1e-9
        return pp.LieTensor(torch.as_tensor(x).to(dtype).reshape(lshape + (d,)).clone(), ltype=lie.LT[k])
    d = 3 if typ == "P3" else 4
    x = rng.standard_normal((n, d))
    if typ == "P4" and rng.random() < 0.3:
        x[:, 3] = rng.choice([0.0, 1.0, -1.0])
    if mode == "identity" and rng.random() < 0.5:
        x[:] = 0
    return torch.as_tensor(x).to(dtype).reshape(lshape + (d,)).clone()


def tangent_dim(typ):
    if typ[0] in ("G", "A"):
        return L.MANIFOLD[typ[1]]
    return 3 if typ == "P3" else 4


def perturb(leaf, typ, D):
    """Leaf moved along tangent D (same lshape, tangent_dim last): left perturbation for groups."""
    if typ[0] == "G":
        a = L.GRP2ALG[typ[1]]
        return pp.LieTensor(D, ltype=lie.LT[a]).Exp() @ leaf
    if typ[0] == "A":
        return pp.LieTensor(leaf.tensor() + D, ltype=leaf.ltype)
    return leaf + D


def fd_directional(fun, leaves, types, dirs, h=2e-3):
    """d/ds fun(leaves moved by s*dirs) at s = 0: central differences at h and h/2, Richardson."""
    def at(s):
        with torch.no_grad():
            return float(fun([perturb(x, t, s * d) for x, t, d in zip(leaves, types, dirs)]))
    d1 = (at(h) - at(-h)) / (2 * h)
    d2 = (at(h / 2) - at(-h / 2)) / h
    return (4 * d2 - d1) / 3, abs(d2 - d1)


def fd_full(fun, leaves, types, h=2e-3):
    """Gradient of fun in tangent coordinates of every leaf, coordinate by coordinate."""
    grads, spread = [], 0.0
    for li, (x, t) in enumerate(zip(leaves, types)):
        m = tangent_dim(t)
        lshape = tuple(x.shape[:-1])
        g = torch.zeros(lshape + (m,), dtype=torch.float64)
        flat = g.reshape(-1)
        for c in range(flat.numel()):
            dirs = [torch.zeros(tuple(y.shape[:-1]) + (tangent_dim(tt),), dtype=torch.float64) for y, tt in zip(leaves, types)]
            dirs[li].reshape(-1)[c] = 1.0
            v, s = fd_directional(fun, leaves, types, dirs, h)
            flat[c] = v
            spread = max(spread, s)
        grads.append(g)
    return grads, spread
